"""Level texts for MANIFEST.json."""
HOOK_COMMITS = ["645c65a", "e34ba59", "f51c5d9", "f6ed18e", "079d75a", "f4d99a1", "7965506"]
NOT_APPLICABLE = {}
LEVELS = {
    "C07": {
        "text": "Proof: C07_agree (all keypers that succeed on the same chain hold the same key polynomial), C07_share_matches, "
                "C07_decrypts (any t shares, via C01's Lagrange theorem), C07_all_honest, C07_tolerates, C07_no_abort, over a transcription "
                "of the result computation the keyper runs at finalization. Tied to the code by complete key generations over the real "
                "shuttermint app and real keyper loops with scripted Byzantine keypers; agreement and decryption are checked directly, "
                "outcomes are compared with the model.",
        "design_ref": "DESIGN.md §4 C07",
        "note": "Trusted: Lean kernel + Mathlib; dkgrig (in-process shuttermint, pgfake/kdb); puredkg is an external library, transcribed and compared; commitment binding as hypothesis.",
        "technique": "Lean 4 + Mathlib theorems over the key generation outcome + differential complete DKG runs over the real ABCI app and keyper loops with scripted Byzantine strategies",
    },
    "C08": {
        "text": "Proof: C08_same_db (any interleaving of crashes leaves the committed database of the crash-free run), C08_exactly_once, "
                "C08_outbox (queue order, no loss), C08_scheduled_once, for every key generation logic and every codec that reads back "
                "what it stored. Tied to the code by killing a real keyper loop at database round trips and around broadcasts and "
                "comparing outcome, trace and model; the read-back hypothesis is tested on every stored state. The defect that broke it "
                "(gob losing nil entries) was repaired.",
        "design_ref": "DESIGN.md §4 C08",
        "note": "Trusted: Lean kernel; dkgrig/pgfake crash semantics; the key generation logic is abstract in the model.",
        "technique": "Lean 4 theorems by induction over crash/retry operation sequences + crash injection at database round trips of a real keyper loop",
    },
    "C15": {
        "text": "Proof: C15_exact (in every reachable state of the syncer model, position on the canonical chain => rows are exactly "
                "the chain's admissible events from the first synced block to the position), C15_atomic, and the two domain lemmas, by an "
                "invariant over sync steps incl. reorg resets clamped to the sync start and calls cut short by failures. Tied to the "
                "three real syncers by step-by-step differential runs over block trees, head sequences and injected RPC/DB faults; the "
                "statement is also evaluated directly after every step. One open known finding (reorg missed when the head skips "
                "position+1), one defect repaired (reset below the sync start).",
        "design_ref": "DESIGN.md §4 C15",
        "note": "Trusted: Lean kernel; correspondence harness incl. syncrig/fakechain/pgfake/kdb; key uniqueness per chain; hashes identify ancestry.",
        "technique": "Lean 4 invariant proof over sync-step histories + step-by-step differential runs of the real syncers over an in-process chain and PostgreSQL fake with fault injection",
    },
    "C16": {
        "text": "Proof: C16_batching - any partition of the chain into limited ranges records the same registrations and fired rows as "
                "block-by-block processing, for all states and chains; C16_once_and_in_time. Tied to the real multi event syncer and "
                "processors by differential runs (fired rows vs block-by-block outcome after every step, vs a second keyper with other "
                "range limits, vs the model). The defect that made firing depend on the range size was repaired (fix: commit).",
        "design_ref": "DESIGN.md §4 C16",
        "note": "Trusted: Lean kernel; correspondence harness incl. syncrig; matching reduced to topic equality in the model (C17 covers matching).",
        "technique": "Lean 4 theorem (closed-form outcome, induction over range partitions) + differential runs of the real multi event syncer under different batchings",
    },
    "C03": {
        "text": "Proof: C03_only_correct (whatever is delivered in whatever order, with duplicates, every stored key is f(0)•H), "
                "C03_complete (threshold reached at a share message => all keys of the release stored from then on), "
                "C03_keys_delivered, C03_agree; by induction over event sequences on top of C01's Lagrange theorems. The model is tied "
                "to the real handlers by running n real stacks per flavour through delivery schedules; acceptance of honest messages by "
                "every peer and the access node, correctness and completeness of the key tables are checked directly. One open known "
                "finding (own shares completing the threshold do not trigger aggregation).",
        "design_ref": "DESIGN.md §4 C03",
        "note": "Trusted: Lean kernel + Mathlib; correspondence harness incl. noderig/pgfake/kdb; pairing abstraction as in C01.",
        "technique": "Lean 4 + Mathlib theorems by induction over delivery sequences (on C01) + differential runs of n real handler stacks under sampled and exhaustive schedules",
    },
    "C05": {
        "text": "Proof (partial): every index, slice and unchecked type assertion on message-derived data in the gossip-processing files "
                "is listed from the source on each run and shown panic-free under its guard for all inputs (C05_sites_pinned, "
                "C05_all_classified, C05_total_*). Not proved, only searched for by the differential run over all node flavours and "
                "topics: panics inside third-party decoders, hangs (2 s bound) and unbounded allocation (64 MiB bound).",
        "design_ref": "DESIGN.md §4 C05",
        "note": "Trusted: Lean kernel; the go/ast site extractor; my guard classification; noderig. Hang/allocation: testing-grade only.",
        "technique": "Lean 4 theorems over partial index/assertion operations, pinned to a regenerated list of sites + structure-aware differential search over all handler stacks",
    },
    "C04": {
        "text": "Proof: C04_shares_iff and C04_keys_iff are IFF characterisations of the combined gossip validators (envelope check + "
                "handler validator) for every receiver database, configuration and message, clause by clause as the property states them; "
                "C04_no_effect for the receive path. The model is tied to keyshare.go / key.go / messages.go / messaging.go by running the "
                "real combined validator over the PostgreSQL fake on the full mutation catalogue of the property; verdicts are compared "
                "with the model and with the statement evaluated directly.",
        "design_ref": "DESIGN.md §4 C04",
        "note": "Trusted: Lean kernel; correspondence harness incl. noderig/pgfake/kdb; shcrypto verification as oracle for the per-share bits.",
        "technique": "Lean 4 iff-theorems over an abstract verification predicate + differential runs of the real combined validator over an in-process PostgreSQL fake with a full mutation catalogue",
    },
    "C02": {
        "text": "Proof: C02_time / C02_event (every triggered identity satisfies the release condition: strictly later block timestamp, "
                "activation block reached, member of a keyper set whose newest eon succeeded, not marked decrypted / fired and undecrypted), "
                "C02_sorted, C02_distinct, C02_history (every block of every history, timestamps not monotone, restarts included), "
                "C02_never_again_time/_event. The model is tied to newblock.go and updateEventFlag by running the real trigger decision "
                "and keys handler over the PostgreSQL fake; the release condition is also evaluated directly on the implementation's triggers.",
        "design_ref": "DESIGN.md §4 C02",
        "note": "Trusted: Lean kernel; correspondence harness incl. pgfake/kdb; the verif-tag hook; SQL text of three queries pinned. Safety only.",
        "technique": "Lean 4 theorems (per-block decision logic + invariants by induction over operation histories) + differential runs of the real trigger decision over an in-process PostgreSQL fake",
    },
    "C19": {
        "text": "Proof: C19_prefix (gas-bounded prefix of the queue from the pointer with the at-least-one rule, for every queue, pointer and "
                "gas limit), C19_sorted / C19_slot_first (sorted request, slot identity first under the stated assumption), C19_row_order / "
                "C19_agree (byte-identical requests whatever the physical row order), C19_pointer_advance / C19_pointer_start / "
                "C19_pointer_history / C19_pointer_next / C19_restart (pointer p+k-1 with age zero after keys, and where the next request "
                "starts, through every interleaving of submissions and slot ticks). The model is tied to newslot.go, handlers.go and "
                "messagingmiddleware.go by running the real slot handler, keys handler and middleware over the PostgreSQL fake; the SQL "
                "text is pinned from the source on every run; the statement is also evaluated directly on the implementation's outputs.",
        "design_ref": "DESIGN.md §4 C19",
        "note": "Trusted: Lean kernel; correspondence harness incl. pgfake/kdb and the beacon fake; the verif-tag hook; uint64 gas sums not modelled.",
        "technique": "Lean 4 theorems (induction over queue and operation lists, sorted-permutation uniqueness) + differential runs of the real slot handler over an in-process PostgreSQL fake",
    },
    "C20": {
        "text": "Proof: C20_all_once — for every number of eon keys pending at a polling tick, every order in which the database returns "
                "them, both publication modes: if they belong to keyper sets the keyper is a member of and the publication mechanism "
                "accepts, each is handed over exactly once with the right activation block, keyper-set index and eon number, and the tick "
                "reports no error; C20_any_order, C20_only_pending; C20_every_interval — over any sequence of intervals, whatever was "
                "refused or failed in the others; C20_prefix — for any rows and any answers of the mechanism a tick hands over a prefix of the rows in order (never twice); C20_clean_iff. The model is tied to queryAndHandleNewEonPubKeys by running the real "
                "handler (hook) over the PostgreSQL fake on multi-tick scenarios; the implementation's hand-overs are also checked directly, "
                "and the real polling loop is run (hook) with a refused key followed by a later one and with three keys at one tick behind a mechanism slower than the polling interval.",
        "design_ref": "DESIGN.md §4 C20",
        "note": "Trusted: Lean kernel; correspondence harness incl. pgfake/kdb (my reading of the SQL); the verif-tag hook.",
        "technique": "Lean 4 theorem by induction over the pending list + differential runs of the real handler over an in-process PostgreSQL fake",
    },
    "C01": {
        "text": "Proof: C01_exact (a key is derived exactly when t distinct valid shares have arrived, never from fewer), C01_correct (every "
                "derived key is f(0)•H, the epoch secret key matching the eon public key, whichever t shares came first) and "
                "C01_order_independent (invalid, duplicate and reordered shares never alter the result) hold for every field, module, "
                "polynomial, (n,t) and every finite share sequence, by induction over the sequence with the Lagrange identity from "
                "Mathlib. The model is tied to keyper/epochkg by exhaustive small-scope and sampled differential runs against the real "
                "EpochKG with blst, including a trial decryption with each derived key.",
        "design_ref": "DESIGN.md §4 C01",
        "note": "Trusted: Lean kernel + Mathlib; correspondence harness; pairing abstraction (verify ↔ share = f(x_i)•H); Z/q field for the executable instance.",
        "technique": "Lean 4 + Mathlib theorem (induction over share sequences, Lagrange interpolation) + differential runs against the real EpochKG",
    },
    "C06": {
        "text": "Proof: C06_gnosis_iff is an IFF characterisation of the Gnosis signature validator for every keyper set, threshold, signer "
                "list, signature list and every signature scheme (exactly threshold strictly increasing in-range signers, one signature "
                "each, each recovering to its signer over the five signed fields); C06_tamper (changing any signed field invalidates, under "
                "the stated unforgeability hypothesis); C06_service_unsigned / C06_service_signed for the service flavour with its single "
                "exception, C06_service_tamper; C06_distinct_signers (an accepted message names threshold pairwise different positions). The model is tied to both real validators by exhaustive small-scope and sampled differential runs with real "
                "ECDSA keys; the implementation's verdicts are also checked against an independent definition of a genuine threshold.",
        "design_ref": "DESIGN.md §4 C06",
        "note": "Trusted: Lean kernel; correspondence harness; secp256k1 recovery/verification and fastssz hashing as oracles; Binding hypothesis.",
        "technique": "Lean 4 iff-theorem over an abstract signature scheme + exhaustive small-scope differential runs with real ECDSA",
    },
    "C18": {
        "text": "Proof: C18_blocked — for all well-formed operation/route tables, all methods, all request paths (as the router sees them and "
                "as the gate sees them, related by percent-decoding) and all iteration orders of the paths map: a request that the router "
                "dispatches to a state-changing operation is not allowed by the gate when write operations are off; C18_tables_wellformed "
                "discharges the hypothesis for the tables regenerated from the source on this run, C18_write_ops_pinned and "
                "C18_setup_pinned pin which operations are state-changing and that the gate is installed before the handlers; "
                "C18_gate_stateless pins what the gate's code can reach besides the request (no memo, counter or table of its own). "
                "C18_deterministic, C18_readonly_reachable. The model of chi/kin-openapi matching is tied to the real router by httptest runs.",
        "design_ref": "DESIGN.md §4 C18",
        "note": "Trusted: Lean kernel; factx; correspondence harness; my model of chi, kin-openapi Find, regexp and URL decoding.",
        "technique": "Lean 4 theorem generic in tables regenerated from the source (+ decide on the tables) + httptest differential runs",
    },
    "C17": {
        "text": "Proof: C17_match_total and C17_alloc_bounded (for every valid definition and EVERY log — any topics, data, offset and length "
                "words up to 2^256-1 — matching returns yes/no, no slice access leaves its bounds, buffers are bounded by the log size), "
                "C17_match_spec_static/topic/dynamic (documented semantics on well-formed data), C17_filter_exists and C17_filter_sound "
                "(a matching log always passes the derived filter), C17_decode_valid, C17_match_conjunction (no predicate's answer "
                "depends on another one), C17_rlp_roundtrip (decode(encode(i) ++ rest) = (i, rest) for every RLP item tree with strings "
                "below 2^64 bytes, with go-ethereum's canonical-form checks) and from it C17_roundtrip / C17_marshal_injective (every valid "
                "definition is read back unchanged from its bytes; no two share an encoding). That the model's codec is go-ethereum's is "
                "established by byte-for-byte comparison through MarshalBytes/UnmarshalBytes on generated and mutated encodings.",
        "design_ref": "DESIGN.md §4 C17",
        "note": "Trusted: Lean kernel; correspondence harness; my model of go-ethereum rlp canonical rules and of eth_getLogs matching; Go slice/big.Int semantics.",
        "technique": "Lean 4 theorems (totality, bounds, filter soundness, RLP round trip by mutual structural induction) over a model with explicit partial accesses + differential correspondence incl. byte-level RLP",
    },
    "C14": {
        "text": "Proof: C14_roundtrip — decode(encode(e)) = e for every well-formed event of all eight types (all uint64 including 0 and "
                "2^64-1, empty and repeated address lists, empty byte strings, zero big integers), built from machine-checked round-trips "
                "of the decimal, 0x-hex and comma-list codecs; C14_injective (no two emitted values share a wire form); C14_uint_strict, C14_expect_length, C14_names_checked for the error side. "
                "Library pieces that need keccak or curve arithmetic (EIP-55 casing, key and G2 point encodings) are oracles with stated "
                "laws. The model is tied to the code by differential runs in both directions and on mutated events; malformed data must "
                "be rejected by both or read identically by both, and the real decoder runs under recover().",
        "design_ref": "DESIGN.md §4 C14",
        "note": "Trusted: Lean kernel; correspondence harness; my reading of strconv/hexutil/strings semantics (checked differentially); oracle laws for EIP-55, secp256k1, BLS12-381 encodings.",
        "technique": "Lean 4 round-trip theorems for the string codecs + differential correspondence with MakeABCIEvent/MakeEvent on values and mutations",
    },
    "C13": {
        "text": "Proof: C13_atomic_save — for all old/new encodings and every crash point (any prefix of create-tmp, write, fsync, rename; "
                "any partial write; loss of un-synced data) the final path shows exactly the old or exactly the complete new file; "
                "C13_saves_after_crashes — by induction over any list of save attempts, each cut short anywhere and each finding "
                "anything at the temp path, the state file is the complete encoding of the last save that reached its rename; "
                "C13_persist_order_pinned ties the step order to PersistToDisk's source on every run; C13_replay / C13_saved_height / "
                "C13_commit_pure give replay determinism from the saved height. Partial: gob round-trip fidelity is a library/runtime "
                "fact and is checked (save→load→compare→continue both, at commit points of every history), not proved; real fsync/rename "
                "durability is the OS's, one real save is observed with strace and judged by the same predicate.",
        "design_ref": "DESIGN.md §4 C13",
        "note": "Trusted: Lean kernel; correspondence harness, factx, strace parsing; file-system crash model (rename atomic, un-synced tail may be lost).",
        "technique": "Lean 4 theorem over a file-system crash model + regenerated step order + save/load/continue differential runs + strace-observed save",
    },
    "C09": {
        "text": "Proof: C09_order_irrelevant / C09_replicas_agree state that, on every state reachable from any genesis, every ABCI call of "
                "the model yields the same response and the same state whatever order each map is ranged over, so replicas given the same "
                "block sequence agree at every height (induction over the history; the per-site lemmas are permutation invariance of the "
                "vote count, of DiffPowermaps and of the sorted update list). C09_mempool_irrelevant / C09_mempool_replicas: mempool checks "
                "interleaved anywhere, on any mempool state, leave the answers to the block sequence unchanged (every block-sequence call "
                "commutes with replacing the mempool bookkeeping; induction over the history). C09_map_ranges_pinned / C09_clock_calls_pinned are "
                "`decide` theorems over facts regenerated from /repo on every run, so a new map range, clock, OS or randomness use in "
                "package app breaks a proof obligation. The model is tied to the code by differential histories; replica agreement is "
                "additionally observed directly (second OS process, repeated in-process runs, replicas with other mempool views, a replica "
                "restarted from its state file, one long single-sender history; byte-wise).",
        "design_ref": "DESIGN.md §4 C09",
        "note": "Trusted: Lean kernel; correspondence harness and factx; tx byte layer and crypto oracles are parameters of the model; "
                "amino/protobuf/gob library determinism is observed, not proved.",
        "technique": "Lean 4 theorem (order-independence by induction over histories) + regenerated source facts + differential/two-process replica runs",
    },
    "C10": {
        "text": "Proof: C10_malformed_config_refused / C10_malformed_checkin_refused (a structurally invalid configuration or check-in is "
                "answered with a non-zero code, no events and an unchanged state, whoever sends it and for thresholds of any size), "
                "C10_refused_untouched, C10_checktx_outsider, C10_outsider_no_effect (on every state reachable from any genesis, by "
                "the DKG-membership invariant proved by induction over histories) and C10_noninterference (a simulation relation "
                "'equal except one sender's nonce records' preserved by every ABCI call, so later answers to other senders are "
                "identical over any continuation) are Lean theorems over the model; C10_total_* show the model's totalised accesses "
                "never leave their domain on reachable states. Partial: panics in the byte layer (base64, secp256k1 recovery, protobuf, "
                "blst) are outside the model and only exercised (recover() around each call, garbage and damaged-signature inputs).",
        "design_ref": "DESIGN.md §4 C10",
        "note": "Trusted: Lean kernel; correspondence harness; byte layer and crypto oracles as parameters; Sized hypothesis.",
        "technique": "Lean 4 invariant + simulation proofs over histories + differential correspondence + twin-run injection monitor on the real app",
    },
    "C11": {
        "text": "Proof: C11_invariant (induction over all histories from any valid genesis, any map iteration orders) and C11_accept: on "
                "every reachable state a transaction can extend the configuration list only if it is a BatchConfig vote whose sender plus "
                "the earlier voters for that identical configuration are >= threshold(current) distinct members of the current "
                "configuration, with strictly larger index and non-decreasing activation; the round is reset and exactly one fresh eon "
                "(counter+1) is started. C11_one_vote, C11_nonce_once, C11_restart (failure quorum, newest eon only), C11_started "
                "(block-seen quorum of the preceding set), C11_other_calls. Model tied to the code by differential histories; the "
                "implementation's own answers are checked by an independent monitor.",
        "design_ref": "DESIGN.md §4 C11",
        "note": "Trusted: Lean kernel; correspondence harness; tx byte layer as a parameter; hypothesis Sized (message lists < 2^63 entries); "
                "strict monotonicity of eon numbers assumes no uint64 wrap.",
        "technique": "Lean 4 invariant proof by induction over histories + differential correspondence + necessary-condition monitor on the real app",
    },
    "C12": {
        "text": "Proof: C12_diff_apply (apply(old, updates(old,new)) = new under Tendermint set/remove semantics, for all maps without "
                "zero-power entries and all map iteration orders), C12_updates_sorted, C12_removals_present, C12_order_independent, "
                "C12_no_change (equal maps: no updates), C12_minimal (every update changes the previous set), C12_live (check-in quorum > 2/3) are Lean theorems over the model of DiffPowermaps/ValidatorUpdates/"
                "numRequiredTransitionValidators. The model is tied to the code by differential runs (histories + all pairs of small "
                "power maps), and the property itself is monitored on the implementation by folding a reference Tendermint set over the "
                "real EndBlock updates. The whole-history statement (fold = intended set at every height) is monitored, not yet a theorem.",
        "design_ref": "DESIGN.md §4 C12",
        "note": "Trusted: Lean kernel; correspondence harness; Tendermint update semantics as modelled by tmApply; genesis powers non-zero; dev mode excluded.",
        "technique": "Lean 4 theorems + differential correspondence with the real app + reference-validator-set monitor",
    },
}
