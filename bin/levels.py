"""Level texts for MANIFEST.json."""
HOOK_COMMITS = []
NOT_APPLICABLE = {}
LEVELS = {
    "C12": {
        "text": "Proof: C12_diff_apply (apply(old, updates(old,new)) = new under Tendermint set/remove semantics, for all maps without "
                "zero-power entries and all map iteration orders), C12_updates_sorted, C12_removals_present, C12_order_independent, "
                "C12_live (check-in quorum > 2/3) are Lean theorems over the model of DiffPowermaps/ValidatorUpdates/"
                "numRequiredTransitionValidators. The model is tied to the code by differential runs (histories + all pairs of small "
                "power maps), and the property itself is monitored on the implementation by folding a reference Tendermint set over the "
                "real EndBlock updates. The whole-history statement (fold = intended set at every height) is monitored, not yet a theorem.",
        "design_ref": "DESIGN.md §4 C12",
        "note": "Trusted: Lean kernel; correspondence harness; Tendermint update semantics as modelled by tmApply; genesis powers non-zero; dev mode excluded.",
        "technique": "Lean 4 theorems + differential correspondence with the real app + reference-validator-set monitor",
    },
}
