"""Per-property table used by bin/check: theorem module, expected theorems, Go driver, trusted base."""

KERNEL = "Lean 4.33 kernel (+ leanchecker in the thorough tier); axioms allowed: propext, Classical.choice, Quot.sound"
CORR = ("correspondence check (Go driver + Lean `driver` executable on the same operation lines): testing-grade tie "
        "between the hand-written model and /repo's working tree")
APP_MODELLED = ("modelled, not verified: tx byte layer (base64, ECDSA recovery, protobuf), crypto.DecompressPubkey and blst G2 "
                "checks (oracle verdict arrives with the payload), opaque blobs as identifiers, Tendermint's validator-set update "
                "semantics (tmApply), Go map iteration as an arbitrary listing")

APP_DRIVER = {"pkg": "./cmd/appcheck"}


def app(prop, theorems, explanation, assumptions, facts=None):
    return {
        "module": f"Shutter.Properties.{prop}",
        "theorems": theorems,
        "driver": {"pkg": "./cmd/appcheck", "args": ["-prop", prop]},
        "trusted_base": [KERNEL, CORR, APP_MODELLED],
        "explanation": explanation,
        "assumptions": assumptions,
        "facts": facts,
    }


PROPS = {
    "C07": {
        "module": "Shutter.Properties.C07",
        "theorems": ["C07_public", "C07_agree", "C07_share_matches", "C07_degree", "C07_decrypts", "C07_all_honest",
                     "C07_tolerates", "C07_no_abort"],
        "driver": {"pkg": "./cmd/dkgcheck", "args": ["-prop", "C07"]},
        "trusted_base": [KERNEL + " (these theorems use Mathlib: polynomials, and C01's Lagrange lemma)", CORR,
                         "dkgrig: the real shuttermint application driven block by block (no tendermint consensus, no peers), n real "
                         "keyper loops (smobserver.SyncAppWithDB + fx.SendShutterMessages) over pgfake + kdb, Byzantine keypers as "
                         "rewrites of their outgoing transactions; crypto/rand replaced by a seeded stream during a run; "
                         "handleOnChainChanges (L1 keyper-set votes) is replaced by rig-signed transactions",
                         "modelled, not verified: shlib/puredkg (external library: its isCorrupt / polyEval / ComputeResult are "
                         "transcribed in Model/Dkg.lean and compared on every honest keyper's final state), Feldman commitments and "
                         "ECIES (VerifyPolyEval i v c <-> v = f(x_i) is the interpretation hypothesis, computed by the real check in the "
                         "rig), BLS12-381"],
        "explanation": "Theorems (Lean + Mathlib): who takes part is a function of the chain-visible data only (C07_public), so all "
                       "keypers that succeed after seeing the same chain hold the same key polynomial - same eon public key and public "
                       "key share vector (C07_agree); on success a keyper's secret share is that polynomial at its own point "
                       "(C07_share_matches); the polynomial has degree < t (C07_degree) and any t epoch shares interpolate to the key "
                       "for the eon public key (C07_decrypts, via C01); all honest and in phase => success with all n (C07_all_honest); "
                       "at least t non-corrupt dealers => never 'too few' (C07_tolerates); an accusation on the chain protects the "
                       "accuser from aborting (C07_no_abort). Complete key generations run over the real app and real keyper loops "
                       "with random Byzantine strategies from the property's alphabet, sizes 3/2 .. 5/3, random block schedules; "
                       "agreement, share/public-share match and trial decryption with every t-subset are checked directly, and every "
                       "honest keyper's recorded outcome is compared with the model on the state it computed the result from.",
        "assumptions": ["all honest keypers see the same chain (shuttermint consensus is outside the model)",
                        "phase placement by block height (dkgphase, shiftPhases) is exercised by the runs, not modelled: a message "
                        "outside its phase simply is not in the state the model is given"],
    },
    "C08": {
        "module": "Shutter.Properties.C08",
        "theorems": ["C08_same_db", "C08_exactly_once", "C08_outbox", "C08_scheduled_once", "C08_sql_pinned"],
        "driver": {"pkg": "./cmd/dkgcheck", "args": ["-prop", "C08"]},
        "facts": ["sql"],
        "trusted_base": [KERNEL, CORR,
                         "dkgrig + pgfake: a crash is the server dropping the connection before executing a round trip or after "
                         "applying it (for a commit: after the commit is applied) without replying; the keyper's process objects are "
                         "then discarded and rebuilt over the same committed database; a crash while waiting in a broadcast leaves the "
                         "transaction in the mempool",
                         "the key generation logic is a parameter of the model (apply); the hypothesis RoundTrip (stored state reads "
                         "back) is checked on the real codec for every state a run stored",
                         "operating-system level durability (fsync of PostgreSQL) is outside the model"],
        "explanation": "Theorems (Lean, for every key generation logic `apply` and every codec that reads back what it stored): through "
                       "any sequence of block transactions (committed, committed with the reply lost, aborted), restarts and send "
                       "attempts (row deleted, accepted but not deleted, refused) the committed database - last applied block, stored "
                       "state, outbox, id counter - equals that of the run without crashes (C08_same_db, C08_scheduled_once); the last "
                       "applied block advances by exactly one per committed transaction (C08_exactly_once); what is handed to the chain "
                       "is in queue order, possibly repeated, never overtaken, and nothing queued before the oldest remaining row is "
                       "missing (C08_outbox). The examples show that a codec that forgets 'nothing received yet' breaks it - the defect "
                       "found and repaired. One observed keyper is killed at evenly spaced (thorough: all) database round trips in "
                       "both modes, at every outbox deletion and broadcast (thorough: also pairs); every run is compared with the "
                       "crash-free run, its trace is checked, every stored state is stored and loaded again, and its operations are "
                       "replayed on the model (last block, id counter, outbox, and the sequence of messages the chain received).",
        "assumptions": ["messages may reach shuttermint twice (at-least-once delivery); the application refuses the duplicate"],
    },
    "C15": {
        "module": "Shutter.Properties.C15",
        "theorems": ["C15_exact", "C15_atomic", "C15_domain_canonical", "C15_domain_fork", "sync_inv", "reach_inv", "C15_sql_pinned", "C15_open_finding_witness", "C15_reregistration_witness"],
        "driver": {"pkg": "./cmd/synccheck", "args": ["-prop", "C15"]},
        "facts": ["sql"],
        "trusted_base": [KERNEL, CORR,
                         "syncrig: the real RegistrySyncer, SequencerSyncer and MultiEventSyncer (exported fields, real contract "
                         "bindings) over fakechain (in-process eth JSON-RPC over a block tree) and pgfake + kdb; RPC errors and database "
                         "failures / connection drops are injected per call / statement",
                         "the model abstracts rows to (key, block, payload) and blocks to (hash, parent hash, admissible events); "
                         "admissibility rules (eon <= MaxInt64, valid definition, gas limit fits int64) are applied by the rig's own "
                         "decoder, not by the model",
                         "hypotheses of C15_exact: a contract emits a primary key once per chain (Uniq); a hash identifies a block "
                         "and its ancestry (hcoh)"],
        "explanation": "Theorems (Lean): for every reachable state of the syncer model - any sequence of heads (repeats, gaps, older "
                       "blocks, forks) and any failures cutting a call short after a whole number of ranges, provided every call that "
                       "stores something reads a chain with the same blocks as the one read before from the first block up to its "
                       "resume point - whenever the stored position lies on the canonical chain the rows are exactly that chain's "
                       "admissible events from the first synced block to the position (C15_exact, by the invariant sync_inv / "
                       "reach_inv); the position moves only together with the rows (C15_atomic); the property's domain (position "
                       "canonical, or new head one past it on a fork no deeper than the assumed depth, also when the reset is clamped to "
                       "the sync start) provides that proviso (C15_domain_canonical, C15_domain_fork). The three real syncers run over "
                       "random block trees with forks of every depth up to 6, re-registration of a key on the other fork, heads with "
                       "gaps/repeats/steps back, one RPC or DB fault per scenario step with a clean retry; after every step the stored "
                       "rows are compared with the canonical chain's and with the model's.",
        "assumptions": ["forks deeper than the assumed reorg depth, and a first new head more than one past the synced block, are outside "
                        "the property's domain and are not generated",
                        "open known finding reorg-missed-when-head-skips-position+1 (inside the domain as stated)",
                        "the theorem needs every key to occur once on a chain (StepOK.uniq): the identity registry and the sequencer "
                        "guarantee that, the event trigger registry does not — open known finding reregistered-trigger-rolled-back "
                        "(C15_reregistration_witness in the model, a dedicated scenario on the code)",
                        "the validator registry syncer is not one of the three syncers of the property; syncrig's self-test shows it "
                        "has no reorg handling at all (recorded in DESIGN.md, not judged here)"],
    },
    "C16": {
        "module": "Shutter.Properties.C16",
        "theorems": ["C16_batching", "C16_once_and_in_time", "stepRange_outcome", "range_eq_blockwise", "C16_sql_pinned"],
        "driver": {"pkg": "./cmd/synccheck", "args": ["-prop", "C16"]},
        "facts": ["sql"],
        "trusted_base": [KERNEL, CORR,
                         "syncrig: the real MultiEventSyncer with the real registration and trigger processors over fakechain and "
                         "pgfake + kdb; trigger definitions are built with the repo's encoder and matched by the rig's own decoder "
                         "for the expected outcome (C17 is the theorem about matching)",
                         "the model reduces matching to equality of a topic id"],
        "explanation": "Theorems (Lean): for every state with its primary key and every partition of the processed blocks into "
                       "ranges in which only the last block registers triggers (what limitRange guarantees) - any sizes, any number "
                       "of ranges - the registrations and the fired row of every trigger are the same as when every block is "
                       "processed on its own (C16_batching, via the closed form stepRange_outcome); a fired row is never replaced and "
                       "a new one is a matching log of a registration stored before the range, in a block not after the expiry "
                       "(C16_once_and_in_time). The real syncer runs over random trees with matching logs in the registration block, "
                       "the next block, at and after expiry and on both sides of forks, with range limits 1/2/3/5/100 and faults; the "
                       "fired rows are compared after every step with the block-by-block outcome computed by the rig, at the end with "
                       "a second keyper that batches differently, and with the model.",
        "assumptions": ["decrypted flags are not set during these runs (the interaction with key release is C02)",
                        "the theorems are about the forward processing of one chain; what a reorg rollback does to the rows is "
                        "C15's model. A trigger registered twice on one chain and then rolled back past its second registration "
                        "loses its fired row: open known finding reregistered-trigger-rolled-back (dedicated scenario; the ordinary "
                        "scenarios register a trigger once per chain and keyper set, also for both keyper sets with expiries of "
                        "their own, and every third definition compares a topic numerically)"],
    },
    "C03": {
        "module": "Shutter.Properties.C03",
        "theorems": ["C03_only_correct", "C03_complete", "C03_keys_delivered", "C03_agree", "C03_own_trigger_no_key", "C03_open_finding_witness",
                     "C03_accessnode_sync_history", "C03_accessnode_other_eons", "C03_accessnode_accepts", "C03_accessnode_needs_both"],
        "driver": {"pkg": "./cmd/netcheck"},
        "trusted_base": [KERNEL + " (these theorems use Mathlib through C01: Mathlib.LinearAlgebra.Lagrange)", CORR,
                         "noderig: n real handler stacks per flavour (core handlers, flavour handlers, flavour middleware) over pgfake + "
                         "kdb, wired by the driver instead of libp2p; real gossip propagation, peer scoring and retries are not modelled",
                         "modelled, not verified: BLS12-381 (verify i s <-> s = f(x_i)•H as in C01); the executable model instance is "
                         "arithmetic modulo the BLS scalar order on discrete logarithms",
                         "the Gnosis / Shutter-service signature collection is exercised by the rig (honest messages must be accepted "
                         "by every peer and by the access node); the theorems are about the core tables and about the access node's "
                         "store and validator (eon keys and keyper sets abstract ids; what a message is worth under each comes from the "
                         "real checks)"],
        "explanation": "Theorems (Lean + Mathlib, any field, module, polynomial of degree < t, identity points, n, t, any list of "
                       "identities): after ANY sequence of accepted events (honest keypers' share messages in any order with any "
                       "repetitions, keys messages, the own trigger) every stored key is the epoch secret key of its identity "
                       "(C03_only_correct, hence C03_agree between keypers and schedules); if at the arrival of an honest share message "
                       "shares of >= t distinct keypers (own included) have been seen, then from then on the keyper stores the correct "
                       "key of every identity of the release (C03_complete); a delivered keys message completes any keyper "
                       "(C03_keys_delivered). The rig runs n real stacks per flavour through sampled (thorough: also exhaustive for "
                       "n=3,t=2) schedules with triggers anywhere, lost shares (<= n-t per receiver) and duplicates: every honest message "
                       "must be accepted by every peer (and the access node), handled without error, stored keys must verify against "
                       "the eon key, and every keyper that saw >= t distinct keypers' shares or a keys message must hold all keys; each "
                       "node's event sequence is also run through the model. The access node: after any sequence of chain-sync "
                       "announcements the verdict on a keys message is the one under the eon key and keyper set last announced for the "
                       "message's own eon (C03_accessnode_sync_history, induction over the history), so announcements for other eons "
                       "change nothing (C03_accessnode_other_eons) and an honest message stays accepted (C03_accessnode_accepts); the "
                       "rig announces successor and predecessor configurations between deliveries and compares the real node with the "
                       "model on each keys message and on copies naming other eons or another instance.",
        "assumptions": ["C03_complete needs the threshold to be reached at the arrival of a share message; when it is completed by the "
                        "keyper's own shares (trigger after receipt) nothing aggregates: open known finding own-share-completes-threshold",
                        "a Gnosis keyper that was not triggered itself never forwards keys (no current trigger row); it still stores them"],
    },
    "C05": {
        "module": "Shutter.Properties.C05",
        "theorems": ["C05_sites_pinned", "C05_all_classified", "C05_total_guardedIndex", "C05_total_orderLoop",
                     "C05_total_validateParallel", "C05_total_receiveParallel", "C05_total_fixedIndex", "C05_total_firstOrNone",
                     "C05_total_receiveExtra"],
        "driver": {"pkg": "./cmd/crashcheck"},
        "facts": ["sites"],
        "trusted_base": [KERNEL,
                         "factx (go/ast): the list of index, slice and unchecked type-assertion expressions in the 14 gossip-processing "
                         "files, regenerated on every run and pinned by C05_sites_pinned; the assignment of a guard to each site is my "
                         "reading of the code around it",
                         "noderig: real handler stacks of all flavours over pgfake + kdb with panics recovered per stage; the search over "
                         "byte strings is testing-grade and is the only evidence for 'never hangs' and 'bounded allocation'",
                         "not modelled: panics inside third-party decoders (protobuf, blst, fastssz, go-ethereum crypto), the Go runtime, "
                         "goroutine scheduling; database errors"],
        "explanation": "PARTIAL. Theorems (Lean): the index / slice / type-assertion sites of the gossip-processing code are exactly "
                       "the 57 listed ones (regenerated from the source on every run), each carries one of nine guards, and for each "
                       "guard the partial operation written as in the code never yields a panic for any input (lists of any length, any "
                       "index, any oneof variant incl. nil payloads), including the two guards that rely on the receive path running the "
                       "handler only after the validator accepted. The differential run delivers valid envelopes of every message type "
                       "and flavour extra, every single-field structure-aware mutation of them, wrong-type envelopes and raw byte "
                       "mutations to all seven node flavours on all their topics (two database states each) and fails on a panic, a "
                       "delivery above 2 s, or allocation above 64 MiB + 64 B per message byte.",
        "assumptions": ["hang and allocation bounds are searched, not proved",
                        "the handler runs only on messages its validator accepted (libp2p-pubsub's contract, reproduced by the rig)"],
    },
    "C04": {
        "module": "Shutter.Properties.C04",
        "theorems": ["C04_shares_iff", "C04_keys_iff", "C04_no_effect", "C04_combine_accept_iff", "C04_nondecreasing_pairwise", "C04_sql_pinned"],
        "driver": {"pkg": "./cmd/valcheck"},
        "facts": ["sql"],
        "trusted_base": [KERNEL, CORR,
                         "noderig: real handler objects, registries, combined validator (hook p2p.VerifNewMessaging / VerifValidate) and "
                         "receive path over pgfake + kdb; libp2p-pubsub's rule 'only accepted messages reach the handler' is reproduced by "
                         "the rig (Deliver) and is the premise of C04_no_effect",
                         "modelled, not verified: BLS12-381 — whether a share / key decodes and verifies is computed by the real shcrypto "
                         "functions and handed to the model per share / key (C01 is the theorem about what verification means)",
                         "the int32 conversion of the keyper-set index in GetKeyperIndex is modelled as is (wrap32)"],
        "explanation": "Theorems (Lean, every receiver database with its primary keys, every configuration, every message): the combined "
                       "validator of key-share messages accepts IFF instance id matches, eon <= MaxInt64, the receiver is a keyper of the "
                       "named set, the set's newest eon has a successful decodable result, 1 <= #shares <= max, identities non-decreasing, "
                       "sender index < number of public key shares, every share decodes and verifies (C04_shares_iff); the same for keys "
                       "messages with 'valid epoch key or byte-identical to the stored key' (C04_keys_iff); a message that is not accepted "
                       "changes nothing and produces nothing (C04_no_effect). The real combined validator of a core keyper is driven with "
                       "a valid message from the real producer / aggregator and every single and sampled (thorough: all) double mutation, "
                       "plus envelope-level mutations, against 13 receiver database states, and compared with the model and with the "
                       "statement evaluated directly; non-accepted messages are checked to leave the key tables untouched.",
        "assumptions": ["primary keys of tendermint_batch_config, dkg_result and decryption_key (hypothesis Keyed)",
                        "the core flavour; the Gnosis / Shutter-service validators add signature conditions covered by C06"],
    },
    "C02": {
        "module": "Shutter.Properties.C02",
        "theorems": ["C02_time", "C02_event", "C02_sorted", "C02_distinct", "C02_history", "C02_never_again_time",
                     "C02_never_again_event", "C02_mark", "C02_sql_pinned"],
        "driver": {"pkg": "./cmd/stcheck"},
        "facts": ["sql"],
        "trusted_base": [KERNEL, CORR,
                         "pgfake + kdb: the PostgreSQL wire fake and my Go reading of the shutter service and core keyper queries; the text "
                         "of the three queries that carry the release condition is pinned from the sqlc constants on every run",
                         "hook shutterservice.VerifNewKeyper / VerifMaybeTriggerDecryption / VerifLatestTriggeredTime / VerifNewHandlers (build tag verif)",
                         "modelled, not verified: the goroutine that takes triggers from the channel and calls "
                         "KeyShareHandler.ConstructDecryptionKeyShares (exercised by the C03 rig); fired_triggers rows are taken as given "
                         "here, their creation only for a matching log no later than the expiry block is C16",
                         "Keccak injectivity (identity = hash of prefix and sender) is a hypothesis of C02_distinct"],
        "explanation": "Theorems (Lean, every table content, every block, every history): each identity in each time-based trigger belongs "
                       "to a stored, undecrypted registration whose release time is strictly before the block's timestamp, for a keyper "
                       "set whose newest eon has a successful key generation, which the keyper belongs to and whose activation block is "
                       "at most the block's number (C02_time); each identity in an event-based trigger has a fired row with an undecrypted "
                       "registration of a decryptable set (C02_event); identities are sorted (C02_sorted) and, given the primary keys, "
                       "distinct (C02_distinct); C02_history lifts both to every block of every history of blocks (timestamps not "
                       "monotone), registrations, eon starts, results, releases and restarts; once a registration is marked decrypted no "
                       "later trigger is sourced from it (C02_never_again_time / _event). The real maybeTriggerDecryption runs over the "
                       "PostgreSQL fake through generated histories (release times equal to, just below and just above block times; "
                       "activation at, before and after the block; failed, missing and restarted key generations; non-members; restarts) "
                       "and is compared with the model; the release condition is also evaluated directly on every emitted trigger.",
        "assumptions": ["safety only: a registration skipped because its keyper set was not decryptable when its time passed is never "
                        "retried unless the keyper restarts (the in-memory mark has moved on); this is outside the property's statement",
                        "reorg rollbacks of registrations (which re-create rows with decrypted = false) are not among the operations "
                        "quantified over; they belong to C15"],
    },
    "C19": {
        "module": "Shutter.Properties.C19",
        "theorems": ["C19_prefix", "C19_prefix_capped", "C19_sorted", "C19_slot_first", "C19_row_order", "C19_agree",
                     "C19_pointer_advance", "C19_pointer_start", "C19_pointer_history", "C19_pointer_next", "C19_restart",
                     "C19_sql_pinned"],
        "driver": {"pkg": "./cmd/gscheck"},
        "facts": ["sql"],
        "trusted_base": [KERNEL, CORR,
                         "pgfake + kdb: the PostgreSQL wire fake and my Go reading of the gnosis keyper queries; the text of the queries "
                         "the model stands for is extracted from the sqlc constants on every run and pinned by C19_sql_pinned",
                         "hook gnosis.VerifNewKeyper / VerifProcessNewSlot / VerifNewDecryptionKeysHandler (build tag verif)",
                         "modelled, not verified: gas is added in uint64 in the implementation and unbounded in the model (a window's gas "
                         "limits must not sum to 2^64); the identities hash is replaced by the identity list; MinGasPerTransaction = 0 "
                         "(division by zero in the implementation) is outside the model's domain",
                         "the beacon API is an in-process HTTP fake answering proposer duties"],
        "explanation": "Theorems (Lean, for every table content): on a complete queue with every transaction at or above the minimum gas the "
                       "chosen transactions are exactly the gas-bounded prefix from the pointer with the at-least-one rule, in queue order "
                       "(C19_prefix; without the gas assumption still a prefix, C19_prefix_capped); the request is the byte-wise sorted list "
                       "of the slot identity and the chosen identities, with the slot identity first when the chosen identities are above "
                       "it (C19_sorted, C19_slot_first); the physical order of rows changes neither the identities, nor the event count, "
                       "nor the whole trigger (C19_row_order, C19_agree); a keys message with k keys at p leaves (p+k-1, age 0) "
                       "(C19_pointer_advance); the next request starts at 0 / the stored value / the event count = queue length according "
                       "to missing / fresh / outdated or unknown (C19_pointer_start, C19_restart); and through any interleaving of "
                       "submissions and slot ticks after a keys message the pointer stays p+k-1 with age = number of ticks of that set "
                       "(C19_pointer_history, C19_pointer_next). The real slot handler, keys handler and messaging middleware run over the "
                       "PostgreSQL fake through generated operation sequences and are compared with the model; the statement of the "
                       "property is also evaluated directly on every emitted trigger and pointer row, and a second keyper with the rows in "
                       "another physical order must emit byte-identical requests.",
        "assumptions": ["slot identity first: holds when no chosen transaction has an all-zero 32-byte prefix with a sender address not above "
                        "the slot number (the code comment's own assumption; such an address needs a Keccak preimage with 17 leading zero bytes). "
                        "The example after C19_slot_first exhibits the excluded input; the rig counts such inputs and checks sortedness only",
                        "queue complete (indices 0..n-1) and every gas limit >= MinGasPerTransaction for the exact-prefix claim; otherwise the "
                        "row cap gasLimit/minGas+1 may cut the selection short (C19_prefix_capped)",
                        "the pointer is read for the eon found for the next block and the queue for the keyper set found for it; when the "
                        "newest keyper set has no eon row yet these differ (modelled as is, theorems stated per eon)"],
    },
    "C20": {
        "module": "Shutter.Properties.C20",
        "theorems": ["C20_all_once", "C20_any_order", "C20_only_pending", "C20_every_interval", "C20_prefix", "C20_clean_iff"],
        "driver": {"pkg": "./cmd/epkcheck"},
        "trusted_base": [KERNEL, CORR,
                         "pgfake + kdb: the PostgreSQL wire fake and my Go reading of GetAndDeleteEonPublicKeys (delete all pending rows, "
                         "return those that join with eons and tendermint_batch_config, unordered)",
                         "hook keyper.VerifNewEonPubKeyHandler (build tag verif) constructs the unexported handler from its parts"],
        "explanation": "Theorems (Lean): for any list of pending keys of keyper sets the keyper belongs to, in any order, in both publication "
                       "modes, if the mechanism accepts, the tick hands over every key exactly once with activation block, keyper-set index "
                       "and eon number, and returns no error; permuting the rows permutes the hand-overs; nothing is handed that was not "
                       "pending. The real handler runs over an in-process PostgreSQL fake through multi-tick scenarios with 0..4 pending "
                       "keys per tick and is compared with the model; the property is also evaluated directly on what was broadcast / "
                       "passed to the callback.",
        "assumptions": ["a hand-over the mechanism refuses ends the tick; the keys behind it were deleted with it and are not offered: 'provided "
                        "that mechanism accepts it' is read as a statement about the mechanism during that tick (a broadcast or a callback that "
                        "fails for one key is taken to fail for the next), and C20_all_once / C20_every_interval assume every key of the tick is "
                        "accepted; ticks that ended in an error do not stop later ones (C20_every_interval in the model; the real loop is run "
                        "at a 20 ms interval with a refused key followed by a later one)",
                        "a pending key whose eon or keyper set is not stored yet is deleted without being handed over (the inner joins of the "
                        "query); the keyper stores eon and batch config before the DKG result, so this does not arise on the code paths that "
                        "insert pending keys"],
    },
    "C01": {
        "module": "Shutter.Properties.C01",
        "theorems": ["C01_exact", "C01_correct", "C01_order_independent", "C01_no_panic"],
        "driver": {"pkg": "./cmd/kgcheck"},
        "trusted_base": [KERNEL + " (these theorems use Mathlib: Mathlib.LinearAlgebra.Lagrange)", CORR,
                         "modelled, not verified: BLS12-381 (the share check is the hypothesis `verify i s ↔ s = f(x_i)•H`, which is what the "
                         "pairing equation says for a non-degenerate pairing; blst implementing such a pairing is trusted); the executable "
                         "instance of the model used for the correspondence is arithmetic modulo the BLS scalar order on discrete logarithms "
                         "(that Z/q is a field is a standard fact, not re-proved)",
                         "the table-level handler (shares read back from the database in unspecified order) is exercised by the C03/C04 rigs; "
                         "C01_order_independent is the theorem that makes that order irrelevant"],
        "explanation": "Theorems (Lean, any field F, any F-module G, any polynomial f of degree < t, any point H, any sequence of incoming "
                       "shares from senders inside the set): a key is held iff valid shares of >= t distinct keypers occurred; every key "
                       "derived equals f(0)•H (Lagrange interpolation at zero, via Mathlib); sequences with the same valid senders end "
                       "with the same key; no index panic for senders in range. The real EpochKG (with blst pairings) is fed "
                       "exhaustively enumerated and sampled share sequences and compared with the model; derived keys are checked to "
                       "decrypt a message encrypted to the eon public key.",
        "assumptions": ["n smaller than the field characteristic (distinct evaluation points)",
                        "sender index < n (enforced by the gossip validator after the fix: commit; see C04/C05)"],
    },
    "C06": {
        "module": "Shutter.Properties.C06",
        "theorems": ["C06_gnosis_iff", "C06_tamper", "C06_service_unsigned", "C06_service_signed", "C06_distinct_signers", "C06_service_tamper"],
        "driver": {"pkg": "./cmd/sgcheck"},
        "trusted_base": [KERNEL, CORR,
                         "modelled, not verified: ECDSA public-key recovery (abstract `recover`), the SSZ hash tree root (injective: the signed "
                         "data stands for its digest; fails on identity preimages of the wrong size), KeyperSet.GetSubset/DecodeAddress",
                         "hypothesis Binding (a signature recovering to a keyper over one message does not recover to that keyper over "
                         "another) stands for ECDSA unforgeability in C06_tamper"],
        "explanation": "Theorems (Lean) for an arbitrary signature scheme: the Gnosis validator accepts IFF the message names exactly "
                       "threshold signers, strictly increasing, inside the set, one signature per signer, each recovering to that signer "
                       "over (instance, eon, slot, tx pointer, identities); tampering with the signed data invalidates under Binding; the "
                       "service flavour admits the both-empty case and otherwise obeys the same rule. The real validators of both "
                       "flavours are driven with real ECDSA keys exhaustively for small keyper sets and sampled above, compared with the "
                       "model, checked against an independent reading of 'genuine threshold' (signature verification instead of "
                       "recovery), and accepted messages are tampered field by field.",
        "assumptions": ["len(SignerIndices) < 2^31 (the int32 cast of the length)",
                        "the access-node and keyper validators reach ValidateDecryptionKeysSignatures with the keyper set named by the message's eon (exercised in C03/C04 rigs)"],
    },
    "C18": {
        "module": "Shutter.Properties.C18",
        "theorems": ["C18_blocked", "C18_tables_wellformed", "C18_write_ops_pinned", "C18_setup_pinned", "C18_gate_stateless", "C18_embedded_is_yaml", "C18_blocked_now",
                     "C18_readonly_reachable", "C18_deterministic"],
        "driver": {"pkg": "./cmd/apicheck"},
        "facts": ["api"],
        "trusted_base": [KERNEL, CORR,
                         "factx (OpenAPI operations, generated chi routes, router set-up order and the names the gate reaches, extracted from the source on every run)",
                         "modelled, not verified: chi pattern matching and Mount/StripPrefix, kin-openapi Paths.Find/normalizeTemplatedPath, Go "
                         "regexp semantics of the template expression, net/url percent-decoding (abstract `unescape` with the law "
                         "'no % means unchanged'), the OapiRequestValidator middleware (it can only reject more)"],
        "explanation": "Theorem (Lean), generic in the two tables under a decidable well-formedness predicate: whenever the router would hand a "
                       "request to the handler of an operation not marked read-only, the gate (write operations disabled) does not allow it, "
                       "for every method, every path spelling, raw or percent-decoded, and every map order; the predicate holds for the tables "
                       "regenerated from oapi.yaml and the generated server on this run (decide); the state-changing operations and the "
                       "middleware order are pinned, and so is what the gate's code can reach besides the request (no state of its own, "
                       "regenerated from the source with go/types); determinism for brace-free paths; read-only operations reachable. The real router is "
                       "driven through httptest over all methods x mutated path spellings x both modes and compared with the model.",
        "assumptions": ["template parameters are whole path segments (checked: cleanTemplate)",
                        "the request validator in front of the gate only ever rejects"],
    },
    "C17": {
        "module": "Shutter.Properties.C17",
        "theorems": ["C17_match_total", "C17_alloc_bounded", "C17_match_spec_static", "C17_match_spec_topic",
                     "C17_match_spec_dynamic", "C17_filter_exists", "C17_filter_sound", "C17_decode_valid",
                     "C17_rlp_roundtrip", "C17_roundtrip", "C17_roundtrip_bounds", "C17_marshal_injective", "C17_match_conjunction"],
        "driver": {"pkg": "./cmd/tdcheck"},
        "trusted_base": [KERNEL, CORR,
                         "modelled, not verified: go-ethereum rlp (re-implemented in the model with its canonical-form checks and compared "
                         "byte for byte), big.Int.SetBytes/Uint64/IsUint64, Go slice semantics (explicit bounds checks in the model), "
                         "go-ethereum's eth_getLogs topic matching (passes)"],
        "explanation": "Theorems (Lean): matching a valid definition against any log is total (no slice of log-controlled data leaves its "
                       "bounds) and allocates at most |data| + 3 words; on well-formed data it reads exactly the documented topic / word / "
                       "ABI slice; every valid definition has a filter and every matching log passes it; successful decoding yields a valid "
                       "definition; every valid definition is read back unchanged from its own bytes (RLP round trip proved for arbitrary "
                       "item trees, with go-ethereum's canonical-form checks), so no two valid definitions share an encoding. The real Validate, MarshalBytes, UnmarshalBytes, Match, ToFilterQuery are compared with the model on "
                       "generated definitions x aimed logs and on mutated encodings, under recover().",
        "assumptions": ["log data shorter than 2^62 bytes (uint64 arithmetic on offsets does not wrap)",
                        "round trip: byte arguments shorter than 2^64 bytes and integer arguments below 2^256 (any larger value cannot equal "
                        "a 32-byte word); the model's encoder and decoder are tied to go-ethereum's by the byte-for-byte comparison"],
    },
    "C14": {
        "module": "Shutter.Properties.C14",
        "theorems": ["C14_roundtrip", "C14_injective", "C14_uint_strict", "C14_expect_length", "C14_names_checked"],
        "driver": {"pkg": "./cmd/evcheck"},
        "trusted_base": [KERNEL, CORR,
                         "modelled, not verified: strconv.FormatUint/ParseUint (base 10), hexutil.Encode/Decode, hex.DecodeString, "
                         "strings.Split/Join, common.IsHexAddress are re-implemented in the model from their documentation; "
                         "Address.Hex (EIP-55/keccak), secp256k1 key and BLS G2 point encodings are oracles supplied by the driver"],
        "explanation": "Theorems (Lean): for every event value of all eight types within the value domain (uint64, 20-byte addresses, "
                       "byte strings, normalised big integers, valid keys/points) decode(encode(x)) = x, by composing concrete round-trip "
                       "proofs of the decimal, hex and comma-list codecs; accepted integers denote exactly their value; positional "
                       "attribute access is in range; unknown types are errors. The real MakeABCIEvent/MakeEvent are compared with the "
                       "model in both directions on generated values and on mutated attribute lists (recover() around the decoder).",
        "assumptions": ["attribute strings are ASCII (protobuf strings are valid UTF-8; non-ASCII input is not generated)",
                        "oracle laws: the checksummed text of an address parses back to it; key/point encodings round-trip"],
    },
    "C13": app(
        "C13",
        ["C13_replay", "C13_commit_pure", "C13_saved_height", "C13_atomic_save", "C13_saves_after_crashes", "C13_persist_order_pinned"],
        "Theorems (Lean): replay determinism of the model over any split of any history; the saved height is the last "
        "executed block; crash-atomicity of the create/write/sync/rename protocol on a file-system model with loss of "
        "un-synced data, for every crash point including inside the write, and for every history of saves cut short "
        "anywhere with anything left at the temp path in between; the protocol's step order is regenerated from "
        "the source and pinned. Checked on the real code: at commit points of generated histories the state is saved with "
        "PersistToDisk, reloaded with LoadShutterAppFromFile, compared, and both nodes continue and are compared call by "
        "call; one real save is run under strace and the observed syscall sequence is judged by the Lean predicate.",
        ["gob decode(encode(s)) = s is a library fact: checked on every visited state, not proved",
         "rename(2) is atomic and does not reorder before previously fsynced data; un-synced data may be lost from the end",
         "real fsync durability is the operating system's"],
        facts=["persist"],
    ),
    "C09": app(
        "C09",
        ["C09_order_irrelevant", "C09_wf_init", "C09_wf_step", "C09_replicas_agree", "C09_mempool_irrelevant", "C09_mempool_replicas", "C09_map_ranges_pinned",
         "C09_clock_calls_pinned", "C09_fork_overrides_pinned"],
        "Theorem: every ABCI call of the model gives the same response and state for all iteration orders of all maps "
        "ranged over (induction over histories; two replicas with independent orders agree); mempool checks interleaved "
        "anywhere, on any mempool state, do not change the answers to the block sequence (every call of the block sequence "
        "commutes with replacing the mempool bookkeeping). Facts regenerated from the "
        "source pin the map-range sites and the clock/OS/randomness uses of package app. The real app is compared with the "
        "model on generated histories; each history is additionally replayed in a second OS process (GOMAXPROCS=1, GOGC=20) "
        "and several times in-process (Go randomises map iteration per range) with byte-wise comparison of the marshalled "
        "ABCI responses and canonical state.",
        ["Tendermint feeds both replicas the same call sequence",
         "Go's map iteration is an arbitrary permutation of the entries",
         "protobuf marshalling of equal responses is byte-identical within one binary"],
        facts=["app"],
    ),
    "C10": app(
        "C10",
        ["C10_refused_untouched", "C10_checktx_outsider", "C10_members_invariant", "C10_outsider_no_effect",
         "C10_noninterference", "C10_total_lastConfig", "C10_total_outcome", "C10_malformed_config_refused",
         "C10_malformed_checkin_refused"],
        "Theorems (Lean): malformed / foreign-chain / replayed transactions return code 1 and leave the state identical; a "
        "structurally invalid configuration (threshold 0 or above the number of keypers up to any size, no keypers, bad or "
        "repeated address) and a check-in with a bad key are refused without a trace whoever sends them; the "
        "mempool refuses non-members; on every reachable state a transaction of an address in no accepted keyper set gets a "
        "non-zero code, no events, and changes only its own (signer, nonce) record; states differing only in one sender's "
        "nonce records answer every later call of other senders identically (simulation over whole histories); the two "
        "partial operations on this path (LastConfig, Candidates[idx]) stay inside their domain. The real app is compared "
        "with the model on generated histories; refused transactions of every class are injected at random positions of "
        "valid histories and the twin runs compared call by call, with recover() around every ABCI call.",
        ["panics inside base64 / signature recovery / protobuf decoding are exercised by the driver, not covered by a theorem",
         "a batch-config message carries fewer than 2^63 addresses (Sized)"],
    ),
    "C11": app(
        "C11",
        ["C11_invariant", "C11_accept", "C11_other_calls", "C11_one_vote", "C11_nonce_once", "C11_restart", "C11_started", "C11_voted_keypers_distinct", "C11_started_distinct"],
        "Theorems over every history from every valid genesis (Lean): the vote invariant holds on all reachable states; a "
        "configuration is appended only by a vote that completes a quorum of threshold(current) distinct current keypers for "
        "that identical configuration (larger index, non-decreasing activation, votes reset, fresh eon); one vote per sender "
        "and round; each (sender, nonce) executes once; a DKG restart needs a failure quorum for the newest eon; a "
        "configuration is marked started only on a block-seen quorum of the preceding set. The real app is compared with the "
        "model on generated histories and monitored with an independent necessary-condition checker over the tx stream.",
        ["a batch-config message carries fewer than 2^63 addresses (Sized)",
         "the eon counter does not wrap around 2^64"],
    ),
    "C12": app(
        "C12",
        ["C12_diff_apply", "C12_updates_sorted", "C12_removals_present", "C12_order_independent", "C12_no_change", "C12_minimal", "C12_live",
         "C12_quorum_ge_threshold"],
        "Theorems over all power maps / all listings (Lean); the real DiffPowermaps/EndBlock are compared with the model "
        "on generated histories and on all pairs of small power maps, and a reference Tendermint validator set is folded "
        "over the real EndBlock updates.",
        ["Tendermint applies updates as set/remove by key and rejects removal of an absent validator",
         "genesis validators have non-zero power",
         "dev mode (validator updates suppressed) is outside the property"],
    ),
}
