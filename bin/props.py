"""Per-property table used by bin/check: theorem module, expected theorems, Go driver, trusted base."""

KERNEL = "Lean 4.33 kernel (+ leanchecker in the thorough tier); axioms allowed: propext, Classical.choice, Quot.sound"
CORR = ("correspondence check (Go driver + Lean `driver` executable on the same operation lines): testing-grade tie "
        "between the hand-written model and /repo's working tree")
APP_MODELLED = ("modelled, not verified: tx byte layer (base64, ECDSA recovery, protobuf), crypto.DecompressPubkey and blst G2 "
                "checks (oracle verdict arrives with the payload), opaque blobs as identifiers, Tendermint's validator-set update "
                "semantics (tmApply), Go map iteration as an arbitrary listing")

APP_DRIVER = {"pkg": "./cmd/appcheck"}


def app(prop, theorems, explanation, assumptions, facts=None):
    return {
        "module": f"Shutter.Properties.{prop}",
        "theorems": theorems,
        "driver": {"pkg": "./cmd/appcheck", "args": ["-prop", prop]},
        "trusted_base": [KERNEL, CORR, APP_MODELLED],
        "explanation": explanation,
        "assumptions": assumptions,
        "facts": facts,
    }


PROPS = {
    "C12": app(
        "C12",
        ["C12_diff_apply", "C12_updates_sorted", "C12_removals_present", "C12_order_independent", "C12_live",
         "C12_quorum_ge_threshold"],
        "Theorems over all power maps / all listings (Lean); the real DiffPowermaps/EndBlock are compared with the model "
        "on generated histories and on all pairs of small power maps, and a reference Tendermint validator set is folded "
        "over the real EndBlock updates.",
        ["Tendermint applies updates as set/remove by key and rejects removal of an absent validator",
         "genesis validators have non-zero power",
         "dev mode (validator updates suppressed) is outside the property"],
    ),
}
