/-
Line-protocol driver: one operation per input line, one observable per output line.
Input line:  `<MODEL> <op…>`     e.g. `APP deliver 5 c0 17 bs 3`
Output line: the model's canonical observable for that op.
Core-only so that it links as an executable.
-/
import Shutter.Drive.App
import Shutter.Spec.SaveFile
import Shutter.Drive.Events
import Shutter.Drive.TriggerDef
import Shutter.Drive.Api
import Shutter.Drive.Signers
import Shutter.Drive.EpochKG
import Shutter.Drive.EonPk
import Shutter.Drive.GnosisSlot
import Shutter.Drive.ServiceTrigger
import Shutter.Drive.Validate
import Shutter.Drive.Net
import Shutter.Drive.Trigger
import Shutter.Drive.Syncer
import Shutter.Drive.Dkg
import Shutter.Drive.Crash
import Shutter.Drive.AccessNode

open Shutter

structure DState where
  app : Option App.App := none

def dispatch (st : DState) (line : String) : DState × String :=
  match Wire.tokens line with
  | "APP" :: rest =>
    let (a, out) := Drive.App.step st.app rest
    ({ st with app := a }, out)
  | "EPK" :: rest => (st, Drive.EonPk.step rest)
  | "GS" :: rest => (st, Drive.GnosisSlot.step rest)
  | "ST" :: rest => (st, Drive.ServiceTrigger.step rest)
  | "VAL" :: rest => (st, Drive.Validate.step rest)
  | "NET" :: rest => (st, Drive.Net.step rest)
  | "AN" :: rest => (st, Drive.AccessNode.step rest)
  | "TRG" :: rest => (st, Drive.Trigger.step rest)
  | "SYN" :: rest => (st, Drive.Syncer.step rest)
  | "DKG" :: rest => (st, Drive.Dkg.step rest)
  | "CR" :: rest => (st, Drive.Crash.step rest)
  | "KG" :: rest => (st, Drive.EpochKG.step rest)
  | "SG" :: rest => (st, Drive.Signers.step rest)
  | "API" :: rest => (st, Drive.Api.step rest)
  | "TD" :: rest => (st, Drive.TriggerDef.step rest)
  | "EV" :: rest => (st, Drive.Events.step rest)
  | "SAVE" :: rest => (st, SaveFile.driverStep rest)
  | _ => (st, "bad-model")

partial def loop (h : IO.FS.Stream) (out : IO.FS.Stream) (st : DState) : IO Unit := do
  let line ← h.getLine
  if line.isEmpty then return ()
  let line := (line.dropEndWhile (fun c => c = '\n' || c = '\r')).toString
  let (st', o) := dispatch st line
  out.putStrLn o
  loop h out st'

def main : IO Unit := do
  let stdout ← IO.getStdout
  loop (← IO.getStdin) stdout {}
  stdout.flush
