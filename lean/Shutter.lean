import Shutter.Model.AMap
import Shutter.Model.Wire
import Shutter.Model.App
import Shutter.Drive.App
