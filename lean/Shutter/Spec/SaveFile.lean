/-
Executable form of the crash-atomicity predicate of C13, evaluated on the sequence of file-system
operations the real `PersistToDisk` was observed to issue (strace), with one symbol per write call.
-/
import Shutter.Model.SaveFile
import Shutter.Model.Wire

namespace Shutter.SaveFile

/-- all contents a reader may find in `f` after a crash -/
def File.visible (f : File) : List Bytes :=
  (List.range (f.data.length + 1 - f.durable)).map (fun d => f.data.take (f.durable + d))

/-- states at every crash point of `ops`: after each prefix, and inside each write -/
def crashStates (fs : Fs) : List Op → List Fs
  | [] => [fs]
  | op :: rest =>
    let partials := match op with
      | .write p d => (List.range d.length).map (fun j => step fs (.write p (d.take j)))
      | _ => []
    fs :: partials ++ crashStates (step fs op) rest

/-- does every crash point leave `old` or `new` (completely) at `final`? -/
def atomicOK (fs : Fs) (final : String) (old new : Bytes) (ops : List Op) : Bool :=
  (crashStates fs ops).all (fun s =>
    match s final with
    | none => false
    | some f => f.visible.all (fun c => c == old || c == new))

open Shutter.Wire in
def op? (s : String) : Option Op :=
  match s.splitOn ":" with
  | ["create", p] => some (.create p)
  | ["write", p, d] => do pure (.write p (← list? nat? d))
  | ["sync", p] => some (.sync p)
  | ["rename", a, b] => some (.rename a b)
  | ["unlink", p] => some (.unlink p)
  | _ => none

open Shutter.Wire in
/-- `atomic <final> <old> <new> <op;op;…>` -/
def driverStep (toks : List String) : String :=
  match toks with
  | ["atomic", final, old, new, ops] =>
    match list? nat? old, list? nat? new, (ops.splitOn ";").mapM op? with
    | some o, some n, some os =>
      let fs : Fs := fun q => if q = final then some { data := o, durable := o.length } else none
      if atomicOK fs final o n os then "ok" else "not-atomic"
    | _, _, _ => "bad-op"
  | _ => "bad-op"

end Shutter.SaveFile
