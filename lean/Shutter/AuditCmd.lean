/-
`#audit_module M` prints, for every theorem declared in module `M`, the axioms it depends on.
Used by bin/check to count proof obligations and to enforce the axiom allow-list.
-/
import Lean
open Lean Elab Command

elab "#audit_module " m:ident : command => do
  let env ← getEnv
  let modName := m.getId
  match env.header.moduleNames.findIdx? (· == modName) with
  | none => throwError "module {modName} not imported"
  | some idx =>
    let md := env.header.moduleData[idx]!
    let mut n : Nat := 0
    for c in md.constNames do
      if c.isInternalDetail then continue
      match env.find? c with
      | some (.thmInfo _) =>
        let axs ← collectAxioms c
        let axs := axs.qsort (fun a b => a.toString < b.toString)
        n := n + 1
        logInfo m!"AUDIT {c} AXIOMS {axs.toList}"
      | _ => pure ()
    logInfo m!"AUDIT-COUNT {modName} {n}"
