/-
The config-vote invariant holds on every reachable state (C11), and eon numbering (C11).
-/
import Shutter.Proofs.AppVoting

namespace Shutter.App
open Shutter Shutter.App.App

theorem VInv_of_eq {a a' : App} (inv : VInv a) (h1 : a'.configs = a.configs)
    (h2 : a'.configVoting = a.configVoting) : VInv a' := by
  have hl : a'.lastConfig = a.lastConfig := by unfold App.lastConfig; rw [h1]
  constructor
  · rw [h1]; exact inv.nonempty
  · rw [h2]; exact inv.keysNodup
  · rw [h2, hl]; exact inv.member
  · rw [h2, hl]; exact inv.below
  · rw [hl]; exact inv.thrPos

/-! ### DKGResult leaves configs and the config vote alone -/

theorem maybeStartEon_cfg (o : Order) (a : App) (eon : Nat) :
    (a.maybeStartEon o eon).1.configs = a.configs ∧
    (a.maybeStartEon o eon).1.configVoting = a.configVoting := by
  unfold maybeStartEon
  cases a.dkgs.get? eon with
  | none => exact ⟨rfl, rfl⟩
  | some dkg =>
    simp only
    cases Voting.outcome o dkg.success (toInt64 dkg.config.threshold) with
    | none => exact ⟨rfl, rfl⟩
    | some success =>
      simp only
      split
      · exact ⟨rfl, rfl⟩
      · exact ⟨rfl, rfl⟩

theorem deliverDKGResult_cfg (o : Order) (a : App) (sender : Addr) (eon : Nat) (success : Bool) :
    (a.deliverDKGResult o sender eon success).1.configs = a.configs ∧
    (a.deliverDKGResult o sender eon success).1.configVoting = a.configVoting := by
  unfold deliverDKGResult
  cases a.dkgs.get? eon with
  | none => exact ⟨rfl, rfl⟩
  | some dkg =>
    simp only
    split
    · exact ⟨rfl, rfl⟩
    · cases dkg.success.addVote sender success with
      | none => exact ⟨rfl, rfl⟩
      | some voting =>
        simp only
        have h := maybeStartEon_cfg o
          { a with dkgs := a.dkgs.insert eon { dkg with success := voting } } eon
        generalize App.maybeStartEon o
          { a with dkgs := a.dkgs.insert eon { dkg with success := voting } } eon = r at h ⊢
        obtain ⟨a', d⟩ := r
        cases d <;> exact h

/-- a transaction whose lists have a physically possible size -/
def Tx.Sized : Tx → Prop
  | .msg _ _ _ (.batchConfig _ _ _ ks) => ks.length < 2 ^ 63
  | _ => True

theorem deliverMessage_VInv (o : Order) (ho : o.Valid) (a : App) (inv : VInv a) (sender : Addr)
    (p : Payload) (hs : ∀ act thr idx ks, p = .batchConfig act thr idx ks → ks.length < 2 ^ 63) :
    VInv (a.deliverMessage o sender p).1 := by
  cases p with
  | batchConfig act thr idx ks =>
    simp only [deliverMessage]
    rcases deliverBatchConfig_cases o ho a inv sender act thr idx ks (hs _ _ _ _ rfl) _ rfl with h | h
    · exact h.2.1
    · obtain ⟨_, _, _, h3⟩ := h; exact h3
  | blockSeen b =>
    have f := deliverBlockSeen_Frame a sender b
    exact VInv_of_eq inv f.configs f.configVoting
  | checkIn k ok e =>
    have f := deliverCheckIn_Frame a sender k ok e
    exact VInv_of_eq inv f.configs f.configVoting
  | dkgResult eon s =>
    have f := deliverDKGResult_cfg o a sender eon s
    exact VInv_of_eq inv f.1 f.2
  | polyEval eon rs n e =>
    have f := deliverPolyEval_Frame a sender eon rs n e
    exact VInv_of_eq inv f.configs f.configVoting
  | polyCommitment eon ok g =>
    have f := deliverPolyCommitment_Frame a sender eon ok g
    exact VInv_of_eq inv f.configs f.configVoting
  | accusation eon as =>
    have f := deliverAccusation_Frame a sender eon as
    exact VInv_of_eq inv f.configs f.configVoting
  | apology eon as n e =>
    have f := deliverApology_Frame a sender eon as n e
    exact VInv_of_eq inv f.configs f.configVoting
  | none => exact inv

theorem deliverTx_VInv (o : Order) (ho : o.Valid) (a : App) (inv : VInv a) (tx : Tx) (hs : tx.Sized) :
    VInv (a.deliverTx o tx).1 := by
  unfold deliverTx
  cases tx with
  | undecodable => exact inv
  | msg signer chainId nonce payload =>
    simp only
    split
    · exact inv
    · split
      · exact inv
      · apply deliverMessage_VInv o ho
        · exact VInv_of_eq inv rfl rfl
        · intro act thr idx ks hp
          subst hp; exact hs

/-! ### EndBlock keeps every configuration's core -/

theorem endBlockStep_core (a : App) (cfgs : List BatchConfig) (i : Nat) (c : BatchConfig) :
    (endBlockStep a cfgs i c).1.core = c.core := by
  unfold endBlockStep
  simp only
  repeat' split
  all_goals rfl

theorem endBlockLoop_core (a : App) (i : Nat) (done rest : List BatchConfig) (evs : List Event) :
    (endBlockLoop a i done rest evs).1.map BatchConfig.core = (done ++ rest).map BatchConfig.core := by
  induction rest generalizing i done evs with
  | nil => simp [endBlockLoop]
  | cons c rest ih =>
    simp only [endBlockLoop]
    rw [ih]
    simp [endBlockStep_core]

theorem getLast?_map_core (l₁ l₂ : List BatchConfig)
    (h : l₁.map BatchConfig.core = l₂.map BatchConfig.core) :
    (l₁.getLast?.getD default).core = (l₂.getLast?.getD default).core := by
  have h1 : (l₁.map BatchConfig.core).getLast? = (l₂.map BatchConfig.core).getLast? := by rw [h]
  rw [List.getLast?_map, List.getLast?_map] at h1
  cases h₁ : l₁.getLast? <;> cases h₂ : l₂.getLast? <;> simp [h₁, h₂] at h1 ⊢
  exact h1

theorem isKeyper_core {c c' : BatchConfig} (h : c.core = c'.core) (x : Addr) :
    c.isKeyper x = c'.isKeyper x := by
  unfold BatchConfig.core at h
  unfold BatchConfig.isKeyper
  simp only [Prod.mk.injEq] at h
  rw [h.2.1]

theorem threshold_core {c c' : BatchConfig} (h : c.core = c'.core) : c.threshold = c'.threshold := by
  unfold BatchConfig.core at h
  simp only [Prod.mk.injEq] at h
  exact h.2.2.1

theorem endBlock_VInv (o : Order) (a : App) (inv : VInv a) (height : Int) :
    VInv (a.endBlock o height).1 := by
  unfold endBlock
  simp only
  generalize hcfg : endBlockLoop a 0 [] a.configs [] = lp
  obtain ⟨configs, events⟩ := lp
  simp only
  have hcore : configs.map BatchConfig.core = a.configs.map BatchConfig.core := by
    have := endBlockLoop_core a 0 [] a.configs []
    rw [hcfg] at this; simpa using this
  have hlast := getLast?_map_core configs a.configs hcore
  constructor
  · intro h
    simp only at h
    rw [h] at hcore
    have := inv.nonempty
    cases hc : a.configs with
    | nil => exact this hc
    | cons x xs => rw [hc] at hcore; simp at hcore
  · exact inv.keysNodup
  · intro e he
    have := inv.member e he
    refine ⟨?_, this.2⟩
    show (configs.getLast?.getD default).isKeyper e.1 = true
    rw [isKeyper_core hlast]; exact this.1
  · intro i hpos
    show _ < toInt64 (configs.getLast?.getD default).threshold
    rw [threshold_core hlast]; exact inv.below i hpos
  · show 0 < toInt64 (configs.getLast?.getD default).threshold
    rw [threshold_core hlast]; exact inv.thrPos

theorem checkTx_cfg (a : App) (tx : Tx) :
    (a.checkTxOp tx).1.configs = a.configs ∧ (a.checkTxOp tx).1.configVoting = a.configVoting := by
  unfold checkTxOp
  cases tx with
  | undecodable => exact ⟨rfl, rfl⟩
  | msg signer chainId nonce payload =>
    simp only
    repeat' split
    all_goals exact ⟨rfl, rfl⟩

def Op.Sized : Op → Prop
  | .deliver tx => tx.Sized
  | _ => True

theorem stepWith_VInv (o : Order) (ho : o.Valid) (a : App) (inv : VInv a) (op : Op) (hs : op.Sized) :
    VInv (a.stepWith o op).1 := by
  cases op with
  | begin h => exact inv
  | deliver tx => exact deliverTx_VInv o ho a inv tx hs
  | check tx => have := checkTx_cfg a tx; exact VInv_of_eq inv this.1 this.2
  | endBlock h => exact endBlock_VInv o a inv h
  | commit => exact VInv_of_eq inv rfl rfl

/-- the configuration `InitChain` builds from the genesis state -/
def genesisConfig (keypers : List Addr) (threshold : Nat) : BatchConfig :=
  { activation := 0, keypers := keypers, threshold := threshold, index := 0, started := false,
    validatorsUpdated := false }

theorem init_VInv (chainId : String) (keypers : List Addr) (threshold initialEon : Nat) (fork : Fork)
    (devMode : Bool) (validators : List (PubKey × Int))
    (hvalid : (genesisConfig keypers threshold).valid = true)
    (hsized : keypers.length < 2 ^ 63) :
    VInv (App.init chainId keypers threshold initialEon fork devMode validators) := by
  constructor
  · simp [App.init]
  · simp [App.init, Voting.empty, AMap.keys]
  · intro e he; simp [App.init, Voting.empty] at he
  · intro i hpos; simp [App.init, Voting.empty, Voting.countOn] at hpos
  · show 0 < toInt64 (App.lastConfig _).threshold
    have : App.lastConfig (App.init chainId keypers threshold initialEon fork devMode validators) =
        genesisConfig keypers threshold := by
      simp [App.lastConfig, App.init, genesisConfig]
    rw [this]
    exact valid_thrPos _ hvalid hsized

/-- states reachable from a state by a sized history, in any iteration orders -/
theorem runWith_VInv (a : App) (inv : VInv a) (ops : List (Order × Op))
    (hv : ∀ p ∈ ops, p.1.Valid ∧ p.2.Sized) : VInv (a.runWith ops).1 := by
  induction ops generalizing a with
  | nil => exact inv
  | cons p rest ih =>
    obtain ⟨o, op⟩ := p
    simp only [App.runWith]
    have h := hv (o, op) (by simp)
    exact ih _ (stepWith_VInv o h.1 a inv op h.2) (fun p hp => hv p (List.mem_cons_of_mem _ hp))

end Shutter.App
