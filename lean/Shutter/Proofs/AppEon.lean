/-
Eon numbering and nonce bookkeeping (C11), per-step facts.
-/
import Shutter.Proofs.AppHistory

namespace Shutter.App
open Shutter Shutter.App.App

/-! ### nonces are touched by `deliverTx` only -/

theorem maybeStartEon_nonces (o : Order) (a : App) (eon : Nat) :
    (a.maybeStartEon o eon).1.nonces = a.nonces := by
  unfold maybeStartEon
  cases a.dkgs.get? eon with
  | none => rfl
  | some dkg =>
    simp only
    cases Voting.outcome o dkg.success (toInt64 dkg.config.threshold) with
    | none => rfl
    | some success =>
      simp only
      split
      · rfl
      · rfl

theorem deliverDKGResult_nonces (o : Order) (a : App) (sender : Addr) (eon : Nat) (success : Bool) :
    (a.deliverDKGResult o sender eon success).1.nonces = a.nonces := by
  unfold deliverDKGResult
  cases a.dkgs.get? eon with
  | none => rfl
  | some dkg =>
    simp only
    split
    · rfl
    · cases dkg.success.addVote sender success with
      | none => rfl
      | some voting =>
        simp only
        have h := maybeStartEon_nonces o
          { a with dkgs := a.dkgs.insert eon { dkg with success := voting } } eon
        generalize App.maybeStartEon o
          { a with dkgs := a.dkgs.insert eon { dkg with success := voting } } eon = r at h ⊢
        obtain ⟨a', d⟩ := r
        cases d <;> exact h

theorem maybeStartEon_checkTx (o : Order) (a : App) (eon : Nat) :
    (a.maybeStartEon o eon).1.checkTx = a.checkTx := by
  unfold maybeStartEon
  cases a.dkgs.get? eon with
  | none => rfl
  | some dkg =>
    simp only
    cases Voting.outcome o dkg.success (toInt64 dkg.config.threshold) with
    | none => rfl
    | some success =>
      simp only
      split
      · rfl
      · rfl

theorem deliverDKGResult_checkTx (o : Order) (a : App) (sender : Addr) (eon : Nat) (success : Bool) :
    (a.deliverDKGResult o sender eon success).1.checkTx = a.checkTx := by
  unfold deliverDKGResult
  cases a.dkgs.get? eon with
  | none => rfl
  | some dkg =>
    simp only
    split
    · rfl
    · cases dkg.success.addVote sender success with
      | none => rfl
      | some voting =>
        simp only
        have h := maybeStartEon_checkTx o
          { a with dkgs := a.dkgs.insert eon { dkg with success := voting } } eon
        generalize App.maybeStartEon o
          { a with dkgs := a.dkgs.insert eon { dkg with success := voting } } eon = r at h ⊢
        obtain ⟨a', d⟩ := r
        cases d <;> exact h

theorem deliverBatchConfig_nonces (o : Order) (a : App) (sender : Addr) (act thr idx : Nat)
    (ks : List Raw) : (a.deliverBatchConfig o sender act thr idx ks).1.nonces = a.nonces := by
  unfold deliverBatchConfig
  cases batchConfigFromMessage act thr idx ks with
  | none => rfl
  | some bc =>
    simp only
    split
    · rfl
    · split
      · rfl
      · split
        · rfl
        · cases a.configVoting.addVote sender bc with
          | none => rfl
          | some voting =>
            simp only
            cases Voting.outcome o voting _ with
            | none => rfl
            | some _ => rfl

theorem applyReg_nonces (a : App) (eon : Nat) (r : Reg) (ev : Event) :
    (a.applyReg eon r ev).1.nonces = a.nonces := by
  cases r <;> rfl

theorem deliverMessage_nonces (o : Order) (a : App) (sender : Addr) (p : Payload) :
    (a.deliverMessage o sender p).1.nonces = a.nonces := by
  cases p <;> simp only [deliverMessage]
  · exact deliverBatchConfig_nonces o _ _ _ _ _ _
  · unfold deliverBlockSeen; repeat' split
    all_goals rfl
  · unfold deliverCheckIn; repeat' split
    all_goals rfl
  · exact deliverDKGResult_nonces o _ _ _ _
  · unfold deliverPolyEval; repeat' split
    all_goals first | rfl | exact applyReg_nonces _ _ _ _
  · unfold deliverPolyCommitment; repeat' split
    all_goals first | rfl | exact applyReg_nonces _ _ _ _
  · unfold deliverAccusation; repeat' split
    all_goals first | rfl | exact applyReg_nonces _ _ _ _
  · unfold deliverApology; repeat' split
    all_goals first | rfl | exact applyReg_nonces _ _ _ _

/-! ### only a BatchConfig payload can change the configuration list -/

theorem deliverMessage_configs (o : Order) (a : App) (sender : Addr) (p : Payload)
    (h : ∀ act thr idx ks, p ≠ .batchConfig act thr idx ks) :
    (a.deliverMessage o sender p).1.configs = a.configs := by
  cases p with
  | batchConfig act thr idx ks => exact absurd rfl (h act thr idx ks)
  | blockSeen b => exact (deliverBlockSeen_Frame a sender b).configs
  | checkIn k ok e => exact (deliverCheckIn_Frame a sender k ok e).configs
  | dkgResult eon s => exact (deliverDKGResult_cfg o a sender eon s).1
  | polyEval eon rs n e => exact (deliverPolyEval_Frame a sender eon rs n e).configs
  | polyCommitment eon ok g => exact (deliverPolyCommitment_Frame a sender eon ok g).configs
  | accusation eon as => exact (deliverAccusation_Frame a sender eon as).configs
  | apology eon as n e => exact (deliverApology_Frame a sender eon as n e).configs
  | none => rfl

/-! ### DKG restarts -/

/-- what a key-generation restart (an `EonStarted` answer to a `DKGResult`) implies -/
structure Restarted (a : App) (sender : Addr) (eon : Nat) (success : Bool) (a' : App) (r : Resp) :
    Prop where
  dkg : ∃ d voting, a.dkgs.get? eon = some d ∧ d.config.isKeyper sender = true ∧
      d.success.votes.contains sender = false ∧
      d.success.addVote sender success = some voting ∧
      /- the failure candidate reached the threshold with this vote -/
      (∃ j, voting.candidates[j]? = some false ∧
        toInt64 d.config.threshold ≤ (Voting.countOn voting.votes j : Int)) ∧
      r = okResp [.eonStarted a'.eonCounter d.config.activation d.config.index]
  newest : ¬ eon < a.eonCounter
  eonFresh : a'.eonCounter = (a.eonCounter + 1) % 2 ^ 64

theorem deliverDKGResult_cases (o : Order) (ho : o.Valid) (a : App) (sender : Addr) (eon : Nat)
    (success : Bool) :
    ((a.deliverDKGResult o sender eon success).1.eonCounter = a.eonCounter ∧
      ∀ e ∈ (a.deliverDKGResult o sender eon success).2.events, False) ∨
    Restarted a sender eon success (a.deliverDKGResult o sender eon success).1
      (a.deliverDKGResult o sender eon success).2 := by
  unfold deliverDKGResult
  cases hd : a.dkgs.get? eon with
  | none => left; exact ⟨rfl, by simp [errResp]⟩
  | some dkg =>
    simp only
    by_cases hk : dkg.config.isKeyper sender = false
    · left; simp [hk, errResp]
    · have hk' : dkg.config.isKeyper sender = true := by simpa using hk
      simp only [hk', Bool.not_true, Bool.false_eq_true, if_false]
      cases hadd : dkg.success.addVote sender success with
      | none => left; simp [seenResp]
      | some voting =>
        simp only
        have hfresh : dkg.success.votes.contains sender = false := by
          unfold Voting.addVote at hadd
          cases hc : dkg.success.votes.contains sender with
          | false => rfl
          | true => simp [hc] at hadd
        unfold maybeStartEon
        simp only [AMap.get?_insert_self]
        cases hout : Voting.outcome o voting (toInt64 dkg.config.threshold) with
        | none => left; simp [okResp]
        | some s =>
          simp only
          by_cases hcond : (s || decide (eon < a.eonCounter)) = true
          · left; simp [hcond, okResp]
          · right
            simp only [hcond, Bool.false_eq_true, if_false]
            simp only [Bool.or_eq_true, decide_eq_true_eq, not_or, Bool.not_eq_true] at hcond
            constructor
            · refine ⟨dkg, voting, hd, hk', hfresh, hadd, ?_, rfl⟩
              unfold Voting.outcome at hout
              cases hoi : voting.outcomeIndex o (toInt64 dkg.config.threshold) with
              | none => simp [hoi] at hout
              | some j =>
                simp only [hoi] at hout
                unfold Voting.outcomeIndex at hoi
                rw [outcomeIndexOn_perm (ho.votes_perm _)] at hoi
                have := outcomeIndexOn_some hoi
                refine ⟨j, ?_, this.2.2⟩
                rw [hout, hcond.1]
            · exact hcond.2
            · rfl

end Shutter.App
