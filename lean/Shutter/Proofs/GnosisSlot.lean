/-
C19 helper lemmas: the byte order, the gas-bounded prefix, the queue window, row-order independence,
the transaction pointer.
-/
import Shutter.Model.GnosisSlot
import Shutter.Proofs.Sort

namespace Shutter.GnosisSlot
open List Shutter.Sort

/-! ### the gas-bounded prefix -/

def gasSum (l : List Tx) : Nat := (l.map (·.gas)).sum

theorem gasSum_cons (t : Tx) (l : List Tx) : gasSum (t :: l) = t.gas + gasSum l := by
  simp [gasSum]

/-- with at least one transaction already taken, the loop takes the longest prefix that keeps the running
    sum within the limit -/
theorem takeGas_taken (L : Nat) (l : List Tx) (g n : Nat) (hn : 0 < n) :
    ∃ k, k ≤ l.length ∧ takeGas L l g n = l.take k ∧
      (0 < k → g + gasSum (l.take k) ≤ L) ∧ (k < l.length → L < g + gasSum (l.take (k + 1))) := by
  induction l generalizing g n with
  | nil => exact ⟨0, by simp, by simp [takeGas], by simp, by simp⟩
  | cons t rest ih =>
    unfold takeGas
    by_cases hc : L < g + t.gas ∧ 0 < n
    · rw [if_pos hc]
      refine ⟨0, by simp, by simp, by simp, ?_⟩
      intro _
      simp [gasSum]
      omega
    · rw [if_neg hc]
      have hle : g + t.gas ≤ L := by
        by_cases h : L < g + t.gas
        · exact absurd ⟨h, hn⟩ hc
        · omega
      obtain ⟨k, hk, heq, h1, h2⟩ := ih (g + t.gas) (n + 1) (by omega)
      refine ⟨k + 1, by simp; omega, by simp [heq], ?_, ?_⟩
      · intro _
        rw [take_succ_cons, gasSum_cons]
        by_cases hk0 : 0 < k
        · have := h1 hk0; omega
        · have : k = 0 := by omega
          subst this
          simp [gasSum]; omega
      · intro hlt
        rw [take_succ_cons, gasSum_cons]
        have := h2 (by simp at hlt; omega)
        omega

/-- the loop from the start: a prefix of the list, at least one transaction when there is one, within
    the gas limit when more than one is taken, and maximal -/
theorem takeGas_spec (L : Nat) (l : List Tx) :
    ∃ k, k ≤ l.length ∧ takeGas L l 0 0 = l.take k ∧ (l ≠ [] → 1 ≤ k) ∧
      (1 < k → gasSum (l.take k) ≤ L) ∧ (k < l.length → L < gasSum (l.take (k + 1))) := by
  cases l with
  | nil => exact ⟨0, by simp, by simp [takeGas], by simp, by omega, by simp⟩
  | cons t rest =>
    unfold takeGas
    rw [if_neg (by omega)]
    simp only [Nat.zero_add]
    obtain ⟨k, hk, heq, h1, h2⟩ := takeGas_taken L rest t.gas 1 (by omega)
    refine ⟨k + 1, by simp; omega, by simp [heq], by intro _; omega, ?_, ?_⟩
    · intro hk1
      rw [take_succ_cons, gasSum_cons]
      have := h1 (by omega); omega
    · intro hlt
      rw [take_succ_cons, gasSum_cons]
      have := h2 (by simp at hlt; omega); omega

/-- cutting the list to `m` rows changes nothing once `m` more rows of at least `c` gas each would
    exceed the limit -/
theorem takeGas_take (L c : Nat) (l : List Tx) (m g n : Nat) (hgas : ∀ t ∈ l, c ≤ t.gas) (hn : 0 < n)
    (hm : L < g + m * c) : takeGas L (l.take m) g n = takeGas L l g n := by
  induction l generalizing m g n with
  | nil => simp
  | cons t rest ih =>
    have ht : c ≤ t.gas := hgas t mem_cons_self
    cases m with
    | zero =>
      simp only [take_zero, takeGas]
      rw [if_pos ⟨by omega, hn⟩]
    | succ m' =>
      rw [take_succ_cons]
      unfold takeGas
      by_cases hc : L < g + t.gas ∧ 0 < n
      · rw [if_pos hc, if_pos hc]
      · rw [if_neg hc, if_neg hc]
        rw [ih m' (g + t.gas) (n + 1) (fun u hu => hgas u (mem_cons_of_mem _ hu)) (by omega)
          (by rw [Nat.succ_mul] at hm; omega)]

/-- the row cap `gasLimit / minGas + 1` never cuts the selection short when every queued transaction
    has at least the minimum gas -/
theorem takeGas_rowLimit (L c : Nat) (hc : 0 < c) (l : List Tx) (hgas : ∀ t ∈ l, c ≤ t.gas) :
    takeGas L (l.take (L / c + 1)) 0 0 = takeGas L l 0 0 := by
  cases l with
  | nil => simp
  | cons t rest =>
    rw [take_succ_cons]
    unfold takeGas
    rw [if_neg (by omega), if_neg (by omega)]
    simp only [Nat.zero_add]
    have ht : c ≤ t.gas := hgas t mem_cons_self
    have h1 := Nat.div_add_mod L c
    have h2 := Nat.mod_lt L hc
    rw [takeGas_take L c rest (L / c) t.gas 1 (fun u hu => hgas u (mem_cons_of_mem _ hu)) (by omega)
      (by rw [Nat.mul_comm]; omega)]

/-! ### the queue and the SQL window -/

def ofEon (eon : Int) (t : Tx) : Bool := decide (t.eon = eon)

/-- the eon's queue: its rows in index order -/
def queueOf (q : List Tx) (eon : Int) : List Tx := isort txLe (q.filter (ofEon eon))

/-- the rows carry indices `a, a+1, a+2, …` in this order -/
def Consec : Nat → List Tx → Prop
  | _, [] => True
  | a, t :: rest => t.index = (a : Int) ∧ Consec (a + 1) rest

def Consec.dec : (a : Nat) → (l : List Tx) → Decidable (Consec a l)
  | _, [] => isTrue trivial
  | a, t :: rest =>
    match Consec.dec (a + 1) rest with
    | isTrue h => if h0 : t.index = (a : Int) then isTrue ⟨h0, h⟩ else isFalse (fun hh => h0 hh.1)
    | isFalse h => isFalse (fun hh => h hh.2)

instance (a : Nat) (l : List Tx) : Decidable (Consec a l) := Consec.dec a l

/-- the synced queue of the eon is complete: in index order its rows are numbered 0, 1, 2, … -/
def Contig (q : List Tx) (eon : Int) : Prop := Consec 0 (queueOf q eon)

instance (q : List Tx) (eon : Int) : Decidable (Contig q eon) := Consec.dec 0 (queueOf q eon)

/-- primary key `(index, eon)` -/
def Keyed (q : List Tx) : Prop := ∀ a ∈ q, ∀ b ∈ q, a.index = b.index → a.eon = b.eon → a = b

theorem txLe_trans (a b c : Tx) : txLe a b = true → txLe b c = true → txLe a c = true := by
  simp only [txLe, decide_eq_true_eq]; omega

theorem txLe_total (a b : Tx) : (txLe a b || txLe b a) = true := by
  simp only [txLe, Bool.or_eq_true, decide_eq_true_eq]; omega

theorem Consec.lower {a : Nat} {l : List Tx} (h : Consec a l) : ∀ t ∈ l, (a : Int) ≤ t.index := by
  induction l generalizing a with
  | nil => simp
  | cons t rest ih =>
    intro u hu
    rcases mem_cons.1 hu with rfl | hu
    · rw [h.1]; omega
    · have := ih h.2 u hu; omega

theorem Consec.inj {a : Nat} {l : List Tx} (h : Consec a l) :
    ∀ x ∈ l, ∀ y ∈ l, x.index = y.index → x = y := by
  induction l generalizing a with
  | nil => simp
  | cons t rest ih =>
    intro x hx y hy hxy
    rcases mem_cons.1 hx with hx' | hx' <;> rcases mem_cons.1 hy with hy' | hy'
    · rw [hx', hy']
    · have := h.2.lower y hy'; have := h.1; rw [hx'] at hxy; omega
    · have := h.2.lower x hx'; have := h.1; rw [hy'] at hxy; omega
    · exact ih h.2 x hx' y hy' hxy

theorem Consec.filter_ge {a : Nat} {l : List Tx} (h : Consec a l) (p : Nat) :
    l.filter (fun t => decide ((p : Int) ≤ t.index)) = l.drop (p - a) := by
  induction l generalizing a with
  | nil => simp
  | cons t rest ih =>
    have ht := h.1
    by_cases hp : p ≤ a
    · have : p - a = 0 := by omega
      rw [this, drop_zero, filter_cons, if_pos (by simp; omega)]
      have := ih h.2
      rw [show p - (a + 1) = 0 by omega, drop_zero] at this
      rw [this]
    · rw [filter_cons, if_neg (by simp; omega), ih h.2]
      rw [show p - a = (p - (a + 1)) + 1 by omega, drop_succ_cons]

theorem Consec.filter_lt {a : Nat} {l : List Tx} (h : Consec a l) (c : Nat) :
    l.filter (fun t => decide (t.index < (c : Int))) = l.take (c - a) := by
  induction l generalizing a with
  | nil => simp
  | cons t rest ih =>
    have ht := h.1
    by_cases hc : c ≤ a
    · have h0 : c - a = 0 := by omega
      rw [h0, take_zero, filter_cons, if_neg (by simp; omega)]
      have := ih h.2
      rw [show c - (a + 1) = 0 by omega, take_zero] at this
      exact this
    · rw [filter_cons, if_pos (by simp; omega), ih h.2]
      rw [show c - a = (c - (a + 1)) + 1 by omega, take_succ_cons]

theorem Consec.take {a : Nat} {l : List Tx} (h : Consec a l) (k : Nat) : Consec a (l.take k) := by
  induction l generalizing a k with
  | nil => simp [Consec]
  | cons t rest ih =>
    cases k with
    | zero => simp [Consec]
    | succ k => rw [take_succ_cons]; exact ⟨h.1, ih h.2 k⟩

/-- sorting commutes with a filter, on rows that the order tells apart -/
theorem isort_filter (l : List Tx) (p : Tx → Bool)
    (hinj : ∀ x ∈ l, ∀ y ∈ l, x.index = y.index → x = y) :
    isort txLe (l.filter p) = (isort txLe l).filter p := by
  apply Perm.eq_of_pairwise (le := fun a b => txLe a b = true)
  · intro a b ha hb h1 h2
    have ha' : a ∈ l := (mem_filter.1 ((mem_isort txLe).1 ha)).1
    have hb' : b ∈ l := (mem_isort txLe).1 (mem_filter.1 hb).1
    simp only [txLe, decide_eq_true_eq] at h1 h2
    exact hinj a ha' b hb' (by omega)
  · exact isort_pairwise txLe txLe_trans txLe_total _
  · exact (isort_pairwise txLe txLe_trans txLe_total _).filter p
  · exact (isort_perm _ _).trans ((isort_perm txLe l).filter p).symm

/-- on a complete queue and a non-negative pointer, the SQL window is the next `limit` queue entries
    from the pointer -/
theorem window_contig (q : List Tx) (eon : Int) (ptr limit : Nat) (hc : Contig q eon) :
    window q eon ptr limit = ((queueOf q eon).drop ptr).take limit := by
  unfold window
  have hsplit : q.filter (fun t => decide (t.eon = eon) && decide ((ptr : Int) ≤ t.index) &&
      decide (t.index < (ptr : Int) + (limit : Nat))) =
      ((q.filter (ofEon eon)).filter (fun t => decide (t.index < ((ptr + limit : Nat) : Int)))).filter
        (fun t => decide ((ptr : Int) ≤ t.index)) := by
    rw [filter_filter, filter_filter]
    apply filter_congr
    intro t _
    simp only [ofEon, Int.natCast_add]
    by_cases h1 : t.eon = eon <;> by_cases h2 : (ptr : Int) ≤ t.index <;>
      by_cases h3 : t.index < (ptr : Int) + (limit : Int) <;> simp [h1, h2, h3]
  rw [hsplit]
  have hinjQ := Consec.inj hc
  have hinj : ∀ x ∈ q.filter (ofEon eon), ∀ y ∈ q.filter (ofEon eon), x.index = y.index → x = y := by
    intro x hx y hy
    exact hinjQ x ((mem_isort txLe).2 hx) y ((mem_isort txLe).2 hy)
  have hinj2 : ∀ x ∈ (q.filter (ofEon eon)).filter (fun t => decide (t.index < ((ptr + limit : Nat) : Int))),
      ∀ y ∈ (q.filter (ofEon eon)).filter (fun t => decide (t.index < ((ptr + limit : Nat) : Int))),
      x.index = y.index → x = y := by
    intro x hx y hy
    exact hinj x (mem_filter.1 hx).1 y (mem_filter.1 hy).1
  rw [isort_filter _ _ hinj2, isort_filter _ _ hinj]
  show (((queueOf q eon).filter _).filter _).take limit = _
  rw [Consec.filter_lt hc (ptr + limit), Consec.filter_ge (Consec.take hc _) ptr]
  simp only [Nat.sub_zero]
  rw [drop_take, show ptr + limit - ptr = limit by omega, take_take, Nat.min_self]

/-! ### the result does not depend on the order in which the database holds the rows -/

theorem window_perm (q q' : List Tx) (hp : q ~ q') (hk : Keyed q) (eon ptr : Int) (limit : Nat) :
    window q eon ptr limit = window q' eon ptr limit := by
  unfold window
  congr 1
  apply Perm.eq_of_pairwise (le := fun a b => txLe a b = true)
  · intro a b ha hb h1 h2
    have ha' := mem_filter.1 ((mem_isort txLe).1 ha)
    have hb' := mem_filter.1 ((mem_isort txLe).1 hb)
    simp only [txLe, decide_eq_true_eq] at h1 h2
    have hae : a.eon = eon := by
      have := ha'.2; simp only [Bool.and_eq_true, decide_eq_true_eq] at this; exact this.1.1
    have hbe : b.eon = eon := by
      have := hb'.2; simp only [Bool.and_eq_true, decide_eq_true_eq] at this; exact this.1.1
    exact hk a ha'.1 b (hp.symm.subset hb'.1) (by omega) (by rw [hae, hbe])
  · exact isort_pairwise txLe txLe_trans txLe_total _
  · exact isort_pairwise txLe txLe_trans txLe_total _
  · exact (isort_perm _ _).trans ((hp.filter _).trans (isort_perm _ _).symm)

def maxStep (acc : Int) (t : Tx) : Int := if acc < t.index + 1 then t.index + 1 else acc

theorem eventCount_eq (q : List Tx) (eon : Int) :
    eventCount q eon = (q.filter (ofEon eon)).foldl maxStep 0 := rfl

theorem maxStep_comm (z : Int) (x y : Tx) : maxStep (maxStep z x) y = maxStep (maxStep z y) x := by
  unfold maxStep
  repeat' split
  all_goals omega

theorem eventCount_perm (q q' : List Tx) (hp : q ~ q') (eon : Int) : eventCount q eon = eventCount q' eon := by
  rw [eventCount_eq, eventCount_eq]
  exact Perm.foldl_eq' (hp.filter _) (fun x _ y _ z => maxStep_comm z x y) 0

theorem Consec.foldl_max {a : Nat} {l : List Tx} (h : Consec a l) :
    l.foldl maxStep (a : Int) = ((a + l.length : Nat) : Int) := by
  induction l generalizing a with
  | nil => simp
  | cons t rest ih =>
    rw [foldl_cons]
    have : maxStep (a : Int) t = ((a + 1 : Nat) : Int) := by
      unfold maxStep; rw [h.1]; split <;> omega
    rw [this, ih h.2, length_cons]
    congr 1; omega

/-- on a complete queue the event count is the queue length -/
theorem eventCount_contig (q : List Tx) (eon : Int) (hc : Contig q eon) :
    eventCount q eon = ((queueOf q eon).length : Int) := by
  rw [eventCount_eq]
  have hp : q.filter (ofEon eon) ~ queueOf q eon := (isort_perm _ _).symm
  rw [Perm.foldl_eq' hp (fun x _ y _ z => maxStep_comm z x y) 0]
  have := Consec.foldl_max hc
  simpa using this

/-! ### the pointer table -/

theorem getTxPointer_queue (cfg : Cfg) (s : State) (e : Int) : (getTxPointer cfg s e).2.queue = s.queue := by
  unfold getTxPointer
  cases s.ptrs.get? e with
  | none => rfl
  | some p => simp only []; split <;> rfl

theorem trigger_ptrs (cfg : Cfg) (s : State) (eE eK : Int) (slot : Nat) :
    (trigger cfg s eE eK slot).2.ptrs = (getTxPointer cfg s eE).2.ptrs := by
  unfold trigger
  generalize getTxPointer cfg s eE = r
  obtain ⟨ptr, s1⟩ := r
  simp only []
  cases identities cfg s1.queue eK ptr slot <;> rfl

theorem trigger_fst (cfg : Cfg) (s : State) (eE eK : Int) (slot : Nat) :
    (trigger cfg s eE eK slot).1 =
      (identities cfg s.queue eK (getTxPointer cfg s eE).1 slot).map (fun ids => ((getTxPointer cfg s eE).1, ids)) := by
  unfold trigger
  have hq := getTxPointer_queue cfg s eE
  generalize getTxPointer cfg s eE = r at hq
  obtain ⟨ptr, s1⟩ := r
  simp only [] at hq ⊢
  rw [hq]
  cases identities cfg s.queue eK ptr slot <;> rfl

theorem get?_map_age (m : AMap Int Ptr) (e : Int) :
    AMap.get? (m.map (fun x => (x.1, { x.2 with age := none }))) e =
      (AMap.get? m e).map (fun p => { p with age := none }) := by
  induction m with
  | nil => rfl
  | cons x rest ih =>
    obtain ⟨k, v⟩ := x
    simp only [map_cons, AMap.get?]
    by_cases h : k = e
    · simp [h]
    · simp [h, ih]

end Shutter.GnosisSlot
