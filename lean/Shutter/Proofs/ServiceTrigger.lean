/-
C02 helper lemmas.
-/
import Shutter.Model.ServiceTrigger
import Shutter.Proofs.Sort

namespace Shutter.ServiceTrigger
open List Shutter.Sort

/-! ### `latestEon` -/

theorem latestEon_fold_spec (c : Int) (l : List EonRow) (acc : Option EonRow)
    (hacc : ∀ a, acc = some a → a.config = c) :
    (∀ e, l.foldl (fun acc e => if e.config = c then
        (match acc with
         | none => some e
         | some a => if a.eon < e.eon then some e else some a)
      else acc) acc = some e →
      (e ∈ l ∨ acc = some e) ∧ e.config = c ∧ (∀ e' ∈ l, e'.config = c → e'.eon ≤ e.eon) ∧
        (∀ a, acc = some a → a.eon ≤ e.eon)) := by
  induction l generalizing acc with
  | nil =>
    intro e h
    simp only [foldl_nil] at h
    exact ⟨Or.inr h, hacc e h, by simp, fun a ha => by rw [h] at ha; cases ha; exact Int.le_refl _⟩
  | cons x rest ih =>
    intro e h
    rw [foldl_cons] at h
    by_cases hx : x.config = c
    · rw [if_pos hx] at h
      cases acc with
      | none =>
        simp only [] at h
        obtain ⟨h1, h2, h3, h4⟩ := ih (some x) (fun a ha => by cases ha; exact hx) e h
        refine ⟨?_, h2, ?_, by simp⟩
        · rcases h1 with h1 | h1
          · exact Or.inl (mem_cons_of_mem _ h1)
          · cases h1; exact Or.inl mem_cons_self
        · intro e' he' hc
          rcases mem_cons.1 he' with rfl | he'
          · exact h4 _ rfl
          · exact h3 e' he' hc
      | some a =>
        simp only [] at h
        by_cases hlt : a.eon < x.eon
        · rw [if_pos hlt] at h
          obtain ⟨h1, h2, h3, h4⟩ := ih (some x) (fun b hb => by cases hb; exact hx) e h
          refine ⟨?_, h2, ?_, ?_⟩
          · rcases h1 with h1 | h1
            · exact Or.inl (mem_cons_of_mem _ h1)
            · cases h1; exact Or.inl mem_cons_self
          · intro e' he' hc
            rcases mem_cons.1 he' with rfl | he'
            · exact h4 _ rfl
            · exact h3 e' he' hc
          · intro b hb; cases hb
            have := h4 x rfl; omega
        · rw [if_neg hlt] at h
          obtain ⟨h1, h2, h3, h4⟩ := ih (some a) hacc e h
          refine ⟨?_, h2, ?_, h4⟩
          · rcases h1 with h1 | h1
            · exact Or.inl (mem_cons_of_mem _ h1)
            · exact Or.inr h1
          · intro e' he' hc
            rcases mem_cons.1 he' with rfl | he'
            · have := h4 a rfl; omega
            · exact h3 e' he' hc
    · rw [if_neg hx] at h
      obtain ⟨h1, h2, h3, h4⟩ := ih acc hacc e h
      refine ⟨?_, h2, ?_, h4⟩
      · rcases h1 with h1 | h1
        · exact Or.inl (mem_cons_of_mem _ h1)
        · exact Or.inr h1
      · intro e' he' hc
        rcases mem_cons.1 he' with rfl | he'
        · exact absurd hc hx
        · exact h3 e' he' hc

theorem latestEon_spec (eons : List EonRow) (c : Int) (e : EonRow) (h : latestEon eons c = some e) :
    e ∈ eons ∧ e.config = c ∧ ∀ e' ∈ eons, e'.config = c → e'.eon ≤ e.eon := by
  obtain ⟨h1, h2, h3, _⟩ := latestEon_fold_spec c eons none (by simp) e h
  rcases h1 with h1 | h1
  · exact ⟨h1, h2, h3⟩
  · cases h1

/-- what `resolveDecryptableEon` guarantees -/
theorem resolve_spec (s : State) (c : Int) (e : EonRow) (h : resolve s c = some e) :
    e ∈ s.eons ∧ e.config = c ∧ (∀ e' ∈ s.eons, e'.config = c → e'.eon ≤ e.eon) ∧
      (∃ cfg ∈ s.configs, cfg.config = wrap32 c ∧ cfg.member = true) ∧
      (∃ d ∈ s.dkgs, d.eon = e.eon ∧ d.success = true) := by
  unfold resolve at h
  cases hl : latestEon s.eons c with
  | none => simp [hl] at h
  | some e0 =>
    simp only [hl] at h
    cases hc : s.configs.find? (fun r => r.config = wrap32 c) with
    | none => simp [hc] at h
    | some cfg =>
      simp only [hc] at h
      by_cases hm : cfg.member = true
      · simp only [hm, Bool.not_true, Bool.false_eq_true, if_false] at h
        cases hd : s.dkgs.find? (fun r => r.eon = e0.eon) with
        | none => simp [hd] at h
        | some d =>
          simp only [hd] at h
          by_cases hs : d.success = true
          · rw [if_pos hs] at h
            injection h with h
            subst h
            obtain ⟨h1, h2, h3⟩ := latestEon_spec s.eons c e0 hl
            refine ⟨h1, h2, h3, ⟨cfg, mem_of_find?_eq_some hc, ?_, hm⟩, ⟨d, mem_of_find?_eq_some hd, ?_, hs⟩⟩
            · have := find?_some hc; simpa using this
            · have := find?_some hd; simpa using this
          · rw [if_neg hs] at h; cases h
      · have : cfg.member = false := by cases hh : cfg.member <;> simp_all
        simp [this] at h

/-! ### grouping -/

theorem mem_firsts {α : Type} (f : α → Int) (l : List α) (x : Int) : x ∈ firsts f l → ∃ a ∈ l, f a = x := by
  induction l with
  | nil => simp [firsts]
  | cons a rest ih =>
    intro h
    simp only [firsts, mem_cons] at h
    rcases h with rfl | h
    · exact ⟨a, mem_cons_self, rfl⟩
    · obtain ⟨b, hb, e⟩ := ih (mem_filter.1 h).1
      exact ⟨b, mem_cons_of_mem _ hb, e⟩

theorem nodup_map_of_inj_on {α β : Type} (f : α → β) (l : List α) (hn : l.Nodup)
    (hinj : ∀ a ∈ l, ∀ b ∈ l, f a = f b → a = b) : (l.map f).Nodup := by
  induction l with
  | nil => simp
  | cons x rest ih =>
    rw [nodup_cons] at hn
    rw [map_cons, nodup_cons]
    refine ⟨?_, ih hn.2 (fun a ha b hb => hinj a (mem_cons_of_mem _ ha) b (mem_cons_of_mem _ hb))⟩
    intro hmem
    obtain ⟨y, hy, e⟩ := mem_map.1 hmem
    have := hinj y (mem_cons_of_mem _ hy) x mem_cons_self e
    subst this
    exact hn.1 hy

/-- a trigger of `groupTime` comes from one keyper set: its identities are those of the usable rows of
    that set -/
theorem groupTime_spec (s : State) (rows : List Reg) (t : Trigger) (ht : t ∈ groupTime s rows) :
    ∃ c e, resolve s c = some e ∧ t.block = e.activation ∧
      t.ids = sortIds (((rows.filter (fun r => (resolve s r.eon).isSome)).filter (fun r => r.eon = c)).map (·.identity)) := by
  unfold groupTime at ht
  simp only [mem_filterMap] at ht
  obtain ⟨c, _, hc⟩ := ht
  cases hr : resolve s c with
  | none => simp [hr] at hc
  | some e =>
    simp only [hr, Option.some.injEq] at hc
    exact ⟨c, e, hr, by rw [← hc], by rw [← hc]⟩

theorem eventTriggers_spec (s : State) (t : Trigger) (ht : t ∈ eventTriggers s) :
    ∃ c e, resolve s c = some e ∧ t.block = e.activation ∧
      t.ids = sortIds (((undecryptedFired s).filter (fun f => f.eon = c)).map (·.identity)) := by
  unfold eventTriggers at ht
  simp only [mem_filterMap] at ht
  obtain ⟨c, _, hc⟩ := ht
  cases hr : resolve s c with
  | none => simp [hr] at hc
  | some e =>
    simp only [hr, Option.some.injEq] at hc
    exact ⟨c, e, hr, by rw [← hc], by rw [← hc]⟩

theorem mem_sortIds {a : Bytes} {l : List Bytes} : a ∈ sortIds l ↔ a ∈ l := (sortIds_perm l).mem_iff

theorem mem_due {s : State} {last now : Int} {r : Reg} :
    r ∈ due s last now ↔ r ∈ s.regs ∧ last ≤ r.timestamp ∧ r.timestamp ≤ now ∧ r.decrypted = false := by
  unfold due
  rw [mem_isort, mem_filter]
  simp only [Bool.and_eq_true, decide_eq_true_eq, Bool.not_eq_true']
  constructor
  · rintro ⟨h1, ⟨h2, h3⟩, h4⟩; exact ⟨h1, h2, h3, h4⟩
  · rintro ⟨h1, h2, h3, h4⟩; exact ⟨h1, ⟨h2, h3⟩, h4⟩

theorem timeTriggers_mem (s : State) (now number : Int) (t : Trigger) (h : t ∈ (timeTriggers s now number).2) :
    t ∈ groupTime s ((due s (s.mark.getD 0) now).filter (fun r => shouldTrigger s r now number)) := by
  unfold timeTriggers at h
  cases hm : s.mark with
  | none => simpa [hm] using h
  | some m =>
    simp only [hm] at h
    by_cases hle : now ≤ m
    · simp [hle] at h
    · simpa [hle] using h

theorem nodup_filter {α : Type} (p : α → Bool) {l : List α} (h : l.Nodup) : (l.filter p).Nodup :=
  h.sublist filter_sublist

/-! ### invariants through histories -/

/-- primary key of `identity_registered_event` -/
def KeyUnique (s : State) : Prop := s.regs.Pairwise (fun a b => a.key ≠ b.key)

theorem pairwise_map_key (l : List Reg) (f : Reg → Reg) (hf : ∀ r, (f r).key = r.key)
    (h : l.Pairwise (fun a b => a.key ≠ b.key)) : (l.map f).Pairwise (fun a b => a.key ≠ b.key) := by
  rw [pairwise_map]
  exact h.imp (fun {a b} hab => by rw [hf a, hf b]; exact hab)

theorem step_keyUnique (s : State) (op : Op) (h : KeyUnique s) : KeyUnique (step s op) := by
  unfold KeyUnique at *
  cases op with
  | block now number ev => simpa [step, onBlock] using h
  | register k e i t =>
    simp only [step, register]
    split
    · exact pairwise_map_key _ _ (fun r => by split <;> rfl) h
    · rename_i hno
      simp only [pairwise_append, pairwise_cons, Pairwise.nil, and_true, mem_singleton]
      refine ⟨h, by simp, ?_⟩
      intro a ha b hb
      subst hb
      intro hk
      apply hno
      simp only [any_eq_true, decide_eq_true_eq]
      exact ⟨a, ha, hk⟩
  | trigRegister e i => simp only [step, trigRegister]; split <;> exact h
  | fire e i => simp only [step, fire]; split <;> exact h
  | released e ids => exact pairwise_map_key _ _ (fun r => by split <;> rfl) h
  | restart => exact h
  | eonStart e => exact h
  | dkgResult r => exact h
  | config r => exact h

/-- rows with this key are all decrypted -/
def KeyDone (k : Nat) (s : State) : Prop := ∀ r ∈ s.regs, r.key = k → r.decrypted = true

theorem step_keyDone (k : Nat) (s : State) (op : Op) (h : KeyDone k s) (hne : ∃ r ∈ s.regs, r.key = k) :
    KeyDone k (step s op) ∧ ∃ r ∈ (step s op).regs, r.key = k := by
  obtain ⟨r0, hr0, hk0⟩ := hne
  cases op with
  | block now number ev => exact ⟨by simpa [step, onBlock, KeyDone] using h, ⟨r0, by simpa [step, onBlock] using hr0, hk0⟩⟩
  | register k' e i t =>
    simp only [step, register]
    split
    · refine ⟨?_, ?_⟩
      · intro r hr hk
        obtain ⟨r1, hr1, e1⟩ := mem_map.1 hr
        by_cases hkk : r1.key = k'
        · rw [if_pos hkk] at e1
          subst e1
          exact h r1 hr1 hk
        · rw [if_neg hkk] at e1
          subst e1
          exact h r1 hr1 hk
      · refine ⟨if r0.key = k' then { r0 with identity := i, timestamp := t } else r0, mem_map.2 ⟨r0, hr0, rfl⟩, ?_⟩
        split <;> exact hk0
    · rename_i hno
      refine ⟨?_, ⟨r0, mem_append_left _ hr0, hk0⟩⟩
      intro r hr hk
      rcases mem_append.1 hr with hr | hr
      · exact h r hr hk
      · simp only [mem_singleton] at hr
        subst hr
        exfalso
        apply hno
        simp only [any_eq_true, decide_eq_true_eq]
        exact ⟨r0, hr0, by rw [hk0]; exact hk.symm⟩
  | trigRegister e i => simp only [step, trigRegister]; split <;> exact ⟨h, ⟨r0, hr0, hk0⟩⟩
  | fire e i => simp only [step, fire]; split <;> exact ⟨h, ⟨r0, hr0, hk0⟩⟩
  | released e ids =>
    simp only [step, released]
    refine ⟨?_, ?_⟩
    · intro r hr hk
      obtain ⟨r1, hr1, e1⟩ := mem_map.1 hr
      split at e1
      · subst e1; rfl
      · subst e1; exact h r1 hr1 hk
    · refine ⟨_, mem_map.2 ⟨r0, hr0, rfl⟩, ?_⟩
      split <;> exact hk0
  | restart => exact ⟨h, ⟨r0, hr0, hk0⟩⟩
  | eonStart e => exact ⟨h, ⟨r0, hr0, hk0⟩⟩
  | dkgResult r => exact ⟨h, ⟨r0, hr0, hk0⟩⟩
  | config r => exact ⟨h, ⟨r0, hr0, hk0⟩⟩

/-- some registration row of this (eon, identity) is marked decrypted -/
def TrigDone (eon : Int) (id : Bytes) (s : State) : Prop :=
  ∃ r ∈ s.trigRegs, r.eon = eon ∧ r.identity = id ∧ r.decrypted = true

theorem step_trigDone (eon : Int) (id : Bytes) (s : State) (op : Op) (h : TrigDone eon id s) :
    TrigDone eon id (step s op) := by
  obtain ⟨r, hr, h1, h2, h3⟩ := h
  cases op with
  | block now number ev => exact ⟨r, by simpa [step, onBlock] using hr, h1, h2, h3⟩
  | register k' e i t => simp only [step, register]; split <;> exact ⟨r, hr, h1, h2, h3⟩
  | trigRegister e i =>
    simp only [step, trigRegister]
    split
    · exact ⟨r, hr, h1, h2, h3⟩
    · exact ⟨r, mem_append_left _ hr, h1, h2, h3⟩
  | fire e i => simp only [step, fire]; split <;> exact ⟨r, hr, h1, h2, h3⟩
  | released e ids =>
    simp only [step, released]
    refine ⟨_, mem_map.2 ⟨r, hr, rfl⟩, ?_⟩
    split
    · exact ⟨h1, h2, rfl⟩
    · exact ⟨h1, h2, h3⟩
  | restart => exact ⟨r, hr, h1, h2, h3⟩
  | eonStart e => exact ⟨r, hr, h1, h2, h3⟩
  | dkgResult r' => exact ⟨r, hr, h1, h2, h3⟩
  | config r' => exact ⟨r, hr, h1, h2, h3⟩

/-- an invariant of the steps holds in every state a block is processed in -/
theorem emitted_inv (P : State → Prop) (hstep : ∀ s op, P s → P (step s op)) (s0 : State) (ops : List Op)
    (h0 : P s0) : ∀ x ∈ emitted s0 ops, P x.1 := by
  induction ops generalizing s0 with
  | nil => simp [emitted]
  | cons op rest ih =>
    intro x hx
    have hnext := ih (step s0 op) (hstep s0 op h0)
    cases op with
    | block now number ev =>
      simp only [emitted, mem_cons] at hx
      rcases hx with rfl | hx
      · exact h0
      · exact hnext x hx
    | register k e i t => exact hnext x (by simpa [emitted] using hx)
    | trigRegister e i => exact hnext x (by simpa [emitted] using hx)
    | fire e i => exact hnext x (by simpa [emitted] using hx)
    | released e ids => exact hnext x (by simpa [emitted] using hx)
    | restart => exact hnext x (by simpa [emitted] using hx)
    | eonStart e => exact hnext x (by simpa [emitted] using hx)
    | dkgResult r => exact hnext x (by simpa [emitted] using hx)
    | config r => exact hnext x (by simpa [emitted] using hx)

/-- every emitted entry is what `onBlock` gives for its state and block -/
theorem emitted_is_onBlock (s0 : State) (ops : List Op) :
    ∀ x ∈ emitted s0 ops, x.2.2.2.1 = (timeTriggers x.1 x.2.1 x.2.2.1).2 ∧
      (x.2.2.2.2 = eventTriggers x.1 ∨ x.2.2.2.2 = []) := by
  induction ops generalizing s0 with
  | nil => simp [emitted]
  | cons op rest ih =>
    intro x hx
    have hnext := ih (step s0 op)
    cases op with
    | block now number ev =>
      simp only [emitted, mem_cons] at hx
      rcases hx with rfl | hx
      · refine ⟨by simp [onBlock], ?_⟩
        cases ev <;> simp [onBlock]
      · exact hnext x hx
    | register k e i t => exact hnext x (by simpa [emitted] using hx)
    | trigRegister e i => exact hnext x (by simpa [emitted] using hx)
    | fire e i => exact hnext x (by simpa [emitted] using hx)
    | released e ids => exact hnext x (by simpa [emitted] using hx)
    | restart => exact hnext x (by simpa [emitted] using hx)
    | eonStart e => exact hnext x (by simpa [emitted] using hx)
    | dkgResult r => exact hnext x (by simpa [emitted] using hx)
    | config r => exact hnext x (by simpa [emitted] using hx)

end Shutter.ServiceTrigger
