/-
Round trip of the RLP byte layer of `Model/TriggerDef.lean`: decoding the encoding of any item tree returns
the tree and consumes exactly its bytes.  Core-only.
-/
import Shutter.Model.TriggerDef

namespace Shutter.TriggerDef
open List

/-! ### big-endian digits -/

/-- big-endian base-256 digits, no leading zero (specification of `natBytes`) -/
def be : Nat → Bytes
  | 0 => []
  | n + 1 => be ((n + 1) / 256) ++ [(n + 1) % 256]
decreasing_by omega

theorem be_zero : be 0 = [] := by rw [be]

theorem be_pos (n : Nat) (h : n ≠ 0) : be n = be (n / 256) ++ [n % 256] := by
  cases n with
  | zero => exact absurd rfl h
  | succ k => rw [be]

theorem go_eq (fuel n : Nat) (acc : Bytes) (h : n < fuel) : natBytes.go fuel n acc = be n ++ acc := by
  induction fuel generalizing n acc with
  | zero => omega
  | succ f ih =>
    unfold natBytes.go
    by_cases hn : n = 0
    · subst hn; simp [be_zero]
    · rw [if_neg hn, ih (n / 256) _ (by omega), be_pos n hn]
      simp

theorem natBytes_eq (n : Nat) : natBytes n = be n := by
  unfold natBytes
  rw [go_eq _ _ _ (by omega)]
  simp

theorem big_snoc (l : Bytes) (x : Nat) : bigOfBytes (l ++ [x]) = bigOfBytes l * 256 + x := by
  simp [bigOfBytes, foldl_append]

theorem big_be (n : Nat) : bigOfBytes (be n) = n := by
  induction n using Nat.strongRecOn with
  | _ n ih =>
    by_cases hn : n = 0
    · subst hn; simp [be_zero, bigOfBytes]
    · rw [be_pos n hn, big_snoc, ih (n / 256) (by omega)]
      omega

theorem be_ne_nil (n : Nat) (h : n ≠ 0) : be n ≠ [] := by
  rw [be_pos n h]; simp

theorem headD_append_of_ne_nil (l m : Bytes) (d : Nat) (h : l ≠ []) : (l ++ m).headD d = l.headD d := by
  cases l with
  | nil => exact absurd rfl h
  | cons a l => rfl

theorem be_head (n d : Nat) (h : n ≠ 0) : (be n).headD d ≠ 0 := by
  induction n using Nat.strongRecOn with
  | _ n ih =>
    rw [be_pos n h]
    by_cases hq : n / 256 = 0
    · rw [hq, be_zero]
      simp only [nil_append, headD_cons]
      omega
    · rw [headD_append_of_ne_nil _ _ _ (be_ne_nil _ hq)]
      exact ih (n / 256) (by omega) hq

theorem be_head_one (n : Nat) : (be n).headD 1 ≠ 0 := by
  by_cases h : n = 0
  · subst h; simp [be_zero]
  · exact be_head n 1 h

theorem be_length (k n : Nat) (h : n < 256 ^ k) : (be n).length ≤ k := by
  induction k generalizing n with
  | zero =>
    have : n = 0 := by simpa using h
    subst this; simp [be_zero]
  | succ k ih =>
    by_cases hn : n = 0
    · subst hn; simp [be_zero]
    · rw [be_pos n hn]
      have : n / 256 < 256 ^ k := by
        apply Nat.div_lt_of_lt_mul
        rw [Nat.pow_succ] at h
        omega
      have := ih (n / 256) this
      simp only [length_append, length_cons, length_nil]
      omega

theorem be_length_pos (n : Nat) (h : n ≠ 0) : 1 ≤ (be n).length := by
  rw [be_pos n h]; simp

/-! ### one item -/

theorem decodeItem_cons (f b : Nat) (rest : Bytes) :
    decodeItem (f + 1) (b :: rest) = decodeHead b rest (decodeItems f) := rfl
theorem decodeItems_nil (f : Nat) : decodeItems (f + 1) [] = some [] := rfl
theorem decodeItems_cons (f b : Nat) (rest : Bytes) :
    decodeItems (f + 1) (b :: rest) = decodeTail (b :: rest) (decodeItem f) (decodeItems f) := rfl

theorem longLen_ok (n : Nat) (h56 : 56 ≤ n) (tail : Bytes) :
    longLen? (be n).length (be n ++ tail) = some (n, tail) := by
  unfold longLen?
  rw [if_neg (by simp)]
  simp only [take_left, drop_left, big_be]
  rw [if_neg (be_head n 0 (by omega)), if_neg (by omega)]

theorem dec_short_str (sub : Bytes → Option (List Item)) (c : Nat) (s rest : Bytes) (h1 : 128 ≤ c) (h2 : c < 184)
    (hlen : s.length = c - 128) (hcanon : ¬ (c - 128 = 1 ∧ s.headD 0 < 128)) :
    decodeHead c (s ++ rest) sub = some (.str s, rest) := by
  unfold decodeHead
  rw [if_neg (by omega), if_pos h2]
  simp only [take_left' hlen, drop_left' hlen]
  rw [if_neg (by simp only [length_append]; omega), if_neg hcanon]

theorem dec_long_str (sub : Bytes → Option (List Item)) (s rest : Bytes) (h56 : 56 ≤ s.length)
    (hs : s.length < 256 ^ 8) :
    decodeHead (183 + (be s.length).length) (be s.length ++ (s ++ rest)) sub = some (.str s, rest) := by
  have hl8 := be_length 8 s.length hs
  have hl1 := be_length_pos s.length (by omega)
  unfold decodeHead
  rw [if_neg (by omega), if_neg (by omega), if_pos (by omega)]
  have : 183 + (be s.length).length - 183 = (be s.length).length := by omega
  rw [this, longLen_ok _ h56]
  simp only [take_left, drop_left]
  rw [if_neg (by simp)]

theorem dec_short_list (sub : Bytes → Option (List Item)) (c : Nat) (payload rest : Bytes) (items : List Item)
    (h1 : 192 ≤ c) (h2 : c < 248) (hlen : payload.length = c - 192) (hd : sub payload = some items) :
    decodeHead c (payload ++ rest) sub = some (.list items, rest) := by
  unfold decodeHead
  rw [if_neg (by omega), if_neg (by omega), if_neg (by omega), if_pos h2]
  simp only [take_left' hlen, drop_left' hlen, hd]
  rw [if_neg (by simp only [length_append]; omega)]

theorem dec_long_list (sub : Bytes → Option (List Item)) (payload rest : Bytes) (items : List Item)
    (h56 : 56 ≤ payload.length) (hd : sub payload = some items) :
    decodeHead (247 + (be payload.length).length) (be payload.length ++ (payload ++ rest)) sub
      = some (.list items, rest) := by
  have hl1 := be_length_pos payload.length (by omega)
  unfold decodeHead
  rw [if_neg (by omega), if_neg (by omega), if_neg (by omega), if_neg (by omega)]
  have : 247 + (be payload.length).length - 247 = (be payload.length).length := by omega
  rw [this, longLen_ok _ h56]
  simp only [take_left, drop_left, hd]
  rw [if_neg (by simp)]

/-! ### item trees -/

mutual
/-- every string in the tree is shorter than 2^64 bytes (any Go slice is) -/
def Item.small : Item → Prop
  | .str b => b.length < 256 ^ 8
  | .list is => Item.smalls is
def Item.smalls : List Item → Prop
  | [] => True
  | i :: is => i.small ∧ Item.smalls is
end

mutual
/-- fuel that suffices to decode the encoding of an item -/
def need : Item → Nat
  | .str _ => 1
  | .list is => 1 + needs is
def needs : List Item → Nat
  | [] => 1
  | i :: is => 1 + max (need i) (needs is)
end

theorem header_pos (base len : Nat) : 1 ≤ (header base len).length := by
  unfold header; split <;> simp

theorem enc_str (b : Bytes) :
    encodeItem (.str b) = (match b with
      | [x] => if x < 128 then [x] else header 128 1 ++ [x]
      | _ => header 128 b.length ++ b) := by
  match b with
  | [] => simp only [encodeItem]
  | [x] => simp only [encodeItem]
  | x :: y :: l => simp only [encodeItem]

theorem enc_list (is : List Item) :
    encodeItem (.list is) = header 192 (encodeItems is).length ++ encodeItems is := by
  rw [encodeItem]

theorem encs_nil : encodeItems [] = [] := by rw [encodeItems]
theorem encs_cons (i : Item) (is : List Item) : encodeItems (i :: is) = encodeItem i ++ encodeItems is := by
  rw [encodeItems]

theorem enc_pos (i : Item) : 1 ≤ (encodeItem i).length := by
  cases i with
  | str b =>
    rw [enc_str]
    split
    · split <;> simp
    · have := header_pos 128 b.length
      simp only [length_append]; omega
  | list is =>
    rw [enc_list]
    have := header_pos 192 (encodeItems is).length
    simp only [length_append]; omega

theorem enc_str_dec (sub : Bytes → Option (List Item)) (b rest : Bytes) (hs : b.length < 256 ^ 8) :
    ∃ c tail, encodeItem (.str b) ++ rest = c :: tail ∧ decodeHead c tail sub = some (.str b, rest) := by
  rw [enc_str]
  match b, hs with
  | [], _ =>
    refine ⟨128, rest, by simp [header], ?_⟩
    exact dec_short_str sub 128 [] rest (by omega) (by omega) (by simp) (by omega)
  | [x], _ =>
    by_cases hx : x < 128
    · refine ⟨x, rest, by simp [hx], ?_⟩
      unfold decodeHead
      rw [if_pos hx]
    · refine ⟨129, [x] ++ rest, by simp [hx, header], ?_⟩
      exact dec_short_str sub 129 [x] rest (by omega) (by omega) (by simp) (by simp; omega)
  | x :: y :: l, hs =>
    by_cases hl : (x :: y :: l).length < 56
    · have hl' : l.length + 1 + 1 < 56 := by simpa using hl
      refine ⟨128 + (x :: y :: l).length, (x :: y :: l) ++ rest, by simp [header, hl'], ?_⟩
      apply dec_short_str sub _ _ rest (by omega) (by omega) (by omega)
      simp only [length_cons]; omega
    · refine ⟨183 + (be (x :: y :: l).length).length, be (x :: y :: l).length ++ ((x :: y :: l) ++ rest), ?_, ?_⟩
      · simp only [header, if_neg hl, natBytes_eq]
        simp
      · exact dec_long_str sub _ rest (by omega) hs

theorem enc_list_dec (sub : Bytes → Option (List Item)) (is : List Item) (rest : Bytes)
    (hd : sub (encodeItems is) = some is) :
    ∃ c tail, encodeItem (.list is) ++ rest = c :: tail ∧ decodeHead c tail sub = some (.list is, rest) := by
  rw [enc_list]
  by_cases hl : (encodeItems is).length < 56
  · refine ⟨192 + (encodeItems is).length, encodeItems is ++ rest, by simp [header, hl], ?_⟩
    exact dec_short_list sub _ _ rest is (by omega) (by omega) (by omega) hd
  · refine ⟨247 + (be (encodeItems is).length).length,
      be (encodeItems is).length ++ (encodeItems is ++ rest), ?_, ?_⟩
    · simp only [header, if_neg hl, natBytes_eq]
      simp
    · exact dec_long_list sub _ rest is (by omega) hd

mutual
/-- **RLP round trip, one item**: decoding the encoding of an item, followed by anything, gives the item back
    and leaves exactly what followed. -/
theorem decodeItem_encode : (i : Item) → i.small → (fuel : Nat) → need i ≤ fuel → (rest : Bytes) →
    decodeItem fuel (encodeItem i ++ rest) = some (i, rest)
  | .str b, hs, fuel, hf, rest => by
    obtain ⟨f, rfl⟩ : ∃ f, fuel = f + 1 := ⟨fuel - 1, by rw [need] at hf; omega⟩
    obtain ⟨c, tail, he, hd⟩ := enc_str_dec (decodeItems f) b rest (by rw [Item.small] at hs; exact hs)
    rw [he, decodeItem_cons, hd]
  | .list is, hs, fuel, hf, rest => by
    obtain ⟨f, rfl⟩ : ∃ f, fuel = f + 1 := ⟨fuel - 1, by rw [need] at hf; omega⟩
    have hsub := decodeItems_encode is (by rw [Item.small] at hs; exact hs) f (by rw [need] at hf; omega)
    obtain ⟨c, tail, he, hd⟩ := enc_list_dec (decodeItems f) is rest hsub
    rw [he, decodeItem_cons, hd]
/-- **RLP round trip, a payload** -/
theorem decodeItems_encode : (is : List Item) → Item.smalls is → (fuel : Nat) → needs is ≤ fuel →
    decodeItems fuel (encodeItems is) = some is
  | [], _, fuel, hf => by
    obtain ⟨f, rfl⟩ : ∃ f, fuel = f + 1 := ⟨fuel - 1, by rw [needs] at hf; omega⟩
    rw [encs_nil, decodeItems_nil]
  | i :: is, hs, fuel, hf => by
    obtain ⟨f, rfl⟩ : ∃ f, fuel = f + 1 := ⟨fuel - 1, by rw [needs] at hf; omega⟩
    rw [Item.smalls] at hs
    rw [needs] at hf
    have h1 := decodeItem_encode i hs.1 f (by omega) (encodeItems is)
    have h2 := decodeItems_encode is hs.2 f (by omega)
    obtain ⟨c, tail, he⟩ : ∃ c tail, encodeItem i ++ encodeItems is = c :: tail := by
      have := enc_pos i
      cases hh : encodeItem i with
      | nil => rw [hh] at this; simp at this
      | cons c t => exact ⟨c, t ++ encodeItems is, rfl⟩
    rw [encs_cons, he, decodeItems_cons, ← he]
    unfold decodeTail
    rw [h1]
    simp only [h2]
end

mutual
theorem need_le : (i : Item) → need i ≤ 2 * (encodeItem i).length
  | .str b => by
    have := enc_pos (.str b)
    rw [need]; omega
  | .list is => by
    have := needs_le is
    have := header_pos 192 (encodeItems is).length
    rw [need, enc_list]
    simp only [length_append]; omega
theorem needs_le : (is : List Item) → needs is ≤ 2 * (encodeItems is).length + 1
  | [] => by rw [needs]; omega
  | i :: is => by
    have := need_le i
    have := needs_le is
    have := enc_pos i
    rw [needs, encs_cons]
    simp only [length_append]; omega
end

/-- **RLP round trip with the fuel `unmarshal` uses.** -/
theorem decode_encode (i : Item) (hs : i.small) :
    decodeItem (2 * (encodeItem i).length + 2) (encodeItem i) = some (i, []) := by
  have := decodeItem_encode i hs (2 * (encodeItem i).length + 2) (by have := need_le i; omega) []
  simpa using this

/-! ### typed layer ↔ items -/

theorem intOfItem_nat (m : Option Nat) (n : Nat) (hm : ∀ k, m = some k → n < 256 ^ k) :
    intOfItem? m (natItem n) = some n := by
  unfold natItem intOfItem?
  rw [natBytes_eq]
  simp only []
  rw [if_neg (be_head_one n)]
  cases m with
  | none => simp [big_be]
  | some k =>
    simp only []
    rw [if_pos (be_length k n (hm k rfl)), big_be]

theorem boolOfItem_bool (b : Bool) : boolOfItem? (boolItem b) = some b := by
  cases b <;> rfl

theorem op_roundtrip (op : Op) : Op.ofNat? op.toNat = some op := by cases op <;> rfl

theorem op_small (op : Op) : op.toNat < 256 ^ 8 := by cases op <;> decide

theorem valuePred_roundtrip (p : ValuePred) (hv : p.valid = true) : ValuePred.ofItem? p.toItem = some p := by
  obtain ⟨op, ia, ba⟩ := p
  unfold ValuePred.valid at hv
  simp only [Bool.and_eq_true, decide_eq_true_eq, all_eq_true] at hv
  obtain ⟨⟨hi, hb⟩, hnn⟩ := hv
  have hop := intOfItem_nat (some 8) op.toNat (by intro k hk; cases hk; exact op_small op)
  unfold ValuePred.toItem ValuePred.ofItem?
  simp only [cons_append, nil_append]
  cases op
  case bytesEq =>
    have hia : ia = [] := by simpa [Op.numIntArgs] using hi
    obtain ⟨b, hba⟩ : ∃ b, ba = [b] := by
      match ba, hb with
      | [b], _ => exact ⟨b, rfl⟩
    subst hia; subst hba
    simp only [map_nil, map_cons, nil_append, hop, op_roundtrip]
    rfl
  all_goals
    have hba : ba = [] := by simpa [Op.numByteArgs] using hb
    obtain ⟨a, hia⟩ : ∃ a, ia = [a] := by
      match ia, hi with
      | [a], _ => exact ⟨a, rfl⟩
    subst hba; subst hia
    have ha : 0 ≤ a := hnn a (by simp)
    have harg := intOfItem_nat none a.toNat (by intro k hk; cases hk)
    have : ((a.toNat : Nat) : Int) = a := Int.toNat_of_nonneg ha
    simp only [map_nil, map_cons, append_nil, hop, op_roundtrip, harg, Option.bind_eq_bind, Option.bind_some,
      Option.pure_def, Option.map_some, this]

theorem logPred_roundtrip (p : LogPred) (hv : p.valid = true) : LogPred.ofItem? p.toItem = some p := by
  obtain ⟨⟨dyn, off⟩, vp⟩ := p
  unfold LogPred.valid at hv
  simp only [Bool.and_eq_true] at hv
  obtain ⟨⟨hr, hp⟩, _⟩ := hv
  unfold ValueRef.valid at hr
  simp only [Bool.and_eq_true, decide_eq_true_eq] at hr
  have hoff := intOfItem_nat (some 8) off (by intro k hk; cases hk; have := hr.1; omega)
  unfold LogPred.toItem LogPred.ofItem?
  simp only [boolOfItem_bool, hoff, valuePred_roundtrip vp hp, Option.bind_eq_bind, Option.bind_some,
    Option.pure_def]

theorem mapOpt_map {α β : Type} (f : α → Option β) (g : β → α) (l : List β) (h : ∀ x ∈ l, f (g x) = some x) :
    mapOpt f (l.map g) = some l := by
  induction l with
  | nil => rfl
  | cons a l ih =>
    simp only [map_cons, mapOpt, h a mem_cons_self, ih (fun x hx => h x (mem_cons_of_mem _ hx))]

theorem valid_all (d : Definition) (h : d.valid = true) : ∀ p ∈ d.preds, p.valid = true := by
  unfold Definition.valid at h
  simp only [Bool.and_eq_true, all_eq_true] at h
  exact h.1

theorem definition_roundtrip (d : Definition) (hv : d.valid = true) (hc : d.contract.length = 20) :
    Definition.ofItem? d.toItem = some d := by
  unfold Definition.toItem Definition.ofItem?
  simp only []
  rw [if_neg (by simp [hc]), mapOpt_map _ _ _ (fun p hp => logPred_roundtrip p (valid_all d hv p hp))]
  rfl

/-! ### sizes -/

theorem smalls_of_all (is : List Item) (h : ∀ i ∈ is, i.small) : Item.smalls is := by
  induction is with
  | nil => rw [Item.smalls]; trivial
  | cons i is ih =>
    rw [Item.smalls]
    exact ⟨h i mem_cons_self, ih (fun x hx => h x (mem_cons_of_mem _ hx))⟩

theorem natItem_small (n : Nat) (h : n < 256 ^ 32) : (natItem n).small := by
  unfold natItem
  rw [Item.small, natBytes_eq]
  have := be_length 32 n h
  have : (32 : Nat) < 256 ^ 8 := by decide
  omega

theorem boolItem_small (b : Bool) : (boolItem b).small := by
  cases b <;> (unfold boolItem; rw [Item.small]; decide)

/-- a valid definition whose byte arguments are shorter than 2^64 bytes and whose integer arguments are 256-bit
    values is written as a small item tree -/
theorem definition_small (d : Definition) (hv : d.valid = true) (hc : d.contract.length = 20)
    (hb : ∀ p ∈ d.preds, ∀ b ∈ p.pred.byteArgs, b.length < 256 ^ 8)
    (hi : ∀ p ∈ d.preds, ∀ a ∈ p.pred.intArgs, a.toNat < 256 ^ 32) : d.toItem.small := by
  unfold Definition.toItem
  rw [Item.small, Item.smalls, Item.smalls, Item.smalls]
  refine ⟨by rw [Item.small, hc]; decide, ?_, trivial⟩
  rw [Item.small]
  apply smalls_of_all
  intro i hi'
  obtain ⟨p, hp, rfl⟩ := mem_map.1 hi'
  have hpv := valid_all d hv p hp
  unfold LogPred.valid at hpv
  simp only [Bool.and_eq_true] at hpv
  obtain ⟨⟨hr, _⟩, _⟩ := hpv
  unfold ValueRef.valid at hr
  simp only [Bool.and_eq_true, decide_eq_true_eq] at hr
  unfold LogPred.toItem
  rw [Item.small, Item.smalls, Item.smalls, Item.smalls]
  refine ⟨?_, ?_, trivial⟩
  · rw [Item.small, Item.smalls, Item.smalls, Item.smalls]
    refine ⟨boolItem_small _, natItem_small _ ?_, trivial⟩
    have : (4294967295 : Nat) < 256 ^ 32 := by decide
    omega
  · unfold ValuePred.toItem
    rw [Item.small]
    apply smalls_of_all
    intro j hj
    simp only [singleton_append, mem_cons, mem_append, mem_map] at hj
    rcases hj with (rfl | ⟨a, ha, rfl⟩) | ⟨b, hb', rfl⟩
    · apply natItem_small
      have := op_small p.pred.op
      have : (256 : Nat) ^ 8 < 256 ^ 32 := by decide
      omega
    · exact natItem_small _ (hi p hp a ha)
    · rw [Item.small]; exact hb p hp b hb'

end Shutter.TriggerDef
