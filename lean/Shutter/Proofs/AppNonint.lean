/-
C10 helper lemmas: refused transactions have no effect.

`setNonces` frame: no handler reads the executed-nonce set except the guard at the top of
`deliverTx` / `checkTx`; outsider transactions change nothing but that set.
-/
import Shutter.Proofs.AppEon

namespace Shutter.App
open Shutter Shutter.App.App

def App.setNonces (a : App) (ns : List (Addr × Nat)) : App := { a with nonces := ns }

@[simp] theorem setNonces_nonces (a : App) (ns : List (Addr × Nat)) : (a.setNonces ns).nonces = ns := rfl
@[simp] theorem setNonces_setNonces (a : App) (ns ns' : List (Addr × Nat)) :
    (a.setNonces ns).setNonces ns' = a.setNonces ns' := rfl
theorem setNonces_self (a : App) : a.setNonces a.nonces = a := rfl

/-! ### every payload handler commutes with replacing the nonce set -/

theorem deliverBlockSeen_setNonces (a : App) (ns : List (Addr × Nat)) (s : Addr) (b : Nat) :
    (a.setNonces ns).deliverBlockSeen s b =
      (((a.deliverBlockSeen s b).1).setNonces ns, (a.deliverBlockSeen s b).2) := by
  unfold deliverBlockSeen App.setNonces App.isKeyper
  simp only
  repeat' split
  all_goals rfl

theorem deliverCheckIn_setNonces (a : App) (ns : List (Addr × Nat)) (s : Addr) (k : Raw) (ok : Bool)
    (e : Blob) :
    (a.setNonces ns).deliverCheckIn s k ok e =
      (((a.deliverCheckIn s k ok e).1).setNonces ns, (a.deliverCheckIn s k ok e).2) := by
  unfold deliverCheckIn App.setNonces App.isKeyper App.checkInForkActive
  simp only
  repeat' split
  all_goals rfl

theorem deliverPolyEval_setNonces (a : App) (ns : List (Addr × Nat)) (s : Addr) (eon : Nat)
    (rs : List Raw) (n : Nat) (e : Blob) :
    (a.setNonces ns).deliverPolyEval s eon rs n e =
      (((a.deliverPolyEval s eon rs n e).1).setNonces ns, (a.deliverPolyEval s eon rs n e).2) := by
  unfold deliverPolyEval App.setNonces applyReg
  simp only
  repeat' split
  all_goals rfl

theorem deliverPolyCommitment_setNonces (a : App) (ns : List (Addr × Nat)) (s : Addr) (eon : Nat)
    (ok : Bool) (g : Blob) :
    (a.setNonces ns).deliverPolyCommitment s eon ok g =
      (((a.deliverPolyCommitment s eon ok g).1).setNonces ns, (a.deliverPolyCommitment s eon ok g).2) := by
  unfold deliverPolyCommitment App.setNonces applyReg
  simp only
  repeat' split
  all_goals rfl

theorem deliverAccusation_setNonces (a : App) (ns : List (Addr × Nat)) (s : Addr) (eon : Nat)
    (as : List Raw) :
    (a.setNonces ns).deliverAccusation s eon as =
      (((a.deliverAccusation s eon as).1).setNonces ns, (a.deliverAccusation s eon as).2) := by
  unfold deliverAccusation App.setNonces applyReg
  simp only
  repeat' split
  all_goals rfl

theorem deliverApology_setNonces (a : App) (ns : List (Addr × Nat)) (s : Addr) (eon : Nat)
    (as : List Raw) (n : Nat) (e : Blob) :
    (a.setNonces ns).deliverApology s eon as n e =
      (((a.deliverApology s eon as n e).1).setNonces ns, (a.deliverApology s eon as n e).2) := by
  unfold deliverApology App.setNonces applyReg
  simp only
  repeat' split
  all_goals rfl

theorem deliverBatchConfig_setNonces (o : Order) (a : App) (ns : List (Addr × Nat)) (s : Addr)
    (act thr idx : Nat) (ks : List Raw) :
    (a.setNonces ns).deliverBatchConfig o s act thr idx ks =
      (((a.deliverBatchConfig o s act thr idx ks).1).setNonces ns,
        (a.deliverBatchConfig o s act thr idx ks).2) := by
  unfold deliverBatchConfig App.setNonces App.lastConfig App.checkConfig App.lastConfig
    App.updateCheckTxMembers App.startDKG
  simp only
  repeat' split
  all_goals rfl

theorem maybeStartEon_setNonces (o : Order) (a : App) (ns : List (Addr × Nat)) (eon : Nat) :
    (a.setNonces ns).maybeStartEon o eon =
      (((a.maybeStartEon o eon).1).setNonces ns, (a.maybeStartEon o eon).2) := by
  unfold App.maybeStartEon App.setNonces App.startDKG
  simp only
  repeat' split
  all_goals rfl

theorem deliverDKGResult_setNonces (o : Order) (a : App) (ns : List (Addr × Nat)) (s : Addr)
    (eon : Nat) (success : Bool) :
    (a.setNonces ns).deliverDKGResult o s eon success =
      (((a.deliverDKGResult o s eon success).1).setNonces ns,
        (a.deliverDKGResult o s eon success).2) := by
  unfold deliverDKGResult
  have hd : (a.setNonces ns).dkgs = a.dkgs := rfl
  rw [hd]
  cases a.dkgs.get? eon with
  | none => rfl
  | some dkg =>
    simp only
    split
    · rfl
    · cases dkg.success.addVote s success with
      | none => rfl
      | some voting =>
        simp only
        have e1 : ({ (a.setNonces ns) with dkgs := a.dkgs.insert eon { dkg with success := voting } } : App) =
            App.setNonces { a with dkgs := a.dkgs.insert eon { dkg with success := voting } } ns := rfl
        rw [e1, maybeStartEon_setNonces]
        generalize App.maybeStartEon o
          { a with dkgs := a.dkgs.insert eon { dkg with success := voting } } eon = r
        obtain ⟨a', d⟩ := r
        cases d <;> rfl

theorem deliverMessage_setNonces (o : Order) (a : App) (ns : List (Addr × Nat)) (s : Addr) (p : Payload) :
    (a.setNonces ns).deliverMessage o s p =
      (((a.deliverMessage o s p).1).setNonces ns, (a.deliverMessage o s p).2) := by
  cases p with
  | batchConfig act thr idx ks => exact deliverBatchConfig_setNonces o a ns s act thr idx ks
  | blockSeen b => exact deliverBlockSeen_setNonces a ns s b
  | checkIn k ok e => exact deliverCheckIn_setNonces a ns s k ok e
  | dkgResult eon su => exact deliverDKGResult_setNonces o a ns s eon su
  | polyEval eon rs n e => exact deliverPolyEval_setNonces a ns s eon rs n e
  | polyCommitment eon ok g => exact deliverPolyCommitment_setNonces a ns s eon ok g
  | accusation eon as => exact deliverAccusation_setNonces a ns s eon as
  | apology eon as n e => exact deliverApology_setNonces a ns s eon as n e
  | none => rfl

theorem endBlock_setNonces (o : Order) (a : App) (ns : List (Addr × Nat)) (h : Int) :
    (a.setNonces ns).endBlock o h = (((a.endBlock o h).1).setNonces ns, (a.endBlock o h).2) := by
  have hl : ∀ (i : Nat) (done rest : List BatchConfig) (evs : List Event),
      endBlockLoop (a.setNonces ns) i done rest evs = endBlockLoop a i done rest evs := by
    intro i done rest evs
    induction rest generalizing i done evs with
    | nil => rfl
    | cons c rest ih =>
      simp only [endBlockLoop]
      have : endBlockStep (a.setNonces ns) (done ++ c :: rest) i c = endBlockStep a (done ++ c :: rest) i c := rfl
      rw [this]
      exact ih _ _ _
  unfold endBlock
  simp only
  have e1 : (a.setNonces ns).configs = a.configs := rfl
  rw [e1, hl]
  rfl

theorem commit_setNonces (a : App) (ns : List (Addr × Nat)) :
    (a.setNonces ns).commit = (a.commit).setNonces ns := rfl

theorem beginBlock_setNonces (a : App) (ns : List (Addr × Nat)) (h : Int) :
    (a.setNonces ns).beginBlock h = a.beginBlock h := rfl

/-! ### states that agree except on the executed nonces of one sender -/

/-- `b` is `a` with a different nonce set that agrees with `a`'s on every sender but `s` -/
def AgreeBut (s : Addr) (a b : App) : Prop :=
  ∃ nb, b = a.setNonces nb ∧
    ∀ (x : Addr) (n : Nat), x ≠ s → (a.nonces.contains (x, n) = nb.contains (x, n))

theorem AgreeBut.refl (s : Addr) (a : App) : AgreeBut s a a := ⟨a.nonces, rfl, fun _ _ _ => rfl⟩

/-- the signer of a transaction, if it decodes -/
def Tx.signer? : Tx → Option Addr
  | .undecodable => none
  | .msg s _ _ _ => some s

def Op.signer? : Op → Option Addr
  | .deliver tx => tx.signer?
  | .check tx => tx.signer?
  | _ => none

theorem contains_append_pair (l : List (Addr × Nat)) (p q : Addr × Nat) :
    (l ++ [p]).contains q = (l.contains q || decide (q = p)) := by
  simp [List.contains_iff_mem, List.elem_eq_mem]

theorem deliverTx_agree (o : Order) (s : Addr) (a b : App) (h : AgreeBut s a b) (tx : Tx)
    (hs : tx.signer? ≠ some s) :
    (a.deliverTx o tx).2 = (b.deliverTx o tx).2 ∧
    AgreeBut s (a.deliverTx o tx).1 (b.deliverTx o tx).1 := by
  obtain ⟨nb, rfl, hoth⟩ := h
  cases tx with
  | undecodable => exact ⟨rfl, nb, rfl, hoth⟩
  | msg signer chain nonce p =>
    have hne : signer ≠ s := by intro e; apply hs; rw [e]; rfl
    have hc := hoth signer nonce hne
    have key : ∀ (x : App), x.deliverTx o (.msg signer chain nonce p) =
        (if chain ≠ x.chainId then (x, errResp)
         else if x.nonces.contains (signer, nonce) then (x, errResp)
         else App.deliverMessage o { x with nonces := x.nonces ++ [(signer, nonce)] } signer p) :=
      fun _ => rfl
    rw [key a, key (a.setNonces nb)]
    have hchain : (a.setNonces nb).chainId = a.chainId := rfl
    rw [hchain, setNonces_nonces, ← hc]
    by_cases hch : chain ≠ a.chainId
    · rw [if_pos hch, if_pos hch]; exact ⟨rfl, nb, rfl, hoth⟩
    · rw [if_neg hch, if_neg hch]
      cases hcon : a.nonces.contains (signer, nonce) with
      | true => rw [if_pos rfl, if_pos rfl]; exact ⟨rfl, nb, rfl, hoth⟩
      | false =>
        have hf : ¬ (false = true) := by decide
        rw [if_neg hf, if_neg hf]
        show (App.deliverMessage o { a with nonces := a.nonces ++ [(signer, nonce)] } signer p).2 =
            (App.deliverMessage o (App.setNonces { a with nonces := a.nonces ++ [(signer, nonce)] }
              (nb ++ [(signer, nonce)])) signer p).2 ∧
          AgreeBut s (App.deliverMessage o { a with nonces := a.nonces ++ [(signer, nonce)] } signer p).1
            (App.deliverMessage o (App.setNonces { a with nonces := a.nonces ++ [(signer, nonce)] }
              (nb ++ [(signer, nonce)])) signer p).1
        rw [deliverMessage_setNonces]
        refine ⟨rfl, nb ++ [(signer, nonce)], rfl, ?_⟩
        intro x n hx
        rw [deliverMessage_nonces]
        simp only [contains_append_pair, hoth x n hx]

theorem checkTx_agree (s : Addr) (a b : App) (h : AgreeBut s a b) (tx : Tx)
    (hs : tx.signer? ≠ some s) :
    (a.checkTxOp tx).2 = (b.checkTxOp tx).2 ∧ AgreeBut s (a.checkTxOp tx).1 (b.checkTxOp tx).1 := by
  obtain ⟨nb, rfl, hoth⟩ := h
  cases tx with
  | undecodable => exact ⟨rfl, nb, rfl, hoth⟩
  | msg signer chain nonce p =>
    have hne : signer ≠ s := by intro e; apply hs; rw [e]; rfl
    have hc := hoth signer nonce hne
    unfold checkTxOp
    have hchain : (a.setNonces nb).chainId = a.chainId := rfl
    have hck : (a.setNonces nb).checkTx = a.checkTx := rfl
    simp only [hchain, hck, setNonces_nonces, ← hc]
    repeat' split
    all_goals exact ⟨rfl, nb, rfl, hoth⟩

theorem stepWith_agree (o : Order) (s : Addr) (a b : App) (h : AgreeBut s a b) (op : Op)
    (hs : op.signer? ≠ some s) :
    (a.stepWith o op).2 = (b.stepWith o op).2 ∧ AgreeBut s (a.stepWith o op).1 (b.stepWith o op).1 := by
  cases op with
  | begin ht =>
    obtain ⟨nb, rfl, hoth⟩ := h
    exact ⟨rfl, nb, rfl, hoth⟩
  | deliver tx =>
    have := deliverTx_agree o s a b h tx hs
    simp only [App.stepWith]
    exact ⟨by rw [this.1], this.2⟩
  | check tx =>
    have := checkTx_agree s a b h tx hs
    simp only [App.stepWith]
    exact ⟨by rw [this.1], this.2⟩
  | endBlock ht =>
    obtain ⟨nb, rfl, hoth⟩ := h
    simp only [App.stepWith]
    rw [endBlock_setNonces]
    refine ⟨rfl, nb, rfl, ?_⟩
    intro x n hx
    have hn : (a.endBlock o ht).1.nonces = a.nonces := by
      unfold endBlock; simp only
    rw [hn]; exact hoth x n hx
  | commit =>
    obtain ⟨nb, rfl, hoth⟩ := h
    exact ⟨rfl, nb, rfl, hoth⟩

/-- histories in which the sender `s` does not appear produce the same outputs from both states -/
theorem runWith_agree (s : Addr) (a b : App) (h : AgreeBut s a b) (ops : List (Order × Op))
    (hs : ∀ p ∈ ops, p.2.signer? ≠ some s) :
    (a.runWith ops).2 = (b.runWith ops).2 ∧ AgreeBut s (a.runWith ops).1 (b.runWith ops).1 := by
  induction ops generalizing a b with
  | nil => exact ⟨rfl, h⟩
  | cons p rest ih =>
    obtain ⟨o, op⟩ := p
    simp only [App.runWith]
    have hstep := stepWith_agree o s a b h op (hs (o, op) (by simp))
    have hrest := ih _ _ hstep.2 (fun p hp => hs p (List.mem_cons_of_mem _ hp))
    exact ⟨by rw [hstep.1, hrest.1], hrest.2⟩

end Shutter.App
