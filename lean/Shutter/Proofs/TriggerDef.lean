/-
C17 helper lemmas: matching is total (no slice access of log-controlled data can go out of range),
allocation is bounded by the log, and the derived filter.
-/
import Shutter.Model.TriggerDef

namespace Shutter.TriggerDef

/-! ### slices and reads are always in range -/

theorem slice_ok (data : Bytes) (a b : Nat) (h1 : a ≤ b) (h2 : b ≤ data.length) :
    slice data a b = .ok ((data.drop a).take (b - a)) := by
  simp [slice, h1, h2]

theorem readWord_ok (data : Bytes) (start : Nat) : ∃ w, readWord data start = .ok w ∧ w.length = word := by
  unfold readWord
  split
  · rename_i h
    rw [slice_ok data start data.length (Nat.le_of_lt h) (Nat.le_refl _)]
    refine ⟨_, rfl, ?_⟩
    simp only [copyInto, zeros, List.length_append, List.length_take, List.length_replicate,
      List.length_drop, Nat.sub_self, List.take_zero]
    omega
  · exact ⟨_, rfl, by simp [zeros, word]⟩

theorem fill_ok (data : Bytes) (start length : Nat) :
    ∃ v, fill data start length = .ok v ∧ v.alloc = length ∧ ∃ b, v.bytes = some b ∧ b.length = length := by
  unfold fill
  by_cases h : start < data.length
  · simp only [h, if_true]
    by_cases h2 : start + length < data.length
    · simp only [h2, if_true]
      rw [slice_ok data start (start + length) (by omega) (by omega)]
      refine ⟨_, rfl, rfl, _, rfl, ?_⟩
      simp only [copyInto, zeros, List.length_append, List.length_take, List.length_replicate,
        List.length_drop]
      omega
    · simp only [h2, if_false]
      rw [slice_ok data start data.length (by omega) (Nat.le_refl _)]
      refine ⟨_, rfl, rfl, _, rfl, ?_⟩
      simp only [copyInto, zeros, List.length_append, List.length_take, List.length_replicate,
        List.length_drop]
      omega
  · simp only [h, if_false]
    exact ⟨_, rfl, rfl, _, rfl, by simp [zeros]⟩

/-- **Reading a referenced value never goes out of range**, whatever the reference and the log, and the
    buffers allocated for it are bounded by the size of the log data (plus three words). -/
theorem getValue_ok (r : ValueRef) (log : Log) :
    ∃ v, getValue r log = .ok v ∧ v.alloc ≤ 3 * word + log.data.length := by
  unfold getValue
  split
  · cases log.topics[r.offset]? <;> exact ⟨_, rfl, by simp⟩
  · split
    · -- dynamic
      simp only
      obtain ⟨w, hw, _⟩ := readWord_ok log.data ((r.offset - 4) * word)
      rw [hw]
      simp only
      split
      · exact ⟨_, rfl, by simp only [word]; omega⟩
      · rename_i hoff
        obtain ⟨w2, hw2, _⟩ := readWord_ok log.data (bigOfBytes w)
        rw [hw2]
        simp only
        split
        · exact ⟨_, rfl, by simp only [word]; omega⟩
        · rename_i hlen
          obtain ⟨v, hv, hal, _⟩ := fill_ok log.data (bigOfBytes w + word) (bigOfBytes w2)
          rw [hv]
          refine ⟨_, rfl, ?_⟩
          simp only [hal]
          have : bigOfBytes w2 ≤ log.data.length := by omega
          simp only [word]; omega
    · -- static
      obtain ⟨v, hv, hal, _⟩ := fill_ok log.data ((r.offset - 4) * word) word
      exact ⟨v, hv, by rw [hal]; simp only [word]; omega⟩

/-! ### predicates with the right number of arguments never index out of range -/

theorem matchValue_ok (p : ValuePred) (h : p.valid = true) (v : Option Bytes) :
    ∃ b, p.matchValue v = .ok b := by
  unfold ValuePred.valid at h
  simp only [Bool.and_eq_true, decide_eq_true_eq] at h
  obtain ⟨⟨hi, hb⟩, _⟩ := h
  unfold ValuePred.matchValue
  cases hop : p.op
  case bytesEq =>
    simp only [hop, Op.numByteArgs] at hb
    cases hl : p.byteArgs with
    | nil => simp [hl] at hb
    | cons a rest => simp only [List.getElem?_cons_zero]; exact ⟨_, rfl⟩
  all_goals
    simp only [hop, Op.numIntArgs] at hi
    cases hl : p.intArgs with
    | nil => simp [hl] at hi
    | cons a rest => simp only [List.getElem?_cons_zero]; exact ⟨_, rfl⟩

theorem matchPreds_ok (ps : List LogPred) (h : ∀ p ∈ ps, p.valid = true) (log : Log) :
    ∃ b, matchPreds ps log = .ok b := by
  induction ps with
  | nil => exact ⟨true, rfl⟩
  | cons p rest ih =>
    simp only [matchPreds, LogPred.matchLog]
    obtain ⟨v, hv, _⟩ := getValue_ok p.ref log
    rw [hv]
    have hpv : p.pred.valid = true := by
      have := h p (by simp)
      unfold LogPred.valid at this
      simp only [Bool.and_eq_true] at this
      exact this.1.2
    obtain ⟨b, hb⟩ := matchValue_ok p.pred hpv v.bytes
    simp only [hb]
    cases b
    · exact ⟨false, rfl⟩
    · exact ih (fun q hq => h q (List.mem_cons_of_mem _ hq))

/-! ### what a true match says about each predicate -/

theorem matchPreds_true (ps : List LogPred) (log : Log) (h : matchPreds ps log = .ok true) :
    ∀ p ∈ ps, p.matchLog log = .ok true := by
  induction ps with
  | nil => intro p hp; cases hp
  | cons q rest ih =>
    simp only [matchPreds] at h
    cases hq : q.matchLog log with
    | oob => simp [hq] at h
    | ok b =>
      cases b with
      | false => simp [hq] at h
      | true =>
        simp only [hq] at h
        intro p hp
        rcases List.mem_cons.1 hp with rfl | hp'
        · exact hq
        · exact ih h p hp'

/-- a topic `BytesEq` predicate with a one-word argument that matches pins the topic -/
theorem topicEq_match (p : LogPred) (log : Log) (t : Bytes) (htop : p.ref.isTopic = true)
    (hop : p.pred.op = .bytesEq) (harg : p.pred.byteArgs[0]? = some t) (hlen : t.length = word)
    (hm : p.matchLog log = .ok true) : log.topics[p.ref.offset]? = some t := by
  unfold LogPred.matchLog getValue at hm
  simp only [htop, if_true] at hm
  cases htp : log.topics[p.ref.offset]? with
  | none =>
    simp only [htp, ValuePred.matchValue, hop, harg, Option.getD_none] at hm
    simp only [Access.ok.injEq, decide_eq_true_eq] at hm
    rw [← hm] at hlen; simp [word] at hlen
  | some x =>
    simp only [htp, ValuePred.matchValue, hop, harg, Option.getD_some] at hm
    simp only [Access.ok.injEq, decide_eq_true_eq] at hm
    rw [hm]

end Shutter.TriggerDef

namespace Shutter.TriggerDef

/-! ### the derived filter -/

def LogPred.isTopicEq (p : LogPred) : Bool := p.ref.isTopic && decide (p.pred.op = .bytesEq)

theorem getD_pad (l : List (List Bytes)) (k j : Nat) :
    (l ++ List.replicate k []).getD j [] = l.getD j [] := by
  simp only [List.getD_eq_getElem?_getD]
  by_cases hj : j < l.length
  · rw [List.getElem?_append_left hj]
  · rw [List.getElem?_append_right (by omega)]
    have : l[j]? = none := by simp; omega
    rw [this]
    by_cases h2 : j - l.length < k
    · simp [List.getElem?_replicate, h2]
    · simp [List.getElem?_replicate, h2]

theorem getD_set (l : List (List Bytes)) (i j : Nat) (v : List Bytes) (hi : i < l.length) :
    (l.set i v).getD j [] = if i = j then v else l.getD j [] := by
  simp only [List.getD_eq_getElem?_getD, List.getElem?_set]
  by_cases h : i = j
  · subst h; simp [hi]
  · simp [h]

/-- the padded length: `max len (i+1)` -/
theorem length_pad (l : List (List Bytes)) (i : Nat) :
    (l ++ List.replicate (i + 1 - l.length) []).length = max l.length (i + 1) := by
  simp only [List.length_append, List.length_replicate]; omega

/-- what `toFilterAux` returns, position by position, and how long it is -/
theorem toFilterAux_spec (ps : List LogPred) (topics ts : List (List Bytes))
    (h : toFilterAux ps topics = some ts) :
    (∀ i, ts.getD i [] = topics.getD i [] ∨
      ∃ p ∈ ps, p.isTopicEq = true ∧ p.ref.offset = i ∧
        ∃ t, p.pred.byteArgs[0]? = some t ∧ t.length = word ∧ ts.getD i [] = [t]) ∧
    topics.length ≤ ts.length ∧
    (ts.length = topics.length ∨ ∃ p ∈ ps, p.isTopicEq = true ∧ ts.length = p.ref.offset + 1 ∧
      ∃ t, p.pred.byteArgs[0]? = some t ∧ t.length = word) := by
  induction ps generalizing topics with
  | nil =>
    simp only [toFilterAux, Option.some.injEq] at h
    subst h
    exact ⟨fun i => Or.inl rfl, Nat.le_refl _, Or.inl rfl⟩
  | cons p rest ih =>
    simp only [toFilterAux] at h
    by_cases hte : (p.ref.isTopic && decide (p.pred.op = .bytesEq)) = true
    · simp only [hte, if_true] at h
      split at h
      · cases h
      · rename_i hempty
        cases harg : p.pred.byteArgs[0]? with
        | none => simp [harg] at h
        | some t =>
          simp only [harg] at h
          split at h
          · cases h
          · rename_i hlen
            have hlen' : t.length = word := by
              by_cases e : t.length = word
              · exact e
              · exact absurd e hlen
            have hpadlen := length_pad topics p.ref.offset
            have hi : p.ref.offset < (topics ++ List.replicate (p.ref.offset + 1 - topics.length) []).length := by
              rw [hpadlen]; omega
            obtain ⟨h1, h2, h3⟩ := ih _ h
            refine ⟨?_, ?_, ?_⟩
            · intro i
              rcases h1 i with e | ⟨q, hq, hqe, hqo, t', ht', hl', hts⟩
              · rw [getD_set _ _ _ _ hi, getD_pad] at e
                by_cases hio : p.ref.offset = i
                · right
                  simp only [hio, if_true] at e
                  exact ⟨p, by simp, hte, hio, t, harg, hlen', e⟩
                · simp only [hio, if_false] at e
                  left; exact e
              · right; exact ⟨q, List.mem_cons_of_mem _ hq, hqe, hqo, t', ht', hl', hts⟩
            · simp only [List.length_set] at h2
              rw [hpadlen] at h2; omega
            · simp only [List.length_set] at h3
              rw [hpadlen] at h3
              rcases h3 with e | ⟨q, hq, hqe, hql⟩
              · by_cases hle : p.ref.offset + 1 ≤ topics.length
                · left; omega
                · right; exact ⟨p, by simp, hte, by omega, t, harg, hlen'⟩
              · right; exact ⟨q, List.mem_cons_of_mem _ hq, hqe, hql⟩
    · simp only [hte, Bool.false_eq_true, if_false] at h
      obtain ⟨h1, h2, h3⟩ := ih _ h
      refine ⟨?_, h2, ?_⟩
      · intro i
        rcases h1 i with e | ⟨q, hq, r⟩
        · left; exact e
        · right; exact ⟨q, List.mem_cons_of_mem _ hq, r⟩
      · rcases h3 with e | ⟨q, hq, r⟩
        · left; exact e
        · right; exact ⟨q, List.mem_cons_of_mem _ hq, r⟩

/-- a filter exists for predicates whose topic-`BytesEq` arguments are one word each and whose topic
    positions are pairwise different and still free -/
theorem toFilterAux_exists (ps : List LogPred) (topics : List (List Bytes))
    (harg : ∀ p ∈ ps, p.isTopicEq = true → ∃ t, p.pred.byteArgs[0]? = some t ∧ t.length = word)
    (hnd : nodupNat (topicEqOffsets ps) = true)
    (hfree : ∀ i ∈ topicEqOffsets ps, topics.getD i [] = []) :
    ∃ ts, toFilterAux ps topics = some ts := by
  induction ps generalizing topics with
  | nil => exact ⟨topics, rfl⟩
  | cons p rest ih =>
    simp only [toFilterAux]
    by_cases hte : (p.ref.isTopic && decide (p.pred.op = .bytesEq)) = true
    · have hoffs : topicEqOffsets (p :: rest) = p.ref.offset :: topicEqOffsets rest := by
        simp [topicEqOffsets, List.filter_cons, hte]
      rw [hoffs] at hnd hfree
      simp only [nodupNat, Bool.and_eq_true, Bool.not_eq_true'] at hnd
      obtain ⟨t, ht, hl⟩ := harg p (by simp) hte
      have hpadlen := length_pad topics p.ref.offset
      have hi : p.ref.offset < (topics ++ List.replicate (p.ref.offset + 1 - topics.length) []).length := by
        rw [hpadlen]; omega
      have hfree0 : ((topics ++ List.replicate (p.ref.offset + 1 - topics.length) []).getD p.ref.offset []).length = 0 := by
        rw [getD_pad, hfree p.ref.offset (by simp)]; rfl
      simp only [hte, if_true, hfree0, ne_eq, not_true_eq_false, if_false, ht, hl]
      apply ih
      · intro q hq; exact harg q (List.mem_cons_of_mem _ hq)
      · exact hnd.2
      · intro i hi'
        rw [getD_set _ _ _ _ hi, getD_pad]
        have hne : p.ref.offset ≠ i := by
          intro e; subst e
          have := hnd.1
          simp [List.contains_iff_mem, List.elem_eq_mem] at this
          exact this hi'
        simp only [hne, if_false]
        exact hfree i (List.mem_cons_of_mem _ hi')
    · have hoffs : topicEqOffsets (p :: rest) = topicEqOffsets rest := by
        simp [topicEqOffsets, List.filter_cons, hte]
      rw [hoffs] at hnd hfree
      simp only [hte, Bool.false_eq_true, if_false]
      exact ih topics (fun q hq => harg q (List.mem_cons_of_mem _ hq)) hnd hfree

/-- go-ethereum's topic matching, from a pointwise description of the filter -/
theorem passesTopics_of (ts : List (List Bytes)) (lt : List Bytes) (hlen : ts.length ≤ lt.length)
    (h : ∀ i, i < ts.length → ts.getD i [] = [] ∨ ∃ t, ts.getD i [] = [t] ∧ lt[i]? = some t) :
    passesTopics ts lt = true := by
  induction ts generalizing lt with
  | nil => rfl
  | cons alts rest ih =>
    cases lt with
    | nil => simp at hlen
    | cons t lts =>
      simp only [passesTopics, Bool.and_eq_true, Bool.or_eq_true]
      constructor
      · rcases h 0 (by simp) with e | ⟨t', e, ht'⟩
        · left; simp only [List.getD_cons_zero] at e; simp [e]
        · right
          simp only [List.getD_cons_zero] at e
          simp only [List.getElem?_cons_zero, Option.some.injEq] at ht'
          simp [e, ht']
      · apply ih lts (by simpa using hlen)
        intro i hi
        have := h (i + 1) (by simp; omega)
        simpa using this

end Shutter.TriggerDef
