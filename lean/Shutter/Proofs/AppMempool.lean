/-
The mempool bookkeeping (`CheckTxState`) is written by block execution (member list, reset at commit) but
never read by it: every call of the block sequence commutes with replacing that bookkeeping.  Core-only.
-/
import Shutter.Model.App

namespace Shutter.Mempool
open Shutter Shutter.App Shutter.App.App

/-- the same node with another mempool view -/
def withCheck (a : App.App) (c : CheckTxState) : App.App := { a with checkTx := c }

@[simp] theorem withCheck_withCheck (a : App.App) (c c' : CheckTxState) : withCheck (withCheck a c) c' = withCheck a c' := rfl
@[simp] theorem withCheck_self (a : App.App) : withCheck a a.checkTx = a := rfl

theorem blockSeen_mem (a : App.App) (c : CheckTxState) (s : Addr) (b : Nat) :
    deliverBlockSeen (withCheck a c) s b = (withCheck (deliverBlockSeen a s b).1 c, (deliverBlockSeen a s b).2) := by
  unfold deliverBlockSeen withCheck isKeyper
  simp only []
  repeat (first | rfl | split)

theorem checkIn_mem (a : App.App) (c : CheckTxState) (s : Addr) (k : Raw) (ok : Bool) (e : Blob) :
    deliverCheckIn (withCheck a c) s k ok e = (withCheck (deliverCheckIn a s k ok e).1 c, (deliverCheckIn a s k ok e).2) := by
  unfold deliverCheckIn withCheck isKeyper checkInForkActive
  simp only []
  repeat (first | rfl | split)

theorem applyReg_mem (a : App.App) (c : CheckTxState) (eon : Nat) (r : Reg) (ev : Event) :
    applyReg (withCheck a c) eon r ev = (withCheck (applyReg a eon r ev).1 c, (applyReg a eon r ev).2) := by
  unfold applyReg withCheck
  cases r <;> rfl

theorem polyEval_mem (a : App.App) (c : CheckTxState) (s : Addr) (eon : Nat) (rs : List Raw) (n : Nat) (e : Blob) :
    deliverPolyEval (withCheck a c) s eon rs n e = (withCheck (deliverPolyEval a s eon rs n e).1 c, (deliverPolyEval a s eon rs n e).2) := by
  unfold deliverPolyEval
  have hd : (withCheck a c).dkgs = a.dkgs := rfl
  simp only [hd, applyReg_mem]
  repeat (first | rfl | split)

theorem polyCommitment_mem (a : App.App) (c : CheckTxState) (s : Addr) (eon : Nat) (ok : Bool) (g : Blob) :
    deliverPolyCommitment (withCheck a c) s eon ok g = (withCheck (deliverPolyCommitment a s eon ok g).1 c, (deliverPolyCommitment a s eon ok g).2) := by
  unfold deliverPolyCommitment
  have hd : (withCheck a c).dkgs = a.dkgs := rfl
  simp only [hd, applyReg_mem]
  repeat (first | rfl | split)

theorem accusation_mem (a : App.App) (c : CheckTxState) (s : Addr) (eon : Nat) (as : List Raw) :
    deliverAccusation (withCheck a c) s eon as = (withCheck (deliverAccusation a s eon as).1 c, (deliverAccusation a s eon as).2) := by
  unfold deliverAccusation
  have hd : (withCheck a c).dkgs = a.dkgs := rfl
  simp only [hd, applyReg_mem]
  repeat (first | rfl | split)

theorem apology_mem (a : App.App) (c : CheckTxState) (s : Addr) (eon : Nat) (as : List Raw) (n : Nat) (e : Blob) :
    deliverApology (withCheck a c) s eon as n e = (withCheck (deliverApology a s eon as n e).1 c, (deliverApology a s eon as n e).2) := by
  unfold deliverApology
  have hd : (withCheck a c).dkgs = a.dkgs := rfl
  simp only [hd, applyReg_mem]
  repeat (first | rfl | split)

theorem startDKG_mem (a : App.App) (c : CheckTxState) (cfg : BatchConfig) :
    startDKG (withCheck a c) cfg = (withCheck (startDKG a cfg).1 c, (startDKG a cfg).2) := rfl

theorem maybeStartEon_mem (o : Order) (a : App.App) (c : CheckTxState) (eon : Nat) :
    maybeStartEon o (withCheck a c) eon = (withCheck (maybeStartEon o a eon).1 c, (maybeStartEon o a eon).2) := by
  unfold maybeStartEon
  have hd : (withCheck a c).dkgs = a.dkgs := rfl
  have he : (withCheck a c).eonCounter = a.eonCounter := rfl
  simp only [hd, he, startDKG_mem]
  repeat (first | rfl | split)


theorem dkgResult_mem (o : Order) (a : App.App) (c : CheckTxState) (s : Addr) (eon : Nat) (succ : Bool) :
    deliverDKGResult o (withCheck a c) s eon succ =
      (withCheck (deliverDKGResult o a s eon succ).1 c, (deliverDKGResult o a s eon succ).2) := by
  unfold deliverDKGResult
  have hd : (withCheck a c).dkgs = a.dkgs := rfl
  simp only [hd]
  split
  · rfl
  · rename_i dkg _
    split
    · rfl
    · split
      · rfl
      · rename_i voting _
        have hw : ({ withCheck a c with dkgs := a.dkgs.insert eon { dkg with success := voting } } : App.App) =
            withCheck { a with dkgs := a.dkgs.insert eon { dkg with success := voting } } c := rfl
        simp only [hw, maybeStartEon_mem]
        cases hX : maybeStartEon o { a with dkgs := a.dkgs.insert eon { dkg with success := voting } } eon with
        | mk x1 x2 =>
          cases x2 <;> rfl


theorem batchConfig_mem (o : Order) (a : App.App) (c : CheckTxState) (s : Addr) (act thr idx : Nat) (ks : List Raw) :
    ∃ c', deliverBatchConfig o (withCheck a c) s act thr idx ks =
      (withCheck (deliverBatchConfig o a s act thr idx ks).1 c', (deliverBatchConfig o a s act thr idx ks).2) := by
  unfold deliverBatchConfig
  cases batchConfigFromMessage act thr idx ks with
  | none => exact ⟨c, rfl⟩
  | some bc =>
    have h1 : (withCheck a c).lastConfig = a.lastConfig := rfl
    have h2 : (withCheck a c).checkConfig bc = a.checkConfig bc := rfl
    have h3 : (withCheck a c).configVoting = a.configVoting := rfl
    simp only [h1, h2, h3]
    split
    · exact ⟨c, rfl⟩
    · split
      · exact ⟨c, rfl⟩
      · split
        · exact ⟨c, rfl⟩
        · split
          · exact ⟨c, rfl⟩
          · rename_i voting _
            have h4 : ({ withCheck a c with configVoting := voting } : App.App).lastConfig = a.lastConfig := rfl
            have h5 : ({ a with configVoting := voting } : App.App).lastConfig = a.lastConfig := rfl
            simp only [h4, h5]
            split
            · exact ⟨c, rfl⟩
            · exact ⟨_, rfl⟩

theorem deliverMessage_mem (o : Order) (a : App.App) (c : CheckTxState) (s : Addr) (p : Payload) :
    ∃ c', deliverMessage o (withCheck a c) s p = (withCheck (deliverMessage o a s p).1 c', (deliverMessage o a s p).2) := by
  cases p with
  | batchConfig x t i ks => exact batchConfig_mem o a c s x t i ks
  | blockSeen b => exact ⟨c, blockSeen_mem a c s b⟩
  | checkIn k ok e => exact ⟨c, checkIn_mem a c s k ok e⟩
  | dkgResult eon succ => exact ⟨c, dkgResult_mem o a c s eon succ⟩
  | polyEval eon rs n e => exact ⟨c, polyEval_mem a c s eon rs n e⟩
  | polyCommitment eon ok g => exact ⟨c, polyCommitment_mem a c s eon ok g⟩
  | accusation eon as => exact ⟨c, accusation_mem a c s eon as⟩
  | apology eon as n e => exact ⟨c, apology_mem a c s eon as n e⟩
  | none => exact ⟨c, rfl⟩

theorem deliverTx_mem (o : Order) (a : App.App) (c : CheckTxState) (tx : Tx) :
    ∃ c', deliverTx o (withCheck a c) tx = (withCheck (deliverTx o a tx).1 c', (deliverTx o a tx).2) := by
  cases tx with
  | undecodable => exact ⟨c, rfl⟩
  | msg signer chainId nonce payload =>
    unfold deliverTx
    have h1 : (withCheck a c).chainId = a.chainId := rfl
    have h2 : (withCheck a c).nonces = a.nonces := rfl
    simp only [h1, h2]
    split
    · exact ⟨c, rfl⟩
    · split
      · exact ⟨c, rfl⟩
      · exact deliverMessage_mem o { a with nonces := a.nonces ++ [(signer, nonce)] } c signer payload

theorem endBlockStep_mem (a : App.App) (c : CheckTxState) (configs : List BatchConfig) (i : Nat) (cfg : BatchConfig) :
    endBlockStep (withCheck a c) configs i cfg = endBlockStep a configs i cfg := rfl

theorem endBlockLoop_mem (a : App.App) (c : CheckTxState) (i : Nat) (done rest : List BatchConfig) (evs : List Event) :
    endBlockLoop (withCheck a c) i done rest evs = endBlockLoop a i done rest evs := by
  induction rest generalizing i done evs with
  | nil => rfl
  | cons x rest ih =>
    unfold endBlockLoop
    rw [endBlockStep_mem]
    exact ih _ _ _

theorem endBlock_mem (o : Order) (a : App.App) (c : CheckTxState) (h : Int) :
    App.App.endBlock o (withCheck a c) h = (withCheck (App.App.endBlock o a h).1 c, (App.App.endBlock o a h).2) := by
  unfold App.App.endBlock
  have : (withCheck a c).configs = a.configs := rfl
  rw [endBlockLoop_mem, this]
  rfl

theorem beginBlock_mem (a : App.App) (c : CheckTxState) (h : Int) : beginBlock (withCheck a c) h = beginBlock a h := rfl

theorem commit_mem (a : App.App) (c : CheckTxState) : ∃ c', commit (withCheck a c) = withCheck (commit a) c' := ⟨_, rfl⟩

theorem checkTxOp_core (a : App.App) (tx : Tx) : ∃ c', (checkTxOp a tx).1 = withCheck a c' := by
  cases tx with
  | undecodable => exact ⟨a.checkTx, rfl⟩
  | msg signer chainId nonce payload =>
    unfold checkTxOp
    simp only []
    repeat (first | exact ⟨a.checkTx, rfl⟩ | exact ⟨_, rfl⟩ | split)


/-- is this call part of the block sequence (everything but a mempool check)? -/
def isBlockOp : Op → Bool
  | .check _ => false
  | _ => true

def isBlockOut : Out → Bool
  | .check _ => false
  | _ => true

/-- the block sequence of a history: the calls Tendermint makes on every replica alike -/
def blockOps (h : List (Order × Op)) : List (Order × Op) := h.filter (fun p => isBlockOp p.2)
def blockOuts (outs : List Out) : List Out := outs.filter isBlockOut

theorem step_mem (o : Order) (a : App.App) (c : CheckTxState) (op : Op) (hop : isBlockOp op = true) :
    ∃ c', stepWith o (withCheck a c) op = (withCheck (stepWith o a op).1 c', (stepWith o a op).2) ∧
      isBlockOut (stepWith o a op).2 = true := by
  cases op with
  | begin h => exact ⟨c, rfl, rfl⟩
  | deliver tx =>
    obtain ⟨c', hc⟩ := deliverTx_mem o a c tx
    refine ⟨c', ?_, rfl⟩
    unfold stepWith
    simp only [hc]
  | check tx => cases hop
  | endBlock h =>
    refine ⟨c, ?_, rfl⟩
    unfold stepWith
    simp only [endBlock_mem]
  | commit =>
    obtain ⟨c', hc⟩ := commit_mem a c
    refine ⟨c', ?_, rfl⟩
    unfold stepWith
    simp only [hc]

theorem step_check (o : Order) (a : App.App) (tx : Tx) :
    ∃ c', (stepWith o a (.check tx)).1 = withCheck a c' ∧ isBlockOut (stepWith o a (.check tx)).2 = false := by
  obtain ⟨c', hc⟩ := checkTxOp_core a tx
  exact ⟨c', by unfold stepWith; simpa using hc, rfl⟩

end Shutter.Mempool
