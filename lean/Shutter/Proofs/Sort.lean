/-
Lemmas about insertion sort and the byte order.
-/
import Shutter.Model.Sort

namespace Shutter.Sort
open List

/-! ### `bytes.Compare` is a total order -/

theorem bytesLe_total (a b : Bytes) : (bytesLe a b || bytesLe b a) = true := by
  induction a generalizing b with
  | nil => simp [bytesLe]
  | cons x xs ih =>
    cases b with
    | nil => simp [bytesLe]
    | cons y ys =>
      simp only [bytesLe]
      by_cases h1 : x < y
      · simp [h1]
      · by_cases h2 : y < x
        · simp [h2]
        · rw [if_neg h1, if_neg h2, if_neg h2, if_neg h1]
          exact ih ys

theorem bytesLe_trans (a b c : Bytes) : bytesLe a b = true → bytesLe b c = true → bytesLe a c = true := by
  induction a generalizing b c with
  | nil => intro _ _; simp [bytesLe]
  | cons x xs ih =>
    cases b with
    | nil => simp [bytesLe]
    | cons y ys =>
      cases c with
      | nil => simp [bytesLe]
      | cons z zs =>
        simp only [bytesLe]
        intro h1 h2
        by_cases hxy : x < y
        · by_cases hyz : y < z
          · rw [if_pos (by omega)]
          · rw [if_neg hyz] at h2
            by_cases hzy : z < y
            · rw [if_pos hzy] at h2; cases h2
            · rw [if_pos (by omega)]
        · rw [if_neg hxy] at h1
          by_cases hyx : y < x
          · rw [if_pos hyx] at h1; cases h1
          · rw [if_neg hyx] at h1
            have hxy' : x = y := by omega
            subst hxy'
            by_cases hyz : x < z
            · rw [if_pos hyz]
            · rw [if_neg hyz] at h2 ⊢
              by_cases hzy : z < x
              · rw [if_pos hzy] at h2; cases h2
              · rw [if_neg hzy] at h2 ⊢
                exact ih ys zs h1 h2

theorem bytesLe_antisymm (a b : Bytes) : bytesLe a b = true → bytesLe b a = true → a = b := by
  induction a generalizing b with
  | nil => cases b with
    | nil => intros; rfl
    | cons y ys => simp [bytesLe]
  | cons x xs ih =>
    cases b with
    | nil => simp [bytesLe]
    | cons y ys =>
      simp only [bytesLe]
      intro h1 h2
      by_cases hxy : x < y
      · rw [if_neg (by omega), if_pos hxy] at h2; cases h2
      · rw [if_neg hxy] at h1
        by_cases hyx : y < x
        · rw [if_pos hyx] at h1; cases h1
        · rw [if_neg hyx] at h1
          rw [if_neg hyx, if_neg hxy] at h2
          have : x = y := by omega
          subst this
          rw [ih ys h1 h2]

/-! ### insertion sort -/

section sort
variable {α : Type} (le : α → α → Bool)

theorem insertBy_perm (a : α) (l : List α) : insertBy le a l ~ a :: l := by
  induction l with
  | nil => exact Perm.refl _
  | cons b rest ih =>
    unfold insertBy
    split
    · exact Perm.refl _
    · exact (Perm.cons b ih).trans (Perm.swap a b rest)

theorem isort_perm (l : List α) : isort le l ~ l := by
  induction l with
  | nil => exact Perm.refl _
  | cons a rest ih => exact (insertBy_perm le a _).trans (Perm.cons a ih)

theorem mem_isort {a : α} {l : List α} : a ∈ isort le l ↔ a ∈ l := (isort_perm le l).mem_iff

theorem insertBy_pairwise (trans : ∀ a b c, le a b = true → le b c = true → le a c = true)
    (total : ∀ a b, (le a b || le b a) = true) (a : α) (l : List α)
    (h : l.Pairwise (fun x y => le x y = true)) : (insertBy le a l).Pairwise (fun x y => le x y = true) := by
  induction l with
  | nil => simp [insertBy]
  | cons b rest ih =>
    rw [pairwise_cons] at h
    unfold insertBy
    by_cases hab : le a b = true
    · rw [if_pos hab, pairwise_cons]
      refine ⟨?_, pairwise_cons.2 h⟩
      intro c hc
      rcases mem_cons.1 hc with rfl | hc
      · exact hab
      · exact trans a b c hab (h.1 c hc)
    · rw [if_neg hab, pairwise_cons]
      refine ⟨?_, ih h.2⟩
      intro c hc
      have hc' : c ∈ a :: rest := (insertBy_perm le a rest).mem_iff.1 hc
      rcases mem_cons.1 hc' with rfl | hc'
      · have := total c b
        simpa [hab] using this
      · exact h.1 c hc'

theorem isort_pairwise (trans : ∀ a b c, le a b = true → le b c = true → le a c = true)
    (total : ∀ a b, (le a b || le b a) = true) (l : List α) :
    (isort le l).Pairwise (fun x y => le x y = true) := by
  induction l with
  | nil => simp [isort]
  | cons a rest ih => exact insertBy_pairwise le trans total a _ ih

end sort

theorem sortIds_pairwise (l : List Bytes) : (sortIds l).Pairwise (fun a b => bytesLe a b = true) :=
  isort_pairwise bytesLe bytesLe_trans bytesLe_total l

theorem sortIds_perm (l : List Bytes) : sortIds l ~ l := isort_perm bytesLe l

/-- any sorted rearrangement of the list is what `sortIds` returns: the result does not depend on the
    sorting algorithm (Go's `sort.Slice` is not stable) -/
theorem sortIds_unique (l r : List Bytes) (hp : r ~ l) (hs : r.Pairwise (fun a b => bytesLe a b = true)) :
    sortIds l = r :=
  Perm.eq_of_pairwise (le := fun a b => bytesLe a b = true)
    (fun a b _ _ h1 h2 => bytesLe_antisymm a b h1 h2) (sortIds_pairwise l) hs ((sortIds_perm l).trans hp.symm)

end Shutter.Sort
