/-
C11 helper lemmas: the config-vote invariant and what an accepted configuration implies.
-/
import Shutter.Proofs.AppOrder
import Shutter.Proofs.AppFrame

namespace Shutter.App
open Shutter Shutter.App.App

/-! ### small facts about AMap.insert on an absent key, counts -/

theorem insert_absent {V : Type} (m : AMap Addr V) (k : Addr) (v : V) (h : m.contains k = false) :
    m.insert k v = m ++ [(k, v)] := by
  induction m with
  | nil => rfl
  | cons e rest ih =>
    obtain ⟨a, b⟩ := e
    simp only [AMap.contains, AMap.get?] at h
    by_cases hak : a = k
    · simp [hak] at h
    · simp only [hak, if_false] at h
      simp only [AMap.insert, hak, if_false, List.cons_append]
      rw [ih (by simpa [AMap.contains] using h)]

theorem countOn_append (l : List (Addr × Nat)) (s : Addr) (j i : Nat) :
    Voting.countOn (l ++ [(s, j)]) i = Voting.countOn l i + (if j = i then 1 else 0) := by
  unfold Voting.countOn
  simp only [List.filter_append, List.length_append, List.filter_cons, List.filter_nil]
  by_cases h : j = i <;> simp [h]

theorem countOn_nil (i : Nat) : Voting.countOn [] i = 0 := rfl

/-- the senders that currently vote for candidate index `i` -/
def votersFor (votes : AMap Addr Nat) (i : Nat) : List Addr :=
  (votes.filter (fun e => e.2 = i)).map (·.1)

theorem votersFor_length (votes : AMap Addr Nat) (i : Nat) :
    (votersFor votes i).length = Voting.countOn votes i := by
  simp [votersFor, Voting.countOn]

theorem votersFor_sublist_keys (votes : AMap Addr Nat) (i : Nat) :
    (votersFor votes i).Sublist (AMap.keys votes) := by
  unfold votersFor AMap.keys
  exact List.Sublist.map _ List.filter_sublist

theorem votersFor_nodup (votes : AMap Addr Nat) (i : Nat) (h : (AMap.keys votes).Nodup) :
    (votersFor votes i).Nodup :=
  (votersFor_sublist_keys votes i).nodup h

theorem mem_votersFor (votes : AMap Addr Nat) (i : Nat) (s : Addr) :
    s ∈ votersFor votes i → (s, i) ∈ votes := by
  unfold votersFor
  intro h
  obtain ⟨e, he, hs⟩ := List.mem_map.1 h
  obtain ⟨a, b⟩ := e
  simp only [List.mem_filter, decide_eq_true_eq] at he
  simp only at hs
  rw [← hs, ← he.2]; exact he.1

theorem contains_false_not_mem_keys {V : Type} (m : AMap Addr V) (k : Addr) (h : m.contains k = false) :
    k ∉ AMap.keys m := by
  intro hk
  have := (AMap.mem_keys_iff_get?_isSome m k).1 hk
  simp [AMap.contains] at h
  simp [h] at this

/-! ### outcomeIndexOn -/

theorem outcomeIndexOn_some {l : List (Addr × Nat)} {n : Nat} {r : Int} {i : Nat}
    (h : Voting.outcomeIndexOn l n r = some i) :
    i < n ∧ 0 < Voting.countOn l i ∧ r ≤ (Voting.countOn l i : Int) := by
  unfold Voting.outcomeIndexOn at h
  have h1 := List.find?_some h
  have h2 := List.mem_of_find?_eq_some h
  simp only [Bool.and_eq_true, decide_eq_true_eq] at h1
  exact ⟨List.mem_range.1 h2, h1.1, h1.2⟩

theorem outcomeIndexOn_none {l : List (Addr × Nat)} {n : Nat} {r : Int}
    (h : Voting.outcomeIndexOn l n r = none) (i : Nat) (hi : i < n) (hc : 0 < Voting.countOn l i) :
    (Voting.countOn l i : Int) < r := by
  unfold Voting.outcomeIndexOn at h
  rw [List.find?_eq_none] at h
  have := h i (List.mem_range.2 hi)
  simp only [Bool.and_eq_true, decide_eq_true_eq, not_and, Int.not_le] at this
  exact this hc

/-! ### the invariant -/

/-- sizes that are physically bounded (a message cannot carry 2^63 addresses) -/
def BatchConfig.Sized (c : BatchConfig) : Prop := c.keypers.length < 2 ^ 63

structure VInv (a : App) : Prop where
  nonempty : a.configs ≠ []
  keysNodup : (AMap.keys a.configVoting.votes).Nodup
  member : ∀ e ∈ a.configVoting.votes,
    a.lastConfig.isKeyper e.1 = true ∧ e.2 < a.configVoting.candidates.length
  below : ∀ i, 0 < Voting.countOn a.configVoting.votes i →
    (Voting.countOn a.configVoting.votes i : Int) < toInt64 a.lastConfig.threshold
  thrPos : 0 < toInt64 a.lastConfig.threshold

theorem toInt64_small (n : Nat) (h : n < 2 ^ 63) : toInt64 n = (n : Int) := by
  unfold toInt64
  have h1 : n % 2 ^ 64 = n := Nat.mod_eq_of_lt (by omega)
  simp only [h1]
  simp [h]

theorem valid_thrPos (c : BatchConfig) (hv : c.valid = true) (hs : c.Sized) :
    0 < toInt64 c.threshold := by
  unfold BatchConfig.valid at hv
  simp only [Bool.and_eq_true, bne_iff_ne, ne_eq, decide_eq_true_eq] at hv
  unfold BatchConfig.Sized at hs
  rw [toInt64_small _ (by omega)]
  omega

theorem lastConfig_append (a : App) (bc : BatchConfig) (cs : List BatchConfig) :
    App.lastConfig { a with configs := cs ++ [bc] } = bc := by
  simp [App.lastConfig]

/-- what the acceptance of a configuration implies -/
structure Accepted (a : App) (sender : Addr) (bc : BatchConfig) (a' : App) (r : Resp) : Prop where
  appended : a'.configs = a.configs ++ [bc]
  indexLarger : a.lastConfig.index < bc.index
  activationMonotone : a.lastConfig.activation ≤ bc.activation
  valid : bc.valid = true
  notStarted : bc.started = false ∧ bc.validatorsUpdated = false
  senderMember : a.lastConfig.isKeyper sender = true
  senderFresh : a.configVoting.votes.contains sender = false
  /-- there is a candidate index holding exactly `bc` whose voters, with the sender, reach the
      current configuration's threshold; they are distinct members of the current configuration -/
  quorum : ∃ j, (a.configVoting.candidates ++ [bc])[j]? = some bc ∧
      toInt64 a.lastConfig.threshold ≤ ((sender :: votersFor a.configVoting.votes j).length : Int) ∧
      (sender :: votersFor a.configVoting.votes j).Nodup ∧
      ∀ v ∈ sender :: votersFor a.configVoting.votes j, a.lastConfig.isKeyper v = true
  votesReset : a'.configVoting.votes = [] ∧ a'.configVoting.candidates = []
  eonFresh : a'.eonCounter = (a.eonCounter + 1) % 2 ^ 64
  events : r = okResp [bc.event, .eonStarted a'.eonCounter bc.activation bc.index]

theorem findIdx?_some_getElem {α : Type} (p : α → Bool) (l : List α) (i : Nat)
    (h : l.findIdx? p = some i) : ∃ x, l[i]? = some x ∧ p x = true := by
  rw [List.findIdx?_eq_some_iff_getElem] at h
  obtain ⟨hi, hp, _⟩ := h
  exact ⟨l[i], by simp [hi], hp⟩

/-- The central case analysis of `deliverBatchConfig`: either the configuration list is unchanged
    (and the invariant is kept), or a configuration was accepted with a genuine quorum. -/
theorem deliverBatchConfig_cases (o : Order) (ho : o.Valid) (a : App) (inv : VInv a) (sender : Addr)
    (act thr idx : Nat) (ks : List Raw) (hsz : ks.length < 2 ^ 63)
    (res : App × Resp) (hres0 : a.deliverBatchConfig o sender act thr idx ks = res) :
    (res.1.configs = a.configs ∧ VInv res.1 ∧ res.1.eonCounter = a.eonCounter ∧
        (∀ e ∈ res.2.events, False)) ∨
    (∃ bc, batchConfigFromMessage act thr idx ks = some bc ∧ Accepted a sender bc res.1 res.2 ∧
        VInv res.1) := by
  unfold deliverBatchConfig at hres0
  cases hparse : batchConfigFromMessage act thr idx ks with
  | none =>
    left
    have : res = (a, errResp) := by rw [← hres0]; simp only [hparse]
    rw [this]; exact ⟨rfl, inv, rfl, by simp [errResp]⟩
  | some bc =>
    have hbcSized : bc.Sized := by
      unfold batchConfigFromMessage at hparse
      cases hp : parseAddresses ks with
      | none => simp [hp] at hparse
      | some as =>
        simp only [hp] at hparse
        split at hparse
        · simp only [Option.some.injEq] at hparse
          subst hparse
          have hlen : ∀ (l : List Raw) (as : List Addr), parseAddresses l = some as → as.length = l.length := by
            intro l
            induction l with
            | nil => intro as h; simp [parseAddresses] at h; subst h; rfl
            | cons r rest ih =>
              intro as h
              simp only [parseAddresses] at h
              cases hv : validateAddress r with
              | none => simp [hv] at h
              | some x =>
                cases hr : parseAddresses rest with
                | none => simp [hv, hr] at h
                | some xs =>
                  simp only [hv, hr, Option.some.injEq] at h
                  subst h
                  simp [ih xs hr]
          unfold BatchConfig.Sized
          simp only [hlen ks as hp]; exact hsz
        · simp at hparse
    have hbcFlags : bc.started = false ∧ bc.validatorsUpdated = false := by
      unfold batchConfigFromMessage at hparse
      cases hp : parseAddresses ks with
      | none => simp [hp] at hparse
      | some as =>
        simp only [hp] at hparse
        split at hparse
        · simp only [Option.some.injEq] at hparse; subst hparse; exact ⟨rfl, rfl⟩
        · simp at hparse
    by_cases hsame : a.lastConfig = bc
    · left
      have : res = (a, seenResp) := by rw [← hres0]; simp only [hparse, hsame, if_true]
      rw [this]; exact ⟨rfl, inv, rfl, by simp [seenResp]⟩
    · by_cases hcheckF : a.checkConfig bc = false
      · left
        have : res = (a, errResp) := by rw [← hres0]; simp [hparse, hsame, hcheckF]
        rw [this]; exact ⟨rfl, inv, rfl, by simp [errResp]⟩
      · have hcheck : a.checkConfig bc = true := by simpa using hcheckF
        by_cases hmemF : a.lastConfig.isKeyper sender = false
        · left
          have : res = (a, errResp) := by rw [← hres0]; simp [hparse, hsame, hcheck, hmemF]
          rw [this]; exact ⟨rfl, inv, rfl, by simp [errResp]⟩
        · have hmem : a.lastConfig.isKeyper sender = true := by simpa using hmemF
          cases hadd : a.configVoting.addVote sender bc with
          | none =>
            left
            have : res = (a, errResp) := by rw [← hres0]; simp [hparse, hsame, hcheck, hmem, hadd]
            rw [this]; exact ⟨rfl, inv, rfl, by simp [errResp]⟩
          | some voting =>
            -- the vote is recorded
            unfold Voting.addVote at hadd
            have hfresh : a.configVoting.votes.contains sender = false := by
              cases hc : a.configVoting.votes.contains sender with
              | false => rfl
              | true => simp [hc] at hadd
            simp only [hfresh, Bool.false_eq_true, if_false, Option.some.injEq] at hadd
            -- describe `voting`: index j of bc, votes extended at the end
            have hdesc : ∃ j, voting.votes = a.configVoting.votes ++ [(sender, j)] ∧
                voting.candidates[j]? = some bc ∧
                (a.configVoting.candidates ++ [bc])[j]? = some bc ∧
                a.configVoting.candidates.length ≤ voting.candidates.length ∧
                j < voting.candidates.length := by
              unfold Voting.setVote at hadd
              cases hf : a.configVoting.candidates.findIdx? (fun x => decide (bc = x)) with
              | some j =>
                simp only [hf] at hadd
                subst hadd
                obtain ⟨x, hx, hpx⟩ := findIdx?_some_getElem _ _ _ hf
                simp only [decide_eq_true_eq] at hpx
                subst hpx
                have hj : j < a.configVoting.candidates.length := by
                  rcases List.getElem?_eq_some_iff.1 hx with ⟨h, _⟩; exact h
                refine ⟨j, insert_absent _ _ _ hfresh, hx, ?_, Nat.le_refl _, hj⟩
                rw [List.getElem?_append_left hj]; exact hx
              | none =>
                simp only [hf] at hadd
                subst hadd
                refine ⟨a.configVoting.candidates.length, insert_absent _ _ _ hfresh, ?_, ?_, ?_, ?_⟩
                · simp
                · simp
                · simp
                · simp
            obtain ⟨j, hvotes, hcand, hcand', hlenle, hjlt⟩ := hdesc
            have hcheck' := hcheck
            unfold checkConfig at hcheck'
            simp only [Bool.and_eq_true, decide_eq_true_eq] at hcheck'
            have hres : res = (match voting.outcome o (toInt64 a.lastConfig.threshold) with
                | none => ({ a with configVoting := voting }, okResp [])
                | some _ =>
                  let app : App := { a with configVoting := Voting.empty, configs := a.configs ++ [bc] }
                  let app := app.updateCheckTxMembers
                  let (app, dkg) := app.startDKG bc
                  (app, okResp [bc.event, .eonStarted dkg.eon bc.activation bc.index])) := by
              rw [← hres0]; simp only [hparse, hsame, if_false, hcheck, Bool.not_true, Bool.false_eq_true,
                hmem]
              have : a.configVoting.addVote sender bc = some voting := by
                unfold Voting.addVote
                simp [hfresh, hadd]
              simp only [this]
              rfl
            rw [hres]
            -- counts after the vote
            have hcount : ∀ i, Voting.countOn voting.votes i =
                Voting.countOn a.configVoting.votes i + (if j = i then 1 else 0) := by
              intro i; rw [hvotes]; exact countOn_append _ _ _ _
            cases hout : voting.outcome o (toInt64 a.lastConfig.threshold) with
            | none =>
              left
              refine ⟨rfl, ?_, rfl, by simp [okResp]⟩
              -- invariant with the recorded vote
              have hidx : Voting.outcomeIndexOn voting.votes voting.candidates.length
                  (toInt64 a.lastConfig.threshold) = none := by
                unfold Voting.outcome at hout
                cases hoi : voting.outcomeIndex o (toInt64 a.lastConfig.threshold) with
                | none =>
                  unfold Voting.outcomeIndex at hoi
                  rw [outcomeIndexOn_perm (ho.votes_perm _)] at hoi; exact hoi
                | some i =>
                  simp only [hoi] at hout
                  unfold Voting.outcomeIndex at hoi
                  have := (outcomeIndexOn_some hoi).1
                  simp [List.getElem?_eq_none_iff] at hout
                  omega
              constructor
              · exact inv.nonempty
              · show (AMap.keys voting.votes).Nodup
                rw [hvotes]
                have := AMap.keys_insert_nodup a.configVoting.votes sender j inv.keysNodup
                rwa [insert_absent _ _ _ hfresh] at this
              · intro e he
                show (App.lastConfig a).isKeyper e.1 = true ∧ e.2 < voting.candidates.length
                rw [hvotes] at he
                rcases List.mem_append.1 he with h | h
                · have := inv.member e h
                  exact ⟨this.1, Nat.lt_of_lt_of_le this.2 hlenle⟩
                · simp only [List.mem_singleton] at h
                  subst h; exact ⟨hmem, hjlt⟩
              · intro i hpos
                change 0 < Voting.countOn voting.votes i at hpos
                show (Voting.countOn voting.votes i : Int) < toInt64 (App.lastConfig a).threshold
                by_cases hi : i < voting.candidates.length
                · exact outcomeIndexOn_none hidx i hi hpos
                · -- no vote points past the candidate list
                  exfalso
                  have : Voting.countOn voting.votes i = 0 := by
                    unfold Voting.countOn
                    rw [List.length_eq_zero_iff, List.filter_eq_nil_iff]
                    intro e he
                    simp only [decide_eq_true_eq]
                    rw [hvotes] at he
                    rcases List.mem_append.1 he with h | h
                    · have := (inv.member e h).2; omega
                    · simp only [List.mem_singleton] at h; subst h; simp only; omega
                  omega
              · exact inv.thrPos
            | some w =>
              right
              refine ⟨bc, rfl, ?_, ?_⟩
              · -- Accepted
                have hidx : ∃ i, Voting.outcomeIndexOn voting.votes voting.candidates.length
                    (toInt64 a.lastConfig.threshold) = some i := by
                  unfold Voting.outcome at hout
                  cases hoi : voting.outcomeIndex o (toInt64 a.lastConfig.threshold) with
                  | none => simp [hoi] at hout
                  | some i =>
                    unfold Voting.outcomeIndex at hoi
                    rw [outcomeIndexOn_perm (ho.votes_perm _)] at hoi; exact ⟨i, hoi⟩
                obtain ⟨i, hi⟩ := hidx
                obtain ⟨_, hpos, hreq⟩ := outcomeIndexOn_some hi
                have hij : j = i := by
                  by_cases hji : j = i
                  · exact hji
                  · exfalso
                    rw [hcount i] at hpos hreq
                    simp only [hji, if_false, Nat.add_zero] at hpos hreq
                    have := inv.below i hpos
                    omega
                subst hij
                rw [hcount j] at hreq
                simp only [if_true] at hreq
                constructor
                · rfl
                · exact hcheck'.2
                · exact hcheck'.1.2
                · exact hcheck'.1.1
                · exact hbcFlags
                · exact hmem
                · exact hfresh
                · refine ⟨j, hcand', ?_, ?_, ?_⟩
                  · simp only [List.length_cons, votersFor_length]
                    omega
                  · rw [List.nodup_cons]
                    refine ⟨?_, votersFor_nodup _ _ inv.keysNodup⟩
                    intro hin
                    have := (votersFor_sublist_keys _ _).subset hin
                    exact contains_false_not_mem_keys _ _ hfresh this
                  · intro v hv
                    rcases List.mem_cons.1 hv with h | h
                    · subst h; exact hmem
                    · exact (inv.member (v, j) (mem_votersFor _ _ _ h)).1
                · exact ⟨rfl, rfl⟩
                · rfl
                · rfl
              · -- invariant after acceptance
                constructor
                · simp [updateCheckTxMembers, startDKG]
                · simp [updateCheckTxMembers, startDKG, Voting.empty, AMap.keys]
                · intro e he
                  simp [updateCheckTxMembers, startDKG, Voting.empty] at he
                · intro i hpos
                  simp [updateCheckTxMembers, startDKG, Voting.empty, Voting.countOn] at hpos
                · show 0 < toInt64 (App.lastConfig _).threshold
                  have : App.lastConfig (App.startDKG (App.updateCheckTxMembers
                      { a with configVoting := Voting.empty, configs := a.configs ++ [bc] }) bc).1 = bc := by
                    simp [App.lastConfig, updateCheckTxMembers, startDKG]
                  rw [this]
                  exact valid_thrPos bc hcheck'.1.1 hbcSized

end Shutter.App
