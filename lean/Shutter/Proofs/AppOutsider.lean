/-
C10 helper lemmas: a transaction signed by an address in no accepted keyper set has no effect
except that its (signer, nonce) pair is recorded.
-/
import Shutter.Proofs.AppNonint

namespace Shutter.App
open Shutter Shutter.App.App

/-! ### every DKG instance's configuration is made of known keypers -/

def DInv (a : App) : Prop :=
  ∀ e ∈ a.dkgs, ∀ k, e.2.config.isKeyper k = true → a.isKeyper k = true

theorem mem_insert {V : Type} (m : AMap Nat V) (k : Nat) (v : V) (x : Nat × V)
    (h : x ∈ AMap.insert m k v) : x = (k, v) ∨ x ∈ m := by
  induction m with
  | nil => simp [AMap.insert] at h; exact Or.inl h
  | cons e rest ih =>
    obtain ⟨a, b⟩ := e
    simp only [AMap.insert] at h
    split at h
    · rcases List.mem_cons.1 h with h1 | h1
      · exact Or.inl h1
      · exact Or.inr (List.mem_cons_of_mem _ h1)
    · rcases List.mem_cons.1 h with h1 | h1
      · exact Or.inr (by rw [h1]; exact List.mem_cons_self)
      · rcases ih h1 with h2 | h2
        · exact Or.inl h2
        · exact Or.inr (List.mem_cons_of_mem _ h2)

theorem get?_some_mem {V : Type} (m : AMap Nat V) (k : Nat) (v : V) (h : AMap.get? m k = some v) :
    (k, v) ∈ m := by
  induction m with
  | nil => simp at h
  | cons e rest ih =>
    obtain ⟨a, b⟩ := e
    simp only [AMap.get?] at h
    split at h
    · rename_i hak
      simp only [Option.some.injEq] at h
      rw [← hak, h]; exact List.mem_cons_self
    · exact List.mem_cons_of_mem _ (ih h)

theorem isKeyper_eq_of_core (a a' : App)
    (h : a'.configs.map BatchConfig.core = a.configs.map BatchConfig.core) (k : Addr) :
    a'.isKeyper k = a.isKeyper k := by
  unfold App.isKeyper
  have e : ∀ (l : List BatchConfig), l.any (fun c => c.isKeyper k) =
      (l.map BatchConfig.core).any (fun c => c.2.1.contains k) := by
    intro l
    rw [List.any_map]
    rfl
  rw [e, e, h]

theorem isKeyper_append (a : App) (bc : BatchConfig) (k : Addr) (h : a.isKeyper k = true) :
    App.isKeyper { a with configs := a.configs ++ [bc] } k = true := by
  unfold App.isKeyper at h ⊢
  simp only [List.any_append, h, Bool.true_or]

theorem isKeyper_last (a : App) (bc : BatchConfig) (k : Addr) (h : bc.isKeyper k = true) :
    App.isKeyper { a with configs := a.configs ++ [bc] } k = true := by
  unfold App.isKeyper
  simp [List.any_append, h]

/-- a state whose configs have the same cores and whose DKG entries carry configurations already
    present keeps the invariant -/
theorem DInv_of (a a' : App) (inv : DInv a)
    (hk : ∀ k, a.isKeyper k = true → a'.isKeyper k = true)
    (hd : ∀ e ∈ a'.dkgs, (∃ e' ∈ a.dkgs, e'.2.config = e.2.config) ∨
      (∀ k, e.2.config.isKeyper k = true → a'.isKeyper k = true)) : DInv a' := by
  intro e he k hkk
  rcases hd e he with ⟨e', he', hc⟩ | h
  · exact hk k (inv e' he' k (by rw [hc]; exact hkk))
  · exact h k hkk

/-! ### the outsider theorem -/

theorem lastConfig_isKeyper_false (a : App) (s : Addr) (h : a.isKeyper s = false) :
    a.lastConfig.isKeyper s = false := by
  unfold App.lastConfig
  cases hl : a.configs.getLast? with
  | none => rfl
  | some c =>
    simp only [Option.getD_some]
    have hm : c ∈ a.configs := List.mem_of_getLast? hl
    unfold App.isKeyper at h
    rw [List.any_eq_false] at h
    simpa using h c hm

theorem applyReg_err (a : App) (eon : Nat) (ev : Event) : a.applyReg eon .err ev = (a, errResp) := rfl

/-- refused: non-zero code, no events -/
def Resp.refused (r : Resp) : Prop := r.code ≠ 0 ∧ r.events = []

theorem errResp_refused : errResp.refused := ⟨by decide, rfl⟩
theorem seenResp_refused : seenResp.refused := ⟨by decide, rfl⟩

macro "close_refused" : tactic =>
  `(tactic| first
    | exact ⟨rfl, errResp_refused⟩
    | exact ⟨trivial, errResp_refused⟩
    | exact ⟨rfl, seenResp_refused⟩
    | exact ⟨trivial, seenResp_refused⟩)

/-- A payload delivered for a sender that is a keyper in no configuration changes nothing and is
    answered with a non-zero code and no events. -/
theorem deliverMessage_outsider (o : Order) (a : App) (inv : DInv a) (s : Addr)
    (hout : a.isKeyper s = false) (p : Payload) :
    (a.deliverMessage o s p).1 = a ∧ (a.deliverMessage o s p).2.refused := by
  have hlast := lastConfig_isKeyper_false a s hout
  have hdk : ∀ eon d, a.dkgs.get? eon = some d → d.config.isKeyper s = false := by
    intro eon d hd
    cases hk : d.config.isKeyper s with
    | false => rfl
    | true =>
      have := inv (eon, d) (get?_some_mem _ _ _ hd) s hk
      rw [hout] at this; cases this
  cases p with
  | batchConfig act thr idx ks =>
    simp only [deliverMessage]
    unfold deliverBatchConfig
    cases batchConfigFromMessage act thr idx ks with
    | none => close_refused
    | some bc =>
      simp only
      split
      · close_refused
      · split
        · close_refused
        · simp only [hlast, Bool.not_false, if_true]
          close_refused
  | blockSeen b =>
    simp only [deliverMessage]
    unfold deliverBlockSeen
    simp only [hout, Bool.not_false, if_true]
    close_refused
  | checkIn k ok e =>
    simp only [deliverMessage]
    unfold deliverCheckIn
    split
    · close_refused
    · simp only [hout, Bool.not_false, if_true]
      close_refused
  | dkgResult eon su =>
    simp only [deliverMessage]
    unfold deliverDKGResult
    cases hd : a.dkgs.get? eon with
    | none => close_refused
    | some d =>
      simp only [hdk eon d hd, Bool.not_false, if_true]
      close_refused
  | polyEval eon rs n e =>
    simp only [deliverMessage]
    unfold deliverPolyEval
    repeat' split
    all_goals first | close_refused | skip
    rename_i d hd
    unfold registerPolyEval
    split
    · close_refused
    · simp only [hdk eon d hd, Bool.not_false, if_true]
      close_refused
  | polyCommitment eon ok g =>
    simp only [deliverMessage]
    unfold deliverPolyCommitment
    repeat' split
    all_goals first | close_refused | skip
    rename_i d hd
    unfold registerPolyCommitment
    split
    · close_refused
    · simp only [hdk eon d hd, Bool.not_false, if_true]
      close_refused
  | accusation eon as =>
    simp only [deliverMessage]
    unfold deliverAccusation
    repeat' split
    all_goals first | close_refused | skip
    rename_i d hd
    unfold registerAccusation
    split
    · close_refused
    · simp only [hdk eon d hd, Bool.not_false, if_true]
      close_refused
  | apology eon as n e =>
    simp only [deliverMessage]
    unfold deliverApology
    repeat' split
    all_goals first | close_refused | skip
    rename_i d hd
    unfold registerApology
    split
    · close_refused
    · simp only [hdk eon d hd, Bool.not_false, if_true]
      close_refused
  | none => close_refused

end Shutter.App

namespace Shutter.App
open Shutter Shutter.App.App

/-! ### DInv on every reachable state -/

theorem DInv_same (a a' : App) (inv : DInv a) (hc : a'.configs = a.configs) (hd : a'.dkgs = a.dkgs) :
    DInv a' := by
  intro e he k hk
  rw [hd] at he
  have := inv e he k hk
  unfold App.isKeyper at this ⊢
  rw [hc]; exact this

/-- updating an existing DKG entry without changing its configuration -/
theorem DInv_update (a : App) (inv : DInv a) (eon : Nat) (d d' : DKG) (hd : a.dkgs.get? eon = some d)
    (hcfg : d'.config = d.config) : DInv { a with dkgs := a.dkgs.insert eon d' } := by
  refine DInv_of a { a with dkgs := a.dkgs.insert eon d' } inv (fun k hk => hk) ?_
  intro e he
  rcases mem_insert _ _ _ _ he with h | h
  · left; exact ⟨(eon, d), get?_some_mem _ _ _ hd, by rw [h]; exact hcfg.symm⟩
  · left; exact ⟨e, h, rfl⟩

theorem startDKG_DInv (a : App) (inv : DInv a) (c : BatchConfig)
    (hc : ∀ k, c.isKeyper k = true → a.isKeyper k = true) : DInv (a.startDKG c).1 := by
  refine DInv_of a (a.startDKG c).1 inv (fun k hk => hk) ?_
  intro e he
  unfold App.startDKG at he
  simp only at he
  rcases mem_insert _ _ _ _ he with h | h
  · right; intro k hk; rw [h] at hk; exact hc k hk
  · left; exact ⟨e, h, rfl⟩

theorem applyReg_DInv (a : App) (inv : DInv a) (eon : Nat) (d : DKG) (hd : a.dkgs.get? eon = some d)
    (r : Reg) (ev : Event) (hr : ∀ d', r = .ok d' → d'.config = d.config) :
    DInv (a.applyReg eon r ev).1 := by
  cases r with
  | err => exact inv
  | seen => exact inv
  | ok d' => exact DInv_update a inv eon d d' hd (hr d' rfl)

theorem registerPolyEval_go_not_ok (d : DKG) (s : Addr) (rs : List Addr) (d' : DKG) :
    registerPolyEval.go d s rs ≠ some (.ok d') := by
  induction rs with
  | nil => simp [registerPolyEval.go]
  | cons r rest ih =>
    simp only [registerPolyEval.go]
    repeat' split
    all_goals first | exact ih | (intro h; cases h)

theorem registerPolyEval_cfg (d : DKG) (s : Addr) (eon : Nat) (rs : List Addr) (d' : DKG)
    (h : registerPolyEval d s eon rs = .ok d') : d'.config = d.config := by
  unfold registerPolyEval at h
  split at h
  · cases h
  · split at h
    · cases h
    · split at h
      · rename_i r hr
        rw [h] at hr
        exact absurd hr (registerPolyEval_go_not_ok d s rs d')
      · injection h with h; rw [← h]

theorem registerPolyCommitment_cfg (d : DKG) (s : Addr) (eon : Nat) (d' : DKG)
    (h : registerPolyCommitment d s eon = .ok d') : d'.config = d.config := by
  unfold registerPolyCommitment at h
  repeat' split at h
  all_goals first | cases h | skip
  all_goals rfl

theorem registerAccusation_cfg (d : DKG) (s : Addr) (eon : Nat) (as : List Addr) (d' : DKG)
    (h : registerAccusation d s eon as = .ok d') : d'.config = d.config := by
  unfold registerAccusation at h
  repeat' split at h
  all_goals first | cases h | skip
  all_goals rfl

theorem registerApology_cfg (d : DKG) (s : Addr) (eon : Nat) (as : List Addr) (d' : DKG)
    (h : registerApology d s eon as = .ok d') : d'.config = d.config := by
  unfold registerApology at h
  repeat' split at h
  all_goals first | cases h | skip
  all_goals rfl

theorem maybeStartEon_DInv (o : Order) (a : App) (inv : DInv a) (eon : Nat) :
    DInv (a.maybeStartEon o eon).1 := by
  unfold maybeStartEon
  cases hd : a.dkgs.get? eon with
  | none => exact inv
  | some dkg =>
    simp only
    cases Voting.outcome o dkg.success (toInt64 dkg.config.threshold) with
    | none => exact inv
    | some success =>
      simp only
      split
      · exact inv
      · apply startDKG_DInv a inv
        intro k hk
        exact inv (eon, dkg) (get?_some_mem _ _ _ hd) k hk

theorem deliverMessage_DInv (o : Order) (a : App) (inv : DInv a) (s : Addr) (p : Payload) :
    DInv (a.deliverMessage o s p).1 := by
  cases p with
  | batchConfig act thr idx ks =>
    simp only [deliverMessage]
    unfold deliverBatchConfig
    cases batchConfigFromMessage act thr idx ks with
    | none => exact inv
    | some bc =>
      simp only
      split
      · exact inv
      · split
        · exact inv
        · split
          · exact inv
          · cases a.configVoting.addVote s bc with
            | none => exact inv
            | some voting =>
              simp only
              cases Voting.outcome o voting _ with
              | none => exact DInv_same a _ inv rfl rfl
              | some _ =>
                simp only
                apply startDKG_DInv
                · apply DInv_of a _ inv
                  · intro k hk; exact isKeyper_append a bc k hk
                  · intro e he; left; exact ⟨e, he, rfl⟩
                · intro k hk; exact isKeyper_last a bc k hk
  | blockSeen b =>
    simp only [deliverMessage]
    unfold deliverBlockSeen; repeat' split
    all_goals first | exact inv | exact DInv_same a _ inv rfl rfl
  | checkIn k ok e =>
    simp only [deliverMessage]
    unfold deliverCheckIn; repeat' split
    all_goals first | exact inv | exact DInv_same a _ inv rfl rfl
  | dkgResult eon su =>
    simp only [deliverMessage]
    unfold deliverDKGResult
    cases hd : a.dkgs.get? eon with
    | none => exact inv
    | some d =>
      simp only
      split
      · exact inv
      · cases d.success.addVote s su with
        | none => exact inv
        | some voting =>
          simp only
          have inv1 : DInv { a with dkgs := a.dkgs.insert eon { d with success := voting } } :=
            DInv_update a inv eon d _ hd rfl
          have h := maybeStartEon_DInv o _ inv1 eon
          generalize App.maybeStartEon o
            { a with dkgs := a.dkgs.insert eon { d with success := voting } } eon = r at h ⊢
          obtain ⟨a', dd⟩ := r
          cases dd <;> exact h
  | polyEval eon rs n e =>
    simp only [deliverMessage]
    unfold deliverPolyEval
    repeat' split
    all_goals first | exact inv | skip
    rename_i d hd
    exact applyReg_DInv a inv eon d hd _ _ (fun d' h => registerPolyEval_cfg _ _ _ _ d' h)
  | polyCommitment eon ok g =>
    simp only [deliverMessage]
    unfold deliverPolyCommitment
    repeat' split
    all_goals first | exact inv | skip
    rename_i d hd
    exact applyReg_DInv a inv eon d hd _ _ (fun d' h => registerPolyCommitment_cfg _ _ _ d' h)
  | accusation eon as =>
    simp only [deliverMessage]
    unfold deliverAccusation
    repeat' split
    all_goals first | exact inv | skip
    rename_i d hd
    exact applyReg_DInv a inv eon d hd _ _ (fun d' h => registerAccusation_cfg _ _ _ _ d' h)
  | apology eon as n e =>
    simp only [deliverMessage]
    unfold deliverApology
    repeat' split
    all_goals first | exact inv | skip
    rename_i d hd
    exact applyReg_DInv a inv eon d hd _ _ (fun d' h => registerApology_cfg _ _ _ _ d' h)
  | none => exact inv

theorem stepWith_DInv (o : Order) (a : App) (inv : DInv a) (op : Op) : DInv (a.stepWith o op).1 := by
  cases op with
  | begin h => exact inv
  | deliver tx =>
    simp only [App.stepWith]
    unfold deliverTx
    cases tx with
    | undecodable => exact inv
    | msg signer chain nonce p =>
      simp only
      split
      · exact inv
      · split
        · exact inv
        · exact deliverMessage_DInv o { a with nonces := a.nonces ++ [(signer, nonce)] }
            (DInv_same a _ inv rfl rfl) signer p
  | check tx =>
    simp only [App.stepWith]
    unfold checkTxOp
    cases tx with
    | undecodable => exact inv
    | msg signer chain nonce p =>
      simp only
      repeat' split
      all_goals first | exact inv | exact DInv_same a _ inv rfl rfl
  | endBlock h =>
    simp only [App.stepWith]
    unfold endBlock
    simp only
    generalize hcfg : endBlockLoop a 0 [] a.configs [] = lp
    obtain ⟨configs, events⟩ := lp
    simp only
    have hcore : configs.map BatchConfig.core = a.configs.map BatchConfig.core := by
      have := endBlockLoop_core a 0 [] a.configs []
      rw [hcfg] at this; simpa using this
    intro e he k hk
    have := inv e he k hk
    rw [← isKeyper_eq_of_core a { a with configs := configs } hcore k] at this
    exact this
  | commit => exact DInv_same a _ inv rfl rfl

theorem init_DInv (chainId : String) (keypers : List Addr) (threshold initialEon : Nat) (fork : Fork)
    (devMode : Bool) (validators : List (PubKey × Int)) :
    DInv (App.init chainId keypers threshold initialEon fork devMode validators) := by
  intro e he
  simp [App.init] at he

theorem runWith_DInv (a : App) (inv : DInv a) (ops : List (Order × Op)) : DInv (a.runWith ops).1 := by
  induction ops generalizing a with
  | nil => exact inv
  | cons p rest ih =>
    obtain ⟨o, op⟩ := p
    simp only [App.runWith]
    exact ih _ (stepWith_DInv o a inv op)

end Shutter.App
