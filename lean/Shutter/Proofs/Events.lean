/-
C14 helper lemmas: round-trips of the string codecs of `shutterevents`.
-/
import Shutter.Model.Events

namespace Shutter.Events

/-! ### mapOpt -/

theorem mapOpt_map {α β γ : Type} (g : α → β) (f : β → Option γ) (h : α → γ) (l : List α)
    (hh : ∀ a ∈ l, f (g a) = some (h a)) : mapOpt f (l.map g) = some (l.map h) := by
  induction l with
  | nil => rfl
  | cons a rest ih =>
    simp only [List.map_cons, mapOpt]
    rw [hh a (by simp), ih (fun x hx => hh x (List.mem_cons_of_mem _ hx))]

theorem mapOpt_id_of {α β : Type} (f : α → Option β) (enc : β → α) (l : List β)
    (hh : ∀ b ∈ l, f (enc b) = some b) : mapOpt f (l.map enc) = some l := by
  have := mapOpt_map enc f id l (by simpa using hh)
  simpa using this

/-! ### decimal -/

theorem digitVal_digitChar : ∀ d, d < 10 → digitVal? (digitChar d) = some d := by decide

theorem digitsLE_lt (fuel n : Nat) : ∀ d ∈ digitsLE fuel n, d < 10 := by
  induction fuel generalizing n with
  | zero => intro d hd; simp [digitsLE] at hd
  | succ fuel ih =>
    intro d hd
    simp only [digitsLE] at hd
    split at hd
    · simp only [List.mem_singleton] at hd; omega
    · rcases List.mem_cons.1 hd with h | h
      · omega
      · exact ih _ d h

theorem ofDigitsLE_digitsLE (fuel n : Nat) (h : n < fuel) : ofDigitsLE (digitsLE fuel n) = n := by
  induction fuel generalizing n with
  | zero => omega
  | succ fuel ih =>
    simp only [digitsLE]
    split
    · simp [ofDigitsLE]
    · rename_i hn
      simp only [ofDigitsLE]
      rw [ih (n / 10) (by omega)]
      omega

theorem digitsLE_ne_nil (fuel n : Nat) : digitsLE (fuel + 1) n ≠ [] := by
  simp only [digitsLE]; split <;> simp

theorem ofDigitsBE_reverse (ds : List Nat) : ofDigitsBE ds.reverse = ofDigitsLE ds := by
  unfold ofDigitsBE
  induction ds with
  | nil => rfl
  | cons d rest ih =>
    simp only [List.reverse_cons, List.foldl_append, List.foldl_cons, List.foldl_nil, ih, ofDigitsLE]
    omega

/-- **uint64 round-trip** -/
theorem decodeUint_encodeUint (n : Nat) (h : n < 2 ^ 64) : decodeUint (encodeUint n) = some n := by
  unfold decodeUint encodeUint
  have hne : ((digitsLE (n + 1) n).reverse.map digitChar).isEmpty = false := by
    have := digitsLE_ne_nil n n
    cases hd : digitsLE (n + 1) n with
    | nil => exact absurd hd this
    | cons a b => simp
  rw [hne]
  simp only [Bool.false_eq_true, if_false]
  rw [mapOpt_id_of digitVal? digitChar _ (by
    intro b hb
    exact digitVal_digitChar b (digitsLE_lt _ _ b (by simpa using hb)))]
  simp only [ofDigitsBE_reverse, ofDigitsLE_digitsLE (n + 1) n (by omega), h, if_true]

/-! ### hex -/

theorem hexVal_hexChar : ∀ d, d < 16 → hexVal? (hexChar d) = some d := by decide

theorem decodeHexBytes_encodeHexBytes (b : Bytes) (h : ∀ x ∈ b, x < 256) :
    decodeHexBytes (encodeHexBytes b) = some b := by
  induction b with
  | nil => rfl
  | cons x rest ih =>
    have hx : x < 256 := h x (by simp)
    simp only [encodeHexBytes, decodeHexBytes]
    rw [hexVal_hexChar (x / 16) (by omega), hexVal_hexChar (x % 16) (by omega),
      ih (fun y hy => h y (List.mem_cons_of_mem _ hy))]
    simp only [Option.some.injEq, List.cons.injEq, and_true]
    omega

/-- **byte-string round-trip**, including the empty byte string (`0x`) -/
theorem decode0x_encode0x (b : Bytes) (h : ∀ x ∈ b, x < 256) : decode0x (encode0x b) = some b := by
  simp only [encode0x, decode0x]
  exact decodeHexBytes_encodeHexBytes b h

theorem hexChar_ne_comma : ∀ d, d < 16 → hexChar d ≠ ',' := by decide

theorem encodeHexBytes_no_comma (b : Bytes) (h : ∀ x ∈ b, x < 256) : ',' ∉ encodeHexBytes b := by
  induction b with
  | nil => simp [encodeHexBytes]
  | cons x rest ih =>
    have hx : x < 256 := h x (by simp)
    simp only [encodeHexBytes, List.mem_cons, not_or]
    refine ⟨?_, ?_, ih (fun y hy => h y (List.mem_cons_of_mem _ hy))⟩
    · exact fun e => hexChar_ne_comma (x / 16) (by omega) e.symm
    · exact fun e => hexChar_ne_comma (x % 16) (by omega) e.symm

theorem encode0x_no_comma (b : Bytes) (h : ∀ x ∈ b, x < 256) : ',' ∉ encode0x b := by
  simp only [encode0x, List.mem_cons, not_or]
  exact ⟨by decide, by decide, encodeHexBytes_no_comma b h⟩

/-! ### comma lists -/

theorem splitComma_no_comma (s : List Char) (h : ',' ∉ s) : splitComma s = [s] := by
  induction s with
  | nil => rfl
  | cons c rest ih =>
    simp only [List.mem_cons, not_or] at h
    simp only [splitComma]
    have hc : c ≠ ',' := fun e => h.1 e.symm
    simp only [hc, if_false, ih h.2]

theorem splitComma_append (x rest : List Char) (hx : ',' ∉ x) :
    splitComma (x ++ ',' :: rest) = x :: splitComma rest := by
  induction x with
  | nil => simp [splitComma]
  | cons c cs ih =>
    simp only [List.mem_cons, not_or] at hx
    have hc : c ≠ ',' := fun e => hx.1 e.symm
    simp only [List.cons_append, splitComma, hc, if_false, ih hx.2]

theorem splitComma_joinComma (xs : List (List Char)) (hne : xs ≠ []) (h : ∀ x ∈ xs, ',' ∉ x) :
    splitComma (joinComma xs) = xs := by
  induction xs with
  | nil => exact absurd rfl hne
  | cons x rest ih =>
    cases rest with
    | nil => simp only [joinComma]; exact splitComma_no_comma x (h x (by simp))
    | cons y ys =>
      simp only [joinComma]
      rw [splitComma_append x _ (h x (by simp))]
      rw [ih (by simp) (fun z hz => h z (List.mem_cons_of_mem _ hz))]

/-- **list round-trip**: for an element codec whose texts are non-empty and comma-free -/
theorem decodeList_encodeList {α : Type} (enc : α → List Char) (dec : List Char → Option α)
    (xs : List α) (hrt : ∀ x ∈ xs, dec (enc x) = some x) (hne : ∀ x ∈ xs, enc x ≠ [])
    (hnc : ∀ x ∈ xs, ',' ∉ enc x) : decodeList dec (encodeList enc xs) = some xs := by
  unfold decodeList encodeList
  cases xs with
  | nil => rfl
  | cons x rest =>
    have hnonempty : (joinComma ((x :: rest).map enc)).isEmpty = false := by
      cases rest with
      | nil =>
        simp only [List.map_cons, List.map_nil, joinComma]
        cases he : enc x with
        | nil => exact absurd he (hne x (by simp))
        | cons a b => rfl
      | cons y ys =>
        simp only [List.map_cons, joinComma]
        cases he : enc x <;> rfl
    rw [hnonempty]
    simp only [Bool.false_eq_true, if_false]
    rw [splitComma_joinComma _ (by simp) (by
      intro s hs
      obtain ⟨a, ha, rfl⟩ := List.mem_map.1 hs
      exact hnc a ha)]
    exact mapOpt_id_of dec enc _ hrt

/-- **byte-sequence round-trip**: every list of byte strings, including `[]`, `[[]]`, `[[], []]` -/
theorem decodeByteSeq_encodeByteSeq (v : List Bytes) (h : ∀ b ∈ v, ∀ x ∈ b, x < 256) :
    decodeByteSeq (encodeByteSeq v) = some v := by
  unfold decodeByteSeq encodeByteSeq
  apply decodeList_encodeList
  · intro b hb; exact decode0x_encode0x b (h b hb)
  · intro b _; simp [encode0x]
  · intro b hb; exact encode0x_no_comma b (h b hb)

end Shutter.Events

namespace Shutter.Events

/-! ### addresses -/

theorem decodeHexBytes_no_comma : ∀ (s : List Char) (b : Bytes), decodeHexBytes s = some b → ',' ∉ s
  | [], _, _ => by simp
  | [_], _, h => by simp [decodeHexBytes] at h
  | x :: y :: rest, b, h => by
    simp only [decodeHexBytes] at h
    cases hx : hexVal? x with
    | none => simp [hx] at h
    | some vx =>
      cases hy : hexVal? y with
      | none => simp [hx, hy] at h
      | some vy =>
        cases hr : decodeHexBytes rest with
        | none => simp [hx, hy, hr] at h
        | some bs =>
          have ih := decodeHexBytes_no_comma rest bs hr
          simp only [List.mem_cons, not_or]
          refine ⟨?_, ?_, ih⟩
          · intro e; rw [← e] at hx; simp [hexVal?] at hx
          · intro e; rw [← e] at hy; simp [hexVal?] at hy

theorem strip0x_comma (s : List Char) (h : ',' ∉ strip0x s) : ',' ∉ s := by
  unfold strip0x at h
  split at h
  · simp only [List.mem_cons, not_or]; exact ⟨by decide, by decide, h⟩
  · simp only [List.mem_cons, not_or]; exact ⟨by decide, by decide, h⟩
  · exact h

theorem parseHexAddress_no_comma (s : List Char) (a : Bytes) (h : parseHexAddress s = some a) :
    ',' ∉ s ∧ s ≠ [] := by
  unfold parseHexAddress at h
  split at h
  · rename_i hlen
    refine ⟨strip0x_comma s (decodeHexBytes_no_comma _ _ h), ?_⟩
    intro hs; subst hs; simp [strip0x] at hlen
  · cases h

end Shutter.Events
