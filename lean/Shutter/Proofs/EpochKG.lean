/-
C01 helper lemmas: Lagrange interpolation at zero over an arbitrary field, lifted to a module, and
the link between the list-based model (`Model/EpochKG.lean`) and Mathlib's finite sums and products.
-/
import Mathlib.LinearAlgebra.Lagrange
import Shutter.Model.EpochKG

open Polynomial

namespace Shutter.EpochKG

variable {F G : Type} [Field F] [AddCommGroup G] [Module F G]

/-- the arithmetic of a field and a module over it, as the `Ops` the model is generic in -/
def lawful : Ops F G :=
  { ofNat := fun n => (n : F), one := 1, mul := (· * ·), sub := (· - ·), inv := (·⁻¹),
    gzero := 0, gadd := (· + ·), smul := (· • ·) }

/-- evaluation point of keyper `i` -/
def node (i : ℕ) : F := ((i + 1 : ℕ) : F)

theorem keyperX_lawful (i : ℕ) : keyperX (lawful : Ops F G) i = (node i : F) := rfl

/-! ### Lagrange at zero -/

theorem eval_zero_basis (s : Finset ℕ) (v : ℕ → F) (i : ℕ) :
    eval 0 (Lagrange.basis s v i) = ∏ j ∈ s.erase i, v j * (v j - v i)⁻¹ := by
  unfold Lagrange.basis
  rw [eval_prod]
  apply Finset.prod_congr rfl
  intro j _
  unfold Lagrange.basisDivisor
  simp only [eval_mul, eval_C, eval_sub, eval_X, zero_sub]
  by_cases h : v i = v j
  · simp [h]
  · have h1 : v i - v j ≠ 0 := sub_ne_zero.2 h
    have h2 : v j - v i ≠ 0 := sub_ne_zero.2 (Ne.symm h)
    field_simp
    ring

theorem eval_zero_eq_sum (s : Finset ℕ) (v : ℕ → F) (f : F[X]) (hv : Set.InjOn v ↑s)
    (hf : f.degree < s.card) :
    f.eval 0 = ∑ i ∈ s, (∏ j ∈ s.erase i, v j * (v j - v i)⁻¹) * f.eval (v i) := by
  conv_lhs => rw [Lagrange.eq_interpolate hv hf]
  rw [Lagrange.interpolate_apply, eval_finsetSum]
  apply Finset.sum_congr rfl
  intro i _
  rw [eval_mul, eval_C, eval_zero_basis, mul_comm]

/-! ### the model's folds as finite products and sums -/

theorem foldl_cond_mul (c : ℕ → F) (j : ℕ) (l : List ℕ) (a : F) :
    l.foldl (fun acc k => if k = j then acc else acc * c k) a =
      a * ((l.filter (fun k => k ≠ j)).map c).prod := by
  induction l generalizing a with
  | nil => simp
  | cons x xs ih =>
    simp only [List.foldl_cons]
    by_cases h : x = j
    · simp [h, ih]
    · simp [h, ih, mul_assoc]

theorem lagrange_lawful (senders : List ℕ) (hnd : senders.Nodup) (j : ℕ) :
    lagrange (lawful : Ops F G) senders j =
      ∏ k ∈ senders.toFinset.erase j, (node k : F) * ((node k : F) - node j)⁻¹ := by
  unfold lagrange
  have h := foldl_cond_mul (fun k => (node k : F) * ((node k : F) - node j)⁻¹) j senders 1
  simp only [lawful, keyperX] at h ⊢
  rw [show (fun (acc : F) (k : ℕ) => if k = j then acc
      else acc * (((k + 1 : ℕ) : F) * (((k + 1 : ℕ) : F) - ((j + 1 : ℕ) : F))⁻¹)) =
      (fun acc k => if k = j then acc else acc * (fun k => (node k : F) * ((node k : F) - node j)⁻¹) k) from rfl]
  rw [h, one_mul]
  rw [← List.prod_toFinset _ (hnd.filter _)]
  congr 1
  ext k
  simp [Finset.mem_erase, and_comm]

theorem foldl_gadd (g : ℕ × G → G) (l : List (ℕ × G)) (a : G) :
    l.foldl (fun acc e => acc + g e) a = a + (l.map g).sum := by
  induction l generalizing a with
  | nil => simp
  | cons x xs ih => simp [ih, add_assoc]

theorem combine_lawful (shares : List (ℕ × G)) :
    combine (lawful : Ops F G) shares =
      (shares.map (fun e => lagrange (lawful : Ops F G) (shares.map (·.1)) e.1 • e.2)).sum := by
  unfold combine
  have := foldl_gadd (fun e => lagrange (lawful : Ops F G) (shares.map (·.1)) e.1 • e.2) shares 0
  simp only [zero_add] at this
  exact this

/-- **Interpolation in the exponent.**  For any polynomial `f` of degree below the number of shares,
    any point `H`, and any list of shares `f(x_j) • H` from pairwise distinct senders whose evaluation
    points are distinct, the combination computed by the model is `f(0) • H`. -/
theorem combine_eq (f : F[X]) (H : G) (shares : List (ℕ × G))
    (hnd : (shares.map (·.1)).Nodup)
    (hinj : Set.InjOn (node : ℕ → F) ↑(shares.map (·.1)).toFinset)
    (hdeg : f.degree < shares.length)
    (hval : ∀ e ∈ shares, e.2 = f.eval (node e.1) • H) :
    combine (lawful : Ops F G) shares = f.eval 0 • H := by
  rw [combine_lawful]
  set senders := shares.map (·.1) with hs
  have h1 : (shares.map (fun e => lagrange (lawful : Ops F G) senders e.1 • e.2)) =
      senders.map (fun j => (lagrange (lawful : Ops F G) senders j * f.eval (node j)) • H) := by
    rw [hs, List.map_map]
    apply List.map_congr_left
    intro e he
    simp only [Function.comp]
    rw [hval e he, smul_smul]
  rw [h1, ← List.sum_toFinset _ hnd, ← Finset.sum_smul]
  congr 1
  have hcard : senders.toFinset.card = shares.length := by
    rw [List.toFinset_card_of_nodup hnd, hs, List.length_map]
  rw [eval_zero_eq_sum senders.toFinset node f hinj (by rw [hcard]; exact hdeg)]
  apply Finset.sum_congr rfl
  intro j _
  rw [lagrange_lawful senders hnd j]

end Shutter.EpochKG
