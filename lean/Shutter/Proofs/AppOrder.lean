/-
C09 helper lemmas: no result of the shuttermint model depends on the order in which Go ranges over
a map.  The range sites are exactly those pinned in `Generated/AppFacts.lean`.
-/
import Shutter.Proofs.Powermap

namespace Shutter.App
open Shutter Shutter.App.App

/-! ### Voting.outcomeIndex -/

theorem countOn_perm {l₁ l₂ : List (Addr × Nat)} (h : l₁.Perm l₂) (i : Nat) :
    Voting.countOn l₁ i = Voting.countOn l₂ i := by
  unfold Voting.countOn
  exact (h.filter _).length_eq

theorem outcomeIndexOn_perm {l₁ l₂ : List (Addr × Nat)} (h : l₁.Perm l₂) (n : Nat) (r : Int) :
    Voting.outcomeIndexOn l₁ n r = Voting.outcomeIndexOn l₂ n r := by
  unfold Voting.outcomeIndexOn
  congr 1
  funext i
  simp only [countOn_perm h i]

theorem outcome_order {T : Type} [DecidableEq T] (o₁ o₂ : Order) (h₁ : o₁.Valid) (h₂ : o₂.Valid)
    (v : Voting T) (r : Int) : v.outcome o₁ r = v.outcome o₂ r := by
  unfold Voting.outcome Voting.outcomeIndex
  rw [outcomeIndexOn_perm ((h₁.votes_perm v.votes).trans (h₂.votes_perm v.votes).symm)]

/-! ### sorting is insensitive to the listing when keys are distinct -/

theorem sortByKey_perm_eq (l₁ l₂ : List (PubKey × Int)) (h : l₁.Perm l₂)
    (hn : (l₂.map (fun e : PubKey × Int => e.1)).Nodup) : sortByKey l₁ = sortByKey l₂ := by
  have hn₁ : (l₁.map (fun e : PubKey × Int => e.1)).Nodup :=
    (h.map (fun e : PubKey × Int => e.1)).nodup_iff.2 hn
  have p₁ := sortByKey_perm l₁
  have p₂ := sortByKey_perm l₂
  apply sortedLT_ext
  · exact sortedLT_of_sortedLE_nodup _ (sortByKey_sorted _)
      ((p₁.map (fun e : PubKey × Int => e.1)).nodup_iff.2 hn₁)
  · exact sortedLT_of_sortedLE_nodup _ (sortByKey_sorted _)
      ((p₂.map (fun e : PubKey × Int => e.1)).nodup_iff.2 hn)
  · intro x
    rw [p₁.mem_iff, p₂.mem_iff, h.mem_iff]

/-! ### well-formedness: the validators map has distinct keys -/

def WF (a : App) : Prop := (AMap.keys a.validators).Nodup

theorem keys_foldl_insert_nodup {α : Type} (f : AMap PubKey Int → α → PubKey × Int)
    (l : List α) (init : AMap PubKey Int) (h : (AMap.keys init).Nodup) :
    (AMap.keys (l.foldl (fun pm x => pm.insert (f pm x).1 (f pm x).2) init)).Nodup := by
  induction l generalizing init with
  | nil => simpa
  | cons x xs ih =>
    simp only [List.foldl_cons]
    exact ih _ (AMap.keys_insert_nodup _ _ _ h)

theorem makePowermap_nodup_aux (a : App) (ks : List Addr) (init : AMap PubKey Int)
    (h : (AMap.keys init).Nodup) :
    (AMap.keys (ks.foldl (fun (pm : AMap PubKey Int) k =>
      match a.identities.get? k with
      | some pk => pm.insert pk (pm.getD pk 0 + 10)
      | none => pm.insert nonExistentValidator (pm.getD nonExistentValidator 0 + 10)) init)).Nodup := by
  induction ks generalizing init with
  | nil => simpa
  | cons k rest ih =>
    simp only [List.foldl_cons]
    apply ih
    split <;> exact AMap.keys_insert_nodup _ _ _ h

theorem makePowermap_nodup (a : App) (ks : List Addr) : (AMap.keys (a.makePowermap ks)).Nodup := by
  unfold makePowermap
  exact makePowermap_nodup_aux a ks [] (by simp [AMap.keys])

theorem makeGenesisPowermap_nodup (vals : List (PubKey × Int)) :
    (AMap.keys (makeGenesisPowermap vals)).Nodup := by
  unfold makeGenesisPowermap
  exact keys_foldl_insert_nodup (fun (pm : AMap PubKey Int) (e : PubKey × Int) => (e.1, pm.getD e.1 0 + e.2))
    vals [] (by simp [AMap.keys])

theorem currentValidators_nodup (a : App) (h : WF a) : (AMap.keys a.currentValidators).Nodup := by
  unfold currentValidators
  split
  · exact makePowermap_nodup _ _
  · exact h

theorem init_WF (chainId : String) (keypers : List Addr) (threshold initialEon : Nat) (fork : Fork)
    (devMode : Bool) (validators : List (PubKey × Int)) :
    WF (App.init chainId keypers threshold initialEon fork devMode validators) := by
  unfold WF App.init
  exact makeGenesisPowermap_nodup _

/-! ### EndBlock -/

theorem updates_order (o : Order) (ho : o.Valid) (a' : App) (hwf' : WF a') :
    validatorUpdatesOn (o.power (diffPowermapsOn a'.validators a'.currentValidators
      (o.power a'.validators) (o.power a'.currentValidators))) =
    validatorUpdatesOn (diffPowermapsOn a'.validators a'.currentValidators
      a'.validators a'.currentValidators) := by
  have hnew := currentValidators_nodup a' hwf'
  have l1 : Listing a'.validators (o.power a'.validators) :=
    listing_perm _ _ _ (listing_self _ hwf') (ho.power_perm _)
  have l2 : Listing a'.currentValidators (o.power a'.currentValidators) :=
    listing_perm _ _ _ (listing_self _ hnew) (ho.power_perm _)
  unfold validatorUpdatesOn
  rw [sortByKey_perm_eq _ _ (ho.power_perm _) (keys_diff_nodup _ _ _ _)]
  exact updates_listing_independent _ _ _ _ _ _ l1 (listing_self _ hwf') l2 (listing_self _ hnew)

theorem endBlock_order (o₁ o₂ : Order) (h₁ : o₁.Valid) (h₂ : o₂.Valid) (a : App) (hwf : WF a)
    (height : Int) : a.endBlock o₁ height = a.endBlock o₂ height := by
  unfold endBlock
  simp only
  generalize hcfg : endBlockLoop a 0 [] a.configs [] = lp
  obtain ⟨configs, events⟩ := lp
  simp only
  have hwf' : WF { a with configs := configs } := hwf
  have e₁ := updates_order o₁ h₁ { a with configs := configs } hwf'
  have e₂ := updates_order o₂ h₂ { a with configs := configs } hwf'
  simp only at e₁ e₂
  rw [e₁, e₂]

theorem endBlock_WF (o : Order) (a : App) (hwf : WF a) (height : Int) :
    WF (a.endBlock o height).1 := by
  unfold endBlock
  simp only
  generalize hcfg : endBlockLoop a 0 [] a.configs [] = lp
  obtain ⟨configs, events⟩ := lp
  simp only [WF]
  exact currentValidators_nodup { a with configs := configs } hwf

/-! ### DeliverTx -/

theorem maybeStartEon_order (o₁ o₂ : Order) (h₁ : o₁.Valid) (h₂ : o₂.Valid) (a : App) (eon : Nat) :
    a.maybeStartEon o₁ eon = a.maybeStartEon o₂ eon := by
  unfold maybeStartEon
  cases a.dkgs.get? eon with
  | none => rfl
  | some dkg => simp only [outcome_order o₁ o₂ h₁ h₂]

theorem deliverTx_order (o₁ o₂ : Order) (h₁ : o₁.Valid) (h₂ : o₂.Valid) (a : App) (tx : Tx) :
    a.deliverTx o₁ tx = a.deliverTx o₂ tx := by
  unfold deliverTx
  cases tx with
  | undecodable => rfl
  | msg signer chainId nonce payload =>
    simp only
    split
    · rfl
    · split
      · rfl
      · cases payload <;> simp only [deliverMessage]
        · -- batchConfig
          unfold deliverBatchConfig
          simp only [outcome_order o₁ o₂ h₁ h₂]
        · -- dkgResult
          unfold deliverDKGResult
          simp only [maybeStartEon_order o₁ o₂ h₁ h₂]

theorem startDKG_validators (a : App) (c : BatchConfig) : (a.startDKG c).1.validators = a.validators := rfl

theorem maybeStartEon_validators (o : Order) (a : App) (eon : Nat) :
    (a.maybeStartEon o eon).1.validators = a.validators := by
  unfold maybeStartEon
  cases a.dkgs.get? eon with
  | none => rfl
  | some dkg =>
    simp only
    cases Voting.outcome o dkg.success (toInt64 dkg.config.threshold) with
    | none => rfl
    | some success =>
      simp only
      split
      · rfl
      · rfl

theorem deliverDKGResult_validators (o : Order) (a : App) (sender : Addr) (eon : Nat) (success : Bool) :
    (a.deliverDKGResult o sender eon success).1.validators = a.validators := by
  unfold deliverDKGResult
  cases a.dkgs.get? eon with
  | none => rfl
  | some dkg =>
    simp only
    split
    · rfl
    · cases dkg.success.addVote sender success with
      | none => rfl
      | some voting =>
        simp only
        have h := maybeStartEon_validators o
          { a with dkgs := a.dkgs.insert eon { dkg with success := voting } } eon
        generalize App.maybeStartEon o
          { a with dkgs := a.dkgs.insert eon { dkg with success := voting } } eon = r at h ⊢
        obtain ⟨a', d⟩ := r
        cases d <;> exact h

theorem deliverBatchConfig_validators (o : Order) (a : App) (sender : Addr) (act thr idx : Nat)
    (ks : List Raw) : (a.deliverBatchConfig o sender act thr idx ks).1.validators = a.validators := by
  unfold deliverBatchConfig
  cases batchConfigFromMessage act thr idx ks with
  | none => rfl
  | some bc =>
    simp only
    split
    · rfl
    · split
      · rfl
      · split
        · rfl
        · cases a.configVoting.addVote sender bc with
          | none => rfl
          | some voting =>
            simp only
            cases Voting.outcome o voting _ with
            | none => rfl
            | some _ => rfl

theorem applyReg_validators (a : App) (eon : Nat) (r : Reg) (ev : Event) :
    (a.applyReg eon r ev).1.validators = a.validators := by
  cases r <;> rfl

/-- validators are only ever replaced by `EndBlock` -/
theorem deliverTx_validators (o : Order) (a : App) (tx : Tx) :
    (a.deliverTx o tx).1.validators = a.validators := by
  unfold deliverTx
  cases tx with
  | undecodable => rfl
  | msg signer chainId nonce payload =>
    simp only
    split
    · rfl
    · split
      · rfl
      · cases payload <;> simp only [deliverMessage]
        · exact deliverBatchConfig_validators o _ _ _ _ _ _
        · unfold deliverBlockSeen; simp only; repeat' split
          all_goals rfl
        · unfold deliverCheckIn; simp only; repeat' split
          all_goals rfl
        · exact deliverDKGResult_validators o _ _ _ _
        · unfold deliverPolyEval; simp only; repeat' split
          all_goals first | rfl | exact applyReg_validators _ _ _ _
        · unfold deliverPolyCommitment; simp only; repeat' split
          all_goals first | rfl | exact applyReg_validators _ _ _ _
        · unfold deliverAccusation; simp only; repeat' split
          all_goals first | rfl | exact applyReg_validators _ _ _ _
        · unfold deliverApology; simp only; repeat' split
          all_goals first | rfl | exact applyReg_validators _ _ _ _

theorem checkTx_validators (a : App) (tx : Tx) : (a.checkTxOp tx).1.validators = a.validators := by
  unfold checkTxOp
  cases tx with
  | undecodable => rfl
  | msg signer chainId nonce payload =>
    simp only; repeat' split
    all_goals rfl

/-! ### whole steps and histories -/

theorem stepWith_order (o₁ o₂ : Order) (h₁ : o₁.Valid) (h₂ : o₂.Valid) (a : App) (hwf : WF a)
    (op : Op) : a.stepWith o₁ op = a.stepWith o₂ op := by
  cases op with
  | begin h => rfl
  | deliver tx => simp only [App.stepWith, deliverTx_order o₁ o₂ h₁ h₂]
  | check tx => rfl
  | endBlock h => simp only [App.stepWith, endBlock_order o₁ o₂ h₁ h₂ a hwf]
  | commit => rfl

theorem stepWith_WF (o : Order) (a : App) (hwf : WF a) (op : Op) : WF (a.stepWith o op).1 := by
  cases op with
  | begin h => exact hwf
  | deliver tx => simp only [App.stepWith, WF, deliverTx_validators]; exact hwf
  | check tx => simp only [App.stepWith, WF, checkTx_validators]; exact hwf
  | endBlock h => exact endBlock_WF o a hwf h
  | commit => exact hwf

theorem canonical_valid : Order.canonical.Valid :=
  ⟨fun l => List.Perm.refl l, fun l => List.Perm.refl l⟩

/-- a history run with an arbitrary valid order at every call equals the canonical run -/
theorem runWith_eq_run (a : App) (hwf : WF a) (ops : List (Order × Op))
    (hv : ∀ p ∈ ops, p.1.Valid) : a.runWith ops = a.run (ops.map (·.2)) := by
  unfold App.run
  induction ops generalizing a with
  | nil => rfl
  | cons p rest ih =>
    obtain ⟨o, op⟩ := p
    simp only [List.map_cons, App.runWith]
    have hstep := stepWith_order o Order.canonical (hv (o, op) (by simp)) canonical_valid a hwf op
    rw [hstep]
    have hwf' := stepWith_WF Order.canonical a hwf op
    rw [ih _ hwf' (fun p hp => hv p (List.mem_cons_of_mem _ hp))]

end Shutter.App
