/-
C18 helper lemmas.
-/
import Shutter.Model.Api

namespace Shutter.Api

theorem segs_ne_nil (p : Path) : segs p ≠ [] := by
  cases p with
  | nil => simp [segs]
  | cons c rest =>
    simp only [segs]
    split
    · simp
    · split <;> simp

theorem joinSegs_segs (p : Path) : joinSegs (segs p) = p := by
  induction p with
  | nil => rfl
  | cons c rest ih =>
    simp only [segs]
    split
    · rename_i hc
      subst hc
      cases hs : segs rest with
      | nil => exact absurd hs (segs_ne_nil rest)
      | cons s ss => simp only [hs, joinSegs] at ih ⊢; rw [ih]; rfl
    · cases hs : segs rest with
      | nil => exact absurd hs (segs_ne_nil rest)
      | cons s ss =>
        simp only [hs] at ih ⊢
        cases ss with
        | nil => simp only [joinSegs] at ih ⊢; rw [ih]
        | cons t ts => simp only [joinSegs, List.cons_append] at ih ⊢; rw [ih]

theorem mem_segs (p : Path) (s : List Char) (hs : s ∈ segs p) (c : Char) (hc : c ∈ s) : c ∈ p := by
  induction p generalizing s with
  | nil => simp [segs] at hs; subst hs; cases hc
  | cons x rest ih =>
    simp only [segs] at hs
    split at hs
    · rcases List.mem_cons.1 hs with h | h
      · subst h; cases hc
      · exact List.mem_cons_of_mem _ (ih s h hc)
    · cases hr : segs rest with
      | nil => exact absurd hr (segs_ne_nil rest)
      | cons t ts =>
        simp only [hr] at hs
        rcases List.mem_cons.1 hs with h | h
        · subst h
          rcases List.mem_cons.1 hc with h2 | h2
          · rw [h2]; exact List.mem_cons_self
          · exact List.mem_cons_of_mem _ (ih t (by rw [hr]; exact List.mem_cons_self) h2)
        · exact List.mem_cons_of_mem _ (ih s (by rw [hr]; exact List.mem_cons_of_mem _ h) hc)

theorem isParam_mem_brace (s : List Char) (h : isParam s = true) : '{' ∈ s := by
  unfold isParam at h
  simp only [Bool.and_eq_true, decide_eq_true_eq] at h
  cases s with
  | nil => simp at h
  | cons c rest =>
    simp only [List.head?_cons, Option.some.injEq] at h
    rw [h.1.2]; exact List.mem_cons_self

/-- literal segments match only themselves -/
theorem matchSegs_literal (ts ss : List (List Char)) (hl : ∀ t ∈ ts, isParam t = false)
    (h : matchSegs ts ss = true) : ts = ss := by
  induction ts generalizing ss with
  | nil => cases ss with
    | nil => rfl
    | cons _ _ => simp [matchSegs] at h
  | cons t rest ih =>
    cases ss with
    | nil => simp [matchSegs] at h
    | cons s ss' =>
      simp only [matchSegs, Bool.and_eq_true] at h
      have ht := hl t (by simp)
      have h1 : t = s := by
        have := h.1
        unfold segMatches at this
        simpa [ht] using this
      rw [h1, ih ss' (fun x hx => hl x (List.mem_cons_of_mem _ hx)) h.2]

/-- a brace-free pattern matches exactly one route path: itself -/
theorem templateMatches_literal (t p : Path) (hl : t.contains '{' = false) (h : templateMatches t p = true) :
    p = t := by
  unfold templateMatches at h
  have hseg : ∀ s ∈ segs t, isParam s = false := by
    intro s hs
    cases hp : isParam s with
    | false => rfl
    | true =>
      have := mem_segs t s hs '{' (isParam_mem_brace s hp)
      simp [List.contains_iff_mem, List.elem_eq_mem] at hl
      exact absurd this hl
  have := matchSegs_literal _ _ hseg h
  rw [← joinSegs_segs p, ← this, joinSegs_segs]

theorem mem_dedup (l : List Path) (a : Path) : a ∈ dedup l ↔ a ∈ l := by
  induction l with
  | nil => simp [dedup]
  | cons x rest ih =>
    simp only [dedup]
    split
    · rename_i hc
      rw [ih]
      constructor
      · intro h; exact List.mem_cons_of_mem _ h
      · intro h
        rcases List.mem_cons.1 h with h1 | h1
        · rw [h1]; simpa [List.contains_iff_mem, List.elem_eq_mem] using hc
        · exact h1
    · simp only [List.mem_cons, ih]

theorem find?_some_of_pairwise (spec : List SpecOp) (o : SpecOp) (ho : o ∈ spec) :
    ∃ o', spec.find? (fun x => decide (x.template = o.template) && decide (x.method = o.method)) = some o' ∧
      o'.template = o.template ∧ o'.method = o.method := by
  cases hf : spec.find? (fun x => decide (x.template = o.template) && decide (x.method = o.method)) with
  | none =>
    rw [List.find?_eq_none] at hf
    have := hf o ho
    simp at this
  | some o' =>
    have := List.find?_some hf
    simp only [Bool.and_eq_true, decide_eq_true_eq] at this
    exact ⟨o', rfl, this.1, this.2⟩

end Shutter.Api

namespace Shutter.Api

/-! ### determinism of the gate -/

theorem disjoint_no_common (ts us ps : List (List Char)) (hd : disjointSegs ts us = true)
    (h1 : matchSegs ts ps = true) (h2 : matchSegs us ps = true) : False := by
  induction ts generalizing us ps with
  | nil =>
    cases us with
    | nil => simp [disjointSegs] at hd
    | cons u us' =>
      cases ps with
      | nil => simp [matchSegs] at h2
      | cons p ps' => simp [matchSegs] at h1
  | cons t ts' ih =>
    cases us with
    | nil =>
      cases ps with
      | nil => simp [matchSegs] at h1
      | cons p ps' => simp [matchSegs] at h2
    | cons u us' =>
      cases ps with
      | nil => simp [matchSegs] at h1
      | cons p ps' =>
        simp only [matchSegs, Bool.and_eq_true] at h1 h2
        simp only [disjointSegs, Bool.or_eq_true, Bool.and_eq_true, Bool.not_eq_true', decide_eq_true_eq] at hd
        rcases hd with ⟨⟨ht, hu⟩, hne⟩ | hd'
        · have e1 : t = p := by have := h1.1; unfold segMatches at this; simpa [ht] using this
          have e2 : u = p := by have := h2.1; unfold segMatches at this; simpa [hu] using this
          exact hne (e1.trans e2.symm)
        · exact ih us' ps' hd' h1.2 h2.2

theorem normalizeAux_count_pos (t : Path) (prev : Option Char) (h : '{' ∈ t) :
    1 ≤ (normalizeAux t false prev).2 := by
  induction t generalizing prev with
  | nil => cases h
  | cons c rest ih =>
    simp only [normalizeAux, Bool.false_eq_true, if_false]
    by_cases hc : c = '{'
    · simp only [hc, if_true]
      omega
    · simp only [hc, if_false]
      have : '{' ∈ rest := by
        rcases List.mem_cons.1 h with h1 | h1
        · exact absurd h1.symm hc
        · exact h1
      exact ih (some c) this

/-- for a brace-free request path the normalised comparison can only find the path itself -/
theorem normalize_eq_plain (t p : Path) (hp : p.contains '{' = false) (h : normalize t = normalize p) : t = p := by
  have hnp : normalize p = (p, 0) := by unfold normalize; rw [hp]; rfl
  rw [hnp] at h
  unfold normalize at h
  split at h
  · rename_i ht
    have hmem : '{' ∈ t := by simpa [List.contains_iff_mem, List.elem_eq_mem] using ht
    have := normalizeAux_count_pos t none hmem
    rw [h] at this
    simp at this
  · simpa using h

/-- `find?` with a predicate that at most one candidate satisfies does not depend on the listing -/
theorem find?_unique {α : Type} (q : α → Bool) (l₁ l₂ : List α) (hmem : ∀ a, a ∈ l₁ ↔ a ∈ l₂)
    (huniq : ∀ a b, a ∈ l₁ → b ∈ l₁ → q a = true → q b = true → a = b) : l₁.find? q = l₂.find? q := by
  cases h1 : l₁.find? q with
  | none =>
    rw [List.find?_eq_none] at h1
    symm
    rw [List.find?_eq_none]
    intro a ha; exact h1 a ((hmem a).2 ha)
  | some a =>
    have ha := List.mem_of_find?_eq_some h1
    have hqa := List.find?_some h1
    cases h2 : l₂.find? q with
    | none =>
      rw [List.find?_eq_none] at h2
      exact absurd hqa (h2 a ((hmem a).1 ha))
    | some b =>
      have hb := List.mem_of_find?_eq_some h2
      have hqb := List.find?_some h2
      rw [huniq a b ha ((hmem b).2 hb) hqa hqb]

theorem pairwise_mem {α : Type} (r : α → α → Bool) (l : List α) (h : pairwise r l = true) (hs : ∀ a b, r a b = r b a)
    (a b : α) (ha : a ∈ l) (hb : b ∈ l) (hne : a ≠ b) : r a b = true := by
  induction l with
  | nil => cases ha
  | cons x rest ih =>
    simp only [pairwise, Bool.and_eq_true, List.all_eq_true] at h
    rcases List.mem_cons.1 ha with h1 | h1 <;> rcases List.mem_cons.1 hb with h2 | h2
    · exact absurd (h1.trans h2.symm) hne
    · rw [h1]; exact h.1 b h2
    · rw [h2, hs]; exact h.1 a h1
    · exact ih h.2 h1 h2

theorem disjointSegs_symm (a b : List (List Char)) : disjointSegs a b = disjointSegs b a := by
  induction a generalizing b with
  | nil => cases b <;> rfl
  | cons t ts ih =>
    cases b with
    | nil => rfl
    | cons u us =>
      simp only [disjointSegs, ih us]
      congr 1
      have : (t ≠ u) ↔ (u ≠ t) := ⟨fun h e => h e.symm, fun h e => h e.symm⟩
      simp only [decide_eq_decide.2 this]
      cases isParam t <;> cases isParam u <;> rfl

end Shutter.Api
