/-
Helper lemmas for C09/C12: `DiffPowermaps`, `ValidatorUpdates`, and Tendermint's way of applying
validator updates.
-/
import Shutter.Model.App

namespace Shutter.App
open Shutter

/-- `l` is a listing of the Go map `m`: exactly its entries, in any order, possibly repeated. -/
def Listing (m : AMap PubKey Int) (l : List (PubKey × Int)) : Prop :=
  ∀ k v, (k, v) ∈ l ↔ m.get? k = some v

/-- Tendermint's validator-set update: power 0 removes (an error if absent), otherwise set. -/
def tmApply : AMap PubKey Int → List (PubKey × Int) → Option (AMap PubKey Int)
  | m, [] => some m
  | m, (k, p) :: rest =>
    if p = 0 then
      if m.contains k then tmApply (m.erase k) rest else none
    else tmApply (m.insert k p) rest

/-! ### AMap.erase -/

theorem get?_erase (m : AMap PubKey Int) (k k' : PubKey) :
    AMap.get? (AMap.erase m k) k' = if k = k' then none else AMap.get? m k' := by
  induction m with
  | nil => simp [AMap.erase]
  | cons e rest ih =>
    obtain ⟨a, b⟩ := e
    unfold AMap.erase at ih ⊢
    simp only [List.filter_cons]
    by_cases h : a = k
    · subst h
      simp only [ne_eq, not_true_eq_false, decide_false, Bool.false_eq_true, if_false]
      rw [ih]
      by_cases h2 : a = k'
      · simp [h2]
      · simp [h2, AMap.get?]
    · simp only [ne_eq, h, not_false_eq_true, decide_true, if_true, AMap.get?]
      by_cases h2 : a = k'
      · subst h2; simp [Ne.symm h]
      · simp only [h2, if_false]; exact ih

/-! ### conditional-insert folds -/

/-- fold that inserts `(e.1, f e)` for every `e` with `p e`; lookups see the last such entry -/
theorem get?_foldl_condInsert (p : PubKey × Int → Bool) (f : PubKey × Int → Int)
    (l : List (PubKey × Int)) (init : AMap PubKey Int) (k : PubKey) :
    AMap.get? (l.foldl (fun res e => if p e then res.insert e.1 (f e) else res) init) k =
      match l.reverse.find? (fun e => p e && decide (e.1 = k)) with
      | some e => some (f e)
      | none => AMap.get? init k := by
  induction l generalizing init with
  | nil => simp
  | cons x xs ih =>
    simp only [List.foldl_cons, List.reverse_cons, List.find?_append]
    rw [ih]
    cases hfind : xs.reverse.find? (fun e => p e && decide (e.1 = k)) with
    | some e => simp
    | none =>
      simp only [Option.none_or, List.find?_cons, List.find?_nil]
      by_cases hp : p x
      · by_cases hk : x.1 = k
        · simp [hp, hk, AMap.get?_insert]
        · simp [hp, hk, AMap.get?_insert]
      · simp [hp]

theorem keys_foldl_condInsert_nodup (p : PubKey × Int → Bool) (f : PubKey × Int → Int)
    (l : List (PubKey × Int)) (init : AMap PubKey Int) (h : (AMap.keys init).Nodup) :
    (AMap.keys (l.foldl (fun res e => if p e then res.insert e.1 (f e) else res) init)).Nodup := by
  induction l generalizing init with
  | nil => simpa
  | cons x xs ih =>
    simp only [List.foldl_cons]
    apply ih
    by_cases hp : p x
    · simp only [hp, if_true]; exact AMap.keys_insert_nodup _ _ _ h
    · simpa [hp] using h

/-! ### the diff, pointwise -/

theorem find?_reverse_none_iff {α : Type} (q : α → Bool) (l : List α) :
    l.reverse.find? q = none ↔ ∀ e ∈ l, q e = false := by
  simp [List.find?_eq_none]

/-- `DiffPowermaps` characterised entry by entry, for arbitrary listings of the two maps. -/
theorem get?_diff (oldm newm : AMap PubKey Int) (oldL newL : List (PubKey × Int))
    (ho : Listing oldm oldL) (hn : Listing newm newL) (k : PubKey) :
    AMap.get? (App.diffPowermapsOn oldm newm oldL newL) k =
      match newm.get? k with
      | some v => if oldm.getD k 0 ≠ v then some v else none
      | none => if oldm.contains k then some 0 else none := by
  unfold App.diffPowermapsOn
  have e1 : ∀ (res : AMap PubKey Int) (e : PubKey × Int),
      (if newm.contains e.1 then res else res.insert e.1 0) =
      (if (!newm.contains e.1) then res.insert e.1 ((fun _ => (0 : Int)) e) else res) := by
    intro res e; cases newm.contains e.1 <;> simp
  have e2 : ∀ (res : AMap PubKey Int) (e : PubKey × Int),
      (if oldm.getD e.1 0 ≠ e.2 then res.insert e.1 e.2 else res) =
      (if (decide (oldm.getD e.1 0 ≠ e.2)) then res.insert e.1 ((fun e => e.2) e) else res) := by
    intro res e; by_cases h : oldm.getD e.1 0 = e.2 <;> simp [h]
  simp only [e1, e2]
  rw [get?_foldl_condInsert, get?_foldl_condInsert]
  cases hnk : newm.get? k with
  | some v =>
    have hmem : (k, v) ∈ newL := (hn k v).2 hnk
    simp only
    by_cases hne : oldm.getD k 0 = v
    · -- no update for k: neither fold inserts it
      have h2 : newL.reverse.find? (fun e => decide (oldm.getD e.1 0 ≠ e.2) && decide (e.1 = k)) = none := by
        rw [find?_reverse_none_iff]
        intro e he
        by_cases hk : e.1 = k
        · have : newm.get? k = some e.2 := by
            have := (hn e.1 e.2).1 (by simpa using he); rwa [hk] at this
          rw [hnk] at this
          have hv : v = e.2 := by simpa using this
          simp [hk, hne, hv]
        · simp [hk]
      rw [h2]
      have h1 : oldL.reverse.find? (fun e => (!newm.contains e.1) && decide (e.1 = k)) = none := by
        rw [find?_reverse_none_iff]
        intro e _
        by_cases hk : e.1 = k
        · simp [hk, AMap.contains, hnk]
        · simp [hk]
      rw [h1]
      simp [hne]
    · cases hf : newL.reverse.find? (fun e => decide (oldm.getD e.1 0 ≠ e.2) && decide (e.1 = k)) with
      | none =>
        rw [find?_reverse_none_iff] at hf
        have := hf (k, v) hmem
        simp [hne] at this
      | some e =>
        have hsome := List.find?_some hf
        have hin : e ∈ newL := by
          have := List.mem_of_find?_eq_some hf; simpa using this
        simp only [Bool.and_eq_true, decide_eq_true_eq] at hsome
        have : newm.get? k = some e.2 := by
          have := (hn e.1 e.2).1 (by simpa using hin); rwa [hsome.2] at this
        rw [hnk] at this
        have hv : v = e.2 := by simpa using this
        subst hv
        simp [hne]
  | none =>
    have h2 : newL.reverse.find? (fun e => decide (oldm.getD e.1 0 ≠ e.2) && decide (e.1 = k)) = none := by
      rw [find?_reverse_none_iff]
      intro e he
      by_cases hk : e.1 = k
      · have : newm.get? k = some e.2 := by
          have := (hn e.1 e.2).1 (by simpa using he); rwa [hk] at this
        rw [hnk] at this; cases this
      · simp [hk]
    rw [h2]
    simp only
    by_cases hc : oldm.contains k
    · simp only [hc, if_true]
      obtain ⟨v, hv⟩ := Option.isSome_iff_exists.1 (by simpa [AMap.contains] using hc)
      have hmem : (k, v) ∈ oldL := (ho k v).2 hv
      cases hf : oldL.reverse.find? (fun e => (!newm.contains e.1) && decide (e.1 = k)) with
      | none =>
        rw [find?_reverse_none_iff] at hf
        have := hf (k, v) hmem
        simp [AMap.contains, hnk] at this
      | some e => simp
    · have h1 : oldL.reverse.find? (fun e => (!newm.contains e.1) && decide (e.1 = k)) = none := by
        rw [find?_reverse_none_iff]
        intro e he
        by_cases hk : e.1 = k
        · have : oldm.get? k = some e.2 := by
            have := (ho e.1 e.2).1 (by simpa using he); rwa [hk] at this
          simp [AMap.contains, this] at hc
        · simp [hk]
      rw [h1]
      simp [hc]

theorem keys_diff_nodup (oldm newm : AMap PubKey Int) (oldL newL : List (PubKey × Int)) :
    (AMap.keys (App.diffPowermapsOn oldm newm oldL newL)).Nodup := by
  unfold App.diffPowermapsOn
  have e1 : ∀ (res : AMap PubKey Int) (e : PubKey × Int),
      (if newm.contains e.1 then res else res.insert e.1 0) =
      (if (!newm.contains e.1) then res.insert e.1 ((fun _ => (0 : Int)) e) else res) := by
    intro res e; cases newm.contains e.1 <;> simp
  have e2 : ∀ (res : AMap PubKey Int) (e : PubKey × Int),
      (if oldm.getD e.1 0 ≠ e.2 then res.insert e.1 e.2 else res) =
      (if (decide (oldm.getD e.1 0 ≠ e.2)) then res.insert e.1 ((fun e => e.2) e) else res) := by
    intro res e; by_cases h : oldm.getD e.1 0 = e.2 <;> simp [h]
  simp only [e1, e2]
  apply keys_foldl_condInsert_nodup
  apply keys_foldl_condInsert_nodup
  simp [AMap.keys]

/-! ### sorting -/

theorem insertSorted_perm (e : PubKey × Int) (l : List (PubKey × Int)) :
    (App.insertSorted e l).Perm (e :: l) := by
  induction l with
  | nil => simp [App.insertSorted]
  | cons x xs ih =>
    simp only [App.insertSorted]
    split
    · exact List.Perm.refl _
    · exact (List.Perm.cons x ih).trans (List.Perm.swap e x xs)

theorem sortByKey_perm (l : List (PubKey × Int)) : (App.sortByKey l).Perm l := by
  induction l with
  | nil => simp [App.sortByKey]
  | cons x xs ih =>
    simp only [App.sortByKey, List.foldr_cons]
    exact (insertSorted_perm x _).trans (List.Perm.cons x ih)

/-- keys non-decreasing along the list -/
def SortedLE : List (PubKey × Int) → Prop
  | [] => True
  | [_] => True
  | a :: b :: rest => a.1 ≤ b.1 ∧ SortedLE (b :: rest)

theorem SortedLE.tail {a : PubKey × Int} {l : List (PubKey × Int)} (h : SortedLE (a :: l)) :
    SortedLE l := by
  cases l with
  | nil => trivial
  | cons b rest => exact h.2

theorem insertSorted_sorted (e : PubKey × Int) (l : List (PubKey × Int)) (h : SortedLE l) :
    SortedLE (App.insertSorted e l) := by
  induction l with
  | nil => simp [App.insertSorted, SortedLE]
  | cons x xs ih =>
    simp only [App.insertSorted]
    split
    · rename_i hle; exact ⟨hle, h⟩
    · rename_i hnle
      have hx : x.1 ≤ e.1 := Nat.le_of_lt (Nat.lt_of_not_le hnle)
      have ih' := ih h.tail
      cases xs with
      | nil => simp only [App.insertSorted]; exact ⟨hx, trivial⟩
      | cons y ys =>
        simp only [App.insertSorted] at ih' ⊢
        split
        · rename_i h2; simp only [h2, if_true] at ih'; exact ⟨hx, ih'⟩
        · rename_i h2; simp only [h2, if_false] at ih'; exact ⟨h.1, ih'⟩

theorem sortByKey_sorted (l : List (PubKey × Int)) : SortedLE (App.sortByKey l) := by
  induction l with
  | nil => simp [App.sortByKey, SortedLE]
  | cons x xs ih =>
    simp only [App.sortByKey, List.foldr_cons]
    exact insertSorted_sorted x _ ih

/-- keys strictly increasing along the list -/
def SortedLT : List (PubKey × Int) → Prop
  | [] => True
  | [_] => True
  | a :: b :: rest => a.1 < b.1 ∧ SortedLT (b :: rest)

theorem sortedLT_of_sortedLE_nodup (l : List (PubKey × Int)) (h : SortedLE l)
    (hn : (l.map (·.1)).Nodup) : SortedLT l := by
  induction l with
  | nil => trivial
  | cons a rest ih =>
    cases rest with
    | nil => trivial
    | cons b rest' =>
      simp only [List.map_cons, List.nodup_cons, List.mem_cons, not_or] at hn
      refine ⟨Nat.lt_of_le_of_ne h.1 hn.1.1, ih h.2 ?_⟩
      simp only [List.map_cons, List.nodup_cons]
      exact hn.2

/-- two sorted duplicate-free lists with the same elements are equal: the sort has one result -/
theorem sortedLT_head_le_of_mem {a : PubKey × Int} {l : List (PubKey × Int)}
    (h : SortedLT (a :: l)) : ∀ x ∈ l, a.1 < x.1 := by
  induction l generalizing a with
  | nil => intro x hx; cases hx
  | cons b rest ih =>
    intro x hx
    rcases List.mem_cons.1 hx with rfl | hx'
    · exact h.1
    · exact Nat.lt_trans h.1 (ih h.2 x hx')

theorem sortedLT_ext (l₁ l₂ : List (PubKey × Int)) (h₁ : SortedLT l₁) (h₂ : SortedLT l₂)
    (hmem : ∀ x, x ∈ l₁ ↔ x ∈ l₂) : l₁ = l₂ := by
  induction l₁ generalizing l₂ with
  | nil =>
    cases l₂ with
    | nil => rfl
    | cons b _ => have := (hmem b).2 (by simp); cases this
  | cons a r₁ ih =>
    cases l₂ with
    | nil => have := (hmem a).1 (by simp); cases this
    | cons b r₂ =>
      have hab : a = b := by
        have ha : a ∈ b :: r₂ := (hmem a).1 (by simp)
        have hb : b ∈ a :: r₁ := (hmem b).2 (by simp)
        rcases List.mem_cons.1 ha with h | h
        · exact h
        · rcases List.mem_cons.1 hb with h' | h'
          · exact h'.symm
          · have h1 := sortedLT_head_le_of_mem h₂ a h
            have h2 := sortedLT_head_le_of_mem h₁ b h'
            exact absurd (Nat.lt_trans h1 h2) (Nat.lt_irrefl _)
      subst hab
      have ht₁ : SortedLT r₁ := by
        cases r₁ with
        | nil => trivial
        | cons _ _ => exact h₁.2
      have ht₂ : SortedLT r₂ := by
        cases r₂ with
        | nil => trivial
        | cons _ _ => exact h₂.2
      congr 1
      apply ih r₂ ht₁ ht₂
      intro x
      constructor
      · intro hx
        have : x ∈ a :: r₂ := (hmem x).1 (List.mem_cons_of_mem _ hx)
        rcases List.mem_cons.1 this with h | h
        · subst h
          exact absurd (sortedLT_head_le_of_mem h₁ x hx) (Nat.lt_irrefl _)
        · exact h
      · intro hx
        have : x ∈ a :: r₁ := (hmem x).2 (List.mem_cons_of_mem _ hx)
        rcases List.mem_cons.1 this with h | h
        · subst h
          exact absurd (sortedLT_head_le_of_mem h₂ x hx) (Nat.lt_irrefl _)
        · exact h

/-! ### applying updates the Tendermint way -/

/-- lookup in an update list -/
def updLookup (u : List (PubKey × Int)) (k : PubKey) : Option Int := AMap.get? u k

/-- applying a duplicate-free update list whose removals are all present succeeds, and the result
    is described pointwise -/
theorem tmApply_spec (u : List (PubKey × Int)) (m : AMap PubKey Int)
    (hn : (u.map (·.1)).Nodup)
    (hrem : ∀ k, (k, (0 : Int)) ∈ u → m.contains k) :
    ∃ m', tmApply m u = some m' ∧
      ∀ k, AMap.get? m' k =
        match updLookup u k with
        | some p => if p = 0 then none else some p
        | none => AMap.get? m k := by
  induction u generalizing m with
  | nil => exact ⟨m, rfl, fun k => by simp [updLookup]⟩
  | cons e rest ih =>
    obtain ⟨a, p⟩ := e
    simp only [List.map_cons, List.nodup_cons] at hn
    have hnotin : ∀ v, (a, v) ∉ rest := by
      intro v hv; exact hn.1 (List.mem_map.2 ⟨(a, v), hv, rfl⟩)
    by_cases hp : p = 0
    · subst hp
      have hc : m.contains a = true := hrem a (by simp)
      have hrem' : ∀ k, (k, (0 : Int)) ∈ rest → (AMap.erase m a).contains k := by
        intro k hk
        have hka : a ≠ k := by intro h; subst h; exact hnotin 0 hk
        have := hrem k (List.mem_cons_of_mem _ hk)
        simp only [AMap.contains, get?_erase, hka, if_false] at this ⊢
        exact this
      obtain ⟨m', hm', hget⟩ := ih (AMap.erase m a) hn.2 hrem'
      refine ⟨m', by simp [tmApply, hc, hm'], ?_⟩
      intro k
      rw [hget k]
      simp only [updLookup, AMap.get?]
      by_cases hka : a = k
      · subst hka
        have : AMap.get? rest a = none := by
          cases h : AMap.get? rest a with
          | none => rfl
          | some v =>
            exfalso
            have : a ∈ AMap.keys rest := (AMap.mem_keys_iff_get?_isSome rest a).2 (by simp [h])
            exact hn.1 this
        simp [this, get?_erase]
      · simp [hka, get?_erase]
    · have hrem' : ∀ k, (k, (0 : Int)) ∈ rest → (AMap.insert m a p).contains k := by
        intro k hk
        have hka : a ≠ k := by intro h; subst h; exact hnotin 0 hk
        have := hrem k (List.mem_cons_of_mem _ hk)
        simp only [AMap.contains, AMap.get?_insert, hka, if_false] at this ⊢
        exact this
      obtain ⟨m', hm', hget⟩ := ih (AMap.insert m a p) hn.2 hrem'
      refine ⟨m', by simp [tmApply, hp, hm'], ?_⟩
      intro k
      rw [hget k]
      simp only [updLookup, AMap.get?]
      by_cases hka : a = k
      · subst hka
        have : AMap.get? rest a = none := by
          cases h : AMap.get? rest a with
          | none => rfl
          | some v =>
            exfalso
            have : a ∈ AMap.keys rest := (AMap.mem_keys_iff_get?_isSome rest a).2 (by simp [h])
            exact hn.1 this
        simp [this, AMap.get?_insert, hp]
      · simp [hka, AMap.get?_insert]

end Shutter.App

namespace Shutter.App
open Shutter

theorem mem_iff_get?_of_nodup (m : AMap PubKey Int) (h : (AMap.keys m).Nodup) (k : PubKey) (v : Int) :
    (k, v) ∈ m ↔ AMap.get? m k = some v := by
  induction m with
  | nil => simp
  | cons e rest ih =>
    obtain ⟨a, b⟩ := e
    simp only [AMap.keys, List.map_cons, List.nodup_cons] at h
    simp only [List.mem_cons, AMap.get?, Prod.mk.injEq]
    by_cases hak : a = k
    · subst hak
      simp only [if_true, Option.some.injEq, true_and]
      constructor
      · rintro (h1 | h1)
        · exact h1.symm
        · exact absurd (List.mem_map.2 ⟨(a, v), h1, rfl⟩) h.1
      · intro h1; exact Or.inl h1.symm
    · simp only [hak, if_false]
      rw [← ih h.2]
      constructor
      · rintro (h1 | h1)
        · exact absurd h1.1.symm hak
        · exact h1
      · intro h1; exact Or.inr h1

/-- a map with duplicate-free keys is a listing of itself -/
theorem listing_self (m : AMap PubKey Int) (h : (AMap.keys m).Nodup) : Listing m m :=
  fun k v => mem_iff_get?_of_nodup m h k v

theorem listing_perm (m : AMap PubKey Int) (l l' : List (PubKey × Int)) (h : Listing m l)
    (hp : l'.Perm l) : Listing m l' :=
  fun k v => (hp.mem_iff).trans (h k v)

/-- the sorted update list is determined by the diff as a function: any two listings of the two
    maps give the same `ValidatorUpdates` -/
theorem updates_listing_independent (oldm newm : AMap PubKey Int)
    (oldL oldL' newL newL' : List (PubKey × Int))
    (ho : Listing oldm oldL) (ho' : Listing oldm oldL')
    (hn : Listing newm newL) (hn' : Listing newm newL') :
    App.validatorUpdatesOn (App.diffPowermapsOn oldm newm oldL newL) =
      App.validatorUpdatesOn (App.diffPowermapsOn oldm newm oldL' newL') := by
  unfold App.validatorUpdatesOn
  have key : ∀ (oL nL : List (PubKey × Int)), Listing oldm oL → Listing newm nL →
      SortedLT (App.sortByKey (App.diffPowermapsOn oldm newm oL nL)) ∧
      ∀ x, x ∈ App.sortByKey (App.diffPowermapsOn oldm newm oL nL) ↔
        AMap.get? (App.diffPowermapsOn oldm newm oL nL) x.1 = some x.2 := by
    intro oL nL _ _
    have hnd := keys_diff_nodup oldm newm oL nL
    have hperm := sortByKey_perm (App.diffPowermapsOn oldm newm oL nL)
    refine ⟨sortedLT_of_sortedLE_nodup _ (sortByKey_sorted _) ?_, ?_⟩
    · exact (hperm.map (fun e : PubKey × Int => e.1)).nodup_iff.2 hnd
    · intro x
      rw [hperm.mem_iff]
      exact mem_iff_get?_of_nodup _ hnd x.1 x.2
  obtain ⟨s1, m1⟩ := key oldL newL ho hn
  obtain ⟨s2, m2⟩ := key oldL' newL' ho' hn'
  apply sortedLT_ext _ _ s1 s2
  intro x
  rw [m1, m2, get?_diff _ _ _ _ ho hn, get?_diff _ _ _ _ ho' hn']

end Shutter.App
