/- Helper lemmas for the access node model: the store after any sequence of chain-sync events. -/
import Shutter.Model.AccessNode

namespace Shutter.AccessNode

theorem Map.get_put_same (m : Map) (k v : Nat) : (m.put k v).get k = some v := by
  simp [Map.put, Map.get]

theorem Map.get_put_other (m : Map) (k k' v : Nat) (h : k' ≠ k) : (m.put k v).get k' = m.get k' := by
  have hk : ((k == k') = false) := by simpa using fun e => h e.symm
  simp only [Map.put, Map.get, List.find?, hk]
  congr 1
  induction m with
  | nil => rfl
  | cons e rest ih =>
    by_cases he : e.1 = k
    · have h1 : (e.1 != k) = false := by simp [he]
      have h2 : (e.1 == k') = false := by simpa [he] using fun e => h e.symm
      simp only [List.filter, h1, List.find?, h2]
      exact ih
    · have h1 : (e.1 != k) = true := by simpa using he
      simp only [List.filter, h1, List.find?]
      cases (e.1 == k') with
      | true => rfl
      | false => exact ih

/-- the eon key last announced for `e` -/
def lastKey (evs : List Ev) (e : Nat) (init : Option Nat) : Option Nat :=
  evs.foldl (fun cur ev => match ev with
    | .key e' id => if e' = e then some id else cur
    | .set _ _ => cur) init

/-- the keyper set last announced for `e` -/
def lastSet (evs : List Ev) (e : Nat) (init : Option Nat) : Option Nat :=
  evs.foldl (fun cur ev => match ev with
    | .set e' id => if e' = e then some id else cur
    | .key _ _ => cur) init

theorem run_keys_get (evs : List Ev) (s : Store) (e : Nat) :
    (s.run evs).keys.get e = lastKey evs e (s.keys.get e) := by
  induction evs generalizing s with
  | nil => rfl
  | cons ev rest ih =>
    simp only [Store.run, List.foldl_cons, lastKey] at *
    rw [ih]
    congr 1
    cases ev with
    | key e' id =>
      simp only [Store.step]
      by_cases h : e' = e
      · subst h; rw [if_pos rfl, Map.get_put_same]
      · rw [if_neg h, Map.get_put_other _ _ _ _ (fun x => h x.symm)]
    | set e' id => rfl

theorem run_sets_get (evs : List Ev) (s : Store) (e : Nat) :
    (s.run evs).sets.get e = lastSet evs e (s.sets.get e) := by
  induction evs generalizing s with
  | nil => rfl
  | cons ev rest ih =>
    simp only [Store.run, List.foldl_cons, lastSet] at *
    rw [ih]
    congr 1
    cases ev with
    | set e' id =>
      simp only [Store.step]
      by_cases h : e' = e
      · subst h; rw [if_pos rfl, Map.get_put_same]
      · rw [if_neg h, Map.get_put_other _ _ _ _ (fun x => h x.symm)]
    | key e' id => rfl

theorem lastKey_other (evs : List Ev) (e : Nat) (init : Option Nat) (h : ∀ ev ∈ evs, ev.eon ≠ e) :
    lastKey evs e init = init := by
  induction evs generalizing init with
  | nil => rfl
  | cons ev rest ih =>
    simp only [lastKey, List.foldl_cons] at *
    have hev := h ev List.mem_cons_self
    have hrest := fun x hx => h x (List.mem_cons_of_mem _ hx)
    cases ev with
    | key e' id =>
      have : e' ≠ e := hev
      simp only [if_neg this]; exact ih _ hrest
    | set e' id => exact ih _ hrest

theorem lastSet_other (evs : List Ev) (e : Nat) (init : Option Nat) (h : ∀ ev ∈ evs, ev.eon ≠ e) :
    lastSet evs e init = init := by
  induction evs generalizing init with
  | nil => rfl
  | cons ev rest ih =>
    simp only [lastSet, List.foldl_cons] at *
    have hev := h ev List.mem_cons_self
    have hrest := fun x hx => h x (List.mem_cons_of_mem _ hx)
    cases ev with
    | set e' id =>
      have : e' ≠ e := hev
      simp only [if_neg this]; exact ih _ hrest
    | key e' id => exact ih _ hrest

/-- the validator as a function of what the store answers for the message's eon -/
def validateWith (inst max : Nat) (k? ks? : Option Nat) (m : Msg) : Bool :=
  if m.inst ≠ inst then false
  else if m.eon > maxInt64 then false
  else if m.nkeys = 0 then false
  else if m.nkeys > max then false
  else
    match k? with
    | none => false
    | some k =>
      if !m.keysOK k then false
      else if !m.basic then false
      else
        match ks? with
        | none => false
        | some ks => m.sigsOK ks

theorem validate_eq (inst max : Nat) (s : Store) (m : Msg) :
    validate inst max s m = validateWith inst max (s.keys.get m.eon) (s.sets.get m.eon) m := rfl

end Shutter.AccessNode
