import Shutter.Model.SaveFile

namespace Shutter.SaveFile

@[simp] theorem Fs.set_same (fs : Fs) (p : String) (v : Option File) : (fs.set p v) p = v := by
  simp [Fs.set]

theorem Fs.set_other (fs : Fs) (p q : String) (v : Option File) (h : q ≠ p) : (fs.set p v) q = fs q := by
  simp [Fs.set, h]

/-- create / write / sync on `tmp` do not touch any other path -/
theorem step_create_other (fs : Fs) (tmp q : String) (h : q ≠ tmp) : step fs (.create tmp) q = fs q := by
  simp [step, Fs.set_other _ _ _ _ h]

theorem step_write_other (fs : Fs) (tmp q : String) (d : Bytes) (h : q ≠ tmp) :
    step fs (.write tmp d) q = fs q := by
  simp only [step]
  cases hf : fs tmp with
  | none => rfl
  | some f => simp only; exact Fs.set_other _ _ _ _ h

theorem step_sync_other (fs : Fs) (tmp q : String) (h : q ≠ tmp) : step fs (.sync tmp) q = fs q := by
  simp only [step]
  cases hf : fs tmp with
  | none => rfl
  | some f => simp only; exact Fs.set_other _ _ _ _ h

/-- after create, complete write and sync, the temp file holds the complete durable encoding -/
theorem tmp_after_sync (fs : Fs) (tmp : String) (enc : Bytes) :
    step (step (step fs (.create tmp)) (.write tmp enc)) (.sync tmp) tmp =
      some { data := enc, durable := enc.length } := by
  simp [step]

theorem visible_complete (fs : Fs) (p : String) (d : Bytes) (c : Option Bytes)
    (h : fs p = some { data := d, durable := d.length }) (hv : Visible fs p c) : c = some d := by
  unfold Visible at hv
  rw [h] at hv
  obtain ⟨k, hk1, hk2, hc⟩ := hv
  have : k = d.length := Nat.le_antisymm hk2 hk1
  rw [hc, this, List.take_length]

end Shutter.SaveFile
