import Shutter.Model.SaveFile

namespace Shutter.SaveFile

@[simp] theorem Fs.set_same (fs : Fs) (p : String) (v : Option File) : (fs.set p v) p = v := by
  simp [Fs.set]

theorem Fs.set_other (fs : Fs) (p q : String) (v : Option File) (h : q ≠ p) : (fs.set p v) q = fs q := by
  simp [Fs.set, h]

/-- create / write / sync on `tmp` do not touch any other path -/
theorem step_create_other (fs : Fs) (tmp q : String) (h : q ≠ tmp) : step fs (.create tmp) q = fs q := by
  simp [step, Fs.set_other _ _ _ _ h]

theorem step_write_other (fs : Fs) (tmp q : String) (d : Bytes) (h : q ≠ tmp) :
    step fs (.write tmp d) q = fs q := by
  simp only [step]
  cases hf : fs tmp with
  | none => rfl
  | some f => simp only; exact Fs.set_other _ _ _ _ h

theorem step_sync_other (fs : Fs) (tmp q : String) (h : q ≠ tmp) : step fs (.sync tmp) q = fs q := by
  simp only [step]
  cases hf : fs tmp with
  | none => rfl
  | some f => simp only; exact Fs.set_other _ _ _ _ h

/-- after create, complete write and sync, the temp file holds the complete durable encoding -/
theorem tmp_after_sync (fs : Fs) (tmp : String) (enc : Bytes) :
    step (step (step fs (.create tmp)) (.write tmp enc)) (.sync tmp) tmp =
      some { data := enc, durable := enc.length } := by
  simp [step]

theorem visible_complete (fs : Fs) (p : String) (d : Bytes) (c : Option Bytes)
    (h : fs p = some { data := d, durable := d.length }) (hv : Visible fs p c) : c = some d := by
  unfold Visible at hv
  rw [h] at hv
  obtain ⟨k, hk1, hk2, hc⟩ := hv
  have : k = d.length := Nat.le_antisymm hk2 hk1
  rw [hc, this, List.take_length]

/-- before the rename the final path is untouched -/
theorem crash_final_before (fs : Fs) (tmp final : String) (hne : tmp ≠ final) (enc : Bytes) (i j : Nat) (hi : i < 4) :
    (crashState fs tmp final enc i j) final = fs final := by
  have hne' : final ≠ tmp := fun h => hne h.symm
  unfold crashState saveOps
  rcases i with _ | _ | _ | _ | i
  · simp [run]
  · simp only [List.take, run, List.foldl_cons, List.foldl_nil, if_true]
    rw [step_write_other _ _ _ _ hne', step_create_other _ _ _ hne']
  · have h2 : ¬ (0 + 1 + 1 = 1) := by decide
    simp only [List.take, run, List.foldl_cons, List.foldl_nil, h2, if_false]
    rw [step_write_other _ _ _ _ hne', step_create_other _ _ _ hne']
  · have h2 : ¬ (0 + 1 + 1 + 1 = 1) := by decide
    simp only [List.take, run, List.foldl_cons, List.foldl_nil, h2, if_false]
    rw [step_sync_other _ _ _ hne', step_write_other _ _ _ _ hne', step_create_other _ _ _ hne']
  · omega

/-- once the rename is done the final path holds the complete, durable new encoding — whatever the temp path held
    before the save began -/
theorem crash_final_after (fs : Fs) (tmp final : String) (hne : tmp ≠ final) (enc : Bytes) (i j : Nat) (hi : 4 ≤ i) :
    (crashState fs tmp final enc i j) final = some { data := enc, durable := enc.length } := by
  have hne' : final ≠ tmp := fun h => hne h.symm
  unfold crashState saveOps
  have h2 : ¬ (i = 1) := by omega
  simp only [h2, if_false]
  have ht : List.take i [Op.create tmp, Op.write tmp enc, Op.sync tmp, Op.rename tmp final] =
      [Op.create tmp, Op.write tmp enc, Op.sync tmp, Op.rename tmp final] := by
    apply List.take_of_length_le; simpa using hi
  rw [ht]
  simp only [run, List.foldl_cons, List.foldl_nil]
  have hs := tmp_after_sync fs tmp enc
  generalize step (step (step fs (.create tmp)) (.write tmp enc)) (.sync tmp) = s3 at hs ⊢
  simp only [step, hs]
  rw [Fs.set_other _ _ _ _ hne', Fs.set_same]

end Shutter.SaveFile
