/-
Frame lemmas for the shuttermint model: which handler touches which part of the state.
-/
import Shutter.Model.App

namespace Shutter.App
open Shutter Shutter.App.App

/-- the part of a configuration fixed at acceptance (everything but the two progress flags) -/
def BatchConfig.core (c : BatchConfig) : Nat × List Addr × Nat × Nat :=
  (c.activation, c.keypers, c.threshold, c.index)

/-- handlers other than BatchConfig and DKGResult: configs, configVoting, eonCounter untouched -/
macro "frame_tac" : tactic =>
  `(tactic| (simp only; repeat' split) <;> first | rfl | (cases ‹Reg› <;> rfl))

theorem applyReg_frame (a : App) (eon : Nat) (r : Reg) (ev : Event) :
    (a.applyReg eon r ev).1.configs = a.configs ∧
    (a.applyReg eon r ev).1.configVoting = a.configVoting ∧
    (a.applyReg eon r ev).1.eonCounter = a.eonCounter ∧
    (a.applyReg eon r ev).1.nonces = a.nonces ∧
    (a.applyReg eon r ev).1.identities = a.identities ∧
    (a.applyReg eon r ev).1.blocksSeen = a.blocksSeen := by
  cases r <;> exact ⟨rfl, rfl, rfl, rfl, rfl, rfl⟩

theorem applyReg_events (a : App) (eon : Nat) (r : Reg) (ev : Event) :
    ∀ e ∈ (a.applyReg eon r ev).2.events, e = ev := by
  cases r <;> simp [applyReg, errResp, seenResp, okResp]

end Shutter.App

namespace Shutter.App
open Shutter Shutter.App.App

/-! ### which handlers leave configs / configVoting / eonCounter / dkgs alone -/

structure Frame (a a' : App) : Prop where
  configs : a'.configs = a.configs
  configVoting : a'.configVoting = a.configVoting
  eonCounter : a'.eonCounter = a.eonCounter

theorem Frame.refl (a : App) : Frame a a := ⟨rfl, rfl, rfl⟩

theorem applyReg_Frame (a : App) (eon : Nat) (r : Reg) (ev : Event) : Frame a (a.applyReg eon r ev).1 := by
  cases r <;> exact ⟨rfl, rfl, rfl⟩

theorem deliverBlockSeen_Frame (a : App) (s : Addr) (b : Nat) : Frame a (a.deliverBlockSeen s b).1 := by
  unfold deliverBlockSeen; repeat' split
  all_goals exact ⟨rfl, rfl, rfl⟩

theorem deliverCheckIn_Frame (a : App) (s : Addr) (k : Raw) (ok : Bool) (e : Blob) :
    Frame a (a.deliverCheckIn s k ok e).1 := by
  unfold deliverCheckIn; repeat' split
  all_goals exact ⟨rfl, rfl, rfl⟩

theorem deliverPolyEval_Frame (a : App) (s : Addr) (eon : Nat) (rs : List Raw) (n : Nat) (e : Blob) :
    Frame a (a.deliverPolyEval s eon rs n e).1 := by
  unfold deliverPolyEval; repeat' split
  all_goals first | exact ⟨rfl, rfl, rfl⟩ | exact applyReg_Frame _ _ _ _

theorem deliverPolyCommitment_Frame (a : App) (s : Addr) (eon : Nat) (ok : Bool) (g : Blob) :
    Frame a (a.deliverPolyCommitment s eon ok g).1 := by
  unfold deliverPolyCommitment; repeat' split
  all_goals first | exact ⟨rfl, rfl, rfl⟩ | exact applyReg_Frame _ _ _ _

theorem deliverAccusation_Frame (a : App) (s : Addr) (eon : Nat) (as : List Raw) :
    Frame a (a.deliverAccusation s eon as).1 := by
  unfold deliverAccusation; repeat' split
  all_goals first | exact ⟨rfl, rfl, rfl⟩ | exact applyReg_Frame _ _ _ _

theorem deliverApology_Frame (a : App) (s : Addr) (eon : Nat) (as : List Raw) (n : Nat) (e : Blob) :
    Frame a (a.deliverApology s eon as n e).1 := by
  unfold deliverApology; repeat' split
  all_goals first | exact ⟨rfl, rfl, rfl⟩ | exact applyReg_Frame _ _ _ _

/-- events of the DKG message handlers are never EonStarted / BatchConfig -/
def Event.isEonStarted : Event → Bool
  | .eonStarted _ _ _ => true
  | _ => false

theorem applyReg_noEon (a : App) (eon : Nat) (r : Reg) (ev : Event) (h : ev.isEonStarted = false) :
    ∀ e ∈ (a.applyReg eon r ev).2.events, e.isEonStarted = false := by
  intro e he
  rw [applyReg_events a eon r ev e he]; exact h

end Shutter.App
