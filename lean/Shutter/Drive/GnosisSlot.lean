/-
Line-protocol glue for the Gnosis slot handler / transaction pointer model (C19).
  GS <gasLimit> <minGas> <maxAge> <rows> <ptrs> <op…>
  rows: `;`-separated `index/eon/prefix-hex/sender-hex/gas` (or `-`), in any order
  ptrs: `;`-separated `eon/value/age` with age `n` for NULL (or `-`)
  ops:  tick <eonE> <eonK> <slot>  → `ptr=<p> ids=<hex,…>` or `err`, then ` ptrs=<…>`
        trigger <eonE> <eonK> <slot> (no ageing)      → same
        keys <eon> <p> <k>         → `ptrs=<…>`
        restart                    → `ptrs=<…>`
        count <eon>                → event count
-/
import Shutter.Model.GnosisSlot
import Shutter.Model.Wire
import Shutter.Drive.Events

namespace Shutter.Drive.GnosisSlot
open Shutter.GnosisSlot Shutter.Sort Shutter.Wire Shutter.Drive.Events

def tx? (s : String) : Option Tx :=
  match s.splitOn "/" with
  | [i, e, p, sd, g] => do
      pure { index := ← int? i, eon := ← int? e, pfx := ← bytesOfHex? p, sender := ← bytesOfHex? sd, gas := ← nat? g }
  | _ => none

def ptr? (s : String) : Option (Int × Ptr) :=
  match s.splitOn "/" with
  | [e, v, a] => do
      let age ← if a = "n" then some none else (int? a).map some
      pure (← int? e, { value := ← int? v, age })
  | _ => none

def semis? {α : Type} (f : String → Option α) (s : String) : Option (List α) :=
  if s = "-" then some [] else (s.splitOn ";").mapM f

def showPtrs (m : AMap Int Ptr) : String :=
  let sorted := sortBy (fun (a b : Int × Ptr) => decide (a.1 < b.1)) m
  if sorted.isEmpty then "-" else
    ";".intercalate (sorted.map (fun e => s!"{e.1}/{e.2.value}/" ++ (match e.2.age with | none => "n" | some a => toString a)))

def showOut (o : Option (Int × List Bytes)) : String :=
  match o with
  | none => "err"
  | some (p, ids) => s!"ptr={p} ids=" ++ ",".intercalate (ids.map hexOfBytes)

def step (toks : List String) : String :=
  match toks with
  | gl :: mg :: ma :: rows :: ptrs :: op =>
    match nat? gl, nat? mg, int? ma, semis? tx? rows, semis? ptr? ptrs with
    | some gl, some mg, some ma, some q, some ps =>
      if mg = 0 then "bad-op" else
      let cfg : Cfg := { gasLimit := gl, minGas := mg, maxAge := ma }
      let s : State := { queue := q, ptrs := ps }
      match op with
      | ["tick", eE, eK, slot] =>
        match int? eE, int? eK, nat? slot with
        | some eE, some eK, some slot =>
          let (o, s') := slotTick cfg s eE eK slot
          showOut o ++ " ptrs=" ++ showPtrs s'.ptrs
        | _, _, _ => "bad-op"
      | ["trigger", eE, eK, slot] =>
        match int? eE, int? eK, nat? slot with
        | some eE, some eK, some slot =>
          let (o, s') := trigger cfg s eE eK slot
          showOut o ++ " ptrs=" ++ showPtrs s'.ptrs
        | _, _, _ => "bad-op"
      | ["keys", e, p, k] =>
        match int? e, int? p, nat? k with
        | some e, some p, some k => "ptrs=" ++ showPtrs (keysProcessed s e p k).ptrs
        | _, _, _ => "bad-op"
      | ["restart"] => "ptrs=" ++ showPtrs (resetAges s).ptrs
      | ["count", e] =>
        match int? e with
        | some e => toString (eventCount q e)
        | none => "bad-op"
      | _ => "bad-op"
    | _, _, _, _, _ => "bad-op"
  | _ => "bad-op"

end Shutter.Drive.GnosisSlot
