/-
Line-protocol glue for the signature-validation model (C06).
  SG <gnosis|service> <threshold> <n> <signers> <sigs> <numIdentities> <identSizesOk 0/1>
  signers: comma list of indices or `-`; sigs: comma list of  r<i> (recovers to keyper i) | o (recovers
  to an address outside the set) | x (recovery fails), or `-`.
-/
import Shutter.Model.Signers
import Shutter.Model.Wire

namespace Shutter.Drive.Signers
open Shutter.Signers Shutter.Wire

def sig? (s : String) : Option (Option Addr) :=
  if s = "x" then some none
  else if s = "o" then some (some 9999)
  else if s.startsWith "r" then (nat? (s.drop 1).toString).map (fun i => some (100 + i))
  else none

def step (toks : List String) : String :=
  match toks with
  | [flavour, t, n, signers, sigs, nids, szok] =>
    match nat? t, nat? n, list? nat? signers, list? sig? sigs, nat? nids, bool? szok with
    | some t, some n, some signers, some sigs, some nids, some szok =>
      let ks : KeyperSet := { keypers := (List.range n).map (fun i => 100 + i), threshold := t }
      let ident : Ident := List.replicate (if flavour = "gnosis" then (if szok then 52 else 51) else (if szok then 32 else 31)) 0
      let v :=
        if flavour = "gnosis" then
          validateGnosis (fun (_ : SlotData) (s : Option Addr) => s) ks
            { instanceId := 0, eon := 0, slot := 0, txPointer := 0, identities := List.replicate nids ident } signers sigs
        else
          validateService (fun (_ : ServiceData) (s : Option Addr) => s) ks
            { instanceId := 0, eon := 0, identities := List.replicate nids ident } signers sigs
      match v with
      | .accept => "accept"
      | .reject => "reject"
    | _, _, _, _, _, _ => "bad-op"
  | _ => "bad-op"

end Shutter.Drive.Signers
