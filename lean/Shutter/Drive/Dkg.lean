/-
Line-protocol glue for the key generation outcome model (C07).
  DKG <n> <t> <me> <committed 0/1 per dealer> <accusations a>b,…|-> <apologies a>b:0/1,…|-> <evalOK 0/1 per dealer>
  → `ok:<participants>` | `abort:<dealer>` | `toofew:<k>`
-/
import Shutter.Model.Dkg
import Shutter.Model.Wire

namespace Shutter.Drive.Dkg
open Shutter.Dkg Shutter.Wire

def bits (s : String) : List Bool := s.toList.map (fun c => c = '1')

def pairOf? (s : String) : Option (Nat × Nat) :=
  match s.splitOn ">" with
  | [a, b] => do pure (← nat? a, ← nat? b)
  | _ => none

def apology? (s : String) : Option ((Nat × Nat) × Bool) :=
  match s.splitOn ":" with
  | [k, ok] => do pure (← pairOf? k, ← bool? ok)
  | _ => none

def step (toks : List String) : String :=
  match toks with
  | [n, t, me, committed, accs, apos, evalOK] =>
    match nat? n, nat? t, nat? me, list? pairOf? accs, list? apology? apos with
    | some n, some t, some me, some accs, some apos =>
      let v : View := { n := n, t := t, me := me, committed := bits committed, accusations := accs, apologies := apos,
                        evalOK := bits evalOK }
      match result v with
      | .ok ps => "ok:" ++ showList toString ps
      | .abort d => s!"abort:{d}"
      | .tooFew k => s!"toofew:{k}"
    | _, _, _, _, _ => "bad-op"
  | _ => "bad-op"

end Shutter.Drive.Dkg
