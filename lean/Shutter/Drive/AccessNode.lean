/-
Line-protocol glue for the access node model.
  AN <instance> <max> <events k<eon>:<id> | s<eon>:<id>, …> <msg instance> <msg eon> <number of keys> <basic>
     <keysOK per eon key id: id:0/1,…> <sigsOK per keyper set id: id:0/1,…>
  → `accept` | `reject`
-/
import Shutter.Model.AccessNode
import Shutter.Model.Wire

namespace Shutter.Drive.AccessNode
open Shutter.AccessNode Shutter.Wire

def ev? (s : String) : Option Ev :=
  if s.startsWith "k" then (pair? nat? nat? (s.drop 1).toString).map (fun p => .key p.1 p.2)
  else if s.startsWith "s" then (pair? nat? nat? (s.drop 1).toString).map (fun p => .set p.1 p.2)
  else none

def table (l : List (Nat × Bool)) (id : Nat) : Bool :=
  match l.find? (fun e => e.1 == id) with
  | some e => e.2
  | none => false

def step (toks : List String) : String :=
  match toks with
  | [inst, max, evs, mi, me, nk, basic, kt, st] =>
    match nat? inst, nat? max, list? ev? evs, nat? mi, nat? me, nat? nk, bool? basic,
      list? (pair? nat? bool?) kt, list? (pair? nat? bool?) st with
    | some inst, some max, some evs, some mi, some me, some nk, some basic, some kt, some st =>
      let m : Msg := { inst := mi, eon := me, nkeys := nk, basic := basic, keysOK := table kt, sigsOK := table st }
      if validate inst max (({} : Store).run evs) m then "accept" else "reject"
    | _, _, _, _, _, _, _, _, _ => "bad-op"
  | _ => "bad-op"

end Shutter.Drive.AccessNode
