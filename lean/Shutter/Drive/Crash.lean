/-
Line-protocol glue for the crash model (C08).
  CR <first id> <scheduled per block k1,k2,…|-> <ops>
  ops: a string over c (block commit) l (commit, reply lost) a (abort) x (restart) o (send ok) n (sent, row not deleted)
       f (send refused)
  → `cur=<last applied block> next=<id counter> outbox=<ids|-> sent=<ids|->`
  The executable instance counts applied blocks; block h schedules k_h messages.
-/
import Shutter.Model.Crash
import Shutter.Model.Wire

namespace Shutter.Drive.Crash
open Shutter.Crash Shutter.Wire

def op? (c : Char) : Option Op :=
  if c = 'c' then some .blockCommit else if c = 'l' then some .blockCommitLost else if c = 'a' then some .blockAbort
  else if c = 'x' then some .restart else if c = 'o' then some .sendOk else if c = 'n' then some .sendNoDelete
  else if c = 'f' then some .sendFail else none

def step (toks : List String) : String :=
  match toks with
  | [first, ks, ops] =>
    match nat? first, list? nat? ks, ops.toList.mapM op? with
    | some first, some ks, some ops =>
      let codec : Codec Nat Nat := { enc := id, dec := id }
      let apply : Nat → Nat → Nat × Nat := fun s h => (s + 1, ks.getD (h - 1) 0)
      let nd : Node Nat Nat := { db := { cur := 0, enc := 0, outbox := [], nextId := first }, mem := none, sent := [] }
      let r := run codec apply nd ops
      s!"cur={r.db.cur} next={r.db.nextId} outbox={showList toString r.db.outbox} sent={showList toString r.sent}"
    | _, _, _ => "bad-op"
  | _ => "bad-op"

end Shutter.Drive.Crash
