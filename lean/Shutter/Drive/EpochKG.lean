/-
Line-protocol glue for the EpochKG model (C01): the executable instance is arithmetic modulo the
BLS12-381 scalar order on discrete logarithms (a share `c • H` is the scalar `c`).
  KG run <n> <t> <share,share,…>     share := <sender>:<scalar>:<valid 0/1>
  → `<outcome per share> | none`  or  `… | key <scalar>`
-/
import Shutter.Model.EpochKG
import Shutter.Model.Wire

namespace Shutter.Drive.EpochKG
open Shutter.EpochKG Shutter.Wire

def q : Nat := 0x73eda753299d7d483339d80809a1d80553bda402fffe5bfeffffffff00000001

def powMod (b e m : Nat) : Nat :=
  let rec go (fuel : Nat) (b e acc : Nat) : Nat :=
    match fuel with
    | 0 => acc
    | fuel + 1 =>
      if e = 0 then acc
      else go fuel (b * b % m) (e / 2) (if e % 2 = 1 then acc * b % m else acc)
  go 300 (b % m) e 1

def modOps : Ops Nat Nat :=
  { ofNat := fun n => n % q, one := 1, mul := fun a b => a * b % q, sub := fun a b => (a + q - b % q) % q,
    inv := fun a => powMod a (q - 2) q, gzero := 0, gadd := fun a b => (a + b) % q,
    smul := fun a g => a * g % q }

structure Share where
  sender : Nat
  scalar : Nat
  valid : Bool

def share? (s : String) : Option Share :=
  match s.splitOn ":" with
  | [a, b, c] => do pure { sender := ← nat? a, scalar := ← nat? b, valid := ← bool? c }
  | _ => none

def showOutcome : Outcome → String
  | .ok => "ok" | .err => "err" | .panic => "panic"

def step (toks : List String) : String :=
  match toks with
  | ["run", n, t, shares] =>
    match nat? n, nat? t, list? share? shares with
    | some n, some t, some shares =>
      let verify : Nat → Nat → Bool := fun i s => shares.any (fun sh => sh.sender = i && sh.scalar = s && sh.valid)
      let (st, outs) := shares.foldl (fun (acc : St Nat × List String) sh =>
        let (o, st') := handle modOps verify n t acc.1 sh.sender sh.scalar
        (st', acc.2 ++ [showOutcome o])) (St.empty, [])
      ",".intercalate outs ++ " | " ++ (match st.key with
        | some k => s!"key {k}"
        | none => "none")
    | _, _, _ => "bad-op"
  | _ => "bad-op"

end Shutter.Drive.EpochKG
