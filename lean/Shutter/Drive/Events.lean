/-
Line-protocol glue for the events codec model (C14).
  EV dec <type> <attrs> <oracle>      → decoded event or `error`
  EV enc <event> <oracle>             → `<type> <attrs>`
Strings travel as hex of their ASCII bytes.
-/
import Shutter.Model.Events
import Shutter.Model.Wire

namespace Shutter.Drive.Events
open Shutter.Events Shutter.Wire

def hexNib? (c : Char) : Option Nat := hexVal? c

def bytesOfHex? (s : String) : Option Bytes := if s = "-" then some [] else decodeHexBytes s.toList

def textOfHex? (s : String) : Option (List Char) := do
  let b ← bytesOfHex? s
  pure (b.map Char.ofNat)

def hexOfBytes (b : Bytes) : String := if b.isEmpty then "-" else String.mk (encodeHexBytes b)
def hexOfText (t : List Char) : String := hexOfBytes (t.map Char.toNat)

structure Tables where
  addr : List (Bytes × List Char) := []
  key : List (List Char × Option Bytes) := []
  gam : List (List Char × Option Bytes) := []

def oracleEntry? (t : Tables) (s : String) : Option Tables :=
  match s.splitOn ":" with
  | ["A", a, txt] => do pure { t with addr := t.addr ++ [(← bytesOfHex? a, ← textOfHex? txt)] }
  | ["K", txt, b] => do
      let v ← if b = "!" then some none else (bytesOfHex? b).map some
      pure { t with key := t.key ++ [(← textOfHex? txt, v)] }
  | ["G", txt, b] => do
      let v ← if b = "!" then some none else (bytesOfHex? b).map some
      pure { t with gam := t.gam ++ [(← textOfHex? txt, v)] }
  | _ => none

def tables? (s : String) : Option Tables :=
  if s = "-" then some {} else (s.splitOn ",").foldlM oracleEntry? {}

def lookupFwd {α β : Type} [DecidableEq α] (l : List (α × β)) (a : α) : Option β :=
  (l.find? (fun e => e.1 = a)).map (·.2)

def oracles (t : Tables) : Oracles :=
  { hex := fun a => (lookupFwd t.addr a).getD [],
    encPubkey := fun k => ((t.key.find? (fun e => e.2 = some k)).map (·.1)).getD [],
    decPubkey := fun s => (lookupFwd t.key s).join,
    encGammas := fun g => ((t.gam.find? (fun e => e.2 = some g)).map (·.1)).getD [],
    decGammas := fun s => (lookupFwd t.gam s).join }

def attr? (s : String) : Option Attr :=
  match s.splitOn ":" with
  | [k, v] => do pure { key := String.mk (← textOfHex? k), value := ← textOfHex? v }
  | _ => none

def attrs? (s : String) : Option (List Attr) := list? attr? s

def showBL (l : List Bytes) : String := "[" ++ ";".intercalate (l.map hexOfBytes) ++ "]"

def showEv : Ev → String
  | .checkIn s k => s!"CheckIn({hexOfBytes s},{hexOfBytes k})"
  | .batchConfig a ks t i => s!"BatchConfig({a},{showBL ks},{t},{i})"
  | .batchConfigStarted i => s!"BatchConfigStarted({i})"
  | .eonStarted e a i => s!"EonStarted({e},{a},{i})"
  | .polyCommitment s e g => s!"PolyCommitment({hexOfBytes s},{e},{hexOfBytes g})"
  | .polyEval s e rs evs => s!"PolyEval({hexOfBytes s},{e},{showBL rs},{showBL evs})"
  | .accusation s e as => s!"Accusation({hexOfBytes s},{e},{showBL as})"
  | .apology s e as ps => s!"Apology({hexOfBytes s},{e},{showBL as},{showBL ps})"

def bl? (s : String) : Option (List Bytes) :=
  if s = "[]" then some []
  else ((((s.drop 1).toString.dropEnd 1).toString).splitOn ";").mapM bytesOfHex?

def ev? (toks : List String) : Option Ev :=
  match toks with
  | ["CheckIn", s, k] => do pure (.checkIn (← bytesOfHex? s) (← bytesOfHex? k))
  | ["BatchConfig", a, ks, t, i] => do pure (.batchConfig (← nat? a) (← bl? ks) (← nat? t) (← nat? i))
  | ["BatchConfigStarted", i] => do pure (.batchConfigStarted (← nat? i))
  | ["EonStarted", e, a, i] => do pure (.eonStarted (← nat? e) (← nat? a) (← nat? i))
  | ["PolyCommitment", s, e, g] => do pure (.polyCommitment (← bytesOfHex? s) (← nat? e) (← bytesOfHex? g))
  | ["PolyEval", s, e, rs, evs] => do pure (.polyEval (← bytesOfHex? s) (← nat? e) (← bl? rs) (← bl? evs))
  | ["Accusation", s, e, as] => do pure (.accusation (← bytesOfHex? s) (← nat? e) (← bl? as))
  | ["Apology", s, e, as, ps] => do pure (.apology (← bytesOfHex? s) (← nat? e) (← bl? as) (← bl? ps))
  | _ => none

def showRaw (r : RawEvent) : String :=
  hexOfText r.type.toList ++ " " ++
    showList (fun a => hexOfText a.key.toList ++ ":" ++ hexOfText a.value) r.attrs

def step (toks : List String) : String :=
  match toks with
  | ["dec", ty, as, orc] =>
    match textOfHex? ty, attrs? as, tables? orc with
    | some ty, some as, some t =>
      match makeEvent (oracles t) { type := String.mk ty, attrs := as } with
      | some e => showEv e
      | none => "error"
    | _, _, _ => "bad-op"
  | "enc" :: rest =>
    match rest.reverse with
    | orc :: evr =>
      match ev? evr.reverse, tables? orc with
      | some e, some t => showRaw (makeABCI (oracles t) e)
      | _, _ => "bad-op"
    | [] => "bad-op"
  | _ => "bad-op"

end Shutter.Drive.Events
