/-
Line-protocol glue for the syncer model (C15).
  SYN <depth> <first> <pos> <rows> <chain> <m> <upTo>
  pos: `-` or `number/hash-id` (hash id 0 = the empty hash)       rows: `;`-separated `key/block/payload` (or `-`)
  chain: `;`-separated `number/hash-id/parent-id/key:payload+key:payload` (events `-` if none), blocks 0 … m
  upTo: how far the call got, `-` if it stored nothing after the reorg check, `x` if the call failed before or
        inside the reset transaction (nothing changed)
  → `pos=<…> rows=<key/block/payload;…>` rows sorted by (block, key)
-/
import Shutter.Model.Syncer
import Shutter.Model.Wire

namespace Shutter.Drive.Syncer
open Shutter.Syncer Shutter.Wire

def row? (s : String) : Option Row :=
  match s.splitOn "/" with
  | [k, b, p] => do pure { key := ← nat? k, block := ← nat? b, payload := ← nat? p }
  | _ => none

def ev? (s : String) : Option (Nat × Nat) :=
  match s.splitOn ":" with
  | [k, p] => do pure (← nat? k, ← nat? p)
  | _ => none

def blk? (s : String) : Option (Nat × Blk) :=
  match s.splitOn "/" with
  | [n, h, p, evs] => do
      let es ← if evs = "-" then some [] else (evs.splitOn "+").mapM ev?
      pure (← nat? n, { hash := ← nat? h, parent := ← nat? p, evs := es })
  | _ => none

def semis? {α : Type} (f : String → Option α) (s : String) : Option (List α) :=
  if s = "-" then some [] else (s.splitOn ";").mapM f

def pos? (s : String) : Option (Option (Nat × Nat)) :=
  if s = "-" then some none
  else match s.splitOn "/" with
    | [n, h] => do pure (some (← nat? n, ← nat? h))
    | _ => none

def showPos : Option (Nat × Nat) → String
  | none => "-"
  | some (n, h) => s!"{n}/{h}"

def rowLt (a b : Row) : Bool := decide (a.block < b.block) || (decide (a.block = b.block) && decide (a.key < b.key))

def step (toks : List String) : String :=
  match toks with
  | [d, f, pos, rows, chain, m, upTo] =>
    match nat? d, nat? f, pos? pos, semis? row? rows, semis? blk? chain, nat? m with
    | some d, some f, some pos, some rows, some blocks, some m =>
      let c : Chain := fun n => match blocks.find? (fun b => b.1 = n) with
        | some b => b.2
        | none => { hash := 0, parent := 0, evs := [] }
      let p : P := { depth := d, first := f }
      let st : St := { pos := pos, rows := rows }
      let st' := match nat? upTo with
        | some u => syncEnding p st c m (.reached u)
        | none => if upTo = "x" then syncEnding p st c m .resetFailed else reorgReset p st m (c m).parent
      let sorted := sortBy rowLt st'.rows
      s!"pos={showPos st'.pos} rows=" ++ (if sorted.isEmpty then "-" else
        ";".intercalate (sorted.map (fun r => s!"{r.key}/{r.block}/{r.payload}")))
    | _, _, _, _, _, _ => "bad-op"
  | _ => "bad-op"

end Shutter.Drive.Syncer
