/-
Line-protocol glue for the trigger-definition model (C17).
  def  := <contract>|<pred>;<pred>…      (`~` for no predicates)
  pred := <dyn 0/1>:<offset>:<op>:<ints>:<bytes>   ints := ~ | i/i…  (nK = -K)   bytes := ~ | b/b… (e = empty)
  log  := <address>|<topics ~ or t,t…>|<data or e>
-/
import Shutter.Model.TriggerDef
import Shutter.Model.Events
import Shutter.Model.Wire

namespace Shutter.Drive.TriggerDef
open Shutter.TriggerDef Shutter.Wire

def hexB? (s : String) : Option Bytes :=
  if s = "e" then some [] else Shutter.Events.decodeHexBytes s.toList

def showB (b : Bytes) : String := if b.isEmpty then "e" else String.mk (Shutter.Events.encodeHexBytes b)

def int? (s : String) : Option Int :=
  if s.startsWith "n" then (nat? (s.drop 1).toString).map (fun k => -(k : Int)) else (nat? s).map (fun k => (k : Int))

def showInt (i : Int) : String := if i < 0 then "n" ++ toString i.natAbs else toString i.natAbs

def listSlash? {α : Type} (f : String → Option α) (s : String) : Option (List α) :=
  if s = "~" then some [] else (s.splitOn "/").mapM f

def showSlash {α : Type} (f : α → String) (l : List α) : String :=
  if l.isEmpty then "~" else "/".intercalate (l.map f)

def pred? (s : String) : Option LogPred :=
  match s.splitOn ":" with
  | [d, o, op, is, bs] => do
      let op ← Op.ofNat? (← nat? op)
      pure { ref := { dynamic := ← bool? d, offset := ← nat? o },
             pred := { op, intArgs := ← listSlash? int? is, byteArgs := ← listSlash? hexB? bs } }
  | _ => none

def showPred (p : LogPred) : String :=
  s!"{showBool p.ref.dynamic}:{p.ref.offset}:{p.pred.op.toNat}:{showSlash showInt p.pred.intArgs}:{showSlash showB p.pred.byteArgs}"

def def? (s : String) : Option Definition :=
  match s.splitOn "|" with
  | [c, ps] => do
      let preds ← if ps = "~" then some [] else (ps.splitOn ";").mapM pred?
      pure { contract := ← hexB? c, preds }
  | _ => none

def showDef (d : Definition) : String :=
  showB d.contract ++ "|" ++ (if d.preds.isEmpty then "~" else ";".intercalate (d.preds.map showPred))

def log? (s : String) : Option Log :=
  match s.splitOn "|" with
  | [a, ts, d] => do
      let topics ← if ts = "~" then some [] else (ts.splitOn ",").mapM hexB?
      pure { address := ← hexB? a, topics, data := ← hexB? d }
  | _ => none

def showFilter (f : Filter) : String :=
  showB f.address ++ "|" ++ (if f.topics.isEmpty then "~" else
    ",".intercalate (f.topics.map (fun alts => if alts.isEmpty then "*" else "+".intercalate (alts.map showB))))

def step (toks : List String) : String :=
  match toks with
  | ["dec", b] =>
    match hexB? b with
    | some bytes => match unmarshal bytes with
      | some d => showDef d
      | none => "error"
    | none => "bad-op"
  | ["enc", d] =>
    match def? d with
    | some d => showB (marshal d)
    | none => "bad-op"
  | ["valid", d] =>
    match def? d with
    | some d => showBool d.valid
    | none => "bad-op"
  | ["match", d, l] =>
    match def? d, log? l with
    | some d, some l =>
      match matchDef d l with
      | .ok b => (if b then "true" else "false")
      | .oob => "panic"
    | _, _ => "bad-op"
  | ["filter", d] =>
    match def? d with
    | some d => match toFilter d with
      | some f => showFilter f
      | none => "error"
    | none => "bad-op"
  | ["passes", d, l] =>
    match def? d, log? l with
    | some d, some l =>
      match toFilter d with
      | some f => showBool (passes f l)
      | none => "error"
    | _, _ => "bad-op"
  | _ => "bad-op"

end Shutter.Drive.TriggerDef
