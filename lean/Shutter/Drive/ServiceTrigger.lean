/-
Line-protocol glue for the Shutter-service trigger decision model (C02).
  ST <regs> <trigRegs> <fired> <eons> <configs> <dkgs> <mark> <op…>
  regs: `;`-separated `key/eon/identity-hex/timestamp/decrypted`   trigRegs: `eon/identity-hex/decrypted`
  fired: `eon/identity-hex`   eons: `eon/config/activation`   configs: `config/member`   dkgs: `eon/success`
  mark: `n` or the timestamp.  Empty tables are `-`.
  ops:  block <now> <number> <eventBased 0/1> → `mark=<…> time=<block:hex,hex|…> event=<…>` (triggers sorted as text)
        released <eon> <hex,hex,…>           → `regs=<key/decrypted;…> trigregs=<eon/hex/decrypted;…>`
        register <key> <eon> <hex> <ts>      → `regs=<key/eon/hex/ts/decrypted;…>`
-/
import Shutter.Model.ServiceTrigger
import Shutter.Model.Wire
import Shutter.Drive.Events

namespace Shutter.Drive.ServiceTrigger
open Shutter.ServiceTrigger Shutter.Sort Shutter.Wire Shutter.Drive.Events

def semis? {α : Type} (f : String → Option α) (s : String) : Option (List α) :=
  if s = "-" then some [] else (s.splitOn ";").mapM f

def reg? (s : String) : Option Reg :=
  match s.splitOn "/" with
  | [k, e, i, t, d] => do
      pure { key := ← nat? k, eon := ← int? e, identity := ← bytesOfHex? i, timestamp := ← int? t, decrypted := ← bool? d }
  | _ => none

def trigReg? (s : String) : Option TrigReg :=
  match s.splitOn "/" with
  | [e, i, d] => do pure { eon := ← int? e, identity := ← bytesOfHex? i, decrypted := ← bool? d }
  | _ => none

def fired? (s : String) : Option Fired :=
  match s.splitOn "/" with
  | [e, i] => do pure { eon := ← int? e, identity := ← bytesOfHex? i }
  | _ => none

def eon? (s : String) : Option EonRow :=
  match s.splitOn "/" with
  | [e, c, a] => do pure { eon := ← int? e, config := ← int? c, activation := ← int? a }
  | _ => none

def config? (s : String) : Option ConfigRow :=
  match s.splitOn "/" with
  | [c, m] => do pure { config := ← int? c, member := ← bool? m }
  | _ => none

def dkg? (s : String) : Option DkgRow :=
  match s.splitOn "/" with
  | [e, ok] => do pure { eon := ← int? e, success := ← bool? ok }
  | _ => none

def showTrig (t : Trigger) : String := s!"{t.block}:" ++ ",".intercalate (t.ids.map hexOfBytes)

def showTrigs (ts : List Trigger) : String :=
  let l := sortBy (fun (a b : String) => decide (a < b)) (ts.map showTrig)
  if l.isEmpty then "-" else "|".intercalate l

def showMark : Option Int → String
  | none => "n"
  | some m => toString m

def step (toks : List String) : String :=
  match toks with
  | regs :: trs :: frs :: eons :: cfgs :: dkgs :: mark :: op =>
    match semis? reg? regs, semis? trigReg? trs, semis? fired? frs, semis? eon? eons, semis? config? cfgs,
        semis? dkg? dkgs, (if mark = "n" then some none else (int? mark).map some) with
    | some regs, some trs, some frs, some eons, some cfgs, some dkgs, some mark =>
      let s : State := { regs := regs, trigRegs := trs, fired := frs, eons := eons, configs := cfgs, dkgs := dkgs, mark := mark }
      match op with
      | ["block", now, number, ev] =>
        match int? now, int? number, bool? ev with
        | some now, some number, some ev =>
          let (s', tt, et) := onBlock s now number ev
          s!"mark={showMark s'.mark} time={showTrigs tt} event={showTrigs et}"
        | _, _, _ => "bad-op"
      | ["released", e, ids] =>
        match int? e, list? bytesOfHex? ids with
        | some e, some ids =>
          let s' := released s e ids
          "regs=" ++ (if s'.regs.isEmpty then "-" else ";".intercalate (s'.regs.map (fun r => s!"{r.key}/{showBool r.decrypted}"))) ++
          " trigregs=" ++ (if s'.trigRegs.isEmpty then "-" else
            ";".intercalate (s'.trigRegs.map (fun r => s!"{r.eon}/{hexOfBytes r.identity}/{showBool r.decrypted}")))
        | _, _ => "bad-op"
      | ["register", k, e, i, t] =>
        match nat? k, int? e, bytesOfHex? i, int? t with
        | some k, some e, some i, some t =>
          let s' := register s k e i t
          "regs=" ++ ";".intercalate (s'.regs.map (fun r => s!"{r.key}/{r.eon}/{hexOfBytes r.identity}/{r.timestamp}/{showBool r.decrypted}"))
        | _, _, _, _ => "bad-op"
      | _ => "bad-op"
    | _, _, _, _, _, _, _ => "bad-op"
  | _ => "bad-op"

end Shutter.Drive.ServiceTrigger
