/-
Line-protocol glue for the delivery model (C03); arithmetic as in Drive/EpochKG (discrete logarithms modulo
the BLS scalar order; a share `c • H_id` is the scalar `c`).
  NET <n> <t> <number of identities> <coefficients c0,c1,…> <events e,e,…>
  events: `s<i>` key-shares message of keyper i, `o<i>` own trigger as keyper i, `k` keys message with all keys
  → `keys=<identities with a stored key> correct=<0/1> emitted=<keys messages emitted>`
-/
import Shutter.Model.Net
import Shutter.Drive.EpochKG

namespace Shutter.Drive.Net
open Shutter.Net Shutter.EpochKG Shutter.Wire Shutter.Drive.EpochKG

def evalPoly (coeffs : List Nat) (x : Nat) : Nat :=
  coeffs.foldr (fun c acc => (c + x * acc) % q) 0

inductive E where
  | s (i : Nat) | o (i : Nat) | k

def ev? (s : String) : Option E :=
  if s = "k" then some .k
  else if s.startsWith "s" then (nat? (s.drop 1).toString).map .s
  else if s.startsWith "o" then (nat? (s.drop 1).toString).map .o
  else none

def step (toks : List String) : String :=
  match toks with
  | [n, t, k, coeffs, evs] =>
    match nat? n, nat? t, nat? k, list? nat? coeffs, list? ev? evs with
    | some n, some t, some k, some coeffs, some evs =>
      let ids : List (List Nat) := (List.range k).map (fun j => [j])
      let share : Nat → Nat := fun i => evalPoly coeffs (i + 1)
      let verify : List Nat → Nat → Nat → Bool := fun _ i s => s = share i
      let msg : Nat → ShareMsg Nat := fun i => { sender := i, shares := ids.map (fun id => (id, share i)) }
      let secret := evalPoly coeffs 0
      let (nd, emitted) := evs.foldl (fun (acc : Node Nat × Nat) e =>
        match e with
        | .s i =>
          let (nd', out) := handleShares modOps verify n t acc.1 (msg i)
          (nd', acc.2 + (if out.isSome then 1 else 0))
        | .o i => (triggerOwn acc.1 (msg i), acc.2)
        | .k => (handleKeys acc.1 (ids.map (fun id => (id, secret))), acc.2)) (({} : Node Nat), 0)
      let correct := nd.keys.all (fun kv => kv.2 = secret)
      s!"keys={(ids.filter (fun id => hasKey nd.keys id)).length} correct={showBool correct} emitted={emitted}"
    | _, _, _, _, _ => "bad-op"
  | _ => "bad-op"

end Shutter.Drive.Net
