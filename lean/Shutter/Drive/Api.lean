/-
Line-protocol glue for the API gate model (C18), over the tables regenerated from the source.
  API decide <writeEnabled 0/1> <method> <path-hex>    → notFound | forbidden | allow
  API dispatch <method> <routepath-hex>                → handler name | none
-/
import Shutter.Model.Api
import Shutter.Model.Events
import Shutter.Model.Wire
import Shutter.Generated.ApiFacts

namespace Shutter.Drive.Api
open Shutter.Api Shutter.Wire

def spec : List SpecOp :=
  Generated.ApiFacts.specOps.map (fun e => { template := e.1.toList, method := e.2.1, opId := e.2.2.1, readOnly := e.2.2.2 = "true" })

def routes : List Route :=
  Generated.ApiFacts.routes.map (fun e => { method := e.1, pattern := e.2.1.toList, handler := e.2.2 })

def path? (s : String) : Option Path :=
  if s = "-" then some [] else (Shutter.Events.decodeHexBytes s.toList).map (fun b => b.map Char.ofNat)

def step (toks : List String) : String :=
  match toks with
  | ["decide", we, m, p] =>
    match bool? we, path? p with
    | some we, some p =>
      match decision spec (templatesOf spec) we m p with
      | .notFound => "notFound"
      | .forbidden => "forbidden"
      | .allow => "allow"
    | _, _ => "bad-op"
  | ["dispatch", m, p] =>
    match path? p with
    | some p => match dispatch routes m p with
      | some r => r.handler
      | none => "none"
    | none => "bad-op"
  | _ => "bad-op"

end Shutter.Drive.Api
