/-
Line-protocol glue for the trigger firing model (C16).
  TRG <first> <last> <blocks>     blocks: `;`-separated `number:item,item,…` (or `number:-`), items `R<key>/<expiry>/<topic>`,
                                   `L<topic>`, `Lx` (a log no trigger watches)
  → `fired=<key>@<block>/<log index>;…` sorted by key (block-by-block outcome)
-/
import Shutter.Model.Trigger
import Shutter.Model.Wire

namespace Shutter.Drive.Trigger
open Shutter.Trigger Shutter.Wire

def item? (s : String) : Option Item :=
  if s = "Lx" then some (.log 1000000007)
  else if s.startsWith "L" then (nat? (s.drop 1).toString).map .log
  else if s.startsWith "R" then
    match (s.drop 1).toString.splitOn "/" with
    | [k, e, t] => do pure (.reg (← nat? k) (← nat? e) (← nat? t))
    | _ => none
  else none

def blk? (s : String) : Option Blk :=
  match s.splitOn ":" with
  | [n, its] => do
      let items ← if its = "-" then some [] else (its.splitOn ",").mapM item?
      pure { number := ← nat? n, items }
  | _ => none

def step (toks : List String) : String :=
  match toks with
  | [_, _, blocks] =>
    let bs := if blocks = "-" then some [] else (blocks.splitOn ";").mapM blk?
    match bs with
    | some bs =>
      let st := blockwise {} bs
      let rows := sortBy (fun (a b : Fired) => decide (a.key < b.key)) st.fired
      "fired=" ++ (if rows.isEmpty then "-" else ";".intercalate (rows.map (fun f => s!"{f.key}@{f.block}/{f.logIndex}")))
    | none => "bad-op"
  | _ => "bad-op"

end Shutter.Drive.Trigger
