/-
Line-protocol glue for the eon-public-key publication model (C20).
  EPK tick <me> <mode b|c|n> <rows> <accept-mask>
  rows: `;`-separated `eon/pk/activation/configIndex/k1+k2+…` (or `-`); accept-mask: string of 0/1, one per row
  (what the publication mechanism answers for the row's key), `-` if no rows.
  → `<handed pk:activation:config:eon,…> err=<0/1>`
-/
import Shutter.Model.EonPk
import Shutter.Model.Wire

namespace Shutter.Drive.EonPk
open Shutter.EonPk Shutter.Wire

def row? (s : String) : Option Row :=
  match s.splitOn "/" with
  | [e, pk, a, c, ks] => do
      let keypers ← if ks = "" then some [] else (ks.splitOn "+").mapM nat?
      pure { eon := ← int? e, publicKey := ← nat? pk, activation := ← int? a, configIndex := ← int? c, keypers }
  | _ => none

def step (toks : List String) : String :=
  match toks with
  | ["tick", me, mode, rows, mask] =>
    let rowsL := if rows = "-" then some [] else (rows.splitOn ";").mapM row?
    match nat? me, rowsL with
    | some me, some rs =>
      let m := match mode with | "b" => Mode.broadcast | "c" => Mode.callback | _ => Mode.neither
      let acc : List (Nat × Bool) := (rs.zip (mask.toList)).map (fun p => (p.1.publicKey, p.2 = '1'))
      let accepts : Handed → Bool := fun h => (acc.find? (fun e => e.1 = h.publicKey)).map (·.2) |>.getD true
      let (hs, e) := tick me m accepts rs
      showList (fun h => s!"{h.publicKey}:{h.activation}:{h.configIndex}:{h.eon}") hs ++ " err=" ++ showBool e
    | _, _ => "bad-op"
  | _ => "bad-op"

end Shutter.Drive.EonPk
