/-
Line-protocol glue for the App model: parse ops, print canonical observables.
-/
import Shutter.Model.App
import Shutter.Model.Wire

namespace Shutter.Drive.App
open Shutter.App Shutter.Wire

def raw? (s : String) : Option Raw :=
  match s.splitOn "/" with
  | [a, b] => do let l ← nat? a; let v ← nat? b; pure { len := l, val := v }
  | _ => none

def chain? (s : String) : String := if s = "~" then "" else s

def payload? : List String → Option Payload
  | ["bc", a, t, i, ks] => do
      pure (.batchConfig (← nat? a) (← nat? t) (← nat? i) (← list? raw? ks))
  | ["bs", b] => do pure (.blockSeen (← nat? b))
  | ["ci", k, ok, e] => do pure (.checkIn (← raw? k) (← bool? ok) (← nat? e))
  | ["dr", eon, s] => do pure (.dkgResult (← nat? eon) (← bool? s))
  | ["pe", eon, rs, n, e] => do pure (.polyEval (← nat? eon) (← list? raw? rs) (← nat? n) (← nat? e))
  | ["pc", eon, ok, g] => do pure (.polyCommitment (← nat? eon) (← bool? ok) (← nat? g))
  | ["ac", eon, as] => do pure (.accusation (← nat? eon) (← list? raw? as))
  | ["ap", eon, as, n, e] => do pure (.apology (← nat? eon) (← list? raw? as) (← nat? n) (← nat? e))
  | ["none"] => some .none
  | _ => none

def tx? : List String → Option Tx
  | ["X"] => some .undecodable
  | signer :: chain :: nonce :: rest => do
      pure (.msg (← nat? signer) (chain? chain) (← nat? nonce) (← payload? rest))
  | _ => none

def showAddrs (l : List Addr) : String := showList toString l

def showEvent : Event → String
  | .checkIn s e => s!"CheckIn({s},{e})"
  | .batchConfig a ks t i => s!"BatchConfig({a},{showAddrs ks},{t},{i})"
  | .eonStarted e a i => s!"EonStarted({e},{a},{i})"
  | .batchConfigStarted i => s!"BatchConfigStarted({i})"
  | .polyEval s e rs b => s!"PolyEval({s},{e},{showAddrs rs},{b})"
  | .polyCommitment s e g => s!"PolyCommitment({s},{e},{g})"
  | .accusation s e as => s!"Accusation({s},{e},{showAddrs as})"
  | .apology s e as b => s!"Apology({s},{e},{showAddrs as},{b})"

def showEvents (l : List Event) : String := "[" ++ ";".intercalate (l.map showEvent) ++ "]"

def showUpdates (l : List (PubKey × Int)) : String :=
  showList (fun e => s!"{e.1}:{e.2}") l

def showOut : Out → String
  | .begin evs => s!"ev={showEvents evs}"
  | .deliver r => s!"code={r.code} ev={showEvents r.events}"
  | .check c => s!"code={c}"
  | .endBlock r => s!"ev={showEvents r.events} vu={showUpdates r.updates}"
  | .commit => "ok"

def sortNat (l : List Nat) : List Nat := sortBy (fun a b => decide (a < b)) l

def showMap {V : Type} (f : V → String) (m : AMap Nat V) : String :=
  showList (fun e => s!"{e.1}:{f e.2}") (sortBy (fun a b => decide (a.1 < b.1)) m)

def showPairs (l : List (Nat × Nat)) : String :=
  showList (fun e => s!"{e.1}:{e.2}")
    (sortBy (fun a b => decide (a.1 < b.1 ∨ (a.1 = b.1 ∧ a.2 < b.2))) l)

def showConfig (c : BatchConfig) : String :=
  s!"({c.activation},{showAddrs c.keypers},{c.threshold},{c.index},{showBool c.started},{showBool c.validatorsUpdated})"

def showVoting {T : Type} (f : T → String) (v : Voting T) : String :=
  s!"votes={showMap toString v.votes} cands=[{";".intercalate (v.candidates.map f)}]"

def showDKG (d : DKG) : String :=
  "{" ++ s!"cfg={showConfig d.config} eon={d.eon} {showVoting showBool d.success} " ++
  s!"evals={showPairs d.evalsSeen} commits={showAddrs (sortNat d.commitsSeen)} " ++
  s!"acc={showAddrs (sortNat d.accusationsSeen)} apo={showAddrs (sortNat d.apologiesSeen)}" ++ "}"

/-- canonical state: every map sorted by key, sets sorted, lists in order -/
def showState (a : App.App) : String :=
  s!"configs=[{";".intercalate (a.configs.map showConfig)}] " ++
  s!"dkgs=[{showMap showDKG a.dkgs}] " ++
  s!"cv=<{showVoting showConfig a.configVoting}> " ++
  s!"h={a.lastBlockHeight} ids={showMap toString a.identities} seen={showMap toString a.blocksSeen} " ++
  s!"vals={showMap toString a.validators} eon={a.eonCounter} dev={showBool a.devMode} " ++
  s!"members={showAddrs (sortNat a.checkTx.members.eraseDups)} counts={showMap toString a.checkTx.txCounts} " ++
  s!"cnonces={showPairs a.checkTx.nonces} nonces={showPairs a.nonces} chain={a.chainId} " ++
  (match a.fork with
   | some f => s!"fork={showBool f.enabled}:{f.height}"
   | none => "fork=nil")

def kv? (key : String) (tok : String) : Option String :=
  if tok.startsWith (key ++ "=") then some ((tok.drop (key.length + 1)).toString) else none

/-- `init chain threshold initialEon forkEnabled forkHeight devMode keypers=… validators=…` -/
def init? : List String → Option App.App
  | [chain, t, e, fe, fh, dev, ks, vs] => do
      let keypers ← list? nat? (← kv? "keypers" ks)
      let vals ← list? (pair? nat? int?) (← kv? "validators" vs)
      pure (App.App.init (chain? chain) keypers (← nat? t) (← nat? e)
        { enabled := ← bool? fe, height := ← int? fh } (← bool? dev) vals)
  | _ => none

def pm? (s : String) : Option (AMap PubKey Int) := list? (pair? nat? int?) s

/-- one protocol step: returns new state and the model's observable -/
def step (st : Option App.App) (toks : List String) : Option App.App × String :=
  match toks with
  | ["diff", o, n] =>
    match pm? o, pm? n with
    | some om, some nm =>
      (st, showUpdates (App.App.validatorUpdatesOn (App.App.diffPowermapsOn om nm om nm)))
    | _, _ => (st, "bad-op")
  | "init" :: rest =>
    match init? rest with
    | some a => (some a, "ok")
    | none => (st, "bad-op")
  | _ =>
    match st with
    | none => (st, "no-state")
    | some a =>
      match toks with
      | ["begin", h] =>
        match int? h with
        | some h => let (a', o) := a.step (.begin h); (some a', showOut o)
        | none => (st, "bad-op")
      | "deliver" :: rest =>
        match tx? rest with
        | some tx => let (a', o) := a.step (.deliver tx); (some a', showOut o)
        | none => (st, "bad-op")
      | "check" :: rest =>
        match tx? rest with
        | some tx => let (a', o) := a.step (.check tx); (some a', showOut o)
        | none => (st, "bad-op")
      | ["end", h] =>
        match int? h with
        | some h => let (a', o) := a.step (.endBlock h); (some a', showOut o)
        | none => (st, "bad-op")
      | ["commit"] => let (a', o) := a.step .commit; (some a', showOut o)
      | ["state"] => (st, showState a)
      -- the node is stopped after a commit and started again from the state file: the model's state is what the
      -- file holds (C13)
      | ["restart"] => (st, "ok")
      | _ => (st, "bad-op")

end Shutter.Drive.App
