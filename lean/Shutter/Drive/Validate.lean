/-
Line-protocol glue for the gossip validator model (C04).
  VAL <instanceId> <maxKeys> <configs> <eons> <dkgs> <stored> shares <msgInstance> <msgEon> <keyperIndex> <shares>
  VAL <instanceId> <maxKeys> <configs> <eons> <dkgs> <stored> keys <msgInstance> <msgEon> <keys>
  configs: `config/member;…`  eons: `eon/config;…`  dkgs: `eon/success/decodes/n;…`  stored: `eon/id-hex/raw-hex;…`
  shares: `id-hex/decodes/verifies;…`  keys: `id-hex/decodes/verifies/raw-hex;…`  (`-` = empty)
  → `accept` | `reject`
-/
import Shutter.Model.Validate
import Shutter.Model.Wire
import Shutter.Drive.Events

namespace Shutter.Drive.Validate
open Shutter.Validate Shutter.Sort Shutter.Wire Shutter.Drive.Events

def semis? {α : Type} (f : String → Option α) (s : String) : Option (List α) :=
  if s = "-" then some [] else (s.splitOn ";").mapM f

def config? (s : String) : Option ConfigRow :=
  match s.splitOn "/" with
  | [c, m] => do pure { config := ← int? c, member := ← bool? m }
  | _ => none

def eon? (s : String) : Option EonRow :=
  match s.splitOn "/" with
  | [e, c] => do pure { eon := ← int? e, config := ← int? c }
  | _ => none

def dkg? (s : String) : Option DkgRow :=
  match s.splitOn "/" with
  | [e, ok, d, n] => do pure { eon := ← int? e, success := ← bool? ok, decodes := ← bool? d, n := ← nat? n }
  | _ => none

def stored? (s : String) : Option StoredKey :=
  match s.splitOn "/" with
  | [e, i, r] => do pure { eon := ← int? e, id := ← bytesOfHex? i, raw := ← bytesOfHex? r }
  | _ => none

def share? (s : String) : Option Share :=
  match s.splitOn "/" with
  | [i, d, v] => do pure { id := ← bytesOfHex? i, decodes := ← bool? d, verifies := ← bool? v }
  | _ => none

def key? (s : String) : Option Key :=
  match s.splitOn "/" with
  | [i, d, v, r] => do pure { id := ← bytesOfHex? i, decodes := ← bool? d, verifies := ← bool? v, raw := ← bytesOfHex? r }
  | _ => none

def showVerdict : Verdict → String
  | .accept => "accept"
  | .reject => "reject"

def v3? (s : String) : Option V3 :=
  if s = "a" then some .accept else if s = "r" then some .reject else if s = "i" then some .ignore
  else if s = "u" then some .unknown else none

def showV3 : V3 → String
  | .accept => "accept" | .reject => "reject" | .ignore => "ignore" | .unknown => "unknown"

def step (toks : List String) : String :=
  match toks with
  | ["combine", vs] =>
    match list? v3? vs with
    | some vs => showV3 (combine vs)
    | none => "bad-op"
  | inst :: mx :: cfgs :: eons :: dkgs :: stored :: op =>
    match nat? inst, nat? mx, semis? config? cfgs, semis? eon? eons, semis? dkg? dkgs, semis? stored? stored with
    | some inst, some mx, some cfgs, some eons, some dkgs, some stored =>
      let cfg : Cfg := { instanceId := inst, maxKeys := mx }
      let db : DB := { configs := cfgs, eons := eons, dkgs := dkgs, keys := stored }
      match op with
      | ["shares", mi, me, ki, shares] =>
        match nat? mi, nat? me, nat? ki, semis? share? shares with
        | some mi, some me, some ki, some shares =>
          showVerdict (validateShares cfg db { instanceId := mi, eon := me, keyperIndex := ki, shares := shares })
        | _, _, _, _ => "bad-op"
      | ["keys", mi, me, keys] =>
        match nat? mi, nat? me, semis? key? keys with
        | some mi, some me, some keys => showVerdict (validateKeys cfg db { instanceId := mi, eon := me, keys := keys })
        | _, _, _ => "bad-op"
      | _ => "bad-op"
    | _, _, _, _, _, _ => "bad-op"
  | _ => "bad-op"

end Shutter.Drive.Validate
