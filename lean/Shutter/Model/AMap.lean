/-
Association-list maps used by all models.  Core-only (no Mathlib).

A Go `map[K]V` is modelled as a `List (K × V)` with at most one entry per key
(`Nodup` keys is an invariant kept as a separate theorem, not a subtype).
`insert` replaces in place or appends, `erase` filters.  Nothing in a model may
depend on the position of an entry except through an explicit listing argument.
-/
namespace Shutter

abbrev AMap (K V : Type) := List (K × V)

namespace AMap
variable {K V : Type} [DecidableEq K]

def get? (m : AMap K V) (k : K) : Option V :=
  match m with
  | [] => none
  | (k', v) :: rest => if k' = k then some v else get? rest k

def contains (m : AMap K V) (k : K) : Bool := (m.get? k).isSome

def getD (m : AMap K V) (k : K) (d : V) : V := (m.get? k).getD d

def insert (m : AMap K V) (k : K) (v : V) : AMap K V :=
  match m with
  | [] => [(k, v)]
  | (k', v') :: rest => if k' = k then (k, v) :: rest else (k', v') :: insert rest k v

def erase (m : AMap K V) (k : K) : AMap K V := m.filter (fun e => e.1 ≠ k)

def keys (m : AMap K V) : List K := m.map (·.1)

@[simp] theorem get?_nil (k : K) : get? ([] : AMap K V) k = none := rfl

theorem get?_insert (m : AMap K V) (k k' : K) (v : V) :
    get? (insert m k v) k' = if k = k' then some v else get? m k' := by
  induction m with
  | nil => simp [insert, get?]
  | cons e rest ih =>
    obtain ⟨a, b⟩ := e
    simp only [insert]
    by_cases h : a = k
    · subst h; simp only [if_true, get?]; by_cases h2 : a = k' <;> simp [h2]
    · simp only [h, if_false, get?]
      by_cases h2 : a = k'
      · subst h2; simp [Ne.symm h]
      · simp [h2, ih]

theorem get?_insert_self (m : AMap K V) (k : K) (v : V) : get? (insert m k v) k = some v := by
  simp [get?_insert]

theorem get?_insert_ne (m : AMap K V) {k k' : K} (v : V) (h : k ≠ k') :
    get? (insert m k v) k' = get? m k' := by
  simp [get?_insert, h]

theorem keys_insert_mem (m : AMap K V) (k k' : K) (v : V) :
    k' ∈ keys (insert m k v) ↔ k' = k ∨ k' ∈ keys m := by
  induction m with
  | nil => simp [insert, keys]
  | cons e rest ih =>
    obtain ⟨a, b⟩ := e
    simp only [insert]
    by_cases h : a = k
    · subst h; simp [keys]
    · simp only [h, if_false]
      simp only [keys, List.map_cons, List.mem_cons] at ih ⊢
      rw [ih]
      constructor
      · rintro (h1 | h1 | h1) <;> simp [h1]
      · rintro (h1 | h1 | h1) <;> simp [h1]

theorem mem_keys_iff_get?_isSome (m : AMap K V) (k : K) :
    k ∈ keys m ↔ (get? m k).isSome := by
  induction m with
  | nil => simp [keys]
  | cons e rest ih =>
    obtain ⟨a, b⟩ := e
    simp only [keys, List.map_cons, List.mem_cons, get?] at ih ⊢
    by_cases h : a = k
    · simp [h]
    · simp [h, ih, Ne.symm h]

theorem keys_insert_nodup (m : AMap K V) (k : K) (v : V) (h : (keys m).Nodup) :
    (keys (insert m k v)).Nodup := by
  induction m with
  | nil => simp [insert, keys]
  | cons e rest ih =>
    obtain ⟨a, b⟩ := e
    simp only [keys, List.map_cons, List.nodup_cons] at h
    simp only [insert]
    by_cases h1 : a = k
    · subst h1; simpa [keys] using h
    · simp only [h1, if_false, keys, List.map_cons, List.nodup_cons]
      refine ⟨?_, ih h.2⟩
      intro hm
      have := (keys_insert_mem rest k a v).1 hm
      rcases this with h2 | h2
      · exact h1 h2
      · exact h.1 h2

end AMap
end Shutter
