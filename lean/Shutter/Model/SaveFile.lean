/-
File-system model for `ShutterApp.PersistToDisk` (C13): create temp file (truncating), write the
encoding, fsync, rename over the final path.  A crash may happen after any prefix of these steps
and in the middle of the write; after a crash, data that was written but not yet fsynced may be
lost from the end (any prefix at least as long as the durable part survives).  `rename` is atomic.
Core-only.
-/
namespace Shutter.SaveFile

abbrev Bytes := List Nat

structure File where
  data : Bytes
  durable : Nat          -- number of leading bytes known to be on stable storage
deriving Repr, DecidableEq

abbrev Fs := String → Option File

def Fs.set (fs : Fs) (p : String) (v : Option File) : Fs := fun q => if q = p then v else fs q

inductive Op where
  | create (p : String)
  | write (p : String) (d : Bytes)
  | sync (p : String)
  | rename (src dst : String)
  | unlink (p : String)
deriving Repr, DecidableEq

def step (fs : Fs) : Op → Fs
  | .create p => fs.set p (some { data := [], durable := 0 })
  | .write p d =>
    match fs p with
    | some f => fs.set p (some { f with data := f.data ++ d })
    | none => fs
  | .sync p =>
    match fs p with
    | some f => fs.set p (some { f with durable := f.data.length })
    | none => fs
  | .rename src dst =>
    match fs src with
    | some f => (fs.set dst (some f)).set src none
    | none => fs
  | .unlink p => fs.set p none

def run (fs : Fs) (ops : List Op) : Fs := ops.foldl step fs

/-- what a reader may find at `p` after a crash in state `fs` -/
def Visible (fs : Fs) (p : String) (c : Option Bytes) : Prop :=
  match fs p with
  | none => c = none
  | some f => ∃ k, f.durable ≤ k ∧ k ≤ f.data.length ∧ c = some (f.data.take k)

/-- the steps of one save, in the order `PersistToDisk` issues them -/
def saveOps (tmp final : String) (enc : Bytes) : List Op :=
  [.create tmp, .write tmp enc, .sync tmp, .rename tmp final]

/-- the state at a crash point: `i` complete steps, then (if the next step is the write) `j` bytes
    of it -/
def crashState (fs : Fs) (tmp final : String) (enc : Bytes) (i j : Nat) : Fs :=
  let done := run fs ((saveOps tmp final enc).take i)
  if i = 1 then step done (.write tmp (enc.take j)) else done

end Shutter.SaveFile
