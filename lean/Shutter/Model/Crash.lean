/-
Model of a keyper following shuttermint across crashes (C08), core-only.

Modelled code: keyper/keyper.go `operateShuttermint` (sync, then send), keyper/smobserver/smdriver.go
(`fetchEvents2`: one database transaction per block; `handleBlock`: load the state if it is not in memory, check
that the block is the one after `tendermint_sync_meta.current_block`, set it, apply the events, schedule the
messages, save; `Invalidate` on error), keyper/smobserver/smstate.go (`Load` / `Save` through shdb's gob codec),
keyper/fx/send.go (`SendShutterMessages`: next row, broadcast, delete the row) and the queries TMGetSyncMeta /
TMSetSyncMeta, InsertPureDKG / SelectPureDKG, ScheduleShutterMessage / GetNextShutterMessage /
DeleteShutterMessage.

The key generation logic is a parameter `apply`: state and block number to new state and number of scheduled
messages.  `σ` is the in-memory state, `ε` what is stored; `dec`/`enc` are shdb.DecodePureDKG / EncodePureDKG.
-/
namespace Shutter.Crash

structure Codec (σ ε : Type) where
  enc : σ → ε
  dec : ε → σ

/-- committed database content -/
structure DB (ε : Type) where
  cur : Nat           -- tendermint_sync_meta.current_block
  enc : ε             -- puredkg
  outbox : List Nat   -- ids of tendermint_outgoing_messages, oldest first
  nextId : Nat        -- the id the next scheduled message gets

structure Node (σ ε : Type) where
  db : DB ε
  mem : Option σ      -- the state in memory; none after a (re)start or an invalidation
  sent : List Nat     -- ids of the messages the chain accepted, in order, with repetitions

inductive Op where
  | blockCommit       -- the transaction of the next block commits
  | blockCommitLost   -- it commits, the process dies before it reads the reply
  | blockAbort        -- the process dies, or the step fails, before the commit
  | restart           -- the process is restarted between transactions
  | sendOk            -- the oldest message is broadcast, accepted, and its row deleted
  | sendNoDelete      -- broadcast and accepted, the process dies before the row is deleted
  | sendFail          -- the broadcast is not accepted: the row stays, the process goes on
deriving Repr, DecidableEq

variable {σ ε : Type}

def ids (start k : Nat) : List Nat := List.range' start k

/-- the committed effect of handling the next block -/
def commitBlock (c : Codec σ ε) (apply : σ → Nat → σ × Nat) (nd : Node σ ε) : DB ε × σ :=
  let s := nd.mem.getD (c.dec nd.db.enc)
  let r := apply s (nd.db.cur + 1)
  ({ cur := nd.db.cur + 1, enc := c.enc r.1, outbox := nd.db.outbox ++ ids nd.db.nextId r.2, nextId := nd.db.nextId + r.2 }, r.1)

def step (c : Codec σ ε) (apply : σ → Nat → σ × Nat) (nd : Node σ ε) : Op → Node σ ε
  | .blockCommit => let r := commitBlock c apply nd; { nd with db := r.1, mem := some r.2 }
  | .blockCommitLost => let r := commitBlock c apply nd; { nd with db := r.1, mem := none }
  | .blockAbort => { nd with mem := none }
  | .restart => { nd with mem := none }
  | .sendOk =>
    match nd.db.outbox with
    | [] => nd
    | id :: rest => { nd with db := { nd.db with outbox := rest }, sent := nd.sent ++ [id] }
  | .sendNoDelete =>
    match nd.db.outbox with
    | [] => { nd with mem := none }
    | id :: _ => { nd with sent := nd.sent ++ [id], mem := none }
  | .sendFail => nd

def run (c : Codec σ ε) (apply : σ → Nat → σ × Nat) (nd : Node σ ε) (ops : List Op) : Node σ ε :=
  ops.foldl (step c apply) nd

/-- the run without any crash: commits stay commits, aborted attempts and restarts vanish, a broadcast whose
    row survived is not repeated -/
def crashFree : List Op → List Op
  | [] => []
  | .blockCommit :: rest => .blockCommit :: crashFree rest
  | .blockCommitLost :: rest => .blockCommit :: crashFree rest
  | .blockAbort :: rest => crashFree rest
  | .restart :: rest => crashFree rest
  | .sendOk :: rest => .sendOk :: crashFree rest
  | .sendNoDelete :: rest => crashFree rest
  | .sendFail :: rest => crashFree rest

/-- consecutive repetitions removed -/
def dedup : List Nat → List Nat
  | [] => []
  | [a] => [a]
  | a :: b :: rest => if a = b then dedup (b :: rest) else a :: dedup (b :: rest)

end Shutter.Crash
