/-
Model of event-trigger firing under batched syncing (C16), core-only.

Modelled code: keyperimpl/shutterservice/multieventsyncer.go (`Sync`, `limitRange`, `syncRange`: all processors
fetch for a range, then all store in one transaction), triggerprocessor.go (`FetchEvents`: active triggers are
the registrations already stored, not fired, not expired at the start of the range; every matching log of the
range that is not after the expiry becomes a candidate; `ProcessEvents`: `InsertFiredTrigger … ON CONFLICT DO
NOTHING`, candidates in log order), eventtriggerregisteredprocessor.go (registrations of the range are stored;
`FirstEventBlock`), and GetActiveEventTriggerRegisteredEvents.

A block is its number and its logs in order: registrations (key, expiry block, the topic it watches) and other
logs (a topic).  Matching of a definition against a log is C17's; here it is equality of topics.
-/
namespace Shutter.Trigger

inductive Item where
  | reg (key expiry topic : Nat)
  | log (topic : Nat)
deriving Repr, DecidableEq

structure Blk where
  number : Nat
  items : List Item
deriving Repr

structure Reg where
  key : Nat
  expiry : Nat
  topic : Nat
deriving Repr, DecidableEq

structure Fired where
  key : Nat
  block : Nat
  logIndex : Nat
deriving Repr, DecidableEq

structure St where
  regs : List Reg := []
  fired : List Fired := []
deriving Repr

def isFired (fired : List Fired) (key : Nat) : Bool := fired.any (fun f => f.key = key)

/-- `InsertFiredTrigger … ON CONFLICT (eon, identity) DO NOTHING` -/
def insertFired (fired : List Fired) (f : Fired) : List Fired := if isFired fired f.key then fired else fired ++ [f]

/-- `InsertEventTriggerRegisteredEvent … ON CONFLICT (eon, identity) DO UPDATE` (block coordinates, definition, expiry) -/
def insertReg (regs : List Reg) (r : Reg) : List Reg :=
  if regs.any (fun x => x.key = r.key) then regs.map (fun x => if x.key = r.key then r else x) else regs ++ [r]

/-- the logs of a block that match a topic, with their index in the block -/
def matchesIn (topic : Nat) : List Item → Nat → List Nat
  | [], _ => []
  | .log t :: rest, i => if t = topic then i :: matchesIn topic rest (i + 1) else matchesIn topic rest (i + 1)
  | .reg _ _ _ :: rest, i => matchesIn topic rest (i + 1)

def regsOf : List Item → List Reg
  | [] => []
  | .reg k e t :: rest => { key := k, expiry := e, topic := t } :: regsOf rest
  | .log _ :: rest => regsOf rest

/-- candidates of one active trigger in a list of blocks: matching logs not after the expiry, in chain order -/
def candidates (r : Reg) : List Blk → List Fired
  | [] => []
  | b :: rest =>
    (if b.number ≤ r.expiry then (matchesIn r.topic b.items 0).map (fun i => { key := r.key, block := b.number, logIndex := i })
     else []) ++ candidates r rest

/-- one sync range: `blocks` are the consecutive blocks of the range, `start` its first block number -/
def stepRange (st : St) (start : Nat) (blocks : List Blk) : St :=
  let active := st.regs.filter (fun r => decide (start ≤ r.expiry) && !isFired st.fired r.key)
  let cands := active.flatMap (fun r => candidates r blocks)
  { regs := (blocks.flatMap (fun b => regsOf b.items)).foldl insertReg st.regs,
    fired := cands.foldl insertFired st.fired }

/-- block by block: what a keyper that processes every block on its own records -/
def stepBlock (st : St) (b : Blk) : St := stepRange st b.number [b]

def blockwise (st : St) (blocks : List Blk) : St := blocks.foldl stepBlock st

/-- a sequence of ranges, each given with its blocks -/
def batched (st : St) (ranges : List (List Blk)) : St :=
  ranges.foldl (fun st r => match r with
    | [] => st
    | b :: _ => stepRange st b.number r) st

/-- the fired row of a key, if any -/
def firedOf (st : St) (key : Nat) : Option Fired := st.fired.find? (fun f => f.key = key)

/-- `limitRange`: only the last block of a range has registrations -/
def Limited (r : List Blk) : Prop := ∀ b ∈ r.dropLast, regsOf b.items = []

end Shutter.Trigger
