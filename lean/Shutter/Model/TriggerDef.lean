/-
Model of `keyperimpl/shutterservice/eventtrigger.go` (C17), core-only.

Three layers:
  * typed: `Definition`, `validate`, `getValue` (every slice of log-controlled data is an explicit,
    checked access — `Access.oob` stands for a Go slice-bounds panic), `matchDef`, `toFilter`, and the
    node-side filter semantics `passes`;
  * items: the RLP item tree a definition is written as (`toItem`) and read from (`fromItem`),
    including the flat `[op, ints…, bytes…]` list of the custom ValuePredicate codec;
  * bytes: RLP serialisation of item trees with go-ethereum's canonical-form checks.
Integers are unbounded naturals; `uint64` conversions are explicit (`< 2^64` tests) where the Go code
has them.
-/
namespace Shutter.TriggerDef

abbrev Bytes := List Nat      -- each < 256
def word : Nat := 32

/-! ### typed layer -/

inductive Op where
  | uintLt | uintLte | uintEq | uintGt | uintGte | bytesEq
deriving Repr, DecidableEq

def Op.ofNat? : Nat → Option Op
  | 0 => some .uintLt | 1 => some .uintLte | 2 => some .uintEq
  | 3 => some .uintGt | 4 => some .uintGte | 5 => some .bytesEq
  | _ => none

def Op.toNat : Op → Nat
  | .uintLt => 0 | .uintLte => 1 | .uintEq => 2 | .uintGt => 3 | .uintGte => 4 | .bytesEq => 5

def Op.numIntArgs : Op → Nat
  | .bytesEq => 0
  | _ => 1

def Op.numByteArgs : Op → Nat
  | .bytesEq => 1
  | _ => 0

structure ValueRef where
  dynamic : Bool
  offset : Nat
deriving Repr, DecidableEq

structure ValuePred where
  op : Op
  intArgs : List Int
  byteArgs : List Bytes
deriving Repr, DecidableEq

structure LogPred where
  ref : ValueRef
  pred : ValuePred
deriving Repr, DecidableEq

structure Definition where
  contract : Bytes          -- 20 bytes
  preds : List LogPred
deriving Repr, DecidableEq

structure Log where
  address : Bytes
  topics : List Bytes       -- 32 bytes each
  data : Bytes
deriving Repr, DecidableEq

def ValueRef.isTopic (r : ValueRef) : Bool := decide (r.offset < 4)

/-- `LogValueRef.Validate` -/
def ValueRef.valid (r : ValueRef) : Bool :=
  decide (r.offset ≤ 4294967295) && !(r.dynamic && decide (r.offset < 4))

/-- `ValuePredicate.Validate` (the operation itself is valid by construction of `Op`) -/
def ValuePred.valid (p : ValuePred) : Bool :=
  decide (p.intArgs.length = p.op.numIntArgs) && decide (p.byteArgs.length = p.op.numByteArgs)
    && p.intArgs.all (fun a => decide (0 ≤ a))

/-- `LogPredicate.Validate`, including the rule added by the `fix:` commit: a topic `BytesEq`
    argument is one whole word -/
def LogPred.valid (p : LogPred) : Bool :=
  p.ref.valid && p.pred.valid &&
    !(p.ref.isTopic && decide (p.pred.op = .bytesEq) && decide ((p.pred.byteArgs.headD []).length ≠ word))

/-- offsets of the topic `BytesEq` predicates, in order -/
def topicEqOffsets (ps : List LogPred) : List Nat :=
  (ps.filter (fun p => p.ref.isTopic && decide (p.pred.op = .bytesEq))).map (·.ref.offset)

def nodupNat : List Nat → Bool
  | [] => true
  | a :: rest => !rest.contains a && nodupNat rest

/-- `EventTriggerDefinition.Validate` -/
def Definition.valid (d : Definition) : Bool :=
  d.preds.all LogPred.valid && nodupNat (topicEqOffsets d.preds)

/-! #### reading a value out of a log -/

/-- result of an access to log-controlled data -/
inductive Access (α : Type) where
  | ok (a : α)
  | oob                 -- Go would panic: slice bounds out of range / makeslice
deriving Repr, DecidableEq

/-- Go `data[a:b]` -/
def slice (data : Bytes) (a b : Nat) : Access Bytes :=
  if a ≤ b ∧ b ≤ data.length then .ok ((data.drop a).take (b - a)) else .oob

def zeros (n : Nat) : Bytes := List.replicate n 0

/-- `copy(dst, src)` into a zeroed buffer of length `n`: `src` then zero padding -/
def copyInto (n : Nat) (src : Bytes) : Bytes := (src.take n) ++ zeros (n - src.length)

def bigOfBytes (b : Bytes) : Nat := b.foldl (fun acc x => acc * 256 + x) 0

/-- `readWord`: the 32-byte word at `start`, zero padded (checked access) -/
def readWord (data : Bytes) (start : Nat) : Access Bytes :=
  if start < data.length then
    match slice data start data.length with
    | .ok s => .ok (copyInto word s)
    | .oob => .oob
  else .ok (zeros word)

/-- value of a reference: `none` is Go's `nil` (missing), `alloc` records the size of the buffer
    the Go code allocates for it -/
structure Value where
  bytes : Option Bytes
  alloc : Nat
deriving Repr, DecidableEq

/-- tail shared by the static and dynamic case: a zeroed buffer of `length` bytes filled from
    `data[start : min(start+length, len)]` -/
def fill (data : Bytes) (start length : Nat) : Access Value :=
  if start < data.length then
    let availEnd := if start + length < data.length then start + length else data.length
    match slice data start availEnd with
    | .ok s => .ok { bytes := some (copyInto length s), alloc := length }
    | .oob => .oob
  else .ok { bytes := some (zeros length), alloc := length }

/-- `LogValueRef.GetValue` (with `getOffsetDataValue` after the `fix:` commit) -/
def getValue (r : ValueRef) (log : Log) : Access Value :=
  if r.isTopic then
    match log.topics[r.offset]? with
    | none => .ok { bytes := none, alloc := 0 }
    | some t => .ok { bytes := some t, alloc := 0 }
  else if r.dynamic then
    let offsetStart := (r.offset - 4) * word
    match readWord log.data offsetStart with
    | .oob => .oob
    | .ok w =>
      let off := bigOfBytes w
      if ¬ off < 2 ^ 64 ∨ log.data.length < off then .ok { bytes := none, alloc := 2 * word }
      else
        match readWord log.data off with
        | .oob => .oob
        | .ok w2 =>
          let len := bigOfBytes w2
          if ¬ len < 2 ^ 64 ∨ log.data.length < len then .ok { bytes := none, alloc := 2 * word }
          else
            match fill log.data (off + word) len with
            | .oob => .oob
            | .ok v => .ok { v with alloc := v.alloc + 2 * word }
  else
    fill log.data ((r.offset - 4) * word) word

/-- `ValuePredicate.Match` on a value (`nil` reads as the empty byte string); `oob` would be an
    index panic on the argument lists -/
def ValuePred.matchValue (p : ValuePred) (v : Option Bytes) : Access Bool :=
  let b := v.getD []
  let n : Int := bigOfBytes b
  match p.op with
  | .bytesEq =>
    match p.byteArgs[0]? with
    | some a => .ok (decide (b = a))
    | none => .oob
  | op =>
    match p.intArgs[0]? with
    | none => .oob
    | some a =>
      .ok (match op with
        | .uintLt => decide (n < a)
        | .uintLte => decide (n ≤ a)
        | .uintEq => decide (n = a)
        | .uintGt => decide (a < n)
        | .uintGte => decide (a ≤ n)
        | .bytesEq => false)

def LogPred.matchLog (p : LogPred) (log : Log) : Access Bool :=
  match getValue p.ref log with
  | .oob => .oob
  | .ok v => p.pred.matchValue v.bytes

def matchPreds : List LogPred → Log → Access Bool
  | [], _ => .ok true
  | p :: rest, log =>
    match p.matchLog log with
    | .oob => .oob
    | .ok false => .ok false
    | .ok true => matchPreds rest log

/-- `EventTriggerDefinition.Match` -/
def matchDef (d : Definition) (log : Log) : Access Bool :=
  if log.address ≠ d.contract then .ok false else matchPreds d.preds log

/-- total buffer size allocated while matching (sum over the predicates evaluated) -/
def allocOf (d : Definition) (log : Log) : Nat :=
  (d.preds.map (fun p => match getValue p.ref log with | .ok v => v.alloc | .oob => 0)).foldl (· + ·) 0

/-! #### the node-side filter -/

structure Filter where
  address : Bytes
  topics : List (List Bytes)     -- per position: alternatives; empty = wildcard
deriving Repr, DecidableEq

def setAt (l : List (List Bytes)) (i : Nat) (v : List Bytes) : List (List Bytes) :=
  let l := l ++ List.replicate (i + 1 - l.length) []
  l.set i v

/-- `ToFilterQuery`; `none` is the error return -/
def toFilterAux : List LogPred → List (List Bytes) → Option (List (List Bytes))
  | [], topics => some topics
  | p :: rest, topics =>
    if p.ref.isTopic && decide (p.pred.op = .bytesEq) then
      let i := p.ref.offset
      let topics := topics ++ List.replicate (i + 1 - topics.length) []
      if (topics.getD i []).length ≠ 0 then none
      else
        match p.pred.byteArgs[0]? with
        | none => none
        | some t => if t.length ≠ word then none else toFilterAux rest (topics.set i [t])
    else toFilterAux rest topics

def toFilter (d : Definition) : Option Filter :=
  match toFilterAux d.preds [] with
  | some ts => some { address := d.contract, topics := ts }
  | none => none

/-- go-ethereum's `eth_getLogs` matching: address, and for every position with alternatives the
    log must have that topic and it must be one of them -/
def passesTopics : List (List Bytes) → List Bytes → Bool
  | [], _ => true
  | _ :: _, [] => false
  | alts :: rest, t :: ts => (alts.isEmpty || alts.contains t) && passesTopics rest ts

/-- a filter with more positions than the log has topics rejects the log (go-ethereum: `len(sub) >
    len(log.Topics)` → no match), even if the extra positions are wildcards -/
def passes (f : Filter) (log : Log) : Bool :=
  decide (log.address = f.address) && decide (f.topics.length ≤ log.topics.length) &&
    passesTopics f.topics log.topics

/-! ### item layer -/

inductive Item where
  | str (b : Bytes)
  | list (items : List Item)
deriving Repr

/-- minimal big-endian bytes of a natural (`big.Int.Bytes`, `0 ↦ []`) -/
def natBytes (n : Nat) : Bytes :=
  let rec go (fuel n : Nat) (acc : Bytes) : Bytes :=
    match fuel with
    | 0 => acc
    | fuel + 1 => if n = 0 then acc else go fuel (n / 256) ((n % 256) :: acc)
  go (n + 1) n []

def boolItem (b : Bool) : Item := .str (if b then [1] else [])
def natItem (n : Nat) : Item := .str (natBytes n)

def ValuePred.toItem (p : ValuePred) : Item :=
  .list ([natItem p.op.toNat] ++ p.intArgs.map (fun a => natItem a.toNat) ++ p.byteArgs.map Item.str)

def LogPred.toItem (p : LogPred) : Item :=
  .list [.list [boolItem p.ref.dynamic, natItem p.ref.offset], p.pred.toItem]

def Definition.toItem (d : Definition) : Item :=
  .list [.str d.contract, .list (d.preds.map LogPred.toItem)]

/-- canonical integer: no leading zero byte (so `0` is the empty string) -/
def intOfItem? (maxBytes : Option Nat) : Item → Option Nat
  | .str b =>
    if b.headD 1 = 0 then none
    else
      match maxBytes with
      | some m => if b.length ≤ m then some (bigOfBytes b) else none
      | none => some (bigOfBytes b)
  | .list _ => none

def boolOfItem? (i : Item) : Option Bool :=
  match intOfItem? (some 1) i with
  | some 0 => some false
  | some 1 => some true
  | _ => none

def bytesOfItem? : Item → Option Bytes
  | .str b => some b
  | .list _ => none

/-- the custom `ValuePredicate.DecodeRLP`: `[op, ints…, bytes…]` with exactly the number of
    arguments the operation takes -/
def ValuePred.ofItem? : Item → Option ValuePred
  | .list (opI :: args) =>
    match intOfItem? (some 8) opI with
    | none => none
    | some n =>
      match Op.ofNat? n with
      | none => none
      | some op =>
        match op, args with
        | .bytesEq, [a] => (bytesOfItem? a).map (fun b => { op, intArgs := [], byteArgs := [b] })
        | .bytesEq, _ => none
        | _, [a] => (intOfItem? none a).map (fun v => { op, intArgs := [(v : Int)], byteArgs := [] })
        | _, _ => none
  | _ => none

def LogPred.ofItem? : Item → Option LogPred
  | .list [.list [dyn, off], vp] => do
      let d ← boolOfItem? dyn
      let o ← intOfItem? (some 8) off
      let p ← ValuePred.ofItem? vp
      pure { ref := { dynamic := d, offset := o }, pred := p }
  | _ => none

def mapOpt {α β : Type} (f : α → Option β) : List α → Option (List β)
  | [] => some []
  | a :: as =>
    match f a, mapOpt f as with
    | some b, some bs => some (b :: bs)
    | _, _ => none

def Definition.ofItem? : Item → Option Definition
  | .list [.str c, .list ps] =>
    if c.length ≠ 20 then none
    else (mapOpt LogPred.ofItem? ps).map (fun preds => { contract := c, preds })
  | _ => none

/-! ### byte layer -/

def header (base : Nat) (len : Nat) : Bytes :=
  if len < 56 then [base + len]
  else let lb := natBytes len; (base + 55 + lb.length) :: lb

mutual
def encodeItem : Item → Bytes
  | .str b =>
    match b with
    | [x] => if x < 128 then [x] else header 128 1 ++ [x]
    | _ => header 128 b.length ++ b
  | .list items => let payload := encodeItems items; header 192 payload.length ++ payload
def encodeItems : List Item → Bytes
  | [] => []
  | i :: rest => encodeItem i ++ encodeItems rest
end

/-- length field of the long form: `n` bytes, big endian, no leading zero, value ≥ 56 -/
def longLen? (n : Nat) (input : Bytes) : Option (Nat × Bytes) :=
  if input.length < n then none
  else
    let lb := input.take n
    if lb.headD 0 = 0 then none
    else
      let len := bigOfBytes lb
      if len < 56 then none else some (len, input.drop n)

/-- one item given its first byte `b` and what follows; `sub` decodes a list payload -/
def decodeHead (b : Nat) (rest : Bytes) (sub : Bytes → Option (List Item)) : Option (Item × Bytes) :=
  if b < 128 then some (.str [b], rest)
  else if b < 184 then
    let len := b - 128
    if rest.length < len then none
    else
      let s := rest.take len
      if len = 1 ∧ s.headD 0 < 128 then none else some (.str s, rest.drop len)
  else if b < 192 then
    match longLen? (b - 183) rest with
    | none => none
    | some (len, rest) => if rest.length < len then none else some (.str (rest.take len), rest.drop len)
  else if b < 248 then
    let len := b - 192
    if rest.length < len then none
    else
      match sub (rest.take len) with
      | some items => some (.list items, rest.drop len)
      | none => none
  else
    match longLen? (b - 247) rest with
    | none => none
    | some (len, rest) =>
      if rest.length < len then none
      else
        match sub (rest.take len) with
        | some items => some (.list items, rest.drop len)
        | none => none

/-- the items of a non-empty payload: `one` decodes the first, `more` the others -/
def decodeTail (input : Bytes) (one : Bytes → Option (Item × Bytes)) (more : Bytes → Option (List Item)) :
    Option (List Item) :=
  match one input with
  | none => none
  | some (i, rest) =>
    match more rest with
    | some is => some (i :: is)
    | none => none

mutual
/-- decode one item from the front of `input`; returns the item and the rest -/
def decodeItem : Nat → Bytes → Option (Item × Bytes)
  | 0, _ => none
  | _, [] => none
  | fuel + 1, b :: rest => decodeHead b rest (decodeItems fuel)
/-- decode a whole payload into its items -/
def decodeItems : Nat → Bytes → Option (List Item)
  | 0, _ => none
  | _, [] => some []
  | fuel + 1, input => decodeTail input (decodeItem fuel) (decodeItems fuel)
end

def version : Nat := 2

/-- `MarshalBytes` -/
def marshal (d : Definition) : Bytes := version :: encodeItem d.toItem

/-- `UnmarshalBytes`; `none` is the error return -/
def unmarshal (data : Bytes) : Option Definition :=
  match data with
  | [] => none
  | v :: rest =>
    if v ≠ version then none
    else
      match decodeItem (2 * rest.length + 2) rest with
      | some (item, []) =>
        match Definition.ofItem? item with
        | some d => if d.valid then some d else none
        | none => none
      | _ => none

end Shutter.TriggerDef
