/-
Model of the shuttermint ABCI application (`rolling-shutter/app`), core-only.

What is modelled: `InitChain`, `BeginBlock`, `CheckTx`, `DeliverTx` (all eight payloads and
"no payload"), `EndBlock`, `Commit`, with the state of `ShutterApp` minus `Gobpath` and
`LastSaved` (which C13 treats separately).

What is a parameter (trusted base): the byte layer of a transaction (base64, ECDSA signer
recovery, protobuf) is outside this model; a transaction reaches the model either as
`Tx.undecodable` or already decoded into signer, chain id, nonce and a payload whose
address-like fields are still *raw* (length, value) so that the repo's own length and
uniqueness checks are part of the model.  `crypto.DecompressPubkey` and the blst G2 checks
are oracles whose verdict arrives with the payload (`encOk`, `gammasOk`).  Opaque byte
blobs (encrypted evaluations, gammas, encryption key) are carried as an identifier.

Go maps are `AMap`s; every `range` over a map in package `app` is either a pure count /
map construction, or goes through the functions in section "range sites" below, which take
the *listing* of the map as an explicit argument so that order-independence is a theorem
(`Proofs/AppOrder.lean`) and not an artefact of the representation.
-/
import Shutter.Model.AMap

namespace Shutter.App

abbrev Addr := Nat      -- 20-byte address as a big-endian number
abbrev PubKey := Nat    -- 32-byte ed25519 key as a big-endian number (order = bytes.Compare)
abbrev Blob := Nat      -- identifier of an opaque byte string

/-- raw bytes standing for an address or key: (length in bytes, big-endian value) -/
structure Raw where
  len : Nat
  val : Nat
deriving DecidableEq, Repr, Inhabited

structure BatchConfig where
  activation : Nat
  keypers : List Addr
  threshold : Nat
  index : Nat
  started : Bool
  validatorsUpdated : Bool
deriving DecidableEq, Repr, Inhabited

namespace BatchConfig

def isKeyper (bc : BatchConfig) (a : Addr) : Bool := bc.keypers.contains a

/-- `EnsureValid` (after the `fix:` comparing the threshold as `uint64`). -/
def valid (bc : BatchConfig) : Bool :=
  bc.keypers.length != 0 && bc.threshold != 0 && decide (bc.threshold ≤ bc.keypers.length)

end BatchConfig

/-- The order in which Go happens to range over a map at the range sites of package `app`:
    an arbitrary re-listing of the votes map and of a power map.  `Order.Valid` says each is a
    permutation; `Proofs/AppOrder.lean` shows no result depends on the choice. -/
structure Order where
  votes : List (Addr × Nat) → List (Addr × Nat)
  power : List (PubKey × Int) → List (PubKey × Int)

/-- the canonical order used by the executable driver -/
def Order.canonical : Order := { votes := id, power := id }

structure Order.Valid (o : Order) : Prop where
  votes_perm : ∀ l, (o.votes l).Perm l
  power_perm : ∀ l, (o.power l).Perm l

/-- `Voting[T,E]`: `votes` is the Go map sender → candidate index. -/
structure Voting (T : Type) where
  votes : AMap Addr Nat
  candidates : List T
deriving Repr

namespace Voting
variable {T : Type} [DecidableEq T]

def empty : Voting T := { votes := [], candidates := [] }

/-- number of votes for candidate index `i`, counted over a *listing* of the votes map -/
def countOn (listing : List (Addr × Nat)) (i : Nat) : Nat :=
  (listing.filter (fun e => e.2 = i)).length

/-- `outcomeIndex` after the `fix:`: scan candidate indices in order, using the counts
    obtained from ranging over the votes map in the order given by `listing`. -/
def outcomeIndexOn (listing : List (Addr × Nat)) (ncand : Nat) (required : Int) : Option Nat :=
  (List.range ncand).find? (fun i =>
    let c := countOn listing i
    decide (0 < c) && decide (required ≤ (c : Int)))

def outcomeIndex (o : Order) (v : Voting T) (required : Int) : Option Nat :=
  outcomeIndexOn (o.votes v.votes) v.candidates.length required

def outcome (o : Order) (v : Voting T) (required : Int) : Option T :=
  match v.outcomeIndex o required with
  | none => none
  | some i => v.candidates[i]?

/-- `SetVote` -/
def setVote (v : Voting T) (sender : Addr) (c : T) : Voting T :=
  match v.candidates.findIdx? (fun x => decide (c = x)) with
  | some i => { v with votes := v.votes.insert sender i }
  | none => { votes := v.votes.insert sender v.candidates.length,
              candidates := v.candidates ++ [c] }

/-- `AddVote`: `none` = errAlreadyVoted -/
def addVote (v : Voting T) (sender : Addr) (c : T) : Option (Voting T) :=
  if v.votes.contains sender then none else some (v.setVote sender c)

end Voting

structure DKG where
  config : BatchConfig
  eon : Nat
  success : Voting Bool
  evalsSeen : List (Addr × Addr)
  commitsSeen : List Addr
  accusationsSeen : List Addr
  apologiesSeen : List Addr
deriving Repr

def DKG.new (config : BatchConfig) (eon : Nat) : DKG :=
  { config, eon, success := Voting.empty, evalsSeen := [], commitsSeen := [],
    accusationsSeen := [], apologiesSeen := [] }

structure CheckTxState where
  members : List Addr          -- the set `Members` (as the list it was built from)
  txCounts : AMap Addr Nat
  nonces : List (Addr × Nat)
deriving Repr

structure Fork where
  enabled : Bool
  height : Int
deriving Repr, DecidableEq

structure App where
  configs : List BatchConfig
  dkgs : AMap Nat DKG
  configVoting : Voting BatchConfig
  lastBlockHeight : Int
  identities : AMap Addr PubKey
  blocksSeen : AMap Addr Nat
  validators : AMap PubKey Int
  eonCounter : Nat
  devMode : Bool
  checkTx : CheckTxState
  nonces : List (Addr × Nat)
  chainId : String
  fork : Option Fork            -- `ForkHeights` (nil = none) after migration
deriving Repr

/-! ### transactions -/

inductive Payload where
  | batchConfig (activation threshold index : Nat) (keypers : List Raw)
  | blockSeen (block : Nat)
  | checkIn (validatorKey : Raw) (encOk : Bool) (encKey : Blob)
  | dkgResult (eon : Nat) (success : Bool)
  | polyEval (eon : Nat) (receivers : List Raw) (numEvals : Nat) (evals : Blob)
  | polyCommitment (eon : Nat) (gammasOk : Bool) (gammas : Blob)
  | accusation (eon : Nat) (accused : List Raw)
  | apology (eon : Nat) (accusers : List Raw) (numEvals : Nat) (evals : Blob)
  | none
deriving Repr, DecidableEq

inductive Tx where
  | undecodable
  | msg (signer : Addr) (chainId : String) (nonce : Nat) (payload : Payload)
deriving Repr, DecidableEq

inductive Event where
  | checkIn (sender : Addr) (encKey : Blob)
  | batchConfig (activation : Nat) (keypers : List Addr) (threshold index : Nat)
  | eonStarted (eon activation index : Nat)
  | batchConfigStarted (index : Nat)
  | polyEval (sender : Addr) (eon : Nat) (receivers : List Addr) (evals : Blob)
  | polyCommitment (sender : Addr) (eon : Nat) (gammas : Blob)
  | accusation (sender : Addr) (eon : Nat) (accused : List Addr)
  | apology (sender : Addr) (eon : Nat) (accusers : List Addr) (evals : Blob)
deriving Repr, DecidableEq

/-- response of `DeliverTx`: code 0 ok, 1 error, 2 seen -/
structure Resp where
  code : Nat
  events : List Event
deriving Repr, DecidableEq

def errResp : Resp := { code := 1, events := [] }
def seenResp : Resp := { code := 2, events := [] }
def okResp (evs : List Event) : Resp := { code := 0, events := evs }

/-! ### helpers mirroring the Go helpers -/

/-- `int(x)` for a `uint64` on a 64-bit platform -/
def toInt64 (n : Nat) : Int :=
  let m : Nat := n % 2 ^ 64
  if m < 2 ^ 63 then (m : Int) else (m : Int) - 2 ^ 64

def validateAddress (r : Raw) : Option Addr := if r.len = 20 then some r.val else none

def parseAddresses : List Raw → Option (List Addr)
  | [] => some []
  | r :: rest =>
    match validateAddress r, parseAddresses rest with
    | some a, some as => some (a :: as)
    | _, _ => none

/-- `medley.EnsureUniqueAddresses` -/
def uniqueAddrs : List Addr → Bool
  | [] => true
  | a :: rest => !rest.contains a && uniqueAddrs rest

def BatchConfig.event (bc : BatchConfig) : Event :=
  .batchConfig bc.activation bc.keypers bc.threshold bc.index

/-- `BatchConfigFromMessage` -/
def batchConfigFromMessage (activation threshold index : Nat) (keypers : List Raw) :
    Option BatchConfig :=
  match parseAddresses keypers with
  | none => none
  | some ks =>
    if uniqueAddrs ks then
      some { activation, keypers := ks, threshold, index, started := false,
             validatorsUpdated := false }
    else none

namespace App

def lastConfig (app : App) : BatchConfig := app.configs.getLast?.getD default

def isKeyper (app : App) (a : Addr) : Bool := app.configs.any (fun c => c.isKeyper a)

/-- `checkConfig` -/
def checkConfig (app : App) (cfg : BatchConfig) : Bool :=
  cfg.valid && decide (app.lastConfig.activation ≤ cfg.activation)
    && decide (app.lastConfig.index < cfg.index)

def allMembers (configs : List BatchConfig) : List Addr := configs.flatMap (·.keypers)

def updateCheckTxMembers (app : App) : App :=
  { app with checkTx := { app.checkTx with members := allMembers app.configs } }

/-- `StartDKG` -/
def startDKG (app : App) (config : BatchConfig) : App × DKG :=
  let eon := (app.eonCounter + 1) % 2 ^ 64
  let dkg := DKG.new config eon
  ({ app with eonCounter := eon, dkgs := app.dkgs.insert eon dkg }, dkg)

/-- static table `forkHeightOverrides` (chain id ↦ eon override); pinned by `Generated/Facts`. -/
def forkOverrideEon (chainId : String) : Option Nat :=
  if chainId = "shutter-gnosis-1000" then some 9
  else if chainId = "shutter-chiado-102000" then some 13
  else if chainId = "shutter-api-gnosis-1001" then some 13
  else if chainId = "shutter-service-chiado-1000" then some 9
  else if chainId = "shutter-api-gnosis-1002" then some 0
  else none

/-- `IsCheckInUpdateForkActive` (overrides in the table only ever set `Eon`) -/
def checkInForkActive (app : App) : Bool :=
  match app.fork with
  | none => false
  | some fh =>
    match forkOverrideEon app.chainId with
    | some e => decide (e ≤ app.eonCounter)
    | none => fh.enabled && decide (fh.height ≤ app.lastBlockHeight + 1)

/-! #### DeliverTx payload handlers -/

def deliverBatchConfig (o : Order) (app : App) (sender : Addr) (activation threshold index : Nat)
    (keypers : List Raw) : App × Resp :=
  match batchConfigFromMessage activation threshold index keypers with
  | none => (app, errResp)
  | some bc =>
    if app.lastConfig = bc then (app, seenResp)
    else if !app.checkConfig bc then (app, errResp)
    else if !app.lastConfig.isKeyper sender then (app, errResp)
    else
      match app.configVoting.addVote sender bc with
      | none => (app, errResp)
      | some voting =>
        let app := { app with configVoting := voting }
        match voting.outcome o (toInt64 app.lastConfig.threshold) with
        | none => (app, okResp [])
        | some _ =>
          let app := { app with configVoting := Voting.empty }
          -- addConfig re-runs checkConfig (same state, same answer: it passed above)
          let app := { app with configs := app.configs ++ [bc] }
          let app := app.updateCheckTxMembers
          let (app, dkg) := app.startDKG bc
          (app, okResp [bc.event, .eonStarted dkg.eon bc.activation bc.index])

def deliverBlockSeen (app : App) (sender : Addr) (block : Nat) : App × Resp :=
  if !app.isKeyper sender then (app, errResp)
  else
    if app.blocksSeen.getD sender 0 < block then
      ({ app with blocksSeen := app.blocksSeen.insert sender block }, okResp [])
    else (app, okResp [])

def deliverCheckIn (app : App) (sender : Addr) (validatorKey : Raw) (encOk : Bool)
    (encKey : Blob) : App × Resp :=
  if !app.checkInForkActive && app.identities.contains sender then (app, seenResp)
  else if !app.isKeyper sender then (app, errResp)
  else if validatorKey.len ≠ 32 then (app, errResp)
  else if !encOk then (app, errResp)
  else
    ({ app with identities := app.identities.insert sender validatorKey.val },
      okResp [.checkIn sender encKey])

/-- `maybeStartEon` -/
def maybeStartEon (o : Order) (app : App) (eon : Nat) : App × Option DKG :=
  match app.dkgs.get? eon with
  | none => (app, none)
  | some dkg =>
    match dkg.success.outcome o (toInt64 dkg.config.threshold) with
    | none => (app, none)
    | some success =>
      if success || decide (eon < app.eonCounter) then (app, none)
      else
        let (app, d) := app.startDKG dkg.config
        (app, some d)

def deliverDKGResult (o : Order) (app : App) (sender : Addr) (eon : Nat) (success : Bool) : App × Resp :=
  match app.dkgs.get? eon with
  | none => (app, errResp)
  | some dkg =>
    if !dkg.config.isKeyper sender then (app, errResp)
    else
      match dkg.success.addVote sender success with
      | none => (app, seenResp)
      | some voting =>
        let app := { app with dkgs := app.dkgs.insert eon { dkg with success := voting } }
        match app.maybeStartEon o eon with
        | (app, none) => (app, okResp [])
        | (app, some d) =>
          (app, okResp [.eonStarted d.eon dkg.config.activation dkg.config.index])

/-- result of a `Register…Msg` call: error, already present, or the new instance -/
inductive Reg where
  | err | seen | ok (d : DKG)

def registerPolyEval (d : DKG) (sender : Addr) (eon : Nat) (receivers : List Addr) : Reg :=
  if eon ≠ d.eon then .err
  else if !d.config.isKeyper sender then .err
  else
    let rec go : List Addr → Option Reg
      | [] => none
      | r :: rest =>
        if !d.config.isKeyper r then some .err
        else if r = sender then some .err
        else if d.evalsSeen.contains (sender, r) then some .seen
        else go rest
    match go receivers with
    | some r => r
    | none => .ok { d with evalsSeen := d.evalsSeen ++ receivers.map (fun r => (sender, r)) }

def registerPolyCommitment (d : DKG) (sender : Addr) (eon : Nat) : Reg :=
  if eon ≠ d.eon then .err
  else if !d.config.isKeyper sender then .err
  else if d.commitsSeen.contains sender then .seen
  else .ok { d with commitsSeen := d.commitsSeen ++ [sender] }

def registerAccusation (d : DKG) (sender : Addr) (eon : Nat) (accused : List Addr) : Reg :=
  if eon ≠ d.eon then .err
  else if !d.config.isKeyper sender then .err
  else if accused.any (fun a => !d.config.isKeyper a || decide (sender = a)) then .err
  else if d.accusationsSeen.contains sender then .seen
  else .ok { d with accusationsSeen := d.accusationsSeen ++ [sender] }

def registerApology (d : DKG) (sender : Addr) (eon : Nat) (accusers : List Addr) : Reg :=
  if eon ≠ d.eon then .err
  else if !d.config.isKeyper sender then .err
  else if accusers.any (fun a => !d.config.isKeyper a || decide (sender = a)) then .err
  else if d.apologiesSeen.contains sender then .seen
  else .ok { d with apologiesSeen := d.apologiesSeen ++ [sender] }

def applyReg (app : App) (eon : Nat) (r : Reg) (ev : Event) : App × Resp :=
  match r with
  | .err => (app, errResp)
  | .seen => (app, seenResp)
  | .ok d => ({ app with dkgs := app.dkgs.insert eon d }, okResp [ev])

def deliverPolyEval (app : App) (sender : Addr) (eon : Nat) (receivers : List Raw)
    (numEvals : Nat) (evals : Blob) : App × Resp :=
  if receivers.length ≠ numEvals then (app, errResp)
  else
    match parseAddresses receivers with
    | none => (app, errResp)
    | some rs =>
      if !uniqueAddrs rs then (app, errResp)
      else
        match app.dkgs.get? eon with
        | none => (app, errResp)
        | some d => app.applyReg eon (registerPolyEval d sender eon rs) (.polyEval sender eon rs evals)

def deliverPolyCommitment (app : App) (sender : Addr) (eon : Nat) (gammasOk : Bool)
    (gammas : Blob) : App × Resp :=
  if !gammasOk then (app, errResp)
  else
    match app.dkgs.get? eon with
    | none => (app, errResp)
    | some d => app.applyReg eon (registerPolyCommitment d sender eon) (.polyCommitment sender eon gammas)

def deliverAccusation (app : App) (sender : Addr) (eon : Nat) (accused : List Raw) : App × Resp :=
  match parseAddresses accused with
  | none => (app, errResp)
  | some as =>
    if !uniqueAddrs as then (app, errResp)
    else
      match app.dkgs.get? eon with
      | none => (app, errResp)
      | some d => app.applyReg eon (registerAccusation d sender eon as) (.accusation sender eon as)

def deliverApology (app : App) (sender : Addr) (eon : Nat) (accusers : List Raw)
    (numEvals : Nat) (evals : Blob) : App × Resp :=
  if accusers.length ≠ numEvals then (app, errResp)
  else
    match parseAddresses accusers with
    | none => (app, errResp)
    | some as =>
      if !uniqueAddrs as then (app, errResp)
      else
        match app.dkgs.get? eon with
        | none => (app, errResp)
        | some d => app.applyReg eon (registerApology d sender eon as) (.apology sender eon as evals)

def deliverMessage (o : Order) (app : App) (sender : Addr) : Payload → App × Resp
  | .batchConfig a t i ks => app.deliverBatchConfig o sender a t i ks
  | .blockSeen b => app.deliverBlockSeen sender b
  | .checkIn k ok e => app.deliverCheckIn sender k ok e
  | .dkgResult eon s => app.deliverDKGResult o sender eon s
  | .polyEval eon rs n e => app.deliverPolyEval sender eon rs n e
  | .polyCommitment eon ok g => app.deliverPolyCommitment sender eon ok g
  | .accusation eon as => app.deliverAccusation sender eon as
  | .apology eon as n e => app.deliverApology sender eon as n e
  | .none => (app, errResp)

def deliverTx (o : Order) (app : App) : Tx → App × Resp
  | .undecodable => (app, errResp)
  | .msg signer chainId nonce payload =>
    if chainId ≠ app.chainId then (app, errResp)
    else if app.nonces.contains (signer, nonce) then (app, errResp)
    else
      let app := { app with nonces := app.nonces ++ [(signer, nonce)] }
      app.deliverMessage o signer payload

/-! #### CheckTx -/

def maxTxsPerBlock : Nat := 10

/-- returns the new state and the response code (0 accepted, 1 refused) -/
def checkTxOp (app : App) : Tx → App × Nat
  | .undecodable => (app, 1)
  | .msg signer chainId nonce _ =>
    if chainId ≠ app.chainId then (app, 1)
    else if app.nonces.contains (signer, nonce) then (app, 1)
    else
      let s := app.checkTx
      if s.members.length > 0 && !s.members.contains signer then (app, 1)
      else if maxTxsPerBlock ≤ s.txCounts.getD signer 0 then (app, 1)
      else if s.nonces.contains (signer, nonce) then (app, 1)
      else
        ({ app with checkTx := { s with
              txCounts := s.txCounts.insert signer (s.txCounts.getD signer 0 + 1),
              nonces := s.nonces ++ [(signer, nonce)] } }, 0)

/-! #### range sites (explicit listings) -/

/-- `DiffPowermaps`, ranging over `oldL` (a listing of the old map) and `newL`. -/
def diffPowermapsOn (oldm newm : AMap PubKey Int) (oldL newL : List (PubKey × Int)) :
    AMap PubKey Int :=
  let res := oldL.foldl (fun (res : AMap PubKey Int) e =>
    if newm.contains e.1 then res else res.insert e.1 0) []
  newL.foldl (fun (res : AMap PubKey Int) e =>
    if oldm.getD e.1 0 ≠ e.2 then res.insert e.1 e.2 else res) res

/-- insertion sort by key: `SortValidators` on entries with distinct keys has one result -/
def insertSorted (e : PubKey × Int) : List (PubKey × Int) → List (PubKey × Int)
  | [] => [e]
  | x :: rest => if e.1 ≤ x.1 then e :: x :: rest else x :: insertSorted e rest

def sortByKey (l : List (PubKey × Int)) : List (PubKey × Int) := l.foldr insertSorted []

/-- `Powermap.ValidatorUpdates`, ranging over `listing`. -/
def validatorUpdatesOn (listing : List (PubKey × Int)) : List (PubKey × Int) := sortByKey listing

/-! #### EndBlock -/

def nonExistentValidator : PubKey :=
  -- bytes "novalidator" followed by 21 zero bytes, as a big-endian number
  0x6e6f76616c696461746f72 * 256 ^ 21

/-- `makePowermap` -/
def makePowermap (app : App) (keypers : List Addr) : AMap PubKey Int :=
  keypers.foldl (fun (pm : AMap PubKey Int) k =>
    match app.identities.get? k with
    | some pk => pm.insert pk (pm.getD pk 0 + 10)
    | none => pm.insert nonExistentValidator (pm.getD nonExistentValidator 0 + 10)) []

def countCheckedIn (app : App) (keypers : List Addr) : Nat :=
  (keypers.filter (fun k => app.identities.contains k)).length

/-- `numRequiredTransitionValidators` -/
def numRequiredTransitionValidators (c : BatchConfig) : Nat :=
  let n := c.keypers.length
  if n = 0 then 0
  else
    let defenders := n - (n + 2) / 3 + 1
    if defenders ≤ c.threshold then c.threshold else defenders

/-- number of keypers of `allowance` that reported a main-chain block at or past `c`'s activation -/
def seenVotes (app : App) (allowance c : BatchConfig) : Nat :=
  (allowance.keypers.filter (fun k =>
      match app.blocksSeen.get? k with
      | some b => decide (c.activation ≤ b)
      | none => false)).length

/-- one iteration of the loop in `EndBlock` for the config at position `i`;
    `configs` is the (already partly updated) list, as the Go loop mutates in place. -/
def endBlockStep (app : App) (configs : List BatchConfig) (i : Nat) (c : BatchConfig) :
    BatchConfig × List Event :=
  let allowance := configs.getD (i - 1) default
  let votes := app.seenVotes allowance c
  let (c, evs) :=
    if !c.started && decide (allowance.threshold ≤ votes) then
      ({ c with started := true }, [Event.batchConfigStarted c.index])
    else (c, [])
  let c :=
    if c.started && !c.validatorsUpdated
        && decide (numRequiredTransitionValidators c ≤ app.countCheckedIn c.keypers) then
      { c with validatorsUpdated := true }
    else c
  (c, evs)

/-- the whole loop; position `i` sees positions `< i` already updated -/
def endBlockLoop (app : App) : Nat → List BatchConfig → List BatchConfig → List Event →
    List BatchConfig × List Event
  | _, done, [], evs => (done, evs)
  | i, done, c :: rest, evs =>
    let (c', e) := endBlockStep app (done ++ c :: rest) i c
    endBlockLoop app (i + 1) (done ++ [c']) rest (evs ++ e)

def currentValidators (app : App) : AMap PubKey Int :=
  match app.configs.reverse.find? (fun c => c.started && c.validatorsUpdated) with
  | some c => app.makePowermap c.keypers
  | none => app.validators

structure EndResp where
  events : List Event
  updates : List (PubKey × Int)
deriving Repr, DecidableEq

def endBlock (o : Order) (app : App) (height : Int) : App × EndResp :=
  let (configs, events) := endBlockLoop app 0 [] app.configs []
  let app := { app with configs }
  let newValidators := app.currentValidators
  let updates := validatorUpdatesOn (o.power
    (diffPowermapsOn app.validators newValidators (o.power app.validators) (o.power newValidators)))
  let app := { app with validators := newValidators, lastBlockHeight := height }
  (app, { events, updates := if app.devMode then [] else updates })

def beginBlock (app : App) (height : Int) : List Event :=
  if height = 1 then [(app.configs.headD default).event] else []

def commit (app : App) : App :=
  { app with checkTx := { app.checkTx with txCounts := [], nonces := [] } }

/-- `MakePowermap` over the genesis validator list -/
def makeGenesisPowermap (vals : List (PubKey × Int)) : AMap PubKey Int :=
  vals.foldl (fun (pm : AMap PubKey Int) e => pm.insert e.1 (pm.getD e.1 0 + e.2)) []

/-- `NewShutterApp` followed by `InitChain` with a valid genesis -/
def init (chainId : String) (keypers : List Addr) (threshold initialEon : Nat)
    (fork : Fork) (devMode : Bool) (validators : List (PubKey × Int)) : App :=
  let bc : BatchConfig := { activation := 0, keypers, threshold, index := 0, started := false,
                            validatorsUpdated := false }
  { configs := [bc], dkgs := [], configVoting := Voting.empty, lastBlockHeight := 0,
    identities := [], blocksSeen := [], validators := makeGenesisPowermap validators,
    eonCounter := initialEon, devMode,
    checkTx := { members := keypers, txCounts := [], nonces := [] },
    nonces := [], chainId, fork := some fork }

end App

/-! ### operations, for histories -/

inductive Op where
  | begin (height : Int)
  | deliver (tx : Tx)
  | check (tx : Tx)
  | endBlock (height : Int)
  | commit
deriving Repr

inductive Out where
  | begin (events : List Event)
  | deliver (r : Resp)
  | check (code : Nat)
  | endBlock (r : App.EndResp)
  | commit
deriving Repr, DecidableEq

/-- one ABCI call, with the map iteration order `o` -/
def App.stepWith (o : Order) (app : App) : Op → App × Out
  | .begin h => (app, .begin (app.beginBlock h))
  | .deliver tx => let (a, r) := app.deliverTx o tx; (a, .deliver r)
  | .check tx => let (a, c) := app.checkTxOp tx; (a, .check c)
  | .endBlock h => let (a, r) := app.endBlock o h; (a, .endBlock r)
  | .commit => (app.commit, .commit)

/-- the executable step (canonical order) -/
def App.step (app : App) (op : Op) : App × Out := app.stepWith Order.canonical op

/-- run a history with a (possibly different) iteration order at every call, collecting outputs -/
def App.runWith (app : App) : List (Order × Op) → App × List Out
  | [] => (app, [])
  | (o, op) :: rest =>
    let (a, out) := app.stepWith o op
    let (a', outs) := a.runWith rest
    (a', out :: outs)

/-- run a history in the canonical order -/
def App.run (app : App) (ops : List Op) : App × List Out :=
  app.runWith (ops.map (fun op => (Order.canonical, op)))

end Shutter.App
