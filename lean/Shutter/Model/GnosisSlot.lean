/-
Model of the Gnosis keyper's slot handler and transaction pointer (C19), core-only.

Modelled code: keyperimpl/gnosis/newslot.go (`maybeTriggerDecryption`, `getTxPointer`, `triggerDecryption`,
`getDecryptionIdentityPreimages`, `makeSlotIdentityPreimage`, `sortIdentityPreimages`), handlers.go
(`DecryptionKeysHandler.HandleMessage`), messagingmiddleware.go (`advanceTxPointer`) and the SQL they use
(gnosiskeyper.sql: GetTransactionSubmittedEvents, GetTransactionSubmittedEventCount, GetTxPointer,
SetTxPointer, IncrementTxPointerAge, ResetAllTxPointerAges).

Database tables are lists of rows; nothing may depend on the position of a row (see `C19_row_order`).
Byte strings are lists of numbers.  Gas is unbounded here; the implementation adds `uint64`s (trusted base:
the gas limits of one window do not sum to 2^64).
-/
import Shutter.Model.AMap
import Shutter.Model.Sort

namespace Shutter.GnosisSlot
open Shutter.Sort


/-- a row of `transaction_submitted_event` (the columns the slot handler reads) -/
structure Tx where
  index : Int
  eon : Int
  pfx : Bytes
  sender : Bytes
  gas : Nat
deriving Repr, DecidableEq

/-- a row of `tx_pointer`; `age = none` is SQL NULL ("unknown since restart") -/
structure Ptr where
  value : Int
  age : Option Int
deriving Repr, DecidableEq

structure Cfg where
  gasLimit : Nat
  minGas : Nat
  maxAge : Int
deriving Repr

/-- `current_decryption_trigger`, with the identity list in place of its hash -/
structure Trig where
  slot : Int
  ptr : Int
  ids : List Bytes
deriving Repr, DecidableEq

structure State where
  queue : List Tx := []
  ptrs : AMap Int Ptr := []
  trig : AMap Int Trig := []
deriving Repr

/-! ### identities -/

/-- big-endian digits, most significant first, exactly `n` of them (higher digits dropped, as
    `BigToHash(...)[12:]` does for a `uint64`, where nothing is dropped) -/
def beBytes : Nat → Nat → Bytes
  | 0, _ => []
  | n + 1, v => beBytes n (v / 256) ++ [v % 256]

/-- `makeSlotIdentityPreimage`: 32 zero bytes, then the slot as 20 bytes big endian -/
def slotId (slot : Nat) : Bytes := List.replicate 32 0 ++ beBytes 20 slot

/-- `transactionSubmittedEventToIdentityPreimage` -/
def Tx.id (t : Tx) : Bytes := t.pfx ++ t.sender

/-! ### the queue window and the gas-bounded prefix -/

def txLe (a b : Tx) : Bool := decide (a.index ≤ b.index)

/-- `GetTransactionSubmittedEvents`:
    `WHERE eon = $1 AND index >= $2 AND index < $2 + $3 ORDER BY index ASC LIMIT $3` -/
def window (q : List Tx) (eon ptr : Int) (limit : Nat) : List Tx :=
  (isort txLe (q.filter (fun t => decide (t.eon = eon) && decide (ptr ≤ t.index) && decide (t.index < ptr + limit)))).take
    limit

/-- the loop of `getDecryptionIdentityPreimages`: `gas` is the running sum, `taken` the number of
    transactions already appended -/
def takeGas (gasLimit : Nat) : List Tx → Nat → Nat → List Tx
  | [], _, _ => []
  | t :: rest, gas, taken =>
    if gasLimit < gas + t.gas ∧ 0 < taken then []
    else t :: takeGas gasLimit rest (gas + t.gas) (taken + 1)

def rowLimit (cfg : Cfg) : Nat := cfg.gasLimit / cfg.minGas + 1

/-- the transactions chosen for a slot -/
def selected (cfg : Cfg) (q : List Tx) (eon ptr : Int) : List Tx :=
  takeGas cfg.gasLimit (window q eon ptr (rowLimit cfg)) 0 0

/-- `getDecryptionIdentityPreimages`; `none` is the "gas limit too big" error -/
def identities (cfg : Cfg) (q : List Tx) (eon ptr : Int) (slot : Nat) : Option (List Bytes) :=
  if 2147483647 < rowLimit cfg then none
  else some (sortIds (slotId slot :: (selected cfg q eon ptr).map Tx.id))

/-! ### the transaction pointer -/

/-- `GetTransactionSubmittedEventCount`: `coalesce(max(index) + 1, 0)` over the eon's rows -/
def eventCount (q : List Tx) (eon : Int) : Int :=
  (q.filter (fun t => decide (t.eon = eon))).foldl (fun acc t => if acc < t.index + 1 then t.index + 1 else acc) 0

/-- a stored pointer is outdated when its age is unknown or above the maximum -/
def outdated (cfg : Cfg) (p : Ptr) : Bool :=
  match p.age with
  | none => true
  | some a => decide (cfg.maxAge < a)

/-- `getTxPointer`: the pointer the next request starts at, and the pointer table afterwards -/
def getTxPointer (cfg : Cfg) (s : State) (eon : Int) : Int × State :=
  match s.ptrs.get? eon with
  | none => (0, { s with ptrs := s.ptrs.insert eon { value := 0, age := some 0 } })
  | some p => if outdated cfg p then (eventCount s.queue eon, s) else (p.value, s)

/-- `SetTxPointer(eon, age 0, p + k - 1)`: a keys message with `k` keys at pointer `p`, received
    (`DecryptionKeysHandler.HandleMessage`) or self-produced (`advanceTxPointer`) -/
def keysProcessed (s : State) (eon p : Int) (k : Nat) : State :=
  { s with ptrs := s.ptrs.insert eon { value := p + k - 1, age := some 0 } }

/-- `IncrementTxPointerAge`: NULL stays NULL, a missing row stays missing -/
def incAge (s : State) (eon : Int) : State :=
  match s.ptrs.get? eon with
  | none => s
  | some p => { s with ptrs := s.ptrs.insert eon { p with age := p.age.map (· + 1) } }

/-- `ResetAllTxPointerAges` (keyper start) -/
def resetAges (s : State) : State :=
  { s with ptrs := s.ptrs.map (fun e => (e.1, { e.2 with age := none })) }

/-- `triggerDecryption`: `eonE` is the keyper-config index of the eon found for the next block (pointer
    and recorded trigger), `eonK` that of the keyper set (queue rows).  Output: pointer and identities. -/
def trigger (cfg : Cfg) (s : State) (eonE eonK : Int) (slot : Nat) : Option (Int × List Bytes) × State :=
  let (ptr, s1) := getTxPointer cfg s eonE
  match identities cfg s1.queue eonK ptr slot with
  | none => (none, s1)
  | some ids => (some (ptr, ids), { s1 with trig := s1.trig.insert eonE { slot := slot, ptr := ptr, ids := ids } })

/-- the part of `maybeTriggerDecryption` after the membership and proposer checks -/
def slotTick (cfg : Cfg) (s : State) (eonE eonK : Int) (slot : Nat) : Option (Int × List Bytes) × State :=
  trigger cfg (incAge s eonK) eonE eonK slot

inductive Op where
  | submit (t : Tx)
  | tick (eonE eonK : Int) (slot : Nat)
  | keys (eon p : Int) (k : Nat)
  | restart
deriving Repr

/-- insertion by the sequencer syncer: `ON CONFLICT (index, eon) DO UPDATE` -/
def submit (s : State) (t : Tx) : State :=
  { s with queue := (s.queue.filter (fun u => !(decide (u.index = t.index) && decide (u.eon = t.eon)))) ++ [t] }

def step (cfg : Cfg) (s : State) : Op → State
  | .submit t => submit s t
  | .tick eE eK slot => (slotTick cfg s eE eK slot).2
  | .keys e p k => keysProcessed s e p k
  | .restart => resetAges s

def run (cfg : Cfg) (s : State) (ops : List Op) : State := ops.foldl (step cfg) s

end Shutter.GnosisSlot
