/-
Model of the places where gossip handlers index, slice or type-assert on message-derived data (C05),
core-only.  Every such operation is partial here: `Outcome.panic` is what an out-of-range index, a short
slice or a failed type assertion would be in Go.  The guards are written as in the code.

Modelled code, by guard:
 * index below a checked length — keyper/epochkghandler/keyshare.go `checkKeyShares`
   (`PublicKeyShares[KeyperIndex]`), keyperimpl/gnosis/handlers.go and keyperimpl/shutterservice/handlers.go
   `ValidateMessage` (`keyperSet.Keypers[KeyperIndex]`);
 * `i-1` under `i > 0` — the ordering loops of keyshare.go, key.go, gnosisaccessnode/decryptionkeyshandler.go,
   `validateSignerIndices`;
 * parallel lists of checked equal length — `ValidateDecryptionKeysSignatures` (`Signatures[i]`, `signers[i]`)
   and the `HandleMessage` loops over `SignerIndices` with `Signatures[i]` (reached only after validation);
 * fixed length checked before a constant index — keyperimpl/primev/handler.go `getBidderNodeAddress`
   (`signatureBytes[64]` after `len != 65` is refused);
 * first element under a non-empty test — p2pmsg/messages.go `DecryptionKeys.LogInfo`;
 * type assertion on the `Extra` oneof in `HandleMessage` — reached only after `ValidateMessage` checked the
   variant with a comma-ok assertion and a nil test.
-/
namespace Shutter.Panic

inductive Outcome where
  | accept | reject | panic
deriving Repr, DecidableEq

/-- `l[i]` -/
def idx {α : Type} (l : List α) (i : Nat) : Option α := l[i]?

/-- index below a checked length: `if i >= len(l) { reject }; use l[i]` -/
def guardedIndex {α : Type} (l : List α) (i : Nat) (use : α → Outcome) : Outcome :=
  if l.length ≤ i then .reject
  else
    match idx l i with
    | none => .panic
    | some x => use x

/-- the ordering loops: for every `i`, `if i > 0 && less(l[i], l[i-1]) { reject }` -/
def orderLoop {α : Type} (less : α → α → Bool) (l : List α) : Nat → Nat → Outcome
  | 0, _ => .accept
  | fuel + 1, i =>
    if l.length ≤ i then .accept
    else
      match idx l i with
      | none => .panic
      | some cur =>
        if 0 < i then
          match idx l (i - 1) with
          | none => .panic
          | some prev => if less cur prev then .reject else orderLoop less l fuel (i + 1)
        else orderLoop less l fuel (i + 1)

/-- parallel lists: `if len(sigs) != len(signers) { reject }; for i < len(sigs) { check(sigs[i], signers[i]) }` -/
def parallelLoop {α β : Type} (check : α → β → Bool) (sigs : List α) (signers : List β) : Nat → Nat → Outcome
  | 0, _ => .accept
  | fuel + 1, i =>
    if sigs.length ≤ i then .accept
    else
      match idx sigs i, idx signers i with
      | some s, some k => if check s k then parallelLoop check sigs signers fuel (i + 1) else .reject
      | _, _ => .panic

def validateParallel {α β : Type} (check : α → β → Bool) (sigs : List α) (signers : List β) : Outcome :=
  if sigs.length ≠ signers.length then .reject else parallelLoop check sigs signers sigs.length 0

/-- the handler's loop `for i, k := range signerIndices { store(k, signatures[i]) }` -/
def handleParallel {α β : Type} (signerIndices : List β) (signatures : List α) : Nat → Nat → Outcome
  | 0, _ => .accept
  | fuel + 1, i =>
    if signerIndices.length ≤ i then .accept
    else
      match idx signatures i with
      | none => .panic
      | some _ => handleParallel signerIndices signatures fuel (i + 1)

/-- fixed length before a constant index: `if len(sig) != 65 { reject }; v := sig[64]` -/
def fixedIndex (sig : List Nat) (use : Nat → Outcome) : Outcome :=
  if sig.length ≠ 65 then .reject
  else
    match idx sig 64 with
    | none => .panic
    | some v => use v

/-- `if len(keys) == 0 { "none" } else { keys[0] }` -/
def firstOrNone {α : Type} (l : List α) : Outcome :=
  if l.length = 0 then .accept
  else
    match idx l 0 with
    | none => .panic
    | some _ => .accept

/-- the `Extra` oneof of key-share and keys messages -/
inductive Extra (γ σ : Type) where
  | absent
  | gnosis (g : Option γ)      -- the variant may carry a nil pointer
  | service (s : Option σ)

/-- `extra, ok := m.Extra.(*Gnosis); if !ok { reject }; if extra.Gnosis == nil { reject }; …` -/
def validateGnosisExtra {γ σ : Type} (e : Extra γ σ) (rest : γ → Outcome) : Outcome :=
  match e with
  | .gnosis (some g) => rest g
  | _ => .reject

/-- `extra := m.Extra.(*Gnosis).Gnosis` followed by field access -/
def handleGnosisExtra {γ σ : Type} (e : Extra γ σ) (use : γ → Outcome) : Outcome :=
  match e with
  | .gnosis (some g) => use g
  | _ => .panic

/-- the receive path: the handler runs only on the message the validator accepted -/
def receive {μ : Type} (validate handle : μ → Outcome) (m : μ) : Outcome :=
  match validate m with
  | .accept => handle m
  | o => o

end Shutter.Panic
