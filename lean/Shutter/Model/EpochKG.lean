/-
Model of `keyper/epochkg` (C01): collecting epoch secret key shares and interpolating the epoch secret
key.  Core-only and generic in the arithmetic: `Ops F G` is the scalar field and the group the shares
live in (BLS12-381 G1 in the implementation).  The executable instance used by the driver is arithmetic
modulo the BLS scalar order on discrete logarithms; the theorems (`Proofs/EpochKG.lean`) are for every
field and every module over it.
-/
namespace Shutter.EpochKG

structure Ops (F G : Type) where
  ofNat : Nat → F
  one : F
  mul : F → F → F
  sub : F → F → F
  inv : F → F
  gzero : G
  gadd : G → G → G
  smul : F → G → G

variable {F G : Type}

/-- `shcrypto.KeyperX`: the evaluation point of keyper `i` -/
def keyperX (o : Ops F G) (i : Nat) : F := o.ofNat (i + 1)

/-- `lagrangeCoefficient(j, senders)`: the product over the other senders `k` of `x_k / (x_k - x_j)` -/
def lagrange (o : Ops F G) (senders : List Nat) (j : Nat) : F :=
  senders.foldl (fun acc k =>
    if k = j then acc
    else o.mul acc (o.mul (keyperX o k) (o.inv (o.sub (keyperX o k) (keyperX o j))))) o.one

/-- `ComputeEpochSecretKey`: the Lagrange combination of the shares, in list order -/
def combine (o : Ops F G) (shares : List (Nat × G)) : G :=
  shares.foldl (fun acc e => o.gadd acc (o.smul (lagrange o (shares.map (·.1)) e.1) e.2)) o.gzero

/-- per-identity state of an `EpochKG` -/
structure St (G : Type) where
  shares : List (Nat × G)      -- `SecretShares[identity]`
  key : Option G               -- `SecretKeys[identity]`

def St.empty : St G := { shares := [], key := none }

inductive Outcome where
  | ok        -- nil error
  | err       -- an error is returned, nothing changes
  | panic     -- index out of range on PublicKeyShares[sender]
deriving DecidableEq, Repr

/-- `HandleEpochSecretKeyShare` for one identity.  `verify sender share` is the pairing check against
    the sender's public key share. -/
def handle (o : Ops F G) (verify : Nat → G → Bool) (n t : Nat) (st : St G) (sender : Nat) (share : G) :
    Outcome × St G :=
  if st.key.isSome then (.ok, st)
  else if ¬ sender < n then (.panic, st)
  else if !verify sender share then (.err, st)
  else if st.shares.any (fun e => e.1 = sender) then (.err, st)
  else
    let shares := st.shares ++ [(sender, share)]
    if shares.length ≠ t then (.ok, { st with shares := shares })
    else (.ok, { shares := [], key := some (combine o shares) })

/-- feed a sequence of (sender, share) pairs, as `aggregateDecryptionKeySharesFromDB` does with the rows
    of the table (errors are logged and skipped) -/
def run (o : Ops F G) (verify : Nat → G → Bool) (n t : Nat) (st : St G) : List (Nat × G) → St G
  | [] => st
  | (s, sh) :: rest => run o verify n t (handle o verify n t st s sh).2 rest

end Shutter.EpochKG
