/-
Model of one keyper's key-share and key tables under gossip delivery (C03), core-only and generic in the
arithmetic (`EpochKG.Ops`).

Modelled code: keyper/epochkghandler/keyshare.go (`DecryptionKeyShareHandler.HandleMessage`,
`aggregateDecryptionKeySharesFromDB`), key.go (`DecryptionKeyHandler.HandleMessage`), sendkeyshare.go
(`ConstructDecryptionKeyShares`: the keyper's own shares are stored when it is triggered), and the queries
InsertDecryptionKeyShare / InsertDecryptionKey (ON CONFLICT DO NOTHING), SelectDecryptionKeyShares,
ExistsDecryptionKey.  Validation is C04's; here only accepted messages arrive.
-/
import Shutter.Model.EpochKG
import Shutter.Model.Sort

namespace Shutter.Net
open Shutter.Sort Shutter.EpochKG

variable {F G : Type}

/-- a row of `decryption_key_share` -/
structure Row (G : Type) where
  id : Bytes
  sender : Nat
  share : G

structure Node (G : Type) where
  rows : List (Row G) := []
  keys : List (Bytes × G) := []

/-- a key-shares message: the sender's index and one share per identity -/
structure ShareMsg (G : Type) where
  sender : Nat
  shares : List (Bytes × G)

def hasRow (rows : List (Row G)) (id : Bytes) (s : Nat) : Bool :=
  rows.any (fun r => decide (r.id = id) && decide (r.sender = s))

/-- `InsertDecryptionKeySharesMsg`: one row per share, ON CONFLICT DO NOTHING -/
def insertShares (rows : List (Row G)) (sender : Nat) : List (Bytes × G) → List (Row G)
  | [] => rows
  | e :: rest =>
    insertShares (if hasRow rows e.1 sender then rows else rows ++ [{ id := e.1, sender := sender, share := e.2 }]) sender rest

/-- `SelectDecryptionKeyShares` for one identity, as (sender, share) pairs in table order -/
def rowsOf (rows : List (Row G)) (id : Bytes) : List (Nat × G) :=
  (rows.filter (fun r => decide (r.id = id))).map (fun r => (r.sender, r.share))

/-- `aggregateDecryptionKeySharesFromDB` followed by the lookup of the key -/
def aggregate (o : Ops F G) (verify : Bytes → Nat → G → Bool) (n t : Nat) (rows : List (Row G)) (id : Bytes) : Option G :=
  (run o (verify id) n t St.empty (rowsOf rows id)).key

def hasKey (keys : List (Bytes × G)) (id : Bytes) : Bool := keys.any (fun k => decide (k.1 = id))

/-- `InsertDecryptionKeysMsg`: ON CONFLICT DO NOTHING -/
def insertKeys (keys : List (Bytes × G)) : List (Bytes × G) → List (Bytes × G)
  | [] => keys
  | k :: rest => insertKeys (if hasKey keys k.1 then keys else keys ++ [k]) rest

/-- all identities of the message aggregate to a key, or none -/
def aggregateAll (o : Ops F G) (verify : Bytes → Nat → G → Bool) (n t : Nat) (rows : List (Row G)) :
    List (Bytes × G) → Option (List (Bytes × G))
  | [] => some []
  | e :: rest =>
    match aggregate o verify n t rows e.1 with
    | none => none
    | some k =>
      match aggregateAll o verify n t rows rest with
      | none => none
      | some ks => some ((e.1, k) :: ks)

/-- `DecryptionKeyShareHandler.HandleMessage`: new state and the keys message it emits, if any -/
def handleShares (o : Ops F G) (verify : Bytes → Nat → G → Bool) (n t : Nat) (nd : Node G) (m : ShareMsg G) :
    Node G × Option (List (Bytes × G)) :=
  let rows := insertShares nd.rows m.sender m.shares
  if m.shares.all (fun e => hasKey nd.keys e.1) then ({ nd with rows := rows }, none)
  else
    match aggregateAll o verify n t rows m.shares with
    | none => ({ nd with rows := rows }, none)
    | some ks => ({ rows := rows, keys := insertKeys nd.keys ks }, some ks)

/-- `DecryptionKeyHandler.HandleMessage` -/
def handleKeys (nd : Node G) (ks : List (Bytes × G)) : Node G := { nd with keys := insertKeys nd.keys ks }

/-- the keyper is triggered itself: its own shares are stored (no aggregation happens at that moment) -/
def triggerOwn (nd : Node G) (m : ShareMsg G) : Node G := { nd with rows := insertShares nd.rows m.sender m.shares }

inductive Ev (G : Type) where
  | shares (m : ShareMsg G)
  | keys (ks : List (Bytes × G))
  | own (m : ShareMsg G)

def step (o : Ops F G) (verify : Bytes → Nat → G → Bool) (n t : Nat) (nd : Node G) : Ev G → Node G
  | .shares m => (handleShares o verify n t nd m).1
  | .keys ks => handleKeys nd ks
  | .own m => triggerOwn nd m

def runNode (o : Ops F G) (verify : Bytes → Nat → G → Bool) (n t : Nat) (nd : Node G) (evs : List (Ev G)) : Node G :=
  evs.foldl (step o verify n t) nd

end Shutter.Net
