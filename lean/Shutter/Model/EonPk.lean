/-
Model of `keyper/eonpkhandler.go` `queryAndHandleNewEonPubKeys` (C20), core-only.

`GetAndDeleteEonPublicKeys` deletes every row of `outgoing_eon_keys` and returns those that join with
`eons` and `tendermint_batch_config`, in no particular order; the loop then hands each returned key to
the publication mechanism (gossip broadcast, else the callback).  After the `fix:` commit the loop goes
on after a key has been handed over successfully.
-/
namespace Shutter.EonPk

abbrev Addr := Nat

/-- a row returned by the query: the pending key joined with its eon and keyper set -/
structure Row where
  eon : Int
  publicKey : Nat          -- identifier of the key bytes
  activation : Int
  keypers : List Addr
  configIndex : Int        -- int32 column
deriving Repr, DecidableEq

/-- what is handed to publication -/
structure Handed where
  publicKey : Nat
  activation : Nat
  configIndex : Nat
  eon : Nat
deriving Repr, DecidableEq

inductive Mode where
  | broadcast | callback | neither
deriving Repr, DecidableEq

/-- the loop body outcome for one row: hand it over, or stop with an error -/
def handOf (me : Addr) (r : Row) : Option Handed :=
  if !r.keypers.contains me then none
  else if r.activation < 0 then none
  else if r.configIndex < 0 then none
  else if r.eon < 0 then none
  else some { publicKey := r.publicKey, activation := r.activation.toNat,
              configIndex := r.configIndex.toNat, eon := r.eon.toNat }

/-- the loop over the returned rows, in the order given; `accepts` is the publication mechanism's
    answer (nil error); returns what was handed over (in order) and whether an error ended the loop -/
def loop (me : Addr) (mode : Mode) (accepts : Handed → Bool) : List Row → List Handed × Bool
  | [] => ([], false)
  | r :: rest =>
    match handOf me r with
    | none => ([], true)
    | some h =>
      match mode with
      | .neither => loop me mode accepts rest
      | _ =>
        if accepts h then
          let (hs, e) := loop me mode accepts rest
          (h :: hs, e)
        else ([h], true)      -- handed, refused: the loop returns the error

/-- one polling tick: everything pending is deleted; `joined` are the rows the query returns (the
    pending keys whose eon and keyper set are known), in any order -/
def tick (me : Addr) (mode : Mode) (accepts : Handed → Bool) (joined : List Row) : List Handed × Bool :=
  loop me mode accepts joined

end Shutter.EonPk
