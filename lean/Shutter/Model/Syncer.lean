/-
Model of the contract-event syncers (C15), core-only.

Modelled code: keyperimpl/shutterservice/registrysyncer.go and keyperimpl/gnosis/sequencersyncer.go (`Sync`,
`handlePotentialReorg`, `getNumReorgedBlocks`, `resetSyncStatus`, `syncRange`), keyperimpl/shutterservice/
multieventsyncer.go (`Sync`, `handlePotentialReorg`, `calculateReorgDepth`, `rollback`, `syncRange`) with the
registration processor, and the insert / delete-from-block / position queries.  The three have the same shape;
they differ in the first block (`SyncStartBlockNumber` or one after it) and in whether the depth is a constant.

A canonical chain is a function from block number to block; a block is its hash, its parent's hash and its
admissible events (key, payload).  Hash 0 stands for the empty hash a reorg reset writes.
-/
namespace Shutter.Syncer

structure Blk where
  hash : Nat
  parent : Nat
  evs : List (Nat × Nat)
deriving Repr

abbrev Chain := Nat → Blk

structure Row where
  key : Nat
  block : Nat
  payload : Nat
deriving Repr, DecidableEq

structure St where
  pos : Option (Nat × Nat) := none
  rows : List Row := []
deriving Repr

structure P where
  /-- assumed reorg depth -/
  depth : Nat
  /-- first block that is synced -/
  first : Nat
deriving Repr

/-- the insert statements: `ON CONFLICT (key) DO UPDATE` -/
def upsert (rows : List Row) (r : Row) : List Row :=
  if rows.any (fun x => x.key = r.key) then rows.map (fun x => if x.key = r.key then r else x) else rows ++ [r]

def evRows (c : Chain) (b : Nat) : List Row := (c b).evs.map (fun e => { key := e.1, block := b, payload := e.2 })

/-- the events of `k` consecutive blocks from `a`, inserted in chain order -/
def syncN (c : Chain) (rows : List Row) (a : Nat) : Nat → List Row
  | 0 => rows
  | k + 1 => syncN c ((evRows c a).foldl upsert rows) (a + 1) k

/-- `getNumReorgedBlocks` / `calculateReorgDepth`: `min depth position` -/
def reorgDepth (p : P) (n : Nat) : Nat := if n < p.depth then n else p.depth

/-- `deleteFromInclusive`: the first block whose rows are deleted, never below the first synced block -/
def keepBelow (p : P) (n : Nat) : Nat :=
  if n + 1 - reorgDepth p n < p.first then p.first else n + 1 - reorgDepth p n

/-- a reorg is seen when the new head is one past the position and its parent is not the stored hash -/
def detects (p : P) (n h m parent : Nat) : Bool :=
  decide (m = n + 1) && decide (parent ≠ h) && decide (0 < reorgDepth p n)

/-- `handlePotentialReorg`, `resetSyncStatus` / `rollback`: the rows from `keepBelow` on are deleted and the
    position is set to the block before it, with the empty hash -/
def reorgReset (p : P) (st : St) (m parent : Nat) : St :=
  match st.pos with
  | none => st
  | some (n, h) =>
    if detects p n h m parent then
      { pos := some (keepBelow p n - 1, 0), rows := st.rows.filter (fun r => decide (r.block < keepBelow p n)) }
    else st

/-- where syncing resumes -/
def resume (p : P) (st : St) : Nat :=
  match st.pos with
  | none => p.first
  | some (n, _) => n + 1

/-- `Sync` with head `c m`, getting as far as block `upTo ≤ m` (a failure of an RPC call or of a transaction
    ends the call after a whole number of ranges; `upTo` below the resume point means nothing was stored) -/
def sync (p : P) (st : St) (c : Chain) (m upTo : Nat) : St :=
  let st1 := reorgReset p st m (c m).parent
  let a := resume p st1
  if upTo < a then st1
  else { pos := some (upTo, (c upTo).hash), rows := syncN c st1.rows a (upTo + 1 - a) }

/-- how a `Sync` call ends: the reset transaction itself failed (nothing changed), or the call got as far as
    `upTo` (`sync`; `upTo` below the resume point: the reset, if any, is all that was stored) -/
inductive Ending where
  | resetFailed
  | reached (upTo : Nat)

def syncEnding (p : P) (st : St) (c : Chain) (m : Nat) : Ending → St
  | .resetFailed => st
  | .reached upTo => sync p st c m upTo

/-- what a keyper that has synced chain `c` from the first block up to `n` holds -/
def expected (p : P) (c : Chain) (n : Nat) : List Row := syncN c [] p.first (n + 1 - p.first)

end Shutter.Syncer
