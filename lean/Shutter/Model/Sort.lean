/-
Sorting and the byte order used by several models (core-only).
-/
namespace Shutter.Sort

abbrev Bytes := List Nat

/-! ### sorting (insertion sort: structural, so that closed instances evaluate by `decide`) -/

def insertBy {α : Type} (le : α → α → Bool) (a : α) : List α → List α
  | [] => [a]
  | b :: rest => if le a b then a :: b :: rest else b :: insertBy le a rest

def isort {α : Type} (le : α → α → Bool) : List α → List α
  | [] => []
  | a :: rest => insertBy le a (isort le rest)

/-- `bytes.Compare a b <= 0` -/
def bytesLe : Bytes → Bytes → Bool
  | [], _ => true
  | _ :: _, [] => false
  | a :: as, b :: bs => if a < b then true else if b < a then false else bytesLe as bs

def sortIds (l : List Bytes) : List Bytes := isort bytesLe l

end Shutter.Sort
