/-
Model of the outcome of a distributed key generation as one keyper computes it (C07), core-only.

Modelled code: the use the repo makes of shlib/puredkg (github.com/shutter-network/shutter/shlib/puredkg:
`isCorrupt`, `polyEval`, `ComputeResult`) at keyper/smobserver/smstate.go `finalizeDKG`, on the state that
`HandleEvent` / `shiftPhases` (smstate.go, keyper/dkgphase/phase.go) have fed with the shuttermint events of the
eon (commitments, evaluations, accusations, apologies, each only in its phase).

The decision layer is boolean: which dealers have a stored commitment, which accusations and apologies are
stored and whether an apology's revealed value verifies against the accused's commitment, and whether the
value this keyper uses for a dealer (the evaluation it received, or the apology addressed to it) is present and
verifies.  The arithmetic layer (Properties/C07.lean) interprets commitments as polynomials.
-/
namespace Shutter.Dkg

structure View where
  n : Nat
  t : Nat
  me : Nat
  /-- per dealer: a commitment is stored (`Commitments[dealer] != nil`; only right-degree ones are stored) -/
  committed : List Bool
  /-- stored accusations (accuser, accused) -/
  accusations : List (Nat × Nat)
  /-- stored apologies ((accuser, accused), revealed value verifies against the accused's commitment) -/
  apologies : List ((Nat × Nat) × Bool)
  /-- per dealer: the value this keyper uses for them is present and verifies against their commitment -/
  evalOK : List Bool
deriving Repr

/-- `isCorrupt`: no commitment, an apology that does not verify, or an accusation without apology -/
def isCorrupt (v : View) (dealer : Nat) : Bool :=
  !(v.committed.getD dealer false) ||
  v.apologies.any (fun a => decide (a.1.2 = dealer) && !a.2) ||
  v.accusations.any (fun k => decide (k.2 = dealer) && !v.apologies.any (fun a => decide (a.1 = k)))

/-- the dealers that are not corrupt, in index order -/
def participants (v : View) : List Nat := (List.range v.n).filter (fun d => !isCorrupt v d)

inductive Outcome where
  /-- success, with the dealers whose polynomials make up the key -/
  | ok (participants : List Nat)
  /-- "corrupt keyper d not considered corrupt": a dealer everybody else counts in gave this keyper no valid value -/
  | abort (dealer : Nat)
  /-- "only k keypers participated, but threshold is t" -/
  | tooFew (k : Nat)
deriving Repr, DecidableEq

/-- `ComputeResult` -/
def result (v : View) : Outcome :=
  match (participants v).find? (fun d => !(v.evalOK.getD d false)) with
  | some d => .abort d
  | none => if (participants v).length < v.t then .tooFew (participants v).length else .ok (participants v)

end Shutter.Dkg
