/-
Model of `ValidateDecryptionKeysSignatures` (gnosis and shutter-service flavours) — C06.  Core-only.

The signature scheme is abstract: `recover data sig` is the address ECDSA public-key recovery yields
for `sig` over the hash-tree-root of `data`, or `none` when recovery fails.  The hash is modelled as
injective (the signed data itself stands for its digest).
-/
namespace Shutter.Signers

abbrev Addr := Nat
abbrev Ident := List Nat

/-- the data a Gnosis keyper signs -/
structure SlotData where
  instanceId : Nat
  eon : Nat
  slot : Nat
  txPointer : Nat
  identities : List Ident
deriving DecidableEq, Repr

/-- the data a shutter-service keyper signs -/
structure ServiceData where
  instanceId : Nat
  eon : Nat
  identities : List Ident
deriving DecidableEq, Repr

structure KeyperSet where
  keypers : List Addr
  threshold : Nat
deriving Repr

inductive Verdict where
  | accept | reject
deriving DecidableEq, Repr

/-- `validateSignerIndices`: strictly increasing and inside the set -/
def validIndices (n : Nat) : List Nat → Option Nat → Bool
  | [], _ => true
  | i :: rest, prev =>
    (match prev with
     | some p => decide (p < i)
     | none => true) && decide (i < n) && validIndices n rest (some i)

/-- the verification loop: signature `k` must recover to signer `k`; computing the hash tree root
    fails (and rejects) when an identity preimage does not have the fixed SSZ size -/
def checkAll {D S : Type} (recover : D → S → Option Addr) (hashable : Bool) (d : D) : List S → List Addr → Bool
  | [], _ => true
  | _ :: _, [] => false      -- unreachable after the length check (would be an index panic)
  | s :: ss, a :: as => hashable && decide (recover d s = some a) && checkAll recover hashable d ss as

def gnosisIdentSize : Nat := 52
def serviceIdentSize : Nat := 32

def maxIdentities : Nat := 1024

/-- gnosis `ValidateDecryptionKeysSignatures` (after the `fix:` requiring one signature per signer) -/
def validateGnosis {S : Type} (recover : SlotData → S → Option Addr) (ks : KeyperSet) (d : SlotData)
    (signers : List Nat) (sigs : List S) : Verdict :=
  if signers.length ≠ ks.threshold then .reject
  else if sigs.length ≠ signers.length then .reject
  else if !validIndices ks.keypers.length signers none then .reject
  else
    match signers.mapM (fun i => ks.keypers[i]?) with
    | none => .reject
    | some addrs =>
      if maxIdentities < d.identities.length then .reject
      else if checkAll recover (d.identities.all (fun i => i.length = gnosisIdentSize)) d sigs addrs then .accept
      else .reject

/-- shutter-service `ValidateDecryptionKeysSignatures` (after the `fix:`): a message with neither
    signers nor signatures is admitted -/
def validateService {S : Type} (recover : ServiceData → S → Option Addr) (ks : KeyperSet) (d : ServiceData)
    (signers : List Nat) (sigs : List S) : Verdict :=
  if signers.length = 0 ∧ sigs.length = 0 then .accept
  else if signers.length ≠ ks.threshold then .reject
  else if sigs.length ≠ signers.length then .reject
  else if !validIndices ks.keypers.length signers none then .reject
  else
    match signers.mapM (fun i => ks.keypers[i]?) with
    | none => .reject
    | some addrs =>
      if maxIdentities < d.identities.length then .reject
      else if checkAll recover (d.identities.all (fun i => i.length = serviceIdentSize)) d sigs addrs then .accept
      else .reject

end Shutter.Signers
