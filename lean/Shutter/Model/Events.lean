/-
Model of `keyper/shutterevents` (C14): how shuttermint writes event attributes and how the keyper
reads them back.  Core-only.

Concrete in this model (the repo's own logic and the documented behaviour of the small library
functions it relies on): decimal `uint64` (`strconv.FormatUint/ParseUint` base 10), `0x`-hex byte
strings (`hexutil.Encode/Decode`), comma-joined lists with the empty-string ⇄ empty-list rule,
`common.IsHexAddress`, attribute positions and names, per-event field order.

Oracles (library behaviour the model takes as given, supplied by the driver with each value):
the EIP-55 checksum casing of an address (`Address.Hex`, needs keccak), validity of a secp256k1
public key and of BLS G2 points.  An address is its 20 bytes as a number; a public key / a gamma
vector is the byte string of its canonical encoding.
-/
namespace Shutter.Events

/-- all-or-nothing map (every decoder below fails as a whole if one element fails) -/
def mapOpt {α β : Type} (f : α → Option β) : List α → Option (List β)
  | [] => some []
  | a :: as =>
    match f a, mapOpt f as with
    | some b, some bs => some (b :: bs)
    | _, _ => none

/-! ### characters and digits -/

def digitChar (d : Nat) : Char := Char.ofNat (48 + d)

def digitVal? (c : Char) : Option Nat :=
  if 48 ≤ c.toNat ∧ c.toNat ≤ 57 then some (c.toNat - 48) else none

/-- little-endian decimal digits of `n` (`fuel > n` suffices) -/
def digitsLE : Nat → Nat → List Nat
  | 0, _ => []
  | fuel + 1, n => if n < 10 then [n] else (n % 10) :: digitsLE fuel (n / 10)

def ofDigitsLE : List Nat → Nat
  | [] => 0
  | d :: ds => d + 10 * ofDigitsLE ds

/-- `strconv.FormatUint(n, 10)` -/
def encodeUint (n : Nat) : List Char := ((digitsLE (n + 1) n).reverse).map digitChar

/-- value of a big-endian digit list -/
def ofDigitsBE (ds : List Nat) : Nat := ds.foldl (fun acc d => acc * 10 + d) 0

/-- `strconv.ParseUint(s, 10, 64)`: digits only (no sign, no underscore), at least one, leading
    zeros allowed, value below 2^64 -/
def decodeUint (s : List Char) : Option Nat :=
  if s.isEmpty then none
  else
    match mapOpt digitVal? s with
    | none => none
    | some ds => let v := ofDigitsBE ds; if v < 2 ^ 64 then some v else none

/-! ### hex -/

def hexChar (d : Nat) : Char := if d < 10 then Char.ofNat (48 + d) else Char.ofNat (87 + d)

def hexVal? (c : Char) : Option Nat :=
  let n := c.toNat
  if 48 ≤ n ∧ n ≤ 57 then some (n - 48)
  else if 97 ≤ n ∧ n ≤ 102 then some (n - 87)
  else if 65 ≤ n ∧ n ≤ 70 then some (n - 55)
  else none

abbrev Bytes := List Nat    -- each < 256

def encodeHexBytes : Bytes → List Char
  | [] => []
  | b :: rest => hexChar (b / 16) :: hexChar (b % 16) :: encodeHexBytes rest

/-- `hex.DecodeString`: even length, every character a hex digit of either case -/
def decodeHexBytes : List Char → Option Bytes
  | [] => some []
  | [_] => none
  | a :: b :: rest =>
    match hexVal? a, hexVal? b, decodeHexBytes rest with
    | some x, some y, some bs => some ((x * 16 + y) :: bs)
    | _, _, _ => none

/-- `hexutil.Encode` -/
def encode0x (b : Bytes) : List Char := '0' :: 'x' :: encodeHexBytes b

/-- `hexutil.Decode`: non-empty, `0x` prefix (lower-case x or upper-case X), then even-length hex -/
def decode0x : List Char → Option Bytes
  | '0' :: 'x' :: rest => decodeHexBytes rest
  | '0' :: 'X' :: rest => decodeHexBytes rest
  | _ => none

/-! ### comma separated lists -/

/-- `strings.Split(s, ",")` for a non-empty separator: always at least one field -/
def splitComma : List Char → List (List Char)
  | [] => [[]]
  | c :: rest =>
    if c = ',' then [] :: splitComma rest
    else
      match splitComma rest with
      | [] => [[c]]
      | f :: fs => (c :: f) :: fs

/-- `strings.Join(xs, ",")` -/
def joinComma : List (List Char) → List Char
  | [] => []
  | [x] => x
  | x :: y :: rest => x ++ ',' :: joinComma (y :: rest)

/-- the list decoders of marshal.go: empty string is the empty list, otherwise split and decode all -/
def decodeList {α : Type} (dec : List Char → Option α) (s : List Char) : Option (List α) :=
  if s.isEmpty then some [] else mapOpt dec (splitComma s)

def encodeList {α : Type} (enc : α → List Char) (xs : List α) : List Char := joinComma (xs.map enc)

def encodeByteSeq (v : List Bytes) : List Char := encodeList encode0x v
def decodeByteSeq (s : List Char) : Option (List Bytes) := decodeList decode0x s

/-! ### addresses -/

/-- oracle: `Address.Hex()` — the EIP-55 mixed-case text of an address (20 bytes) -/
structure AddrOracle where
  hex : Bytes → List Char

def toLowerChar (c : Char) : Char := if 65 ≤ c.toNat ∧ c.toNat ≤ 90 then Char.ofNat (c.toNat + 32) else c

/-- drop an optional `0x` / `0X` prefix -/
def strip0x : List Char → List Char
  | '0' :: 'x' :: rest => rest
  | '0' :: 'X' :: rest => rest
  | other => other

/-- `common.IsHexAddress`: optional 0x/0X prefix, exactly 40 hex digits of any case -/
def parseHexAddress (s : List Char) : Option Bytes :=
  if (strip0x s).length = 40 then decodeHexBytes (strip0x s) else none

/-- `decodeAddress`: `HexToAddress(s).Hex() == s`.  `HexToAddress` never fails (it ignores what it
    cannot parse), so the only way to be accepted is to be exactly the checksummed text of the
    address the lenient parser finds — which forces the form `0x` + 40 hex digits. -/
def decodeAddress (o : AddrOracle) (s : List Char) : Option Bytes :=
  match parseHexAddress s with
  | some a => if o.hex a = s then some a else none
  | none => none

def encodeAddresses (o : AddrOracle) (as : List Bytes) : List Char := encodeList o.hex as
def decodeAddresses (s : List Char) : Option (List Bytes) := decodeList parseHexAddress s

/-! ### events -/

structure Attr where
  key : String
  value : List Char
deriving Repr, DecidableEq

structure RawEvent where
  type : String
  attrs : List Attr
deriving Repr, DecidableEq

/-- oracles for opaque values: text form ⇄ canonical bytes, as a partial inverse pair -/
structure BlobOracle where
  encPubkey : Bytes → List Char          -- base64 raw-url of the uncompressed key
  decPubkey : List Char → Option Bytes
  encGammas : Bytes → List Char          -- hex of the marshalled G2 points
  decGammas : List Char → Option Bytes

structure Oracles extends AddrOracle, BlobOracle

inductive Ev where
  | checkIn (sender : Bytes) (encKey : Bytes)
  | batchConfig (activation : Nat) (keypers : List Bytes) (threshold index : Nat)
  | batchConfigStarted (index : Nat)
  | eonStarted (eon activation index : Nat)
  | polyCommitment (sender : Bytes) (eon : Nat) (gammas : Bytes)
  | polyEval (sender : Bytes) (eon : Nat) (receivers : List Bytes) (evals : List Bytes)
  | accusation (sender : Bytes) (eon : Nat) (accused : List Bytes)
  | apology (sender : Bytes) (eon : Nat) (accusers : List Bytes) (polyEvals : List Bytes)
deriving Repr, DecidableEq

def tCheckIn := "shutter.check-in"
def tBatchConfig := "shutter.batch-config"
def tBatchConfigStarted := "shutter.batch-config-started"
def tEonStarted := "shutter.eon-started"
def tPolyCommitment := "shutter.poly-commitment-registered"
def tPolyEval := "shutter.poly-eval-registered"
def tAccusation := "shutter.accusation-registered"
def tApology := "shutter.apology-registered"

/-- `MakeABCIEvent` -/
def makeABCI (o : Oracles) : Ev → RawEvent
  | .checkIn s k => ⟨tCheckIn, [⟨"Sender", o.hex s⟩, ⟨"EncryptionPublicKey", o.encPubkey k⟩]⟩
  | .batchConfig a ks t i => ⟨tBatchConfig,
      [⟨"ActivationBlockNumber", encodeUint a⟩, ⟨"Threshold", encodeUint t⟩,
       ⟨"Keypers", encodeAddresses o.toAddrOracle ks⟩, ⟨"ConfigIndex", encodeUint i⟩]⟩
  | .batchConfigStarted i => ⟨tBatchConfigStarted, [⟨"ConfigIndex", encodeUint i⟩]⟩
  | .eonStarted e a i => ⟨tEonStarted,
      [⟨"Eon", encodeUint e⟩, ⟨"ActivationBlockNumber", encodeUint a⟩, ⟨"KeyperConfigIndex", encodeUint i⟩]⟩
  | .polyCommitment s e g => ⟨tPolyCommitment,
      [⟨"Sender", o.hex s⟩, ⟨"Eon", encodeUint e⟩, ⟨"Gammas", o.encGammas g⟩]⟩
  | .polyEval s e rs evs => ⟨tPolyEval,
      [⟨"Sender", o.hex s⟩, ⟨"Eon", encodeUint e⟩, ⟨"Receivers", encodeAddresses o.toAddrOracle rs⟩,
       ⟨"EncryptedEvals", encodeByteSeq evs⟩]⟩
  | .accusation s e as => ⟨tAccusation,
      [⟨"Sender", o.hex s⟩, ⟨"Eon", encodeUint e⟩, ⟨"Accused", encodeAddresses o.toAddrOracle as⟩]⟩
  | .apology s e as ps => ⟨tApology,
      [⟨"Sender", o.hex s⟩, ⟨"Eon", encodeUint e⟩, ⟨"Accusers", encodeAddresses o.toAddrOracle as⟩,
       ⟨"PolyEvals", encodeByteSeq ps⟩]⟩

/-- `expectAttributes`: at least as many attributes as names, names match by position; yields the
    values at those positions (every later index expression is then in range) -/
def expectAttributes : List Attr → List String → Option (List (List Char))
  | _, [] => some []
  | [], _ :: _ => none
  | a :: as, n :: ns =>
    if a.key = n then
      match expectAttributes as ns with
      | some vs => some (a.value :: vs)
      | none => none
    else none

/-- `big.Int.SetBytes(b).Bytes()`: strip leading zero bytes -/
def normBig : Bytes → Bytes
  | 0 :: rest => normBig rest
  | b => b

/-- `MakeEvent`; `none` is the error return -/
def makeEvent (o : Oracles) (ev : RawEvent) : Option Ev :=
  if ev.type = tCheckIn then
    match expectAttributes ev.attrs ["Sender", "EncryptionPublicKey"] with
    | some [s, k] => do
        let s ← decodeAddress o.toAddrOracle s
        let k ← o.decPubkey k
        pure (.checkIn s k)
    | _ => none
  else if ev.type = tBatchConfig then
    match expectAttributes ev.attrs ["ActivationBlockNumber", "Threshold", "Keypers", "ConfigIndex"] with
    | some [a, t, ks, i] => do
        let a ← decodeUint a
        let t ← decodeUint t
        let ks ← decodeAddresses ks
        let i ← decodeUint i
        pure (.batchConfig a ks t i)
    | _ => none
  else if ev.type = tBatchConfigStarted then
    match expectAttributes ev.attrs ["ConfigIndex"] with
    | some [i] => do pure (.batchConfigStarted (← decodeUint i))
    | _ => none
  else if ev.type = tEonStarted then
    match expectAttributes ev.attrs ["Eon", "ActivationBlockNumber", "KeyperConfigIndex"] with
    | some [e, a, i] => do
        let e ← decodeUint e
        let a ← decodeUint a
        let i ← decodeUint i
        pure (.eonStarted e a i)
    | _ => none
  else if ev.type = tPolyCommitment then
    match expectAttributes ev.attrs ["Sender", "Eon", "Gammas"] with
    | some [s, e, g] => do
        let s ← decodeAddress o.toAddrOracle s
        let e ← decodeUint e
        let g ← o.decGammas g
        pure (.polyCommitment s e g)
    | _ => none
  else if ev.type = tPolyEval then
    match expectAttributes ev.attrs ["Sender", "Eon", "Receivers", "EncryptedEvals"] with
    | some [s, e, rs, evs] => do
        let s ← decodeAddress o.toAddrOracle s
        let e ← decodeUint e
        let rs ← decodeAddresses rs
        let evs ← decodeByteSeq evs
        pure (.polyEval s e rs evs)
    | _ => none
  else if ev.type = tAccusation then
    match expectAttributes ev.attrs ["Sender", "Eon", "Accused"] with
    | some [s, e, as] => do
        let s ← decodeAddress o.toAddrOracle s
        let e ← decodeUint e
        let as ← decodeAddresses as
        pure (.accusation s e as)
    | _ => none
  else if ev.type = tApology then
    match expectAttributes ev.attrs ["Sender", "Eon", "Accusers", "PolyEvals"] with
    | some [s, e, as, ps] => do
        let s ← decodeAddress o.toAddrOracle s
        let e ← decodeUint e
        let as ← decodeAddresses as
        let ps ← decodeByteSeq ps
        pure (.apology s e as (ps.map normBig))
    | _ => none
  else none

end Shutter.Events
