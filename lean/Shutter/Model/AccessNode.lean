/-
The Gnosis access node (gnosisaccessnode/storage.go, decryptionkeyshandler.go): an in-memory store filled by two
chain-sync event handlers (onNewEonKey → AddEonKey, onNewKeyperSet → AddKeyperSet; Go map assignment) and the
validator of keys messages reading it.  Eon keys and keyper sets are abstract ids here; what a message is worth
under a given eon key (every key decodes and verifies, identities non-decreasing) and under a given keyper set
(signature rule, C06) comes with the message.  Core-only.
-/
namespace Shutter.AccessNode

abbrev Map := List (Nat × Nat)

/-- `m[k] = v` -/
def Map.put (m : Map) (k v : Nat) : Map := (k, v) :: m.filter (fun e => e.1 != k)

/-- `v, ok := m[k]` -/
def Map.get (m : Map) (k : Nat) : Option Nat := (m.find? (fun e => e.1 == k)).map (·.2)

structure Store where
  keys : Map := []
  sets : Map := []

inductive Ev where
  | key (eon id : Nat)
  | set (eon id : Nat)
deriving Repr, DecidableEq

def Ev.eon : Ev → Nat
  | .key e _ => e
  | .set e _ => e

def Store.step (s : Store) : Ev → Store
  | .key e id => { s with keys := s.keys.put e id }
  | .set e id => { s with sets := s.sets.put e id }

def Store.run (s : Store) (evs : List Ev) : Store := evs.foldl Store.step s

structure Msg where
  inst : Nat
  eon : Nat
  nkeys : Nat
  /-- gnosis.ValidateDecryptionKeysBasic: the Gnosis extra is there, slot and pointer in range -/
  basic : Bool
  /-- under eon key `id`: every key decodes and verifies for its identity, identities non-decreasing -/
  keysOK : Nat → Bool
  /-- gnosis.ValidateDecryptionKeysSignatures against keyper set `id` -/
  sigsOK : Nat → Bool

def maxInt64 : Nat := 2 ^ 63 - 1

/-- `ValidateMessage`: accept (`true`) or reject -/
def validate (inst max : Nat) (s : Store) (m : Msg) : Bool :=
  if m.inst ≠ inst then false
  else if m.eon > maxInt64 then false
  else if m.nkeys = 0 then false
  else if m.nkeys > max then false
  else
    match s.keys.get m.eon with
    | none => false
    | some k =>
      if !m.keysOK k then false
      else if !m.basic then false
      else
        match s.sets.get m.eon with
        | none => false
        | some ks => m.sigsOK ks

end Shutter.AccessNode
