/-
Model of the Shutter-service keyper's trigger decision (C02), core-only.

Modelled code: keyperimpl/shutterservice/newblock.go (`maybeTriggerDecryption`, `prepareTimeBasedTriggers`,
`shouldTriggerDecryption`, `resolveDecryptableEon`, `createTriggersFromIdentityRegisteredEvents`,
`prepareEventBasedTriggers`, `sortIdentityPreimages`), messagingmiddleware.go (`updateEventFlag`), and the
SQL they use (shutterservice.sql: GetNotDecryptedIdentityRegisteredEvents, GetUndecryptedFiredTriggers,
UpdateTimeBasedDecryptedFlags, UpdateEventBasedDecryptedFlags, InsertIdentityRegisteredEvent,
InsertEventTriggerRegisteredEvent, InsertFiredTrigger; keyper.sql: GetLatestStartedEonByKeyperConfigIndex,
GetBatchConfig, GetDKGResultForKeyperConfigIndex).

What messages and tables call `eon` on this path is the keyper-set (keyper config) index.
-/
import Shutter.Model.Sort

namespace Shutter.ServiceTrigger
open Shutter.Sort

/-- a row of `identity_registered_event`; `key` stands for the primary key (identity_prefix, sender) -/
structure Reg where
  key : Nat
  eon : Int
  identity : Bytes
  timestamp : Int
  decrypted : Bool
deriving Repr, DecidableEq

/-- a row of `event_trigger_registered_event`, primary key (eon, identity) -/
structure TrigReg where
  eon : Int
  identity : Bytes
  decrypted : Bool
deriving Repr, DecidableEq

/-- a row of `fired_triggers`, primary key (eon, identity) -/
structure Fired where
  eon : Int
  identity : Bytes
deriving Repr, DecidableEq

/-- a row of `eons` -/
structure EonRow where
  eon : Int
  config : Int
  activation : Int
deriving Repr, DecidableEq

/-- a row of `tendermint_batch_config` reduced to "is this keyper's address among the keypers" -/
structure ConfigRow where
  config : Int
  member : Bool
deriving Repr, DecidableEq

/-- a row of `dkg_result` -/
structure DkgRow where
  eon : Int
  success : Bool
deriving Repr, DecidableEq

structure State where
  regs : List Reg := []
  trigRegs : List TrigReg := []
  fired : List Fired := []
  eons : List EonRow := []
  configs : List ConfigRow := []
  dkgs : List DkgRow := []
  /-- `latestTriggeredTime` (in memory; lost on restart) -/
  mark : Option Int := none
deriving Repr

structure Trigger where
  block : Int
  ids : List Bytes
deriving Repr, DecidableEq

/-- Go's `int32(x)` of an `int64` -/
def wrap32 (c : Int) : Int := (c + 2147483648) % 4294967296 - 2147483648

/-- `GetLatestStartedEonByKeyperConfigIndex`: the row with the greatest eon number among those of the config -/
def latestEon (eons : List EonRow) (c : Int) : Option EonRow :=
  eons.foldl (fun acc e => if e.config = c then
      (match acc with
       | none => some e
       | some a => if a.eon < e.eon then some e else some a)
    else acc) none

/-- `resolveDecryptableEon` -/
def resolve (s : State) (c : Int) : Option EonRow :=
  match latestEon s.eons c with
  | none => none
  | some e =>
    match s.configs.find? (fun r => r.config = wrap32 c) with
    | none => none
    | some cfg =>
      if !cfg.member then none
      else
        match s.dkgs.find? (fun r => r.eon = e.eon) with
        | none => none
        | some r => if r.success then some e else none

def regLe (a b : Reg) : Bool := decide (a.timestamp ≤ b.timestamp)

/-- `GetNotDecryptedIdentityRegisteredEvents` -/
def due (s : State) (last now : Int) : List Reg :=
  isort regLe (s.regs.filter (fun r => decide (last ≤ r.timestamp) && decide (r.timestamp ≤ now) && !r.decrypted))

/-- `shouldTriggerDecryption` -/
def shouldTrigger (s : State) (r : Reg) (now number : Int) : Bool :=
  match resolve s r.eon with
  | none => false
  | some e => decide (e.activation ≤ number) && decide (r.timestamp < now)

/-- the distinct values of `f` in order of first appearance -/
def firsts {α : Type} (f : α → Int) : List α → List Int
  | [] => []
  | a :: rest => f a :: (firsts f rest).filter (fun x => x ≠ f a)

/-- `createTriggersFromIdentityRegisteredEvents`; the order of the triggers is that of Go's map iteration
    and carries no meaning -/
def groupTime (s : State) (rows : List Reg) : List Trigger :=
  let usable := rows.filter (fun r => (resolve s r.eon).isSome)
  (firsts (·.eon) usable).filterMap (fun c =>
    match resolve s c with
    | none => none
    | some e => some { block := e.activation, ids := sortIds ((usable.filter (fun r => r.eon = c)).map (·.identity)) })

/-- `prepareTimeBasedTriggers`: new mark and triggers -/
def timeTriggers (s : State) (now number : Int) : Option Int × List Trigger :=
  let skip := match s.mark with
    | none => false
    | some m => decide (now ≤ m)
  if skip then (s.mark, [])
  else
    let last := s.mark.getD 0
    (some now, groupTime s ((due s last now).filter (fun r => shouldTrigger s r now number)))

/-- `GetUndecryptedFiredTriggers`: fired rows joined with their registration, unless that is decrypted -/
def undecryptedFired (s : State) : List Fired :=
  s.fired.filter (fun f =>
    s.trigRegs.any (fun e => decide (e.eon = f.eon) && decide (e.identity = f.identity)) &&
    !s.trigRegs.any (fun e => decide (e.eon = f.eon) && decide (e.identity = f.identity) && e.decrypted))

/-- `prepareEventBasedTriggers` -/
def eventTriggers (s : State) : List Trigger :=
  let rows := undecryptedFired s
  (firsts (·.eon) rows).filterMap (fun c =>
    match resolve s c with
    | none => none
    | some e => some { block := e.activation, ids := sortIds ((rows.filter (fun f => f.eon = c)).map (·.identity)) })

/-- `maybeTriggerDecryption` for a block with this timestamp and number -/
def onBlock (s : State) (now number : Int) (eventBased : Bool) : State × List Trigger × List Trigger :=
  let (m, tt) := timeTriggers s now number
  ({ s with mark := m }, tt, if eventBased then eventTriggers s else [])

/-- `updateEventFlag`: both tables, rows with this (eon, identity) -/
def released (s : State) (eon : Int) (ids : List Bytes) : State :=
  { s with
    regs := s.regs.map (fun r => if r.eon = eon ∧ r.identity ∈ ids then { r with decrypted := true } else r),
    trigRegs := s.trigRegs.map (fun r => if r.eon = eon ∧ r.identity ∈ ids then { r with decrypted := true } else r) }

/-- `InsertIdentityRegisteredEvent`: on conflict of the key the timestamp and identity are replaced, eon and
    the decrypted flag are kept -/
def register (s : State) (key : Nat) (eon : Int) (identity : Bytes) (ts : Int) : State :=
  if s.regs.any (fun r => r.key = key) then
    { s with regs := s.regs.map (fun r => if r.key = key then { r with identity := identity, timestamp := ts } else r) }
  else { s with regs := s.regs ++ [{ key := key, eon := eon, identity := identity, timestamp := ts, decrypted := false }] }

/-- `InsertEventTriggerRegisteredEvent`: on conflict of (eon, identity) the flag is kept -/
def trigRegister (s : State) (eon : Int) (identity : Bytes) : State :=
  if s.trigRegs.any (fun r => decide (r.eon = eon) && decide (r.identity = identity)) then s
  else { s with trigRegs := s.trigRegs ++ [{ eon := eon, identity := identity, decrypted := false }] }

/-- `InsertFiredTrigger`: ON CONFLICT DO NOTHING -/
def fire (s : State) (eon : Int) (identity : Bytes) : State :=
  if s.fired.any (fun r => decide (r.eon = eon) && decide (r.identity = identity)) then s
  else { s with fired := s.fired ++ [{ eon := eon, identity := identity }] }

inductive Op where
  | block (now number : Int) (eventBased : Bool)
  | register (key : Nat) (eon : Int) (identity : Bytes) (ts : Int)
  | trigRegister (eon : Int) (identity : Bytes)
  | fire (eon : Int) (identity : Bytes)
  | released (eon : Int) (ids : List Bytes)
  | restart
  | eonStart (e : EonRow)
  | dkgResult (r : DkgRow)
  | config (r : ConfigRow)
deriving Repr

def step (s : State) : Op → State
  | .block now number ev => (onBlock s now number ev).1
  | .register k e i t => register s k e i t
  | .trigRegister e i => trigRegister s e i
  | .fire e i => fire s e i
  | .released e ids => released s e ids
  | .restart => { s with mark := none }
  | .eonStart e => { s with eons := s.eons ++ [e] }
  | .dkgResult r => { s with dkgs := s.dkgs.filter (fun d => d.eon ≠ r.eon) ++ [r] }
  | .config r => { s with configs := s.configs.filter (fun c => c.config ≠ r.config) ++ [r] }

def run (s : State) (ops : List Op) : State := ops.foldl step s

/-- what a history emits: for every block operation, the state it was processed in, the block, and the
    time-based and event-based triggers -/
def emitted : State → List Op → List (State × Int × Int × List Trigger × List Trigger)
  | _, [] => []
  | s, op :: rest =>
    match op with
    | .block now number ev =>
      (s, now, number, (onBlock s now number ev).2.1, (onBlock s now number ev).2.2) :: emitted (step s op) rest
    | _ => emitted (step s op) rest

end Shutter.ServiceTrigger
