/-
Model of the gossip validators of key-share and key messages (C04), core-only.

Modelled code: keyper/epochkghandler/keyshare.go (`DecryptionKeyShareHandler.ValidateMessage`, `checkKeyShares`),
key.go (`DecryptionKeyHandler.ValidateMessage`, `checkKeysErrors`), p2pmsg/messages.go (`Validate` of both
message types, run by `p2p.UnmarshalPubsubMessage` before the handler's validator), keyper/database/extend.go
(`GetKeyperIndex`, with its `int32` conversion) and the queries GetBatchConfig,
GetDKGResultForKeyperConfigIndex, GetDecryptionKey.

Cryptography is a parameter: whether the bytes of a share / key decode, and whether the decoded value
verifies (against the public key share of the claimed sender / against the eon public key), are given per
share / key.  What messages call `eon` is the keyper-set (keyper config) index.
-/
import Shutter.Model.Sort

namespace Shutter.Validate
open Shutter.Sort

structure Share where
  id : Bytes
  /-- `EpochSecretKeyShare.Unmarshal` succeeds -/
  decodes : Bool
  /-- `VerifyEpochSecretKeyShare` against the claimed sender's public key share and this identity -/
  verifies : Bool
deriving Repr, DecidableEq

structure SharesMsg where
  instanceId : Nat
  eon : Nat
  keyperIndex : Nat
  shares : List Share
deriving Repr

structure Key where
  id : Bytes
  decodes : Bool
  /-- `VerifyEpochSecretKey` against the eon public key and this identity -/
  verifies : Bool
  /-- the raw key bytes (compared with what is stored) -/
  raw : Bytes
deriving Repr, DecidableEq

structure KeysMsg where
  instanceId : Nat
  eon : Nat
  keys : List Key
deriving Repr

/-- `tendermint_batch_config`, reduced to whether the receiver's address is among the keypers -/
structure ConfigRow where
  config : Int
  member : Bool
deriving Repr, DecidableEq

structure EonRow where
  eon : Int
  config : Int
deriving Repr, DecidableEq

/-- `dkg_result`; `decodes`: the stored pure result decodes; `n`: number of public key shares in it -/
structure DkgRow where
  eon : Int
  success : Bool
  decodes : Bool
  n : Nat
deriving Repr, DecidableEq

/-- `decryption_key` -/
structure StoredKey where
  eon : Int
  id : Bytes
  raw : Bytes
deriving Repr, DecidableEq

structure DB where
  configs : List ConfigRow := []
  eons : List EonRow := []
  dkgs : List DkgRow := []
  keys : List StoredKey := []
deriving Repr

structure Cfg where
  instanceId : Nat
  maxKeys : Nat
deriving Repr

inductive Verdict where
  | accept | reject
deriving Repr, DecidableEq

def maxInt64 : Nat := 9223372036854775807

/-- Go's `int32(x)` of an `int64` -/
def wrap32 (c : Int) : Int := (c + 2147483648) % 4294967296 - 2147483648

/-- `SELECT max(eon) FROM eons WHERE keyper_config_index = $1` -/
def maxStep (c : Int) (acc : Option Int) (r : EonRow) : Option Int :=
  if r.config = c then
    (match acc with
     | none => some r.eon
     | some a => if a < r.eon then some r.eon else some a)
  else acc

def maxEon (eons : List EonRow) (c : Int) : Option Int := eons.foldl (maxStep c) none

/-- `GetDKGResultForKeyperConfigIndex` -/
def dkgFor (db : DB) (c : Int) : Option DkgRow :=
  match maxEon db.eons c with
  | none => none
  | some e => db.dkgs.find? (fun d => d.eon = e)

/-- the receiver-side conditions shared by both validators, in code order; on success the DKG row -/
def receiverOK (cfg : Cfg) (db : DB) (instanceId eon : Nat) : Option DkgRow :=
  if instanceId ≠ cfg.instanceId then none
  else if maxInt64 < eon then none
  else
    match db.configs.find? (fun r => r.config = wrap32 eon) with
    | none => none
    | some c =>
      if !c.member then none
      else
        match dkgFor db eon with
        | none => none
        | some d => if d.success && d.decodes then some d else none

/-- the loop of `checkKeyShares` -/
def checkShares : Option Bytes → List Share → Bool
  | _, [] => true
  | prev, s :: rest =>
    s.decodes && s.verifies &&
      (match prev with
       | none => true
       | some p => bytesLe p s.id) && checkShares (some s.id) rest

/-- combined verdict for a key-shares message (envelope `Validate`, then `ValidateMessage`) -/
def validateShares (cfg : Cfg) (db : DB) (m : SharesMsg) : Verdict :=
  if !m.shares.all (·.decodes) then .reject
  else
    match receiverOK cfg db m.instanceId m.eon with
    | none => .reject
    | some d =>
      if m.shares.length = 0 then .reject
      else if cfg.maxKeys < m.shares.length then .reject
      else if d.n ≤ m.keyperIndex then .reject
      else if checkShares none m.shares then .accept else .reject

/-- `GetDecryptionKey` -/
def storedKey (db : DB) (eon : Int) (id : Bytes) : Option StoredKey :=
  db.keys.find? (fun k => decide (k.eon = eon) && decide (k.id = id))

/-- "a key is stored for this identity and it is byte-identical" -/
def storedSame (db : DB) (eon : Int) (k : Key) : Bool :=
  match storedKey db eon k.id with
  | some s => decide (s.raw = k.raw)
  | none => false

/-- the loop of `checkKeysErrors` -/
def checkKeys (db : DB) (eon : Int) : Option Bytes → List Key → Bool
  | _, [] => true
  | prev, k :: rest =>
    k.decodes &&
      (match prev with
       | none => true
       | some p => bytesLe p k.id) &&
      (storedSame db eon k || k.verifies) && checkKeys db eon (some k.id) rest

def validateKeys (cfg : Cfg) (db : DB) (m : KeysMsg) : Verdict :=
  if !m.keys.all (·.decodes) then .reject
  else
    match receiverOK cfg db m.instanceId m.eon with
    | none => .reject
    | some _ =>
      if m.keys.length = 0 then .reject
      else if cfg.maxKeys < m.keys.length then .reject
      else if checkKeys db m.eon none m.keys then .accept else .reject

/-- libp2p's three verdicts plus anything else a validator function might return -/
inductive V3 where
  | accept | reject | ignore | unknown
deriving Repr, DecidableEq

/-- `ValidatorRegistry.GetCombinedValidator`: the first reject (or unknown value) wins, otherwise ignore if
    any validator ignored, otherwise accept -/
def combineFrom (ignored : Bool) : List V3 → V3
  | [] => if ignored then .ignore else .accept
  | .accept :: rest => combineFrom ignored rest
  | .reject :: _ => .reject
  | .ignore :: rest => combineFrom true rest
  | .unknown :: _ => .reject

def combine (vs : List V3) : V3 := combineFrom false vs

/-- the receive path: a message is handled only when the combined validator accepts -/
def receive {σ μ out : Type} (validate : σ → μ → Verdict) (handle : σ → μ → σ × List out) (s : σ) (m : μ) :
    σ × List out :=
  match validate s m with
  | .accept => handle s m
  | .reject => (s, [])

end Shutter.Validate
