/-
Line-protocol helpers shared by all drivers (core-only).
Tokens are separated by single spaces; lists are comma-separated with `-` for the empty
list; pairs are `a:b`; raw byte strings are `len/value`.
-/
namespace Shutter.Wire

def tokens (s : String) : List String := (s.splitOn " ").filter (· ≠ "")

def nat? (s : String) : Option Nat := s.toNat?

def int? (s : String) : Option Int := s.toInt?

def bool? (s : String) : Option Bool :=
  if s = "1" then some true else if s = "0" then some false else none

def list? {α : Type} (f : String → Option α) (s : String) : Option (List α) :=
  if s = "-" then some [] else (s.splitOn ",").mapM f

def pair? {α β : Type} (f : String → Option α) (g : String → Option β) (s : String) :
    Option (α × β) :=
  match s.splitOn ":" with
  | [a, b] => do let x ← f a; let y ← g b; pure (x, y)
  | _ => none

def showList {α : Type} (f : α → String) (l : List α) : String :=
  if l.isEmpty then "-" else ",".intercalate (l.map f)

def showBool (b : Bool) : String := if b then "1" else "0"

/-- split "op | obs" into the two halves (obs may be absent) -/
def splitObs (line : String) : String × String :=
  match line.splitOn " | " with
  | [a] => (a, "")
  | a :: rest => (a, " | ".intercalate rest)
  | [] => ("", "")

/-- insertion sort on strings / naturals for canonical output -/
def insertBy {α : Type} (lt : α → α → Bool) (x : α) : List α → List α
  | [] => [x]
  | y :: ys => if lt y x then y :: insertBy lt x ys else x :: y :: ys

def sortBy {α : Type} (lt : α → α → Bool) (l : List α) : List α := l.foldr (insertBy lt) []

end Shutter.Wire
