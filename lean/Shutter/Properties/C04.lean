/-
C04 — Gossip validation accepts exactly the well-formed, cryptographically valid messages.
-/
import Shutter.Model.Validate
import Shutter.Proofs.Sort
import Shutter.Generated.SqlFacts

namespace Shutter.Properties.C04
open Shutter.Validate Shutter.Sort List

/-! ### the statement, clause by clause -/

/-- identities in non-decreasing byte order (adjacent comparison, as the validators do it) -/
def NonDecreasing : List Bytes → Prop
  | [] => True
  | [_] => True
  | a :: b :: rest => bytesLe a b = true ∧ NonDecreasing (b :: rest)

/-- `e` is the newest eon started for keyper set `c` -/
def IsNewest (eons : List EonRow) (c e : Int) : Prop :=
  (∃ r ∈ eons, r.config = c ∧ r.eon = e) ∧ ∀ r ∈ eons, r.config = c → r.eon ≤ e

/-- primary keys of the two tables that are looked up by key -/
def Keyed (db : DB) : Prop :=
  db.configs.Pairwise (fun a b => a.config ≠ b.config) ∧ db.dkgs.Pairwise (fun a b => a.eon ≠ b.eon) ∧
    db.keys.Pairwise (fun a b => ¬ (a.eon = b.eon ∧ a.id = b.id))

/-- instance id matches, the receiver is a keyper of the named keyper set, and that set's newest key
    generation succeeded (row `d`) -/
def ReceiverGood (cfg : Cfg) (db : DB) (instanceId eon : Nat) (d : DkgRow) : Prop :=
  instanceId = cfg.instanceId ∧ eon ≤ maxInt64 ∧
    (∃ c ∈ db.configs, c.config = wrap32 eon ∧ c.member = true) ∧
    (∃ e, IsNewest db.eons eon e ∧ d ∈ db.dkgs ∧ d.eon = e ∧ d.success = true ∧ d.decodes = true)

def WellFormedShares (cfg : Cfg) (db : DB) (m : SharesMsg) : Prop :=
  ∃ d, ReceiverGood cfg db m.instanceId m.eon d ∧
    1 ≤ m.shares.length ∧ m.shares.length ≤ cfg.maxKeys ∧
    m.keyperIndex < d.n ∧
    (∀ s ∈ m.shares, s.decodes = true ∧ s.verifies = true) ∧
    NonDecreasing (m.shares.map (·.id))

/-- a key is fine if it is the valid epoch key for its identity, or byte-identical to the key stored for it -/
def KeyFine (db : DB) (eon : Int) (k : Key) : Prop :=
  k.decodes = true ∧ (k.verifies = true ∨ ∃ s ∈ db.keys, s.eon = eon ∧ s.id = k.id ∧ s.raw = k.raw)

def WellFormedKeys (cfg : Cfg) (db : DB) (m : KeysMsg) : Prop :=
  ∃ d, ReceiverGood cfg db m.instanceId m.eon d ∧
    1 ≤ m.keys.length ∧ m.keys.length ≤ cfg.maxKeys ∧
    (∀ k ∈ m.keys, KeyFine db m.eon k) ∧
    NonDecreasing (m.keys.map (·.id))

/-! ### lookups -/

theorem none_iff {α : Type} {d : α} {P : Prop} (h : ¬ P) : ((none : Option α) = some d ↔ P) :=
  ⟨fun h' => (by cases h'), fun hp => absurd hp h⟩

theorem reject_iff {P : Prop} (h : ¬ P) : (Verdict.reject = Verdict.accept ↔ P) :=
  ⟨fun h' => (by cases h'), fun hp => absurd hp h⟩


theorem find?_keyed {α : Type} (l : List α) (key : α → Int) (hk : l.Pairwise (fun a b => key a ≠ key b)) (c : Int) (x : α) :
    l.find? (fun r => decide (key r = c)) = some x ↔ x ∈ l ∧ key x = c := by
  induction l with
  | nil => simp
  | cons a rest ih =>
    rw [pairwise_cons] at hk
    rw [find?_cons]
    by_cases ha : key a = c
    · simp only [ha, decide_true, Option.some.injEq, mem_cons]
      constructor
      · rintro rfl; exact ⟨Or.inl rfl, ha⟩
      · rintro ⟨h | h, hx⟩
        · exact h.symm
        · exact absurd (by rw [ha, hx]) (hk.1 x h)
    · simp only [ha, decide_false, mem_cons]
      rw [ih hk.2]
      constructor
      · rintro ⟨h1, h2⟩; exact ⟨Or.inr h1, h2⟩
      · rintro ⟨h | h, hx⟩
        · subst h; exact absurd hx ha
        · exact ⟨h, hx⟩

theorem maxEon_fold (c : Int) (l : List EonRow) (acc : Option Int) :
    ∀ e, l.foldl (maxStep c) acc = some e ↔
      ((∃ r ∈ l, r.config = c ∧ r.eon = e) ∨ acc = some e) ∧ (∀ r ∈ l, r.config = c → r.eon ≤ e) ∧
        (∀ a, acc = some a → a ≤ e) := by
  induction l generalizing acc with
  | nil =>
    intro e
    simp only [foldl_nil, not_mem_nil, false_and, exists_false, false_or, forall_const, false_imp_iff,
      implies_true, true_and]
    constructor
    · intro h; exact ⟨h, fun a ha => by rw [h] at ha; cases ha; exact Int.le_refl _⟩
    · intro h; exact h.1
  | cons x rest ih =>
    intro e
    rw [foldl_cons]
    by_cases hx : x.config = c
    · cases acc with
      | none =>
        have hstep : maxStep c none x = some x.eon := by simp [maxStep, hx]
        rw [hstep, ih]
        constructor
        · rintro ⟨h1, h2, h3⟩
          refine ⟨Or.inl ?_, ?_, by simp⟩
          · rcases h1 with ⟨r, hr, h⟩ | h
            · exact ⟨r, mem_cons_of_mem _ hr, h⟩
            · cases h; exact ⟨x, mem_cons_self, hx, rfl⟩
          · intro r hr hc
            rcases mem_cons.1 hr with rfl | hr
            · exact h3 _ rfl
            · exact h2 r hr hc
        · rintro ⟨h1, h2, _⟩
          refine ⟨?_, fun r hr => h2 r (mem_cons_of_mem _ hr), ?_⟩
          · rcases h1 with ⟨r, hr, h⟩ | h
            · rcases mem_cons.1 hr with rfl | hr
              · exact Or.inr (by rw [h.2])
              · exact Or.inl ⟨r, hr, h⟩
            · cases h
          · intro a ha; cases ha; exact h2 x mem_cons_self hx
      | some a =>
        by_cases hlt : a < x.eon
        · have hstep : maxStep c (some a) x = some x.eon := by simp [maxStep, hx, hlt]
          rw [hstep, ih]
          constructor
          · rintro ⟨h1, h2, h3⟩
            refine ⟨Or.inl ?_, ?_, ?_⟩
            · rcases h1 with ⟨r, hr, h⟩ | h
              · exact ⟨r, mem_cons_of_mem _ hr, h⟩
              · cases h; exact ⟨x, mem_cons_self, hx, rfl⟩
            · intro r hr hc
              rcases mem_cons.1 hr with rfl | hr
              · exact h3 _ rfl
              · exact h2 r hr hc
            · intro b hb; cases hb; have := h3 x.eon rfl; omega
          · rintro ⟨h1, h2, h3⟩
            refine ⟨?_, fun r hr => h2 r (mem_cons_of_mem _ hr), ?_⟩
            · rcases h1 with ⟨r, hr, h⟩ | h
              · rcases mem_cons.1 hr with rfl | hr
                · exact Or.inr (by rw [h.2])
                · exact Or.inl ⟨r, hr, h⟩
              · cases h
                have := h2 x mem_cons_self hx
                omega
            · intro b hb; cases hb; exact h2 x mem_cons_self hx
        · have hstep : maxStep c (some a) x = some a := by simp [maxStep, hx, hlt]
          rw [hstep, ih]
          constructor
          · rintro ⟨h1, h2, h3⟩
            refine ⟨?_, ?_, h3⟩
            · rcases h1 with ⟨r, hr, h⟩ | h
              · exact Or.inl ⟨r, mem_cons_of_mem _ hr, h⟩
              · exact Or.inr h
            · intro r hr hc
              rcases mem_cons.1 hr with rfl | hr
              · have := h3 a rfl; omega
              · exact h2 r hr hc
          · rintro ⟨h1, h2, h3⟩
            refine ⟨?_, fun r hr => h2 r (mem_cons_of_mem _ hr), h3⟩
            · rcases h1 with ⟨r, hr, h⟩ | h
              · rcases mem_cons.1 hr with rfl | hr
                · have h4 := h3 a rfl
                  have : a = e := by omega
                  exact Or.inr (by rw [this])
                · exact Or.inl ⟨r, hr, h⟩
              · exact Or.inr h
    · have hstep : maxStep c acc x = acc := by unfold maxStep; rw [if_neg hx]
      rw [hstep, ih]
      constructor
      · rintro ⟨h1, h2, h3⟩
        refine ⟨?_, ?_, h3⟩
        · rcases h1 with ⟨r, hr, h⟩ | h
          · exact Or.inl ⟨r, mem_cons_of_mem _ hr, h⟩
          · exact Or.inr h
        · intro r hr hc
          rcases mem_cons.1 hr with rfl | hr
          · exact absurd hc hx
          · exact h2 r hr hc
      · rintro ⟨h1, h2, h3⟩
        refine ⟨?_, fun r hr => h2 r (mem_cons_of_mem _ hr), h3⟩
        rcases h1 with ⟨r, hr, h⟩ | h
        · rcases mem_cons.1 hr with rfl | hr
          · exact absurd h.1 hx
          · exact Or.inl ⟨r, hr, h⟩
        · exact Or.inr h

theorem maxEon_iff (eons : List EonRow) (c e : Int) : maxEon eons c = some e ↔ IsNewest eons c e := by
  unfold maxEon IsNewest
  rw [maxEon_fold]
  simp

/-- the receiver-side conditions, exactly -/
theorem receiverOK_iff (cfg : Cfg) (db : DB) (hk : Keyed db) (instanceId eon : Nat) (d : DkgRow) :
    receiverOK cfg db instanceId eon = some d ↔ ReceiverGood cfg db instanceId eon d := by
  unfold receiverOK ReceiverGood
  by_cases h1n : ¬ instanceId = cfg.instanceId
  · simp [h1n]
  have h1 : instanceId = cfg.instanceId := Decidable.not_not.1 h1n
  by_cases h2n : ¬ eon ≤ maxInt64
  · have : maxInt64 < eon := by omega
    simp [h1, this, h2n]
  have h2 : eon ≤ maxInt64 := Decidable.not_not.1 h2n
  have h2' : ¬ maxInt64 < eon := by omega
  simp only [h1, ne_eq, not_true_eq_false, if_false, h2', h2, true_and]
  cases hc : db.configs.find? (fun r => decide (r.config = wrap32 eon)) with
  | none =>
    refine none_iff ?_
    rintro ⟨⟨c, hcm, hcc, _⟩, _⟩
    have := (find?_keyed db.configs (·.config) hk.1 (wrap32 eon) c).2 ⟨hcm, hcc⟩
    rw [hc] at this; cases this
  | some c =>
    have hcspec := (find?_keyed db.configs (·.config) hk.1 (wrap32 eon) c).1 hc
    simp only []
    by_cases hmn : ¬ c.member = true
    · have hmf : c.member = false := by cases h : c.member <;> simp_all
      simp only [hmf, Bool.not_false, if_true]
      refine none_iff ?_
      rintro ⟨⟨c', hcm, hcc, hmem⟩, _⟩
      have := (find?_keyed db.configs (·.config) hk.1 (wrap32 eon) c').2 ⟨hcm, hcc⟩
      rw [hc] at this
      injection this with this
      subst this
      rw [hmf] at hmem; cases hmem
    have hm : c.member = true := Decidable.not_not.1 hmn
    simp only [hm, Bool.not_true, Bool.false_eq_true, if_false]
    unfold dkgFor
    cases he : maxEon db.eons eon with
    | none =>
      refine none_iff ?_
      rintro ⟨_, e, hne, _⟩
      rw [(maxEon_iff db.eons eon e).2 hne] at he; cases he
    | some e =>
      have hne := (maxEon_iff db.eons eon e).1 he
      simp only []
      cases hd : db.dkgs.find? (fun r => decide (r.eon = e)) with
      | none =>
        refine none_iff ?_
        rintro ⟨_, e', hne', hdm, hde, _⟩
        have hee : e' = e := by
          have a1 := hne.2; have a2 := hne'.2
          obtain ⟨r, hr, hrc, hre⟩ := hne.1
          obtain ⟨r', hr', hrc', hre'⟩ := hne'.1
          have := a1 r' hr' hrc'; have := a2 r hr hrc; omega
        have := (find?_keyed db.dkgs (·.eon) hk.2.1 e d).2 ⟨hdm, by rw [hde, hee]⟩
        rw [hd] at this; cases this
      | some d0 =>
        have hdspec := (find?_keyed db.dkgs (·.eon) hk.2.1 e d0).1 hd
        simp only []
        constructor
        · intro h
          split at h
          · rename_i hsd
            injection h with h
            subst h
            simp only [Bool.and_eq_true] at hsd
            exact ⟨⟨c, hcspec.1, hcspec.2, hm⟩, e, hne, hdspec.1, hdspec.2, hsd.1, hsd.2⟩
          · cases h
        · rintro ⟨_, e', hne', hdm, hde, hs, hdec⟩
          have hee : e' = e := by
            have a1 := hne.2; have a2 := hne'.2
            obtain ⟨r, hr, hrc, hre⟩ := hne.1
            obtain ⟨r', hr', hrc', hre'⟩ := hne'.1
            have := a1 r' hr' hrc'; have := a2 r hr hrc; omega
          have := (find?_keyed db.dkgs (·.eon) hk.2.1 e d).2 ⟨hdm, by rw [hde, hee]⟩
          rw [hd] at this
          injection this with this
          subst this
          simp [hs, hdec]

theorem checkShares_iff (prev : Option Bytes) (l : List Share) :
    checkShares prev l = true ↔
      (∀ s ∈ l, s.decodes = true ∧ s.verifies = true) ∧
        NonDecreasing ((match prev with | none => [] | some p => [p]) ++ l.map (·.id)) := by
  induction l generalizing prev with
  | nil => cases prev <;> simp [checkShares, NonDecreasing]
  | cons s rest ih =>
    simp only [checkShares, Bool.and_eq_true, ih (some s.id), mem_cons, forall_eq_or_imp, map_cons]
    cases prev with
    | none =>
      simp only [nil_append, singleton_append]
      constructor
      · rintro ⟨⟨⟨h1, h2⟩, _⟩, h3, h4⟩; exact ⟨⟨⟨h1, h2⟩, h3⟩, h4⟩
      · rintro ⟨⟨⟨h1, h2⟩, h3⟩, h4⟩; exact ⟨⟨⟨h1, h2⟩, trivial⟩, h3, h4⟩
    | some p =>
      simp only [singleton_append, NonDecreasing]
      constructor
      · rintro ⟨⟨⟨h1, h2⟩, h5⟩, h3, h4⟩; exact ⟨⟨⟨h1, h2⟩, h3⟩, h5, h4⟩
      · rintro ⟨⟨⟨h1, h2⟩, h3⟩, h5, h4⟩; exact ⟨⟨⟨h1, h2⟩, h5⟩, h3, h4⟩

theorem storedSame_iff (db : DB) (hk : Keyed db) (eon : Int) (k : Key) :
    storedSame db eon k = true ↔ ∃ s ∈ db.keys, s.eon = eon ∧ s.id = k.id ∧ s.raw = k.raw := by
  unfold storedSame storedKey
  have key : ∀ (l : List StoredKey), l.Pairwise (fun a b => ¬ (a.eon = b.eon ∧ a.id = b.id)) →
      ((match l.find? (fun s => decide (s.eon = eon) && decide (s.id = k.id)) with
        | some s => decide (s.raw = k.raw)
        | none => false) = true ↔ ∃ s ∈ l, s.eon = eon ∧ s.id = k.id ∧ s.raw = k.raw) := by
    intro l
    induction l with
    | nil => simp
    | cons a rest ih =>
      intro hp
      rw [pairwise_cons] at hp
      rw [find?_cons]
      by_cases ha : a.eon = eon ∧ a.id = k.id
      · simp only [ha.1, ha.2, decide_true, Bool.and_self, decide_eq_true_eq, mem_cons, exists_eq_or_imp, true_and]
        constructor
        · intro h; exact Or.inl h
        · rintro (h | ⟨s, hs, h1, h2, _⟩)
          · exact h
          · exact absurd ⟨by rw [ha.1, h1], by rw [ha.2, h2]⟩ (hp.1 s hs)
      · have : (decide (a.eon = eon) && decide (a.id = k.id)) = false := by
          by_cases h1 : a.eon = eon
          · have h2 : ¬ a.id = k.id := fun h => ha ⟨h1, h⟩
            simp [h1, h2]
          · simp [h1]
        simp only [this, mem_cons, exists_eq_or_imp]
        rw [ih hp.2]
        constructor
        · intro h; exact Or.inr h
        · rintro (⟨h1, h2, _⟩ | h)
          · exact absurd ⟨h1, h2⟩ ha
          · exact h
  exact key db.keys hk.2.2

theorem checkKeys_iff (db : DB) (hk : Keyed db) (eon : Int) (prev : Option Bytes) (l : List Key) :
    checkKeys db eon prev l = true ↔
      (∀ k ∈ l, KeyFine db eon k) ∧
        NonDecreasing ((match prev with | none => [] | some p => [p]) ++ l.map (·.id)) := by
  induction l generalizing prev with
  | nil => cases prev <;> simp [checkKeys, NonDecreasing]
  | cons k rest ih =>
    simp only [checkKeys, Bool.and_eq_true, Bool.or_eq_true, ih (some k.id), mem_cons, forall_eq_or_imp, map_cons,
      storedSame_iff db hk eon k, KeyFine]
    cases prev with
    | none =>
      simp only [nil_append, singleton_append]
      constructor
      · rintro ⟨⟨⟨h1, _⟩, h2⟩, h3, h4⟩; exact ⟨⟨⟨h1, h2.symm⟩, h3⟩, h4⟩
      · rintro ⟨⟨⟨h1, h2⟩, h3⟩, h4⟩; exact ⟨⟨⟨h1, trivial⟩, h2.symm⟩, h3, h4⟩
    | some p =>
      simp only [singleton_append, NonDecreasing]
      constructor
      · rintro ⟨⟨⟨h1, h5⟩, h2⟩, h3, h4⟩; exact ⟨⟨⟨h1, h2.symm⟩, h3⟩, h5, h4⟩
      · rintro ⟨⟨⟨h1, h2⟩, h3⟩, h5, h4⟩; exact ⟨⟨⟨h1, h5⟩, h2.symm⟩, h3, h4⟩

/-! ### the property -/

/-- **Key-share messages: accepted exactly when well-formed.**  For every receiver database (with its
    primary keys), every configuration and every message: the combined validator accepts iff the instance
    id matches, the receiver is a keyper of the named set, the set's newest key generation succeeded, the
    message carries between one and the maximum number of shares with non-decreasing identities, the
    claimed sender index exists, and every share decodes and verifies against that sender's public key
    share. -/
theorem C04_shares_iff (cfg : Cfg) (db : DB) (hk : Keyed db) (m : SharesMsg) :
    validateShares cfg db m = .accept ↔ WellFormedShares cfg db m := by
  unfold validateShares WellFormedShares
  by_cases halln : ¬ m.shares.all (·.decodes) = true
  · have hf : m.shares.all (·.decodes) = false := by cases h : m.shares.all (·.decodes) <;> simp_all
    simp only [hf, Bool.not_false, if_true]
    refine reject_iff ?_
    rintro ⟨d, _, _, _, _, hs, _⟩
    have : m.shares.all (·.decodes) = true := all_eq_true.2 (fun s hs' => (hs s hs').1)
    rw [hf] at this; cases this
  have hall : m.shares.all (·.decodes) = true := Decidable.not_not.1 halln
  simp only [hall, Bool.not_true, Bool.false_eq_true, if_false]
  cases hr : receiverOK cfg db m.instanceId m.eon with
  | none =>
    refine reject_iff ?_
    rintro ⟨d, hg, _⟩
    rw [(receiverOK_iff cfg db hk _ _ d).2 hg] at hr; cases hr
  | some d =>
    have hg := (receiverOK_iff cfg db hk _ _ d).1 hr
    simp only []
    have huniq : ∀ d', ReceiverGood cfg db m.instanceId m.eon d' → d' = d := by
      intro d' hg'
      have := (receiverOK_iff cfg db hk _ _ d').2 hg'
      rw [hr] at this; injection this with this; exact this.symm
    by_cases h0 : m.shares.length = 0
    · simp only [h0, if_true]
      refine reject_iff ?_
      rintro ⟨_, _, h1, _⟩; omega
    rw [if_neg h0]
    by_cases hmax : cfg.maxKeys < m.shares.length
    · simp only [hmax, if_true]
      refine reject_iff ?_
      rintro ⟨_, _, _, h2, _⟩; omega
    rw [if_neg hmax]
    by_cases hidx : d.n ≤ m.keyperIndex
    · simp only [hidx, if_true]
      refine reject_iff ?_
      rintro ⟨d', hg', _, _, h3, _⟩
      rw [huniq d' hg'] at h3; omega
    rw [if_neg hidx]
    have hcs := checkShares_iff none m.shares
    simp only [nil_append] at hcs
    by_cases hc : checkShares none m.shares = true
    · simp only [hc, if_true, true_iff]
      exact ⟨d, hg, by omega, by omega, by omega, (hcs.1 hc).1, (hcs.1 hc).2⟩
    · simp only [hc, if_false]
      refine reject_iff ?_
      rintro ⟨_, _, _, _, _, h4, h5⟩
      exact hc (hcs.2 ⟨h4, h5⟩)

/-- **Keys messages: accepted exactly when well-formed.**  Same structural rules (no sender index), and
    every key decodes and is the valid epoch key for its identity under the eon public key, or is
    byte-identical to the key already stored for that identity. -/
theorem C04_keys_iff (cfg : Cfg) (db : DB) (hk : Keyed db) (m : KeysMsg) :
    validateKeys cfg db m = .accept ↔ WellFormedKeys cfg db m := by
  unfold validateKeys WellFormedKeys
  by_cases halln : ¬ m.keys.all (·.decodes) = true
  · have hf : m.keys.all (·.decodes) = false := by cases h : m.keys.all (·.decodes) <;> simp_all
    simp only [hf, Bool.not_false, if_true]
    refine reject_iff ?_
    rintro ⟨d, _, _, _, hs, _⟩
    have : m.keys.all (·.decodes) = true := all_eq_true.2 (fun k hk' => (hs k hk').1)
    rw [hf] at this; cases this
  have hall : m.keys.all (·.decodes) = true := Decidable.not_not.1 halln
  simp only [hall, Bool.not_true, Bool.false_eq_true, if_false]
  cases hr : receiverOK cfg db m.instanceId m.eon with
  | none =>
    refine reject_iff ?_
    rintro ⟨d, hg, _⟩
    rw [(receiverOK_iff cfg db hk _ _ d).2 hg] at hr; cases hr
  | some d =>
    have hg := (receiverOK_iff cfg db hk _ _ d).1 hr
    simp only []
    by_cases h0 : m.keys.length = 0
    · simp only [h0, if_true]
      refine reject_iff ?_
      rintro ⟨_, _, h1, _⟩; omega
    rw [if_neg h0]
    by_cases hmax : cfg.maxKeys < m.keys.length
    · simp only [hmax, if_true]
      refine reject_iff ?_
      rintro ⟨_, _, _, h2, _⟩; omega
    rw [if_neg hmax]
    have hcs := checkKeys_iff db hk m.eon none m.keys
    simp only [nil_append] at hcs
    by_cases hc : checkKeys db m.eon none m.keys = true
    · simp only [hc, if_true, true_iff]
      exact ⟨d, hg, by omega, by omega, (hcs.1 hc).1, (hcs.1 hc).2⟩
    · simp only [hc, if_false]
      refine reject_iff ?_
      rintro ⟨_, _, _, _, h4, h5⟩
      exact hc (hcs.2 ⟨h4, h5⟩)

/-- **No effect unless accepted.**  On the receive path a message that the combined validator does not
    accept leaves the state unchanged and produces no outgoing message, whatever the handler would do. -/
theorem C04_no_effect {σ μ out : Type} (validate : σ → μ → Verdict) (handle : σ → μ → σ × List out) (s : σ) (m : μ)
    (h : validate s m ≠ .accept) : receive validate handle s m = (s, []) := by
  unfold receive
  cases hv : validate s m with
  | accept => exact absurd hv h
  | reject => rfl

theorem combineFrom_accept (ig : Bool) (vs : List V3) :
    combineFrom ig vs = .accept ↔ ig = false ∧ ∀ v ∈ vs, v = .accept := by
  induction vs generalizing ig with
  | nil => cases ig <;> simp [combineFrom]
  | cons v rest ih =>
    cases v with
    | accept => simp [combineFrom, ih]
    | reject => simp [combineFrom]
    | ignore => simp [combineFrom, ih]
    | unknown => simp [combineFrom]

/-- **Several validators on one topic.**  The combined verdict is accept exactly when every registered
    validator accepts; one reject, ignore or unknown value among them is enough for the message not to be
    handled. -/
theorem C04_combine_accept_iff (vs : List V3) : combine vs = .accept ↔ ∀ v ∈ vs, v = .accept := by
  unfold combine
  rw [combineFrom_accept]
  simp

/-- adjacent comparison is the same as pairwise order, because the byte order is transitive -/
theorem C04_nondecreasing_pairwise (l : List Bytes) :
    NonDecreasing l ↔ l.Pairwise (fun a b => bytesLe a b = true) := by
  induction l with
  | nil => simp [NonDecreasing]
  | cons a rest ih =>
    cases rest with
    | nil => simp [NonDecreasing]
    | cons b rest' =>
      simp only [NonDecreasing, ih, pairwise_cons]
      constructor
      · rintro ⟨hab, hb, hrest⟩
        refine ⟨?_, hb, hrest⟩
        intro c hc
        rcases mem_cons.1 hc with rfl | hc
        · exact hab
        · exact bytesLe_trans a b c hab (hb c hc)
      · rintro ⟨ha, hb, hrest⟩
        exact ⟨ha b mem_cons_self, hb, hrest⟩

/-- the SQL behind the lookups, as extracted from the source on this run -/
theorem C04_sql_pinned :
    Shutter.Generated.SqlFacts.keyper_GetDKGResultForKeyperConfigIndex =
      "SELECT eon, success, error, pure_result FROM dkg_result WHERE eon = (SELECT max(eon) FROM eons WHERE keyper_config_index = $1)" ∧
    Shutter.Generated.SqlFacts.keyper_GetBatchConfig =
      "SELECT keyper_config_index, height, keypers, threshold, started, activation_block_number FROM tendermint_batch_config WHERE keyper_config_index = $1" ∧
    Shutter.Generated.SqlFacts.keyper_GetDecryptionKey =
      "SELECT eon, epoch_id, decryption_key FROM decryption_key WHERE eon = $1 AND epoch_id = $2" :=
  ⟨rfl, rfl, rfl⟩

/-! ### non-vacuity -/

def exDB : DB :=
  { configs := [{ config := 0, member := true }, { config := 1, member := false }],
    eons := [{ eon := 3, config := 0 }, { eon := 4, config := 1 }],
    dkgs := [{ eon := 3, success := true, decodes := true, n := 3 }],
    keys := [{ eon := 0, id := [9], raw := [1, 2] }] }

def exCfg : Cfg := { instanceId := 42, maxKeys := 3 }

example : Keyed exDB := by unfold Keyed exDB; decide

def okShare (id : Bytes) : Share := { id := id, decodes := true, verifies := true }
def exShares (idx : Nat) (l : List Share) : SharesMsg := { instanceId := 42, eon := 0, keyperIndex := idx, shares := l }
def exKeys (raw : Bytes) : KeysMsg :=
  { instanceId := 42, eon := 0, keys := [{ id := [9], decodes := true, verifies := false, raw := raw }] }

example : validateShares exCfg exDB (exShares 2 [okShare [1], okShare [1], okShare [2]]) = .accept := by decide
example : validateShares exCfg exDB (exShares 3 [okShare [1]]) = .reject := by decide
example : validateShares exCfg exDB (exShares 2 [okShare [2], okShare [1]]) = .reject := by decide
example : validateKeys exCfg exDB (exKeys [1, 2]) = .accept := by decide
example : validateKeys exCfg exDB (exKeys [1, 3]) = .reject := by decide

end Shutter.Properties.C04
