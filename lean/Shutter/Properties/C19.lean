/-
C19 — Gnosis keypers agree on each slot's identities and on the transaction pointer.
-/
import Shutter.Proofs.GnosisSlot
import Shutter.Generated.SqlFacts

namespace Shutter.Properties.C19
open Shutter.GnosisSlot Shutter.Sort List

/-- **Gas-bounded prefix of the queue.**  For every database content whose queue for the eon is complete,
    every non-negative pointer and every gas limit, with every queued transaction carrying at least the
    configured minimum gas: the transactions chosen for a slot are the first `k` queue entries from the
    pointer, in queue order, where `k ≥ 1` if anything is queued there, their gas sums to at most the
    limit whenever more than one is taken, and the next entry would not fit. -/
theorem C19_prefix (cfg : Cfg) (q : List Tx) (eon : Int) (ptr : Nat) (hc : Contig q eon) (hmin : 0 < cfg.minGas)
    (hgas : ∀ t ∈ q, t.eon = eon → cfg.minGas ≤ t.gas) :
    ∃ k, k ≤ ((queueOf q eon).drop ptr).length ∧
      selected cfg q eon ptr = ((queueOf q eon).drop ptr).take k ∧
      ((queueOf q eon).drop ptr ≠ [] → 1 ≤ k) ∧
      (1 < k → gasSum (((queueOf q eon).drop ptr).take k) ≤ cfg.gasLimit) ∧
      (k < ((queueOf q eon).drop ptr).length → cfg.gasLimit < gasSum (((queueOf q eon).drop ptr).take (k + 1))) := by
  unfold selected rowLimit
  rw [window_contig q eon ptr _ hc]
  have hg : ∀ t ∈ (queueOf q eon).drop ptr, cfg.minGas ≤ t.gas := by
    intro t ht
    have h1 : t ∈ queueOf q eon := (drop_sublist _ _).subset ht
    have h2 := mem_filter.1 ((mem_isort txLe).1 h1)
    exact hgas t h2.1 (by simpa [ofEon] using h2.2)
  rw [takeGas_rowLimit cfg.gasLimit cfg.minGas hmin _ hg]
  exact takeGas_spec cfg.gasLimit _

/-- without the assumption on the minimum gas the selection is still a prefix of the queue from the
    pointer, cut to at most `gasLimit / minGas + 1` rows -/
theorem C19_prefix_capped (cfg : Cfg) (q : List Tx) (eon : Int) (ptr : Nat) (hc : Contig q eon) :
    ∃ k, selected cfg q eon ptr = ((queueOf q eon).drop ptr).take k := by
  unfold selected
  rw [window_contig q eon ptr _ hc]
  obtain ⟨k, _, h, _⟩ := takeGas_spec cfg.gasLimit (((queueOf q eon).drop ptr).take (rowLimit cfg))
  exact ⟨min k (rowLimit cfg), by rw [h, take_take]⟩

/-- **Sorted.**  The requested list is sorted byte-wise and consists of exactly the slot identity and
    the identities of the chosen transactions. -/
theorem C19_sorted (cfg : Cfg) (q : List Tx) (eon ptr : Int) (slot : Nat) (ids : List Bytes)
    (h : identities cfg q eon ptr slot = some ids) :
    ids.Pairwise (fun a b => bytesLe a b = true) ∧ ids ~ slotId slot :: (selected cfg q eon ptr).map Tx.id := by
  unfold identities at h
  split at h
  · cases h
  · injection h with h
    subst h
    exact ⟨sortIds_pairwise _, sortIds_perm _⟩

/-- **Slot identity first.**  If every chosen transaction's identity is byte-wise above the slot identity
    (a zero 32-byte prefix followed by a sender address not above the slot number is the only way to
    violate this; see the example below), the list is the slot identity followed by the sorted
    transaction identities. -/
theorem C19_slot_first (cfg : Cfg) (q : List Tx) (eon ptr : Int) (slot : Nat) (ids : List Bytes)
    (h : identities cfg q eon ptr slot = some ids)
    (habove : ∀ t ∈ selected cfg q eon ptr, bytesLe t.id (slotId slot) = false) :
    ids = slotId slot :: sortIds ((selected cfg q eon ptr).map Tx.id) := by
  unfold identities at h
  split at h
  · cases h
  · injection h with h
    subst h
    apply sortIds_unique
    · exact Perm.cons _ (sortIds_perm _)
    · rw [pairwise_cons]
      refine ⟨?_, sortIds_pairwise _⟩
      intro b hb
      have hb' : b ∈ (selected cfg q eon ptr).map Tx.id := (sortIds_perm _).mem_iff.1 hb
      obtain ⟨t, ht, rfl⟩ := mem_map.1 hb'
      have := bytesLe_total (slotId slot) t.id
      rw [habove t ht] at this
      simpa using this

/-- the hypothesis of `C19_slot_first` cannot be dropped: a queued transaction with an all-zero prefix and
    sender address 1 sorts before the identity of slot 2 -/
example :
    identities { gasLimit := 100, minGas := 21, maxAge := 3 }
      [{ index := 0, eon := 0, pfx := List.replicate 32 0, sender := beBytes 20 1, gas := 21 }] 0 0 2 =
      some [List.replicate 32 0 ++ beBytes 20 1, slotId 2] := by decide

/-- **Agreement.**  Two keypers whose databases hold the same rows (in whatever physical order) and the
    same pointer compute byte-identical identity lists and the same queue length. -/
theorem C19_row_order (cfg : Cfg) (q q' : List Tx) (hp : q ~ q') (hk : Keyed q) (eon ptr : Int) (slot : Nat) :
    identities cfg q eon ptr slot = identities cfg q' eon ptr slot ∧ eventCount q eon = eventCount q' eon := by
  refine ⟨?_, eventCount_perm q q' hp eon⟩
  unfold identities selected
  rw [window_perm q q' hp hk]

/-- the whole trigger output (pointer and identities) agrees as well -/
theorem C19_agree (cfg : Cfg) (s s' : State) (hp : s.queue ~ s'.queue) (hk : Keyed s.queue)
    (hptr : ∀ e, s.ptrs.get? e = s'.ptrs.get? e) (eonE eonK : Int) (slot : Nat) :
    (trigger cfg s eonE eonK slot).1 = (trigger cfg s' eonE eonK slot).1 := by
  have hptr1 : (getTxPointer cfg s eonE).1 = (getTxPointer cfg s' eonE).1 := by
    unfold getTxPointer
    rw [← hptr eonE]
    cases s.ptrs.get? eonE with
    | none => rfl
    | some p =>
      simp only []
      rw [(C19_row_order cfg s.queue s'.queue hp hk eonE 0 0).2]
      split <;> rfl
  rw [trigger_fst, trigger_fst, ← hptr1, (C19_row_order cfg s.queue s'.queue hp hk eonK _ slot).1]

/-- **Pointer after a keys message.**  After a keys message with `k` keys at pointer `p` is processed
    (received or self-produced) the stored pointer is `p + k - 1` with age zero, whatever was stored. -/
theorem C19_pointer_advance (s : State) (eon p : Int) (k : Nat) :
    (keysProcessed s eon p k).ptrs.get? eon = some { value := p + k - 1, age := some 0 } ∧
      ∀ e, e ≠ eon → (keysProcessed s eon p k).ptrs.get? e = s.ptrs.get? e := by
  unfold keysProcessed
  exact ⟨AMap.get?_insert_self _ _ _, fun e he => AMap.get?_insert_ne _ _ (Ne.symm he)⟩

/-- **Where the next request starts.**  A missing pointer starts at 0 (and is stored as such); a pointer
    whose age is within the maximum is used as stored; a pointer whose age exceeds the maximum, or is
    unknown, is replaced by the event count — which on a complete queue is the queue length. -/
theorem C19_pointer_start (cfg : Cfg) (s : State) (eon : Int) :
    (s.ptrs.get? eon = none → (getTxPointer cfg s eon).1 = 0 ∧
        (getTxPointer cfg s eon).2.ptrs.get? eon = some { value := 0, age := some 0 }) ∧
    (∀ v a, s.ptrs.get? eon = some { value := v, age := some a } → a ≤ cfg.maxAge →
        (getTxPointer cfg s eon).1 = v) ∧
    (∀ v a, s.ptrs.get? eon = some { value := v, age := some a } → cfg.maxAge < a →
        (getTxPointer cfg s eon).1 = eventCount s.queue eon) ∧
    (∀ v, s.ptrs.get? eon = some { value := v, age := none } →
        (getTxPointer cfg s eon).1 = eventCount s.queue eon) ∧
    (Contig s.queue eon → eventCount s.queue eon = ((queueOf s.queue eon).length : Int)) := by
  refine ⟨?_, ?_, ?_, ?_, eventCount_contig s.queue eon⟩
  · intro h
    unfold getTxPointer
    rw [h]
    exact ⟨rfl, AMap.get?_insert_self _ _ _⟩
  · intro v a h ha
    unfold getTxPointer
    rw [h]
    have : outdated cfg { value := v, age := some a } = false := by
      simp only [outdated, decide_eq_false_iff_not]; omega
    simp only [this]
    rfl
  · intro v a h ha
    unfold getTxPointer
    rw [h]
    have : outdated cfg { value := v, age := some a } = true := by
      simp only [outdated, decide_eq_true_eq]; exact ha
    simp only [this, if_true]
  · intro v h
    unfold getTxPointer
    rw [h]
    simp only [outdated, if_true]

/-- ops that leave the pointer of `eon` alone apart from ageing it: submissions, and slot ticks;
    `ageing eon ops` counts the ticks that age it -/
def quiet : List Op → Prop
  | [] => True
  | .submit _ :: rest => quiet rest
  | .tick _ _ _ :: rest => quiet rest
  | _ :: _ => False

def ageing (eon : Int) : List Op → Nat
  | [] => 0
  | .tick _ eK _ :: rest => (if eK = eon then 1 else 0) + ageing eon rest
  | _ :: rest => ageing eon rest

theorem step_quiet_ptr (cfg : Cfg) (s : State) (eon v a : Int) (op : Op) (hq : quiet [op])
    (h : s.ptrs.get? eon = some { value := v, age := some a }) :
    (step cfg s op).ptrs.get? eon = some { value := v, age := some (a + ageing eon [op]) } := by
  cases op with
  | submit t => simpa [step, submit, ageing] using h
  | keys e p k => exact absurd hq (by simp [quiet])
  | restart => exact absurd hq (by simp [quiet])
  | tick eE eK slot =>
    -- ageing
    have hage : (incAge s eK).ptrs.get? eon = some { value := v, age := some (a + ageing eon [.tick eE eK slot]) } := by
      unfold incAge
      by_cases hk : eK = eon
      · subst hk
        rw [h]
        simp only [ageing, if_true, AMap.get?_insert_self, Option.map_some]
        congr 3
      · cases hg : s.ptrs.get? eK with
        | none => simp only [ageing, if_neg hk]; rw [h]; simp
        | some p =>
          simp only [ageing, if_neg hk]
          rw [AMap.get?_insert_ne _ _ hk, h]; simp
    -- the pointer read does not write an existing row, the trigger record is another table
    generalize (a + ageing eon [.tick eE eK slot] : Int) = a' at hage ⊢
    show (trigger cfg (incAge s eK) eE eK slot).2.ptrs.get? eon = _
    rw [trigger_ptrs]
    generalize incAge s eK = s1 at hage
    unfold getTxPointer
    cases hg : s1.ptrs.get? eE with
    | none =>
      simp only []
      have hne : eE ≠ eon := by
        intro he; subst he; rw [hage] at hg; cases hg
      rw [AMap.get?_insert_ne _ _ hne]; exact hage
    | some p =>
      simp only []
      split <;> exact hage

/-- **Pointer through a history.**  From any state, after a keys message with `k` keys at pointer `p`
    followed by any interleaving of queue submissions and slot ticks (of any eon) — no further keys
    message and no restart — the stored pointer is still `p + k - 1` and its age is the number of ticks
    of that keyper set since; hence the next request starts at `p + k - 1` as long as that number is at
    most the maximum age, and at the event count once it exceeds it. -/
theorem C19_pointer_history (cfg : Cfg) (s : State) (eon p : Int) (k : Nat) (ops : List Op) (hq : quiet ops) :
    (run cfg (keysProcessed s eon p k) ops).ptrs.get? eon =
      some { value := p + k - 1, age := some (ageing eon ops : Nat) } := by
  have base := (C19_pointer_advance s eon p k).1
  generalize keysProcessed s eon p k = s0 at base
  have gen : ∀ (ops : List Op) (s0 : State) (a : Nat), quiet ops →
      s0.ptrs.get? eon = some { value := p + k - 1, age := some (a : Int) } →
      (run cfg s0 ops).ptrs.get? eon = some { value := p + k - 1, age := some ((a + ageing eon ops : Nat) : Int) } := by
    intro ops
    induction ops with
    | nil => intro s0 a _ h; simpa [run, ageing] using h
    | cons op rest ih =>
      intro s0 a hq h
      have hq1 : quiet [op] ∧ quiet rest := by
        cases op <;> simp_all [quiet]
      have h1 := step_quiet_ptr cfg s0 eon (p + k - 1) a op hq1.1 h
      have hnat : (a : Int) + (ageing eon [op] : Nat) = ((a + ageing eon [op] : Nat) : Int) := by omega
      rw [hnat] at h1
      have := ih (step cfg s0 op) (a + ageing eon [op]) hq1.2 h1
      simp only [run, foldl_cons] at this ⊢
      rw [this]
      have : ageing eon (op :: rest) = ageing eon [op] + ageing eon rest := by
        cases op <;> simp [ageing]
      rw [this, Nat.add_assoc]
  have := gen ops s0 0 hq (by simpa using base)
  simpa using this

/-- consequence: where the request after such a history starts -/
theorem C19_pointer_next (cfg : Cfg) (s : State) (eon p : Int) (k : Nat) (ops : List Op) (hq : quiet ops) :
    let s' := run cfg (keysProcessed s eon p k) ops
    ((ageing eon ops : Int) ≤ cfg.maxAge → (getTxPointer cfg s' eon).1 = p + k - 1) ∧
    (cfg.maxAge < (ageing eon ops : Int) → (getTxPointer cfg s' eon).1 = eventCount s'.queue eon) := by
  intro s'
  have h := C19_pointer_history cfg s eon p k ops hq
  have hs := C19_pointer_start cfg s' eon
  exact ⟨fun ha => hs.2.1 _ _ h ha, fun ha => hs.2.2.1 _ _ h ha⟩

/-- after a restart every stored pointer has an unknown age, so every next request starts at the event
    count -/
theorem C19_restart (cfg : Cfg) (s : State) (eon : Int) (p : Ptr) (h : s.ptrs.get? eon = some p) :
    (getTxPointer cfg (resetAges s) eon).1 = eventCount s.queue eon := by
  have : (resetAges s).ptrs.get? eon = some { value := p.value, age := none } := by
    unfold resetAges
    simp only [get?_map_age, h, Option.map_some]
  exact (C19_pointer_start cfg (resetAges s) eon).2.2.2.1 _ this

/-- the SQL the model's table operations stand for, as extracted from the source on this run -/
theorem C19_sql_pinned :
    Shutter.Generated.SqlFacts.gnosis_GetTransactionSubmittedEvents =
      "SELECT index, block_number, block_hash, tx_index, log_index, eon, identity_prefix, sender, gas_limit FROM transaction_submitted_event WHERE eon = $1 AND index >= $2 AND index < $2 + $3 ORDER BY index ASC LIMIT $3" ∧
    Shutter.Generated.SqlFacts.gnosis_GetTransactionSubmittedEventCount =
      "SELECT cast(coalesce(max(index) + 1, 0) AS bigint) FROM transaction_submitted_event WHERE eon = $1" ∧
    Shutter.Generated.SqlFacts.gnosis_GetTxPointer =
      "SELECT eon, age, value FROM tx_pointer WHERE eon = $1" ∧
    Shutter.Generated.SqlFacts.gnosis_SetTxPointer =
      "INSERT INTO tx_pointer (eon, age, value) VALUES ($1, $2, $3) ON CONFLICT (eon) DO UPDATE SET age = $2, value = $3" ∧
    Shutter.Generated.SqlFacts.gnosis_IncrementTxPointerAge =
      "UPDATE tx_pointer SET age = age + 1 WHERE eon = $1 RETURNING age" ∧
    Shutter.Generated.SqlFacts.gnosis_ResetAllTxPointerAges =
      "UPDATE tx_pointer SET age = NULL" ∧
    Shutter.Generated.SqlFacts.keyper_GetEonForBlockNumber =
      "SELECT eon, height, activation_block_number, keyper_config_index FROM eons WHERE activation_block_number <= $1 ORDER BY activation_block_number DESC, height DESC LIMIT 1" ∧
    Shutter.Generated.SqlFacts.obskeyper_GetKeyperSet =
      "SELECT keyper_config_index, activation_block_number, keypers, threshold FROM keyper_set WHERE activation_block_number <= $1 ORDER BY activation_block_number DESC LIMIT 1" :=
  ⟨rfl, rfl, rfl, rfl, rfl, rfl, rfl, rfl⟩

/-! ### non-vacuity -/

def exCfg : Cfg := { gasLimit := 100, minGas := 21, maxAge := 2 }
def exQueue : List Tx :=
  [ { index := 1, eon := 0, pfx := [9, 1], sender := [7], gas := 40 },
    { index := 0, eon := 0, pfx := [9, 0], sender := [7], gas := 30 },
    { index := 2, eon := 0, pfx := [8, 2], sender := [7], gas := 50 },
    { index := 0, eon := 1, pfx := [5], sender := [7], gas := 21 } ]

example : Contig exQueue 0 ∧ Keyed exQueue ∧ (∀ t ∈ exQueue, t.eon = 0 → exCfg.minGas ≤ t.gas) := by
  refine ⟨by decide, ?_, by decide⟩
  unfold Keyed; decide

example : (selected exCfg exQueue 0 0).map (·.index) = [0, 1] := by decide
example : (selected exCfg exQueue 0 2).map (·.index) = [2] := by decide
example : (selected exCfg exQueue 0 3) = [] := by decide
example : eventCount exQueue 0 = 3 := by decide
example : quiet [.tick 0 0 5, .submit { index := 3, eon := 0, pfx := [1], sender := [2], gas := 30 }, .tick 1 1 6] ∧
    ageing 0 [.tick 0 0 5, .submit { index := 3, eon := 0, pfx := [1], sender := [2], gas := 30 }, .tick 1 1 6] = 1 := by
  simp [quiet, ageing]

end Shutter.Properties.C19
