/-
C05 — No byte string on any gossip topic can crash a node.

What is proved: every place where the gossip-processing code indexes, slices or type-asserts on
message-derived data is listed from the source on every run (`C05_sites_pinned`), each is assigned one of
the guards modelled in `Model/Panic.lean` (`C05_all_classified`), and for each guard the partial operation
never yields `panic`, for every input (`C05_total_*`).  "Never hangs" and "bounded allocation" are not
expressible in this model; they are searched for by the differential run only (partial claim).
-/
import Shutter.Model.Panic
import Shutter.Generated.SiteFacts

namespace Shutter.Properties.C05
open Shutter.Panic List

/-- the sites as they are in the source this was written against, each with its guard -/
def classified : List ((String × String × String × String) × String) := [
  (("p2p/messaging.go", "ValidatorRegistry.GetCombinedValidator", "index", "(*r)[topic]"), "map-lookup"),
  (("p2p/messaging.go", "P2PMessaging.AddHandlerFunc", "index", "m.handlerRegistry[messageType]"), "map-lookup"),
  (("p2p/messaging.go", "P2PMessaging.AddHandlerFunc", "index", "m.handlerRegistry[messageType]"), "map-lookup"),
  (("p2p/messaging.go", "P2PMessaging.addValidatorImpl", "index", "m.validatorRegistry[topic]"), "map-lookup"),
  (("p2p/messaging.go", "P2PMessaging.addValidatorImpl", "index", "m.validatorRegistry[topic]"), "map-lookup"),
  (("p2p/messaging.go", "P2PMessaging.addValidatorImpl", "index", "m.validatorRegistry[topic]"), "map-lookup"),
  (("p2p/messaging.go", "P2PMessaging.AddGossipTopic", "index", "m.gossipTopicNames[topic]"), "map-lookup"),
  (("p2p/messaging.go", "P2PMessaging.Handle", "index", "m.handlerRegistry[messageName]"), "map-lookup"),
  (("p2pmsg/messages.go", "DecryptionKeys.LogInfo", "index", "keys.Keys[0]"), "first-under-nonempty"),
  (("keyper/epochkghandler/keyshare.go", "DecryptionKeyShareHandler.ValidateMessage", "assert", "msg.(*p2pmsg.DecryptionKeyShares)"), "type-by-registration"),
  (("keyper/epochkghandler/keyshare.go", "checkKeyShares", "index", "pureDKGResult.PublicKeyShares[keyShare.KeyperIndex]"), "index-below-checked-length"),
  (("keyper/epochkghandler/keyshare.go", "checkKeyShares", "index", "shares[i-1]"), "i-1-under-i>0"),
  (("keyper/epochkghandler/keyshare.go", "DecryptionKeyShareHandler.HandleMessage", "assert", "m.(*p2pmsg.DecryptionKeyShares)"), "type-by-registration"),
  (("keyper/epochkghandler/keyshare.go", "DecryptionKeyShareHandler.HandleMessage", "index", "epochKG.SecretKeys[identityPreimage.Hex()]"), "map-lookup"),
  (("keyper/epochkghandler/key.go", "DecryptionKeyHandler.ValidateMessage", "assert", "msg.(*p2pmsg.DecryptionKeys)"), "type-by-registration"),
  (("keyper/epochkghandler/key.go", "checkKeysErrors", "index", "decryptionKeys.Keys[i-1]"), "i-1-under-i>0"),
  (("keyper/epochkghandler/key.go", "DecryptionKeyHandler.HandleMessage", "assert", "msg.(*p2pmsg.DecryptionKeys)"), "type-by-registration"),
  (("keyper/epochkghandler/eonpublickey.go", "EonPublicKeyHandler.ValidateMessage", "assert", "msg.(*p2pmsg.EonPublicKey)"), "type-by-registration"),
  (("keyperimpl/gnosis/handlers.go", "DecryptionKeySharesHandler.ValidateMessage", "assert", "msg.(*p2pmsg.DecryptionKeyShares)"), "type-by-registration"),
  (("keyperimpl/gnosis/handlers.go", "DecryptionKeySharesHandler.ValidateMessage", "index", "keyperSet.Keypers[keyShares.KeyperIndex]"), "index-below-checked-length"),
  (("keyperimpl/gnosis/handlers.go", "DecryptionKeySharesHandler.HandleMessage", "assert", "msg.(*p2pmsg.DecryptionKeyShares)"), "type-by-registration"),
  (("keyperimpl/gnosis/handlers.go", "DecryptionKeySharesHandler.HandleMessage", "assert", "keyShares.Extra.(*p2pmsg.DecryptionKeyShares_Gnosis)"), "extra-checked-by-validator"),
  (("keyperimpl/gnosis/handlers.go", "validateSignerIndices", "index", "extra.SignerIndices[i-1]"), "i-1-under-i>0"),
  (("keyperimpl/gnosis/handlers.go", "ValidateDecryptionKeysSignatures", "index", "extra.Signatures[signatureIndex]"), "parallel-lists-equal-length"),
  (("keyperimpl/gnosis/handlers.go", "ValidateDecryptionKeysSignatures", "index", "signers[signatureIndex]"), "parallel-lists-equal-length"),
  (("keyperimpl/gnosis/handlers.go", "DecryptionKeysHandler.ValidateMessage", "assert", "msg.(*p2pmsg.DecryptionKeys)"), "type-by-registration"),
  (("keyperimpl/gnosis/handlers.go", "DecryptionKeysHandler.ValidateMessage", "assert", "keys.Extra.(*p2pmsg.DecryptionKeys_Gnosis)"), "extra-checked-by-validator"),
  (("keyperimpl/gnosis/handlers.go", "DecryptionKeysHandler.HandleMessage", "assert", "msg.(*p2pmsg.DecryptionKeys)"), "type-by-registration"),
  (("keyperimpl/gnosis/handlers.go", "DecryptionKeysHandler.HandleMessage", "assert", "keys.Extra.(*p2pmsg.DecryptionKeys_Gnosis)"), "extra-checked-by-validator"),
  (("keyperimpl/gnosis/handlers.go", "DecryptionKeysHandler.HandleMessage", "index", "extra.Signatures[i]"), "parallel-lists-checked-by-validator"),
  (("keyperimpl/gnosis/messagingmiddleware.go", "MessagingMiddleware.interceptDecryptionKeyShares", "assert", "proto.Clone(originalMsg).(*p2pmsg.DecryptionKeyShares)"), "clone-keeps-type"),
  (("keyperimpl/gnosis/messagingmiddleware.go", "MessagingMiddleware.interceptDecryptionKeys", "assert", "proto.Clone(originalMsg).(*p2pmsg.DecryptionKeys)"), "clone-keeps-type"),
  (("keyperimpl/gnosis/messagingmiddleware.go", "MessagingMiddleware.advanceTxPointer", "assert", "msg.Extra.(*p2pmsg.DecryptionKeys_Gnosis)"), "extra-checked-by-validator"),
  (("keyperimpl/shutterservice/handlers.go", "DecryptionKeySharesHandler.ValidateMessage", "assert", "msg.(*p2pmsg.DecryptionKeyShares)"), "type-by-registration"),
  (("keyperimpl/shutterservice/handlers.go", "DecryptionKeySharesHandler.ValidateMessage", "index", "keyperSet.Keypers[keyShares.KeyperIndex]"), "index-below-checked-length"),
  (("keyperimpl/shutterservice/handlers.go", "DecryptionKeySharesHandler.HandleMessage", "assert", "msg.(*p2pmsg.DecryptionKeyShares)"), "type-by-registration"),
  (("keyperimpl/shutterservice/handlers.go", "DecryptionKeySharesHandler.HandleMessage", "assert", "keyShares.Extra.(*p2pmsg.DecryptionKeyShares_Service)"), "extra-checked-by-validator"),
  (("keyperimpl/shutterservice/handlers.go", "validateSignerIndices", "index", "extra.SignerIndices[i-1]"), "i-1-under-i>0"),
  (("keyperimpl/shutterservice/handlers.go", "ValidateDecryptionKeysSignatures", "index", "extra.Signature[signatureIndex]"), "parallel-lists-equal-length"),
  (("keyperimpl/shutterservice/handlers.go", "ValidateDecryptionKeysSignatures", "index", "signers[signatureIndex]"), "parallel-lists-equal-length"),
  (("keyperimpl/shutterservice/handlers.go", "DecryptionKeysHandler.ValidateMessage", "assert", "msg.(*p2pmsg.DecryptionKeys)"), "type-by-registration"),
  (("keyperimpl/shutterservice/handlers.go", "DecryptionKeysHandler.HandleMessage", "assert", "msg.(*p2pmsg.DecryptionKeys)"), "type-by-registration"),
  (("keyperimpl/shutterservice/handlers.go", "DecryptionKeysHandler.HandleMessage", "assert", "keys.Extra.(*p2pmsg.DecryptionKeys_Service)"), "extra-checked-by-validator"),
  (("keyperimpl/shutterservice/handlers.go", "DecryptionKeysHandler.HandleMessage", "index", "extra.Signature[i]"), "parallel-lists-checked-by-validator"),
  (("keyperimpl/shutterservice/messagingmiddleware.go", "MessagingMiddleware.interceptDecryptionKeyShares", "assert", "proto.Clone(originalMsg).(*p2pmsg.DecryptionKeyShares)"), "clone-keeps-type"),
  (("keyperimpl/shutterservice/messagingmiddleware.go", "MessagingMiddleware.interceptDecryptionKeys", "assert", "proto.Clone(originalMsg).(*p2pmsg.DecryptionKeys)"), "clone-keeps-type"),
  (("keyperimpl/primev/handler.go", "getBidderNodeAddress", "index", "signatureBytes[64]"), "fixed-length-checked"),
  (("keyperimpl/primev/handler.go", "getBidderNodeAddress", "index", "signatureBytes[64]"), "fixed-length-checked"),
  (("keyperimpl/primev/handler.go", "getBidderNodeAddress", "index", "signatureBytes[64]"), "fixed-length-checked"),
  (("keyperimpl/snapshot/trigger.go", "DecryptionTriggerHandler.ValidateMessage", "assert", "msg.(*p2pmsg.DecryptionTrigger)"), "type-by-registration"),
  (("gnosisaccessnode/decryptionkeyshandler.go", "DecryptionKeysHandler.ValidateMessage", "assert", "msg.(*p2pmsg.DecryptionKeys)"), "type-by-registration"),
  (("gnosisaccessnode/decryptionkeyshandler.go", "DecryptionKeysHandler.validateCommonFields", "index", "keys.Keys[i-1]"), "i-1-under-i>0"),
  (("gnosisaccessnode/decryptionkeyshandler.go", "DecryptionKeysHandler.validateGnosisFields", "assert", "keys.Extra.(*p2pmsg.DecryptionKeys_Gnosis)"), "extra-checked-by-caller"),
  (("snapshot/handler.go", "DecryptionKeyHandler.ValidateMessage", "assert", "msg.(*p2pmsg.DecryptionKeys)"), "type-by-registration"),
  (("snapshot/handler.go", "EonPublicKeyHandler.ValidateMessage", "assert", "msg.(*p2pmsg.EonPublicKey)"), "type-by-registration"),
  (("snapshot/handler.go", "DecryptionKeyHandler.HandleMessage", "assert", "m.(*p2pmsg.DecryptionKeys)"), "type-by-registration"),
  (("snapshot/handler.go", "EonPublicKeyHandler.HandleMessage", "assert", "m.(*p2pmsg.EonPublicKey)"), "type-by-registration")]

/-- the guards that have a theorem below (`map-lookup`, `clone-keeps-type` and `type-by-registration` never
    fail in Go: a map lookup yields the zero value, `proto.Clone` returns its argument's type, and a handler
    is only called with messages of the type it was registered for — `addValidatorImpl` compares
    `reflect.TypeOf` with the prototype, `Handle` looks the handler up by message name) -/
def guards : List String :=
  ["map-lookup", "clone-keeps-type", "type-by-registration", "extra-checked-by-validator", "extra-checked-by-caller",
   "i-1-under-i>0", "index-below-checked-length", "parallel-lists-equal-length", "parallel-lists-checked-by-validator",
   "fixed-length-checked", "first-under-nonempty"]

/-- **The list of sites is the source's.**  Regenerated on every run; a new, removed or changed index, slice
    or unchecked type assertion in the gossip-processing files breaks this. -/
theorem C05_sites_pinned : Shutter.Generated.SiteFacts.sites = classified.map (·.1) := by decide

/-- every site has one of the modelled guards -/
theorem C05_all_classified : ∀ c ∈ classified, c.2 ∈ guards := by decide

/-! ### no guard lets a panic through -/

theorem idx_lt {α : Type} (l : List α) (i : Nat) (h : i < l.length) : ∃ x, idx l i = some x := by
  unfold idx
  exact ⟨l[i], by simp [h]⟩

/-- index below a checked length -/
theorem C05_total_guardedIndex {α : Type} (l : List α) (i : Nat) (use : α → Outcome) (huse : ∀ x, use x ≠ .panic) :
    guardedIndex l i use ≠ .panic := by
  unfold guardedIndex
  split
  · simp
  · rename_i h
    obtain ⟨x, hx⟩ := idx_lt l i (by omega)
    rw [hx]
    exact huse x

/-- the ordering loops -/
theorem C05_total_orderLoop {α : Type} (less : α → α → Bool) (l : List α) (fuel i : Nat) :
    orderLoop less l fuel i ≠ .panic := by
  induction fuel generalizing i with
  | zero => simp [orderLoop]
  | succ n ih =>
    unfold orderLoop
    split
    · simp
    · rename_i h
      obtain ⟨x, hx⟩ := idx_lt l i (by omega)
      rw [hx]
      simp only []
      split
      · obtain ⟨y, hy⟩ := idx_lt l (i - 1) (by omega)
        rw [hy]
        simp only []
        split
        · simp
        · exact ih (i + 1)
      · exact ih (i + 1)

theorem parallelLoop_total {α β : Type} (check : α → β → Bool) (sigs : List α) (signers : List β)
    (hlen : sigs.length = signers.length) (fuel i : Nat) : parallelLoop check sigs signers fuel i ≠ .panic := by
  induction fuel generalizing i with
  | zero => simp [parallelLoop]
  | succ n ih =>
    unfold parallelLoop
    split
    · simp
    · rename_i h
      obtain ⟨x, hx⟩ := idx_lt sigs i (by omega)
      obtain ⟨y, hy⟩ := idx_lt signers i (by omega)
      rw [hx, hy]
      simp only []
      split
      · exact ih (i + 1)
      · simp

/-- parallel lists of checked equal length (validators) -/
theorem C05_total_validateParallel {α β : Type} (check : α → β → Bool) (sigs : List α) (signers : List β) :
    validateParallel check sigs signers ≠ .panic := by
  unfold validateParallel
  split
  · simp
  · rename_i h
    exact parallelLoop_total check sigs signers (by omega) _ _

theorem handleParallel_total {α β : Type} (signerIndices : List β) (signatures : List α)
    (hlen : signatures.length = signerIndices.length) (fuel i : Nat) :
    handleParallel signerIndices signatures fuel i ≠ .panic := by
  induction fuel generalizing i with
  | zero => simp [handleParallel]
  | succ n ih =>
    unfold handleParallel
    split
    · simp
    · rename_i h
      obtain ⟨x, hx⟩ := idx_lt signatures i (by omega)
      rw [hx]
      exact ih (i + 1)

/-- parallel lists in the handlers: on the receive path the handler's loop over the signer indices runs only
    on a message whose validator checked that both lists have the same length -/
theorem C05_total_receiveParallel {α β : Type} (check : α → β → Bool) (m : List α × List β) :
    receive (fun m => validateParallel check m.1 m.2) (fun m => handleParallel m.2 m.1 m.2.length 0) m ≠ .panic := by
  show (match validateParallel check m.1 m.2 with
    | .accept => handleParallel m.2 m.1 m.2.length 0
    | o => o) ≠ .panic
  cases hv : validateParallel check m.1 m.2 with
  | panic => exact absurd hv (C05_total_validateParallel check m.1 m.2)
  | reject => simp
  | accept =>
    simp only []
    have hlen : m.1.length = m.2.length := by
      unfold validateParallel at hv
      split at hv
      · cases hv
      · omega
    exact handleParallel_total m.2 m.1 hlen _ _

/-- fixed length before a constant index -/
theorem C05_total_fixedIndex (sig : List Nat) (use : Nat → Outcome) (huse : ∀ x, use x ≠ .panic) :
    fixedIndex sig use ≠ .panic := by
  unfold fixedIndex
  split
  · simp
  · rename_i h
    obtain ⟨x, hx⟩ := idx_lt sig 64 (by omega)
    rw [hx]
    exact huse x

/-- first element under a non-empty test -/
theorem C05_total_firstOrNone {α : Type} (l : List α) : firstOrNone l ≠ .panic := by
  unfold firstOrNone
  split
  · simp
  · rename_i h
    obtain ⟨x, hx⟩ := idx_lt l 0 (by omega)
    rw [hx]
    simp

/-- the `Extra` assertion in the handlers: reached only when the validator saw the Gnosis variant with a
    non-nil payload (the Shutter-service handlers are the same with the variants exchanged) -/
theorem C05_total_receiveExtra {γ σ : Type} (rest use : γ → Outcome) (huse : ∀ g, use g ≠ .panic)
    (hrest : ∀ g, rest g ≠ .panic) (e : Extra γ σ) :
    receive (fun e => validateGnosisExtra e rest) (fun e => handleGnosisExtra e use) e ≠ .panic := by
  unfold receive
  cases e with
  | absent => simp [validateGnosisExtra]
  | service s => simp [validateGnosisExtra]
  | gnosis g =>
    cases g with
    | none => simp [validateGnosisExtra]
    | some g =>
      simp only [validateGnosisExtra, handleGnosisExtra]
      cases hr : rest g with
      | panic => exact absurd hr (hrest g)
      | reject => simp
      | accept => exact huse g

/-! ### non-vacuity: without its guard each operation does panic -/

example : idx [1, 2, 3] 3 = none := by decide
example : handleGnosisExtra (Extra.service (σ := Nat) (γ := Nat) none) (fun _ => .accept) = .panic := rfl
example : handleParallel [0, 1] [7] 2 0 = .panic := by decide
example : validateParallel (fun (_ _ : Nat) => true) [7] [0, 1] = .reject := by decide

end Shutter.Properties.C05
