/-
C12 — Validator updates always lead to the intended, live validator set.

Only property theorems and their non-vacuity examples live here; helper lemmas are in
`Shutter/Proofs/Powermap.lean`.
-/
import Shutter.Proofs.Powermap

namespace Shutter.Properties.C12
open Shutter Shutter.App Shutter.App.App

/-- no entry of the map has power zero (Tendermint never holds a zero-power validator) -/
def NoZero (m : AMap PubKey Int) : Prop := ∀ k, AMap.get? m k ≠ some 0

/-- **Diff/apply.**  For every pair of power maps without zero-power entries, in whatever order Go
    happens to range over them, applying the emitted validator updates to the old set the way
    Tendermint does succeeds and yields exactly the new set. -/
theorem C12_diff_apply (oldm newm : AMap PubKey Int) (oldL newL : List (PubKey × Int))
    (ho : Listing oldm oldL) (hn : Listing newm newL) (hz : NoZero newm) :
    ∃ m', tmApply oldm (validatorUpdatesOn (diffPowermapsOn oldm newm oldL newL)) = some m' ∧
      ∀ k, AMap.get? m' k = AMap.get? newm k := by
  have hnd := keys_diff_nodup oldm newm oldL newL
  have hperm := sortByKey_perm (diffPowermapsOn oldm newm oldL newL)
  have hnd' : ((validatorUpdatesOn (diffPowermapsOn oldm newm oldL newL)).map (·.1)).Nodup :=
    (hperm.map (fun e : PubKey × Int => e.1)).nodup_iff.2 hnd
  have hlook : ∀ k, updLookup (validatorUpdatesOn (diffPowermapsOn oldm newm oldL newL)) k =
      AMap.get? (diffPowermapsOn oldm newm oldL newL) k := by
    intro k
    unfold updLookup validatorUpdatesOn
    cases h : AMap.get? (diffPowermapsOn oldm newm oldL newL) k with
    | some v =>
      have : (k, v) ∈ sortByKey (diffPowermapsOn oldm newm oldL newL) :=
        hperm.mem_iff.2 ((mem_iff_get?_of_nodup _ hnd k v).2 h)
      exact (mem_iff_get?_of_nodup _ hnd' k v).1 this
    | none =>
      cases h2 : AMap.get? (sortByKey (diffPowermapsOn oldm newm oldL newL)) k with
      | none => rfl
      | some v =>
        have : (k, v) ∈ diffPowermapsOn oldm newm oldL newL :=
          hperm.mem_iff.1 ((mem_iff_get?_of_nodup _ hnd' k v).2 h2)
        rw [(mem_iff_get?_of_nodup _ hnd k v).1 this] at h
        cases h
  have hrem : ∀ k, (k, (0 : Int)) ∈ validatorUpdatesOn (diffPowermapsOn oldm newm oldL newL) →
      oldm.contains k := by
    intro k hk
    have h1 : AMap.get? (diffPowermapsOn oldm newm oldL newL) k = some 0 :=
      (mem_iff_get?_of_nodup _ hnd k 0).1 (hperm.mem_iff.1 hk)
    rw [get?_diff _ _ _ _ ho hn] at h1
    cases hnk : AMap.get? newm k with
    | some v =>
      simp only [hnk] at h1
      by_cases hne : oldm.getD k 0 = v
      · simp [hne] at h1
      · simp only [ne_eq, hne, not_false_eq_true, if_true, Option.some.injEq] at h1
        subst h1; exact absurd hnk (hz k)
    | none =>
      simp only [hnk] at h1
      by_cases hc : oldm.contains k
      · exact hc
      · simp [hc] at h1
  obtain ⟨m', hm', hget⟩ := tmApply_spec _ oldm hnd' hrem
  refine ⟨m', hm', ?_⟩
  intro k
  rw [hget k, hlook k, get?_diff _ _ _ _ ho hn]
  cases hnk : AMap.get? newm k with
  | some v =>
    simp only
    by_cases hne : oldm.getD k 0 = v
    · simp only [ne_eq, hne, not_true_eq_false, if_false]
      -- unchanged entry: old already maps k to v (v ≠ 0, so the default was not used)
      have hv0 : v ≠ 0 := by intro h; subst h; exact hz k hnk
      unfold AMap.getD at hne
      cases ho' : AMap.get? oldm k with
      | some w => simp [ho'] at hne; simp [hne]
      | none => simp [ho'] at hne; exact absurd hne.symm hv0
    · have hv0 : v ≠ 0 := by intro h; subst h; exact hz k hnk
      simp [hne, hv0]
  | none =>
    simp only
    by_cases hc : oldm.contains k
    · simp [hc]
    · simp only [hc, Bool.false_eq_true, if_false]
      simpa [AMap.contains] using hc

/-- **Sorted, duplicate-free.**  The update list is strictly increasing in the validator key. -/
theorem C12_updates_sorted (oldm newm : AMap PubKey Int) (oldL newL : List (PubKey × Int)) :
    SortedLT (validatorUpdatesOn (diffPowermapsOn oldm newm oldL newL)) := by
  have hnd := keys_diff_nodup oldm newm oldL newL
  have hperm := sortByKey_perm (diffPowermapsOn oldm newm oldL newL)
  exact sortedLT_of_sortedLE_nodup _ (sortByKey_sorted _) ((hperm.map (fun e : PubKey × Int => e.1)).nodup_iff.2 hnd)

/-- **Never removes an absent validator.** -/
theorem C12_removals_present (oldm newm : AMap PubKey Int) (oldL newL : List (PubKey × Int))
    (ho : Listing oldm oldL) (hn : Listing newm newL) (hz : NoZero newm) (k : PubKey)
    (hk : (k, (0 : Int)) ∈ validatorUpdatesOn (diffPowermapsOn oldm newm oldL newL)) :
    oldm.contains k = true := by
  have hnd := keys_diff_nodup oldm newm oldL newL
  have hperm := sortByKey_perm (diffPowermapsOn oldm newm oldL newL)
  have h1 : AMap.get? (diffPowermapsOn oldm newm oldL newL) k = some 0 :=
    (mem_iff_get?_of_nodup _ hnd k 0).1 (hperm.mem_iff.1 hk)
  rw [get?_diff _ _ _ _ ho hn] at h1
  cases hnk : AMap.get? newm k with
  | some v =>
    simp only [hnk] at h1
    by_cases hne : oldm.getD k 0 = v
    · simp [hne] at h1
    · simp only [ne_eq, hne, not_false_eq_true, if_true, Option.some.injEq] at h1
      subst h1; exact absurd hnk (hz k)
  | none =>
    simp only [hnk] at h1
    by_cases hc : oldm.contains k
    · exact hc
    · simp [hc] at h1

/-- **Order independence.**  The update list does not depend on the order in which the two maps
    are ranged over. -/
theorem C12_order_independent (oldm newm : AMap PubKey Int)
    (oldL oldL' newL newL' : List (PubKey × Int))
    (ho : Listing oldm oldL) (ho' : Listing oldm oldL')
    (hn : Listing newm newL) (hn' : Listing newm newL') :
    validatorUpdatesOn (diffPowermapsOn oldm newm oldL newL) =
      validatorUpdatesOn (diffPowermapsOn oldm newm oldL' newL') :=
  updates_listing_independent oldm newm oldL oldL' newL newL' ho ho' hn hn'

/-- **Liveness quorum.**  Whenever a configuration's validators are switched in, the keypers that
    have checked in number more than two thirds of the set (each holds ten units of power). -/
theorem C12_live (c : BatchConfig) (checkedIn : Nat) (hn : 0 < c.keypers.length)
    (h : numRequiredTransitionValidators c ≤ checkedIn) :
    2 * c.keypers.length < 3 * checkedIn := by
  unfold numRequiredTransitionValidators at h
  simp only [Nat.ne_of_gt hn, if_false] at h
  split at h <;> omega

/-- the quorum is also never below the security threshold -/
theorem C12_quorum_ge_threshold (c : BatchConfig) (hn : 0 < c.keypers.length) :
    c.threshold ≤ numRequiredTransitionValidators c := by
  unfold numRequiredTransitionValidators
  simp only [Nat.ne_of_gt hn, if_false]
  split <;> omega

/-! non-vacuity: concrete maps meeting the hypotheses, with a removal, a change and an addition -/
example :
    let oldm : AMap PubKey Int := [(1, 10), (2, 20), (3, 10)]
    let newm : AMap PubKey Int := [(2, 10), (3, 10), (4, 30)]
    validatorUpdatesOn (diffPowermapsOn oldm newm oldm.reverse newm) = [(1, 0), (2, 10), (4, 30)]
    ∧ tmApply oldm [(1, 0), (2, 10), (4, 30)] = some [(2, 10), (3, 10), (4, 30)] := by
  decide

example : NoZero [(2, 10), (3, 10), (4, 30)] := by
  intro k; simp only [AMap.get?]; split
  · simp
  · split
    · simp
    · split <;> simp

theorem amap_eq_nil_of_get?_none (m : AMap PubKey Int) (h : ∀ k, AMap.get? m k = none) : m = [] := by
  cases m with
  | nil => rfl
  | cons e rest =>
    obtain ⟨a, b⟩ := e
    have := h a
    simp [AMap.get?] at this

/-- **No change, no updates.**  When the intended validator set equals the previous one (the two power maps
    agree on every key), the block returns an empty update list — in whatever order the maps are ranged over. -/
theorem C12_no_change (oldm newm : AMap PubKey Int) (oldL newL : List (PubKey × Int))
    (ho : Listing oldm oldL) (hn : Listing newm newL)
    (heq : ∀ k, AMap.get? oldm k = AMap.get? newm k) :
    validatorUpdatesOn (diffPowermapsOn oldm newm oldL newL) = [] := by
  have hd : diffPowermapsOn oldm newm oldL newL = [] := by
    apply amap_eq_nil_of_get?_none
    intro k
    rw [get?_diff oldm newm oldL newL ho hn k]
    cases hk : AMap.get? newm k with
    | none => simp [AMap.contains, heq k, hk]
    | some v => simp [AMap.getD, heq k, hk]
  rw [hd]; rfl

/-- **Every update is needed.**  Each entry of the update list changes the previous set: a positive power differs
    from the validator's previous power (absent counting as zero) and is its intended power; a removal (power 0)
    is of a validator that is present and not intended. -/
theorem C12_minimal (oldm newm : AMap PubKey Int) (oldL newL : List (PubKey × Int))
    (ho : Listing oldm oldL) (hn : Listing newm newL) (k : PubKey) (v : Int)
    (h : AMap.get? (diffPowermapsOn oldm newm oldL newL) k = some v) :
    (AMap.get? newm k = some v ∧ oldm.getD k 0 ≠ v) ∨
    (v = 0 ∧ AMap.get? newm k = none ∧ oldm.contains k = true) := by
  rw [get?_diff oldm newm oldL newL ho hn k] at h
  cases hk : AMap.get? newm k with
  | none =>
    simp only [hk] at h
    split at h
    · rename_i hc
      simp only [Option.some.injEq] at h
      exact Or.inr ⟨h.symm, rfl, hc⟩
    · cases h
  | some w =>
    simp only [hk] at h
    split at h
    · rename_i hc
      simp only [Option.some.injEq] at h
      subst h
      exact Or.inl ⟨rfl, hc⟩
    · cases h

end Shutter.Properties.C12
