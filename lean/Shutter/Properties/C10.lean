/-
C10 — No transaction can crash shuttermint; refused transactions have no effect.

"Never panics" for the model means: the two partial operations of the Go code on this path
(`LastConfig` on an empty `Configs`, `Candidates[idx]` in `Outcome`) are never reached outside their
domain on a reachable state — `C10_total_lastConfig`, `C10_total_outcome` — so the totalised
definitions of the model (`getD default`, `[i]?`) never use their default.  Panics inside the byte
layer (base64, signature recovery, protobuf) are outside the model and are exercised by the driver.
-/
import Shutter.Proofs.AppOutsider

namespace Shutter.Properties.C10
open Shutter Shutter.App Shutter.App.App

/-- a history: ABCI calls, each under an arbitrary map iteration order -/
abbrev History := List (Order × Op)

def reach (chainId : String) (keypers : List Addr) (threshold initialEon : Nat) (fork : Fork)
    (devMode : Bool) (validators : List (PubKey × Int)) (h : History) : App.App :=
  ((App.App.init chainId keypers threshold initialEon fork devMode validators).runWith h).1

/-- **Malformed, foreign-chain and replayed transactions are refused and leave the state untouched.** -/
theorem C10_refused_untouched (a : App.App) (o : Order) (tx : Tx)
    (h : tx = .undecodable ∨
      (∃ s c n p, tx = .msg s c n p ∧ (c ≠ a.chainId ∨ a.nonces.contains (s, n) = true))) :
    a.deliverTx o tx = (a, errResp) ∧ (a.checkTxOp tx) = (a, 1) := by
  rcases h with h | ⟨s, c, n, p, h, hc⟩
  · subst h; exact ⟨rfl, rfl⟩
  · subst h
    unfold deliverTx checkTxOp
    rcases hc with hc | hc
    · simp [hc]
    · simp only [hc, if_true]
      constructor <;> split <;> rfl

/-- **The mempool refuses senders outside every accepted keyper set** (whenever the member set is
    non-empty, i.e. always after InitChain with a valid genesis). -/
theorem C10_checktx_outsider (a : App.App) (s : Addr) (c : String) (n : Nat) (p : Payload)
    (hm : a.checkTx.members ≠ []) (hout : a.checkTx.members.contains s = false) :
    a.checkTxOp (.msg s c n p) = (a, 1) := by
  unfold checkTxOp
  have hlen : decide (a.checkTx.members.length > 0) = true := by
    simpa using List.length_pos_iff.2 hm
  simp only [hlen, hout, Bool.not_false, Bool.and_self, if_true]
  repeat' split
  all_goals rfl

/-- the member set of the mempool check is exactly the union of all accepted keyper sets -/
theorem C10_members_invariant (a : App.App) (o : Order) (op : Op)
    (h : a.checkTx.members = allMembers a.configs) (k : Addr) :
    (a.stepWith o op).1.checkTx.members.contains k = (a.stepWith o op).1.isKeyper k := by
  have key : ∀ (b : App.App), b.checkTx.members = allMembers b.configs →
      b.checkTx.members.contains k = b.isKeyper k := by
    intro b hb
    rw [hb]
    unfold allMembers App.isKeyper BatchConfig.isKeyper
    induction b.configs with
    | nil => rfl
    | cons c rest ih =>
      simp only [List.flatMap_cons, List.any_cons]
      rw [← ih]
      simp [List.contains_iff_mem, List.elem_eq_mem]
  cases op with
  | begin ht => exact key a h
  | commit => exact key _ h
  | check tx =>
    simp only [App.stepWith]
    have hc := checkTx_cfg a tx
    have hm : (a.checkTxOp tx).1.checkTx.members = a.checkTx.members := by
      unfold checkTxOp
      cases tx with
      | undecodable => rfl
      | msg s c n p => simp only; repeat' split
                       all_goals rfl
    apply key
    rw [hm, hc.1]; exact h
  | endBlock ht =>
    simp only [App.stepWith]
    -- members unchanged, cores unchanged
    have hm : (a.endBlock o ht).1.checkTx.members = a.checkTx.members := by
      unfold endBlock; simp only
    have hcore : (a.endBlock o ht).1.configs.map BatchConfig.core = a.configs.map BatchConfig.core := by
      unfold endBlock
      simp only
      generalize hcfg : endBlockLoop a 0 [] a.configs [] = lp
      obtain ⟨configs, events⟩ := lp
      have := endBlockLoop_core a 0 [] a.configs []
      rw [hcfg] at this; simpa using this
    rw [hm, isKeyper_eq_of_core a _ hcore k]
    exact key a h
  | deliver tx =>
    simp only [App.stepWith]
    apply key
    unfold deliverTx
    cases tx with
    | undecodable => exact h
    | msg s c n p =>
      simp only
      split
      · exact h
      · split
        · exact h
        · cases p with
          | batchConfig act thr idx ks =>
            simp only [deliverMessage]
            unfold deliverBatchConfig
            cases batchConfigFromMessage act thr idx ks with
            | none => exact h
            | some bc =>
              simp only
              repeat' split
              all_goals first | exact h | rfl
          | dkgResult eon su =>
            simp only [deliverMessage]
            have hcfg := deliverDKGResult_cfg o { a with nonces := a.nonces ++ [(s, n)] } s eon su
            have hmm := deliverDKGResult_checkTx o { a with nonces := a.nonces ++ [(s, n)] } s eon su
            rw [hmm, hcfg.1]; exact h
          | blockSeen b =>
            simp only [deliverMessage]; unfold deliverBlockSeen; repeat' split
            all_goals exact h
          | checkIn vk ok e =>
            simp only [deliverMessage]; unfold deliverCheckIn; repeat' split
            all_goals exact h
          | polyEval eon rs m e =>
            simp only [deliverMessage]; unfold deliverPolyEval applyReg; repeat' split
            all_goals exact h
          | polyCommitment eon ok g =>
            simp only [deliverMessage]; unfold deliverPolyCommitment applyReg; repeat' split
            all_goals exact h
          | accusation eon as =>
            simp only [deliverMessage]; unfold deliverAccusation applyReg; repeat' split
            all_goals exact h
          | apology eon as m e =>
            simp only [deliverMessage]; unfold deliverApology applyReg; repeat' split
            all_goals exact h
          | none => exact h

/-- **A transaction from outside every accepted keyper set has no effect even when a block includes
    it**: on every reachable state it is answered with a non-zero code and no events, and the state
    changes in nothing but the record of its own (signer, nonce) pair. -/
theorem C10_outsider_no_effect (chainId : String) (keypers : List Addr) (threshold initialEon : Nat)
    (fork : Fork) (devMode : Bool) (validators : List (PubKey × Int)) (h : History)
    (o : Order) (s : Addr) (c : String) (n : Nat) (p : Payload) :
    let a := reach chainId keypers threshold initialEon fork devMode validators h
    a.isKeyper s = false →
    (a.deliverTx o (.msg s c n p)).2.refused ∧
    ((a.deliverTx o (.msg s c n p)).1 = a ∨
     (a.deliverTx o (.msg s c n p)).1 = a.setNonces (a.nonces ++ [(s, n)])) := by
  intro a hout
  have inv : DInv a := runWith_DInv _ (init_DInv _ _ _ _ _ _ _) h
  have key : a.deliverTx o (.msg s c n p) =
      (if c ≠ a.chainId then (a, errResp)
       else if a.nonces.contains (s, n) then (a, errResp)
       else App.deliverMessage o { a with nonces := a.nonces ++ [(s, n)] } s p) := rfl
  rw [key]
  by_cases hc : c ≠ a.chainId
  · rw [if_pos hc]; exact ⟨errResp_refused, Or.inl rfl⟩
  · rw [if_neg hc]
    cases hn : a.nonces.contains (s, n) with
    | true => rw [if_pos rfl]; exact ⟨errResp_refused, Or.inl rfl⟩
    | false =>
      have hf : ¬ (false = true) := by decide
      rw [if_neg hf]
      have := deliverMessage_outsider o { a with nonces := a.nonces ++ [(s, n)] }
        (DInv_same a _ inv rfl rfl) s hout p
      exact ⟨this.2, Or.inr this.1⟩

/-- **Noninterference.**  Whatever a transaction of sender `s` did to the executed-nonce record, every
    later call that is not a transaction of `s` itself is answered identically, from any two states
    that differ only in `s`'s nonce records — in particular with and without an outsider's
    transaction in the block. -/
theorem C10_noninterference (a : App.App) (s : Addr) (extra : List (Addr × Nat))
    (hextra : ∀ e ∈ extra, e.1 = s) (later : History)
    (hlater : ∀ q ∈ later, q.2.signer? ≠ some s) :
    (a.runWith later).2 = ((a.setNonces (a.nonces ++ extra)).runWith later).2 := by
  have hag : AgreeBut s a (a.setNonces (a.nonces ++ extra)) := by
    refine ⟨a.nonces ++ extra, rfl, ?_⟩
    intro x n hx
    rw [List.contains_append]
    have : extra.contains (x, n) = false := by
      cases hcx : extra.contains (x, n) with
      | false => rfl
      | true =>
        have hmem : (x, n) ∈ extra := by simpa using hcx
        exact absurd (hextra (x, n) hmem) hx
    rw [this, Bool.or_false]
  exact (runWith_agree s a _ hag later hlater).1

/-- **`LastConfig` never panics**: the configuration list is never empty on a reachable state. -/
theorem C10_total_lastConfig (chainId : String) (keypers : List Addr)
    (threshold initialEon : Nat) (fork : Fork) (devMode : Bool) (validators : List (PubKey × Int))
    (hvalid : (genesisConfig keypers threshold).valid = true) (hsized : keypers.length < 2 ^ 63)
    (h : History) (hok : ∀ q ∈ h, q.1.Valid ∧ q.2.Sized) :
    (reach chainId keypers threshold initialEon fork devMode validators h).configs ≠ [] :=
  (runWith_VInv _ (init_VInv _ _ _ _ _ _ _ hvalid hsized) h hok).nonempty

/-- **`Outcome` never indexes past the candidate list.** -/
theorem C10_total_outcome {T : Type} [DecidableEq T] (v : Voting T) (o : Order) (r : Int) (i : Nat)
    (h : v.outcomeIndex o r = some i) : i < v.candidates.length := by
  unfold Voting.outcomeIndex at h
  exact (outcomeIndexOn_some h).1

/-! non-vacuity: an outsider exists on a reachable state and its transaction is refused -/
example :
    let a := reach "c0" [1, 2, 3] 2 0 { enabled := false, height := 0 } false [(100, 10)] []
    a.isKeyper 9 = false ∧ (a.deliverTx Order.canonical (.msg 9 "c0" 1 (.blockSeen 5))).2 = errResp := by
  decide

theorem parseAddresses_length : ∀ (ks : List Raw) (l : List Addr), parseAddresses ks = some l → l.length = ks.length
  | [], l, h => by simp [parseAddresses] at h; subst h; rfl
  | r :: rest, l, h => by
    unfold parseAddresses at h
    cases hv : validateAddress r with
    | none => simp [hv] at h
    | some a =>
      cases hp : parseAddresses rest with
      | none => simp [hv, hp] at h
      | some as =>
        simp only [hv, hp, Option.some.injEq] at h
        subst h
        simp [parseAddresses_length rest as hp]

/-- **A structurally invalid configuration is refused whoever sends it** — threshold zero or above the number
    of keypers (any natural, so also 2^63 and above), no keypers, an address of the wrong length, a repeated
    address: non-zero code, no events, state unchanged. -/
theorem C10_malformed_config_refused (o : Order) (app : App.App) (sender : Addr) (act thr idx : Nat) (ks : List Raw)
    (h : thr = 0 ∨ ks.length < thr ∨ ks = [] ∨ parseAddresses ks = none ∨
      (∃ l, parseAddresses ks = some l ∧ uniqueAddrs l = false)) :
    (deliverBatchConfig o app sender act thr idx ks).1 = app ∧
      ((deliverBatchConfig o app sender act thr idx ks).2 = errResp ∨
       (deliverBatchConfig o app sender act thr idx ks).2 = seenResp) := by
  unfold deliverBatchConfig
  cases hb : batchConfigFromMessage act thr idx ks with
  | none => exact ⟨rfl, Or.inl rfl⟩
  | some bc =>
    simp only []
    by_cases hsame : app.lastConfig = bc
    · rw [if_pos hsame]; exact ⟨rfl, Or.inr rfl⟩
    · rw [if_neg hsame]
      have hinvalid : bc.valid = false := by
        unfold batchConfigFromMessage at hb
        cases hp : parseAddresses ks with
        | none => simp [hp] at hb
        | some l =>
          simp only [hp] at hb
          by_cases hu : uniqueAddrs l = true
          · simp only [hu, if_true, Option.some.injEq] at hb
            subst hb
            have hlen := parseAddresses_length ks l hp
            unfold BatchConfig.valid
            simp only []
            rcases h with h | h | h | h | ⟨l', hl', hdup⟩
            · subst h; simp
            · have : ¬ thr ≤ l.length := by omega
              simp [this]
            · subst h; simp at hlen; simp [hlen]
            · rw [hp] at h; cases h
            · rw [hp] at hl'; cases hl'; rw [hu] at hdup; cases hdup
          · simp [hu] at hb
      have : app.checkConfig bc = false := by unfold checkConfig; simp [hinvalid]
      simp [this]

/-- **A check-in with a validator key that is not 32 bytes or an encryption key that does not decode is refused
    without a trace**, whoever sends it and whatever was stored before. -/
theorem C10_malformed_checkin_refused (app : App.App) (sender : Addr) (vk : Raw) (encOk : Bool) (ek : Blob)
    (h : vk.len ≠ 32 ∨ encOk = false) :
    (deliverCheckIn app sender vk encOk ek).1 = app ∧
      ((deliverCheckIn app sender vk encOk ek).2 = errResp ∨ (deliverCheckIn app sender vk encOk ek).2 = seenResp) := by
  unfold deliverCheckIn
  split
  · exact ⟨rfl, Or.inr rfl⟩
  · split
    · exact ⟨rfl, Or.inl rfl⟩
    · split
      · exact ⟨rfl, Or.inl rfl⟩
      · rename_i hvk
        split
        · exact ⟨rfl, Or.inl rfl⟩
        · rename_i henc
          rcases h with h | h
          · exact absurd h hvk
          · rw [h] at henc; simp at henc

end Shutter.Properties.C10
