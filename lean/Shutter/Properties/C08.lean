/-
C08 — A keyper survives a crash at any instant: DKG state intact, no message lost.
-/
import Shutter.Model.Crash
import Shutter.Generated.SqlFacts

namespace Shutter.Properties.C08
open Shutter.Crash List

variable {σ ε : Type}

/-- what is stored can be read back: `DecodePureDKG (EncodePureDKG s) = s` (checked on the real codec by the rig
    on every state a run stores; this is what the repaired defect violated) -/
def RoundTrip (c : Codec σ ε) : Prop := ∀ s, c.dec (c.enc s) = s

/-- the state in memory, if any, is the stored one -/
def MemInv (c : Codec σ ε) (nd : Node σ ε) : Prop := ∀ s, nd.mem = some s → s = c.dec nd.db.enc

theorem commitBlock_mem (c : Codec σ ε) (apply : σ → Nat → σ × Nat) (nd : Node σ ε) (h : MemInv c nd) :
    commitBlock c apply nd = commitBlock c apply { nd with mem := none } := by
  unfold commitBlock
  cases hm : nd.mem with
  | none => rfl
  | some s => simp only [Option.getD_some, Option.getD_none]; rw [h s hm]

theorem step_memInv (c : Codec σ ε) (hrt : RoundTrip c) (apply : σ → Nat → σ × Nat) (nd : Node σ ε) (h : MemInv c nd) (op : Op) :
    MemInv c (step c apply nd op) := by
  cases op with
  | blockCommit =>
    intro s hs
    simp only [step, Option.some.injEq] at hs
    subst hs
    simp only [step, commitBlock]
    exact (hrt _).symm
  | blockCommitLost => intro s hs; simp [step] at hs
  | blockAbort => intro s hs; simp [step] at hs
  | restart => intro s hs; simp [step] at hs
  | sendOk =>
    simp only [step]
    split
    · exact h
    · intro s hs; exact h s hs
  | sendNoDelete =>
    simp only [step]
    split <;> (intro s hs; simp at hs)
  | sendFail => exact h

/-- a crash-free node and a crashing one that hold the same database -/
theorem run_same_db (c : Codec σ ε) (hrt : RoundTrip c) (apply : σ → Nat → σ × Nat) (ops : List Op) :
    ∀ (a b : Node σ ε), a.db = b.db → MemInv c a → MemInv c b →
      (run c apply a ops).db = (run c apply b (crashFree ops)).db := by
  induction ops with
  | nil => intro a b h _ _; exact h
  | cons op rest ih =>
    intro a b hdb ha hb
    have hca : commitBlock c apply a = commitBlock c apply b := by
      rw [commitBlock_mem c apply a ha, commitBlock_mem c apply b hb]
      unfold commitBlock
      simp only [Option.getD_none]
      rw [hdb]
    have hsa := step_memInv c hrt apply a ha op
    cases op with
    | blockCommit =>
      simp only [run, foldl_cons, crashFree] at *
      exact ih _ _ (by simp [step, hca]) hsa (step_memInv c hrt apply b hb .blockCommit)
    | blockCommitLost =>
      simp only [run, foldl_cons, crashFree] at *
      exact ih _ _ (by simp [step, hca]) hsa (step_memInv c hrt apply b hb .blockCommit)
    | blockAbort =>
      simp only [run, foldl_cons, crashFree] at *
      exact ih _ _ (by simp [step, hdb]) hsa hb
    | restart =>
      simp only [run, foldl_cons, crashFree] at *
      exact ih _ _ (by simp [step, hdb]) hsa hb
    | sendOk =>
      simp only [run, foldl_cons, crashFree] at *
      refine ih _ _ ?_ hsa (step_memInv c hrt apply b hb .sendOk)
      simp only [step]
      rw [hdb]
      cases b.db.outbox <;> simp [hdb]
    | sendNoDelete =>
      simp only [run, foldl_cons, crashFree] at *
      refine ih _ _ ?_ hsa hb
      simp only [step]
      cases a.db.outbox <;> simp [hdb]
    | sendFail =>
      simp only [run, foldl_cons, crashFree] at *
      exact ih _ _ (by simp [step, hdb]) hsa hb

/-- **Same database as without the crashes.**  For every sequence of block transactions (committed, committed
    with the reply lost, aborted by a crash or an error), restarts and send attempts (deleted, accepted but not
    deleted, refused), the committed database — last applied block, stored key generation state, outbox and id
    counter — is exactly that of the run in which nothing ever crashed, provided the stored state reads back. -/
theorem C08_same_db (c : Codec σ ε) (hrt : RoundTrip c) (apply : σ → Nat → σ × Nat) (nd : Node σ ε) (h : MemInv c nd)
    (ops : List Op) : (run c apply nd ops).db = (run c apply nd (crashFree ops)).db :=
  run_same_db c hrt apply ops nd nd rfl h h

def commits : List Op → Nat
  | [] => 0
  | .blockCommit :: rest => commits rest + 1
  | .blockCommitLost :: rest => commits rest + 1
  | _ :: rest => commits rest

/-- **Every block exactly once.**  The last applied block advances by one with every committed transaction and
    never otherwise: the events of block `h` are applied in exactly one committed transaction, that of block `h`. -/
theorem C08_exactly_once (c : Codec σ ε) (apply : σ → Nat → σ × Nat) (nd : Node σ ε) (ops : List Op) :
    (run c apply nd ops).db.cur = nd.db.cur + commits ops := by
  induction ops generalizing nd with
  | nil => rfl
  | cons op rest ih =>
    simp only [run, foldl_cons] at ih ⊢
    rw [ih]
    cases op with
    | blockCommit => simp only [step, commitBlock, commits]; omega
    | blockCommitLost => simp only [step, commitBlock, commits]; omega
    | blockAbort => simp [step, commits]
    | restart => simp [step, commits]
    | sendOk => simp only [step, commits]; split <;> rfl
    | sendNoDelete => simp only [step, commits]; split <;> rfl
    | sendFail => simp [step, commits]

/-- the outbox is the contiguous range of ids from `lo` to the id counter; what was handed to the chain is in
    order, goes up to `lo`, and misses no id from `first` on -/
structure OutboxInv (first : Nat) (nd : Node σ ε) (lo : Nat) : Prop where
  range : nd.db.outbox = ids lo (nd.db.nextId - lo)
  le : lo ≤ nd.db.nextId
  below : ∀ x ∈ nd.sent, x ≤ lo
  sorted : nd.sent.Pairwise (· ≤ ·)
  covered : ∀ i, first ≤ i → i < lo → i ∈ nd.sent

theorem ids_append (a k k' : Nat) : ids a k ++ ids (a + k) k' = ids a (k + k') := by
  unfold ids
  rw [← range'_append_1]

theorem step_outboxInv (c : Codec σ ε) (apply : σ → Nat → σ × Nat) (first : Nat) (nd : Node σ ε) (lo : Nat)
    (h : OutboxInv first nd lo) (op : Op) : ∃ lo', OutboxInv first (step c apply nd op) lo' := by
  have commit : ∀ m : Option σ, OutboxInv first ({ nd with db := (commitBlock c apply nd).1, mem := m } : Node σ ε) lo := by
    intro m
    refine ⟨?_, ?_, h.below, h.sorted, h.covered⟩
    · simp only [commitBlock]
      rw [h.range]
      have := ids_append lo (nd.db.nextId - lo) (apply (nd.mem.getD (c.dec nd.db.enc)) (nd.db.cur + 1)).2
      rw [show lo + (nd.db.nextId - lo) = nd.db.nextId by have := h.le; omega] at this
      rw [this]
      congr 1
      have := h.le; omega
    · simp only [commitBlock]; have := h.le; omega
  cases op with
  | blockCommit => exact ⟨lo, commit _⟩
  | blockCommitLost => exact ⟨lo, commit _⟩
  | blockAbort => exact ⟨lo, ⟨h.range, h.le, h.below, h.sorted, h.covered⟩⟩
  | restart => exact ⟨lo, ⟨h.range, h.le, h.below, h.sorted, h.covered⟩⟩
  | sendFail => exact ⟨lo, h⟩
  | sendOk =>
    simp only [step]
    cases hob : nd.db.outbox with
    | nil => exact ⟨lo, by simpa [hob] using h⟩
    | cons id rest =>
      have hr := h.range
      rw [hob] at hr
      have hpos : 0 < nd.db.nextId - lo := by
        cases hk : nd.db.nextId - lo with
        | zero => rw [hk] at hr; simp [ids] at hr
        | succ k => omega
      have hsplit : ids lo (nd.db.nextId - lo) = lo :: ids (lo + 1) (nd.db.nextId - (lo + 1)) := by
        unfold ids
        rw [show nd.db.nextId - lo = (nd.db.nextId - (lo + 1)) + 1 by omega, range'_succ]
      rw [hsplit] at hr
      injection hr with hid hrest
      subst hid
      show ∃ lo', OutboxInv first ({ nd with db := { nd.db with outbox := rest }, sent := nd.sent ++ [id] } : Node σ ε) lo'
      refine ⟨id + 1, ⟨by simpa using hrest, by simp only []; omega, ?_, ?_, ?_⟩⟩
      · intro x hx
        rcases mem_append.1 hx with hx | hx
        · have := h.below x hx; omega
        · simp only [mem_singleton] at hx; omega
      · rw [pairwise_append]
        refine ⟨h.sorted, by simp, ?_⟩
        intro a ha b hb
        simp only [mem_singleton] at hb
        subst hb
        exact h.below a ha
      · intro i hi1 hi2
        by_cases hlt : i < id
        · exact mem_append_left _ (h.covered i hi1 hlt)
        · have : i = id := by omega
          subst this
          exact mem_append_right _ (mem_singleton.2 rfl)
  | sendNoDelete =>
    simp only [step]
    cases hob : nd.db.outbox with
    | nil => exact ⟨lo, ⟨by simpa [hob] using h.range, h.le, h.below, h.sorted, h.covered⟩⟩
    | cons id rest =>
      have hr := h.range
      rw [hob] at hr
      have hpos : 0 < nd.db.nextId - lo := by
        cases hk : nd.db.nextId - lo with
        | zero => rw [hk] at hr; simp [ids] at hr
        | succ k => omega
      have hsplit : ids lo (nd.db.nextId - lo) = lo :: ids (lo + 1) (nd.db.nextId - (lo + 1)) := by
        unfold ids
        rw [show nd.db.nextId - lo = (nd.db.nextId - (lo + 1)) + 1 by omega, range'_succ]
      rw [hsplit] at hr
      injection hr with hid hrest
      subst hid
      show ∃ lo', OutboxInv first ({ nd with sent := nd.sent ++ [id], mem := none } : Node σ ε) lo'
      refine ⟨id, ⟨by simpa [hob] using h.range, h.le, ?_, ?_, ?_⟩⟩
      · intro x hx
        rcases mem_append.1 hx with hx | hx
        · exact h.below x hx
        · simp only [mem_singleton] at hx; omega
      · rw [pairwise_append]
        refine ⟨h.sorted, by simp, ?_⟩
        intro a ha b hb
        simp only [mem_singleton] at hb
        subst hb
        exact h.below a ha
      · intro i hi1 hi2
        exact mem_append_left _ (h.covered i hi1 hi2)

/-- **No message lost, none out of order.**  Through any sequence of crashes and retries: the messages handed to
    the chain are in the order in which they were queued (a message may be repeated — the row survived a crash
    after its broadcast — but never overtaken), and every message queued before the oldest one still in the
    outbox has been handed over. -/
theorem C08_outbox (c : Codec σ ε) (apply : σ → Nat → σ × Nat) (first : Nat) (nd : Node σ ε) (lo : Nat)
    (h : OutboxInv first nd lo) (ops : List Op) : ∃ lo', OutboxInv first (run c apply nd ops) lo' := by
  induction ops generalizing nd lo with
  | nil => exact ⟨lo, h⟩
  | cons op rest ih =>
    obtain ⟨lo1, h1⟩ := step_outboxInv c apply first nd lo h op
    simp only [run, foldl_cons]
    exact ih _ lo1 h1

/-- **The same messages are scheduled.**  Crashes neither add nor remove scheduled messages: the id counter and
    the outbox are those of the crash-free run (in particular a polynomial commitment computed in a transaction
    that did not commit is never queued, and the committed one is queued once). -/
theorem C08_scheduled_once (c : Codec σ ε) (hrt : RoundTrip c) (apply : σ → Nat → σ × Nat) (nd : Node σ ε) (h : MemInv c nd)
    (ops : List Op) :
    (run c apply nd ops).db.nextId = (run c apply nd (crashFree ops)).db.nextId ∧
      (run c apply nd ops).db.outbox = (run c apply nd (crashFree ops)).db.outbox := by
  rw [C08_same_db c hrt apply nd h ops]
  exact ⟨rfl, rfl⟩

/-- the SQL of the position, the stored state and the outbox, as extracted from the source on this run -/
theorem C08_sql_pinned :
    Shutter.Generated.SqlFacts.keyper_GetNextShutterMessage =
      "SELECT id, description, msg from tendermint_outgoing_messages ORDER BY id LIMIT 1" ∧
    Shutter.Generated.SqlFacts.keyper_DeleteShutterMessage =
      "DELETE FROM tendermint_outgoing_messages WHERE id=$1" ∧
    Shutter.Generated.SqlFacts.keyper_TMGetSyncMeta =
      "SELECT current_block, last_committed_height, sync_timestamp FROM tendermint_sync_meta ORDER BY current_block DESC, last_committed_height DESC LIMIT 1" :=
  ⟨rfl, rfl, rfl⟩

/-! ### non-vacuity, and why the round trip matters -/

/-- a codec that forgets: `none` ("nothing received yet") is stored as `some 0` -/
def lossy : Codec (Option Nat) Nat := { enc := fun s => s.getD 0, dec := fun e => some e }
/-- a block is handled differently depending on whether something had been received -/
def exApply : Option Nat → Nat → Option Nat × Nat := fun s _ => match s with
  | none => (some 1, 1)
  | some _ => (s, 0)
def exNode : Node (Option Nat) Nat := { db := { cur := 0, enc := 0, outbox := [], nextId := 1 }, mem := some none, sent := [] }

/-- with the lossy codec a restart changes what gets scheduled (the defect): without it one message, with it none -/
example : (run lossy exApply exNode [.blockCommit]).db.nextId = 2 ∧
    (run lossy exApply exNode [.restart, .blockCommit]).db.nextId = 1 := by decide

def faithful : Codec (Option Nat) (Option Nat) := { enc := id, dec := id }
example : RoundTrip faithful := fun _ => rfl
example : (run faithful exApply { exNode with db := { exNode.db with enc := none } } [.restart, .blockCommitLost, .blockAbort, .sendNoDelete, .sendOk]).sent = [1, 1] := by decide

end Shutter.Properties.C08
