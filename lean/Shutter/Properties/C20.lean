/-
C20 — Every generated eon key is handed to publication, even several per interval.
-/
import Shutter.Model.EonPk

namespace Shutter.Properties.C20
open Shutter.EonPk

/-- a row for a keyper set the keyper belongs to, with values in range of the unsigned conversions -/
def Row.Good (me : Addr) (r : Row) : Prop :=
  r.keypers.contains me = true ∧ 0 ≤ r.activation ∧ 0 ≤ r.configIndex ∧ 0 ≤ r.eon

def expected (r : Row) : Handed :=
  { publicKey := r.publicKey, activation := r.activation.toNat, configIndex := r.configIndex.toNat,
    eon := r.eon.toNat }

theorem handOf_good (me : Addr) (r : Row) (h : Row.Good me r) : handOf me r = some (expected r) := by
  obtain ⟨h1, h2, h3, h4⟩ := h
  unfold handOf
  simp only [h1, Bool.not_true, Bool.false_eq_true, if_false]
  have e2 : ¬ r.activation < 0 := by omega
  have e3 : ¬ r.configIndex < 0 := by omega
  have e4 : ¬ r.eon < 0 := by omega
  simp only [e2, e3, e4, if_false]
  rfl

/-- **All of them, once each.**  In both publication modes, for any number of pending keys returned
    by one tick, in any order, all for keyper sets the keyper belongs to: if the publication mechanism
    accepts, every key is handed over exactly once — in the order returned — with its activation block,
    keyper-set index and eon number, and the tick ends without an error. -/
theorem C20_all_once (me : Addr) (mode : Mode) (hm : mode ≠ .neither) (accepts : Handed → Bool)
    (rows : List Row) (hgood : ∀ r ∈ rows, Row.Good me r) (hacc : ∀ r ∈ rows, accepts (expected r) = true) :
    tick me mode accepts rows = (rows.map expected, false) := by
  unfold tick
  induction rows with
  | nil => rfl
  | cons r rest ih =>
    simp only [loop, handOf_good me r (hgood r (by simp))]
    have ihh := ih (fun x hx => hgood x (List.mem_cons_of_mem _ hx)) (fun x hx => hacc x (List.mem_cons_of_mem _ hx))
    cases mode with
    | neither => exact absurd rfl hm
    | broadcast => simp only [hacc r (by simp), if_true, ihh, List.map_cons]
    | callback => simp only [hacc r (by simp), if_true, ihh, List.map_cons]

/-- the order in which the database returns the rows does not matter: the same keys are handed over -/
theorem C20_any_order (me : Addr) (mode : Mode) (hm : mode ≠ .neither) (accepts : Handed → Bool)
    (rows rows' : List Row) (hp : rows'.Perm rows) (hgood : ∀ r ∈ rows, Row.Good me r)
    (hacc : ∀ r ∈ rows, accepts (expected r) = true) :
    (tick me mode accepts rows').1.Perm (tick me mode accepts rows).1 ∧ (tick me mode accepts rows').2 = false := by
  rw [C20_all_once me mode hm accepts rows hgood hacc,
    C20_all_once me mode hm accepts rows' (fun r hr => hgood r (hp.mem_iff.1 hr)) (fun r hr => hacc r (hp.mem_iff.1 hr))]
  exact ⟨hp.map _, rfl⟩

/-- nothing is handed over that was not pending: every handed value is the expected value of a row -/
theorem C20_only_pending (me : Addr) (mode : Mode) (accepts : Handed → Bool) (rows : List Row) :
    ∀ h ∈ (tick me mode accepts rows).1, ∃ r ∈ rows, handOf me r = some h := by
  unfold tick
  induction rows with
  | nil => intro h hh; simp [loop] at hh
  | cons r rest ih =>
    intro h hh
    simp only [loop] at hh
    cases hr : handOf me r with
    | none => simp [hr] at hh
    | some x =>
      simp only [hr] at hh
      cases mode with
      | neither =>
        obtain ⟨r', hr', e⟩ := ih h hh
        exact ⟨r', List.mem_cons_of_mem _ hr', e⟩
      | broadcast =>
        simp only at hh
        split at hh
        · rcases List.mem_cons.1 hh with e | e
          · exact ⟨r, by simp, by rw [hr, e]⟩
          · obtain ⟨r', hr', e'⟩ := ih h e
            exact ⟨r', List.mem_cons_of_mem _ hr', e'⟩
        · simp only [List.mem_singleton] at hh
          exact ⟨r, by simp, by rw [hr, hh]⟩
      | callback =>
        simp only at hh
        split at hh
        · rcases List.mem_cons.1 hh with e | e
          · exact ⟨r, by simp, by rw [hr, e]⟩
          · obtain ⟨r', hr', e'⟩ := ih h e
            exact ⟨r', List.mem_cons_of_mem _ hr', e'⟩
        · simp only [List.mem_singleton] at hh
          exact ⟨r, by simp, by rw [hr, hh]⟩

/-! non-vacuity: three keys completed within one polling interval -/
example :
    tick 7 .broadcast (fun _ => true)
      [⟨3, 100, 50, [7, 8], 1⟩, ⟨4, 101, 60, [7, 9], 2⟩, ⟨5, 102, 60, [6, 7], 2⟩] =
      ([⟨100, 50, 1, 3⟩, ⟨101, 60, 2, 4⟩, ⟨102, 60, 2, 5⟩], false) := by decide

/-- the polling loop (`eonPubKeyHandler.loop` with `stopOnErrors = false`, what `newEonPubKeyHandler` sets): one
    tick per interval over whatever is pending then; a tick that ends in an error is logged and the loop goes on -/
def poll (me : Addr) (mode : Mode) (accepts : Handed → Bool) (intervals : List (List Row)) : List Handed :=
  intervals.flatMap (fun rows => (tick me mode accepts rows).1)

/-- **Every interval.**  Whatever happened in the intervals before — keys refused by the mechanism, ticks ended
    by an error — and whatever happens afterwards: the keys of an interval whose rows are all for keyper sets the
    keyper belongs to and all accepted by the mechanism are handed over in that interval, each once, in order. -/
theorem C20_every_interval (me : Addr) (mode : Mode) (hm : mode ≠ .neither) (accepts : Handed → Bool)
    (before after : List (List Row)) (rows : List Row)
    (hgood : ∀ r ∈ rows, Row.Good me r) (hacc : ∀ r ∈ rows, accepts (expected r) = true) :
    poll me mode accepts (before ++ rows :: after) =
      poll me mode accepts before ++ rows.map expected ++ poll me mode accepts after := by
  unfold poll
  rw [List.flatMap_append, List.flatMap_cons, C20_all_once me mode hm accepts rows hgood hacc, List.append_assoc]

/-- with no publication mechanism configured nothing is handed over -/
theorem loop_neither_nil (me : Addr) (accepts : Handed → Bool) (rows : List Row) :
    (loop me .neither accepts rows).1 = [] := by
  induction rows with
  | nil => rfl
  | cons a t iht =>
    simp only [loop]
    cases handOf me a with
    | none => rfl
    | some x => exact iht

/-- **Never twice, never out of order — whatever the mechanism answers.**  For arbitrary rows (also rows of
    keyper sets the keyper is not in, or with out-of-range numbers) and an arbitrary publication mechanism,
    what one tick hands over is a prefix of the rows' values in the order returned: no row is handed twice,
    none is handed before an earlier one, none is invented. -/
theorem C20_prefix (me : Addr) (mode : Mode) (accepts : Handed → Bool) (rows : List Row) :
    (tick me mode accepts rows).1 <+: rows.filterMap (handOf me) := by
  unfold tick
  induction rows with
  | nil => simp [loop]
  | cons r rest ih =>
    simp only [loop]
    cases hr : handOf me r with
    | none => simp
    | some x =>
      simp only [List.filterMap_cons, hr]
      cases mode with
      | neither => rw [loop_neither_nil]; exact List.nil_prefix
      | broadcast =>
        simp only
        split
        · exact (List.prefix_cons_inj x).2 ih
        · exact (List.prefix_cons_inj x).2 List.nil_prefix
      | callback =>
        simp only
        split
        · exact (List.prefix_cons_inj x).2 ih
        · exact (List.prefix_cons_inj x).2 List.nil_prefix

/-- **When a tick ends cleanly.**  A tick ends without an error exactly when every row converts (keyper set
    contains the keyper, numbers in range) and — when a mechanism is configured — every key was accepted. -/
theorem C20_clean_iff (me : Addr) (mode : Mode) (accepts : Handed → Bool) (rows : List Row) :
    (tick me mode accepts rows).2 = false ↔
      ∀ r ∈ rows, ∃ h, handOf me r = some h ∧ (mode = .neither ∨ accepts h = true) := by
  unfold tick
  induction rows with
  | nil => simp [loop]
  | cons r rest ih =>
    simp only [loop]
    cases hr : handOf me r with
    | none =>
      simp only [Bool.true_eq_false, false_iff]
      intro h
      obtain ⟨x, hx, _⟩ := h r (by simp)
      rw [hr] at hx; cases hx
    | some x =>
      cases mode with
      | neither =>
        simp only [ih, List.mem_cons, forall_eq_or_imp, hr, Option.some.injEq, true_or, and_true, exists_eq']
        simp
      | broadcast =>
        simp only
        by_cases ha : accepts x = true
        · simp only [ha, if_true, ih, List.mem_cons, forall_eq_or_imp, hr, Option.some.injEq]
          simp [ha]
        · simp only [ha, Bool.false_eq_true, if_false, Bool.true_eq_false, false_iff]
          intro h
          obtain ⟨y, hy, hz⟩ := h r (by simp)
          rw [hr] at hy; cases hy
          rcases hz with hz | hz
          · cases hz
          · exact ha hz
      | callback =>
        simp only
        by_cases ha : accepts x = true
        · simp only [ha, if_true, ih, List.mem_cons, forall_eq_or_imp, hr, Option.some.injEq]
          simp [ha]
        · simp only [ha, Bool.false_eq_true, if_false, Bool.true_eq_false, false_iff]
          intro h
          obtain ⟨y, hy, hz⟩ := h r (by simp)
          rw [hr] at hy; cases hy
          rcases hz with hz | hz
          · cases hz
          · exact ha hz

/-! non-vacuity: a refusal in the middle — the refused key was handed, the one behind it was not -/
example :
    tick 7 .callback (fun h => h.eon != 4)
      [⟨3, 100, 50, [7, 8], 1⟩, ⟨4, 101, 60, [7, 9], 2⟩, ⟨5, 102, 60, [6, 7], 2⟩] =
      ([⟨100, 50, 1, 3⟩, ⟨101, 60, 2, 4⟩], true) := by decide

end Shutter.Properties.C20
