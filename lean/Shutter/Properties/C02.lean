/-
C02 — Shutter-service keyper never triggers decryption before the release condition.
-/
import Shutter.Proofs.ServiceTrigger
import Shutter.Generated.SqlFacts

namespace Shutter.Properties.C02
open Shutter.ServiceTrigger Shutter.Sort List

/-- the release condition of one keyper set at one block: the keyper set `c` has a newest started eon `e`,
    the keyper belongs to the set, the key generation of `e` succeeded -/
def Decryptable (s : State) (c : Int) (e : EonRow) : Prop :=
  e ∈ s.eons ∧ e.config = c ∧ (∀ e' ∈ s.eons, e'.config = c → e'.eon ≤ e.eon) ∧
    (∃ cfg ∈ s.configs, cfg.config = wrap32 c ∧ cfg.member = true) ∧
    (∃ d ∈ s.dkgs, d.eon = e.eon ∧ d.success = true)

/-- **Time-registered identities are never triggered early.**  For every database state, every in-memory
    mark and every block (timestamps are not assumed monotone): each identity in each time-based trigger
    belongs to a stored registration that is not marked decrypted, whose release time is strictly before
    the block's timestamp, for a keyper set that is decryptable (member, newest eon succeeded) and whose
    eon's activation block is at most the block's number. -/
theorem C02_time (s : State) (now number : Int) :
    ∀ t ∈ (timeTriggers s now number).2, ∀ id ∈ t.ids,
      ∃ r ∈ s.regs, r.identity = id ∧ r.decrypted = false ∧ r.timestamp < now ∧
        ∃ e, Decryptable s r.eon e ∧ e.activation ≤ number ∧ t.block = e.activation := by
  intro t ht id hid
  have ht := timeTriggers_mem s now number t ht
  · obtain ⟨c, e, hres, hblock, hids⟩ := groupTime_spec s _ t ht
    rw [hids, mem_sortIds] at hid
    obtain ⟨r, hr, rfl⟩ := mem_map.1 hid
    have hr1 := mem_filter.1 hr
    have hr2 := mem_filter.1 hr1.1
    have hr3 := mem_filter.1 hr2.1
    have hdue := mem_due.1 hr3.1
    have hc : r.eon = c := by simpa using hr1.2
    have hshould := hr3.2
    unfold shouldTrigger at hshould
    rw [hc, hres] at hshould
    simp only [Bool.and_eq_true, decide_eq_true_eq] at hshould
    refine ⟨r, hdue.1, rfl, hdue.2.2.2, hshould.2, e, ?_, hshould.1, hblock⟩
    rw [hc]
    exact resolve_spec s c e hres

/-- **Event-triggered identities need a fired, undecrypted trigger.**  Each identity in each event-based
    trigger has a row in `fired_triggers` (written only when a matching log was found in time, C16) whose
    registration exists and is not marked decrypted, for a decryptable keyper set. -/
theorem C02_event (s : State) :
    ∀ t ∈ eventTriggers s, ∀ id ∈ t.ids,
      ∃ f ∈ s.fired, f.identity = id ∧
        (∃ r ∈ s.trigRegs, r.eon = f.eon ∧ r.identity = id) ∧
        (∀ r ∈ s.trigRegs, r.eon = f.eon → r.identity = id → r.decrypted = false) ∧
        ∃ e, Decryptable s f.eon e ∧ t.block = e.activation := by
  intro t ht id hid
  obtain ⟨c, e, hres, hblock, hids⟩ := eventTriggers_spec s t ht
  rw [hids, mem_sortIds] at hid
  obtain ⟨f, hf, rfl⟩ := mem_map.1 hid
  have hf1 := mem_filter.1 hf
  have hc : f.eon = c := by simpa using hf1.2
  have hf2 := mem_filter.1 hf1.1
  have hcond := hf2.2
  simp only [Bool.and_eq_true, Bool.not_eq_true', any_eq_true, decide_eq_true_eq, any_eq_false,
    Bool.and_eq_true, not_and, Bool.not_eq_true] at hcond
  refine ⟨f, hf2.1, rfl, ?_, ?_, e, ?_, hblock⟩
  · obtain ⟨r, hr, h1, h2⟩ := hcond.1
    exact ⟨r, hr, h1, h2⟩
  · intro r hr h1 h2
    have := hcond.2 r hr
    exact this ⟨h1, h2⟩
  · rw [hc]; exact resolve_spec s c e hres

/-- **Sorted.**  The identities inside every trigger are sorted byte-wise. -/
theorem C02_sorted (s : State) (now number : Int) :
    (∀ t ∈ (timeTriggers s now number).2, t.ids.Pairwise (fun a b => bytesLe a b = true)) ∧
    (∀ t ∈ eventTriggers s, t.ids.Pairwise (fun a b => bytesLe a b = true)) := by
  constructor
  · intro t ht
    have ht := timeTriggers_mem s now number t ht
    · obtain ⟨c, e, _, _, hids⟩ := groupTime_spec s _ t ht
      rw [hids]; exact sortIds_pairwise _
  · intro t ht
    obtain ⟨c, e, _, _, hids⟩ := eventTriggers_spec s t ht
    rw [hids]; exact sortIds_pairwise _

/-- **Distinct.**  With the primary keys of the two tables and identities determined injectively by the
    key within a keyper set (the identity is the Keccak hash of prefix and sender), no identity occurs
    twice inside a trigger. -/
theorem C02_distinct (s : State) (now number : Int)
    (hkey : KeyUnique s)
    (hinj : ∀ a ∈ s.regs, ∀ b ∈ s.regs, a.eon = b.eon → a.identity = b.identity → a.key = b.key)
    (hrow : ∀ a ∈ s.regs, ∀ b ∈ s.regs, a.key = b.key → a = b)
    (hfired : s.fired.Nodup) :
    (∀ t ∈ (timeTriggers s now number).2, t.ids.Nodup) ∧ (∀ t ∈ eventTriggers s, t.ids.Nodup) := by
  have hregsNodup : s.regs.Nodup := by
    unfold KeyUnique at hkey
    exact hkey.imp (fun {a b} hab heq => hab (by rw [heq]))
  constructor
  · intro t ht
    have ht := timeTriggers_mem s now number t ht
    · obtain ⟨c, e, _, _, hids⟩ := groupTime_spec s _ t ht
      rw [hids]
      apply (sortIds_perm _).nodup_iff.2
      apply nodup_map_of_inj_on
      · apply nodup_filter
        apply nodup_filter
        apply nodup_filter
        unfold due
        exact (isort_perm _ _).nodup_iff.2 (nodup_filter _ hregsNodup)
      · intro a ha b hb hab
        have ha1 := mem_filter.1 ha
        have hb1 := mem_filter.1 hb
        have ha2 := (mem_due.1 (mem_filter.1 (mem_filter.1 ha1.1).1).1).1
        have hb2 := (mem_due.1 (mem_filter.1 (mem_filter.1 hb1.1).1).1).1
        have hae : a.eon = c := by simpa using ha1.2
        have hbe : b.eon = c := by simpa using hb1.2
        exact hrow a ha2 b hb2 (hinj a ha2 b hb2 (by rw [hae, hbe]) hab)
  · intro t ht
    obtain ⟨c, e, _, _, hids⟩ := eventTriggers_spec s t ht
    rw [hids]
    apply (sortIds_perm _).nodup_iff.2
    apply nodup_map_of_inj_on
    · apply nodup_filter
      unfold undecryptedFired
      exact nodup_filter _ hfired
    · intro a ha b hb hab
      have ha1 := mem_filter.1 ha
      have hb1 := mem_filter.1 hb
      have hae : a.eon = c := by simpa using ha1.2
      have hbe : b.eon = c := by simpa using hb1.2
      cases a; cases b
      simp only at hae hbe hab
      subst hae hbe hab
      rfl

/-- **Through every history.**  For every history of blocks (any timestamps and numbers), registrations,
    trigger registrations and firings, eon starts, key generation results, keyper-set rows, key releases
    and restarts, from any state: every trigger emitted at any block satisfies the release conditions above
    in the state in which that block was processed. -/
theorem C02_history (s0 : State) (ops : List Op) :
    ∀ x ∈ emitted s0 ops,
      (∀ t ∈ x.2.2.2.1, ∀ id ∈ t.ids,
        ∃ r ∈ x.1.regs, r.identity = id ∧ r.decrypted = false ∧ r.timestamp < x.2.1 ∧
          ∃ e, Decryptable x.1 r.eon e ∧ e.activation ≤ x.2.2.1 ∧ t.block = e.activation) ∧
      (∀ t ∈ x.2.2.2.2, ∀ id ∈ t.ids,
        ∃ f ∈ x.1.fired, f.identity = id ∧
          (∀ r ∈ x.1.trigRegs, r.eon = f.eon → r.identity = id → r.decrypted = false) ∧
          ∃ e, Decryptable x.1 f.eon e ∧ t.block = e.activation) := by
  intro x hx
  obtain ⟨h1, h2⟩ := emitted_is_onBlock s0 ops x hx
  constructor
  · rw [h1]; exact C02_time x.1 x.2.1 x.2.2.1
  · rcases h2 with h2 | h2
    · rw [h2]
      intro t ht id hid
      obtain ⟨f, hf, e1, _, e3, e4⟩ := C02_event x.1 t ht id hid
      exact ⟨f, hf, e1, e3, e4⟩
    · rw [h2]; simp

/-- **Never again (time-based).**  Once the registration with key `k` is marked decrypted, then through
    every later history no time-based trigger is ever sourced from a registration with that key. -/
theorem C02_never_again_time (s0 : State) (k : Nat) (hu : KeyUnique s0) (hk : KeyDone k s0)
    (hex : ∃ r ∈ s0.regs, r.key = k) (ops : List Op) :
    ∀ x ∈ emitted s0 ops, ∀ r ∈ x.1.regs, r.key = k → r.decrypted = true := by
  intro x hx
  have := emitted_inv (fun s => KeyUnique s ∧ KeyDone k s ∧ ∃ r ∈ s.regs, r.key = k)
    (fun s op h => ⟨step_keyUnique s op h.1, step_keyDone k s op h.2.1 h.2.2⟩) s0 ops ⟨hu, hk, hex⟩ x hx
  exact this.2.1

/-- **Never again (event-based).**  Once a trigger registration (eon, identity) is marked decrypted, no
    later event-based trigger is sourced from a fired row of that (eon, identity). -/
theorem C02_never_again_event (s0 : State) (eon : Int) (id : Bytes) (hd : TrigDone eon id s0) (ops : List Op) :
    ∀ x ∈ emitted s0 ops, ∀ t ∈ eventTriggers x.1, ∀ f ∈ x.1.fired, f.eon = eon → f.identity = id →
      f ∉ (undecryptedFired x.1) := by
  intro x hx t _ f _ he hi hmem
  have hdone := emitted_inv (TrigDone eon id) (step_trigDone eon id) s0 ops hd x hx
  obtain ⟨r, hr, h1, h2, h3⟩ := hdone
  have hcond := (mem_filter.1 hmem).2
  simp only [Bool.and_eq_true, Bool.not_eq_true', any_eq_false, decide_eq_true_eq, not_and,
    Bool.not_eq_true] at hcond
  have := hcond.2 r hr ⟨by rw [h1, he], by rw [h2, hi]⟩
  rw [h3] at this
  cases this

/-- the in-memory mark only moves forward, so a block whose timestamp is not above it emits no time-based
    trigger (non-monotone timestamps are harmless) -/
theorem C02_mark (s : State) (now number m : Int) (hm : s.mark = some m) (hle : now ≤ m) :
    timeTriggers s now number = (some m, []) := by
  unfold timeTriggers
  simp only [hm]
  rw [if_pos (by simpa using hle)]

/-- the SQL the model's table operations stand for, as extracted from the source on this run -/
theorem C02_sql_pinned :
    Shutter.Generated.SqlFacts.service_GetNotDecryptedIdentityRegisteredEvents =
      "SELECT block_number, block_hash, tx_index, log_index, eon, identity_prefix, sender, timestamp, decrypted, identity FROM identity_registered_event WHERE timestamp >= $1 AND timestamp <= $2 AND decrypted = false ORDER BY timestamp ASC" ∧
    Shutter.Generated.SqlFacts.keyper_GetLatestStartedEonByKeyperConfigIndex =
      "SELECT eon, height, activation_block_number, keyper_config_index FROM eons WHERE keyper_config_index = $1 ORDER BY eon DESC LIMIT 1" ∧
    Shutter.Generated.SqlFacts.keyper_GetDKGResultForKeyperConfigIndex =
      "SELECT eon, success, error, pure_result FROM dkg_result WHERE eon = (SELECT max(eon) FROM eons WHERE keyper_config_index = $1)" ∧
    -- the fired triggers a block looks at are the ones not marked decrypted: the filter is the query's (the model's
    -- `eventTriggers` and the database stand-in of the rig both take it from here)
    Shutter.Generated.SqlFacts.service_GetUndecryptedFiredTriggers =
      "SELECT f.identity_prefix, f.sender, f.block_number, f.block_hash, f.tx_index, f.log_index, e.eon AS eon, e.expiration_block_number AS expiration_block_number, e.identity AS identity, e.decrypted AS decrypted FROM fired_triggers f INNER JOIN event_trigger_registered_event e ON f.eon = e.eon AND f.identity = e.identity WHERE NOT EXISTS ( -- not decrypted yet SELECT 1 FROM event_trigger_registered_event e WHERE e.eon = f.eon AND e.identity = f.identity AND e.decrypted = true )" ∧
    Shutter.Generated.SqlFacts.service_UpdateEventBasedDecryptedFlags =
      "UPDATE event_trigger_registered_event SET decrypted = TRUE WHERE (eon, identity) IN ( SELECT UNNEST($1::bigint[]), UNNEST($2::bytea[]) )" ∧
    Shutter.Generated.SqlFacts.service_UpdateTimeBasedDecryptedFlags =
      "UPDATE identity_registered_event SET decrypted = TRUE WHERE (eon, identity) IN ( SELECT UNNEST($1::bigint[]), UNNEST($2::bytea[]) )" :=
  ⟨rfl, rfl, rfl, rfl, rfl, rfl⟩

/-! ### non-vacuity -/

def exState : State :=
  { regs := [ { key := 1, eon := 0, identity := [5, 1], timestamp := 100, decrypted := false },
              { key := 2, eon := 0, identity := [4, 2], timestamp := 101, decrypted := false },
              { key := 3, eon := 0, identity := [3, 3], timestamp := 90, decrypted := true },
              { key := 4, eon := 1, identity := [2, 4], timestamp := 90, decrypted := false } ],
    trigRegs := [ { eon := 0, identity := [7], decrypted := false }, { eon := 0, identity := [8], decrypted := true } ],
    fired := [ { eon := 0, identity := [7] }, { eon := 0, identity := [8] } ],
    eons := [ { eon := 1, config := 0, activation := 10 }, { eon := 2, config := 1, activation := 20 } ],
    configs := [ { config := 0, member := true }, { config := 1, member := true } ],
    dkgs := [ { eon := 1, success := true }, { eon := 2, success := false } ] }

example : (timeTriggers exState 101 10).2 = [{ block := 10, ids := [[5, 1]] }] := by decide
example : (timeTriggers exState 102 10).2 = [{ block := 10, ids := [[4, 2], [5, 1]] }] := by decide
example : (timeTriggers exState 102 9).2 = [] := by decide
example : eventTriggers exState = [{ block := 10, ids := [[7]] }] := by decide

end Shutter.Properties.C02
