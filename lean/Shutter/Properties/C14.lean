/-
C14 — Keypers read chain events exactly as shuttermint wrote them.
-/
import Shutter.Proofs.Events

namespace Shutter.Properties.C14
open Shutter.Events

def IsBytes (b : Bytes) : Prop := ∀ x ∈ b, x < 256

/-- what the model assumes of the library oracles: the checksummed text of a 20-byte address is a
    40-digit hex text of that address; key and gamma encodings decode to what was encoded -/
structure Laws (o : Oracles) (validKey validGammas : Bytes → Prop) : Prop where
  hex_parse : ∀ a, a.length = 20 → IsBytes a → parseHexAddress (o.hex a) = some a
  key_rt : ∀ k, validKey k → o.decPubkey (o.encPubkey k) = some k
  gammas_rt : ∀ g, validGammas g → o.decGammas (o.encGammas g) = some g

def IsAddr (a : Bytes) : Prop := a.length = 20 ∧ IsBytes a

/-- values the application can put into an event -/
def WF (validKey validGammas : Bytes → Prop) : Ev → Prop
  | .checkIn s k => IsAddr s ∧ validKey k
  | .batchConfig a ks t i => a < 2 ^ 64 ∧ t < 2 ^ 64 ∧ i < 2 ^ 64 ∧ ∀ k ∈ ks, IsAddr k
  | .batchConfigStarted i => i < 2 ^ 64
  | .eonStarted e a i => e < 2 ^ 64 ∧ a < 2 ^ 64 ∧ i < 2 ^ 64
  | .polyCommitment s e g => IsAddr s ∧ e < 2 ^ 64 ∧ validGammas g
  | .polyEval s e rs evs => IsAddr s ∧ e < 2 ^ 64 ∧ (∀ r ∈ rs, IsAddr r) ∧ ∀ b ∈ evs, IsBytes b
  | .accusation s e as => IsAddr s ∧ e < 2 ^ 64 ∧ ∀ a ∈ as, IsAddr a
  | .apology s e as ps => IsAddr s ∧ e < 2 ^ 64 ∧ (∀ a ∈ as, IsAddr a) ∧
      ∀ p ∈ ps, IsBytes p ∧ normBig p = p

theorem decodeAddress_hex (o : Oracles) (vk vg : Bytes → Prop) (l : Laws o vk vg) (a : Bytes)
    (h : IsAddr a) : decodeAddress o.toAddrOracle (o.hex a) = some a := by
  unfold decodeAddress
  rw [l.hex_parse a h.1 h.2]
  simp

theorem decodeAddresses_encode (o : Oracles) (vk vg : Bytes → Prop) (l : Laws o vk vg)
    (as : List Bytes) (h : ∀ a ∈ as, IsAddr a) :
    decodeAddresses (encodeAddresses o.toAddrOracle as) = some as := by
  unfold decodeAddresses encodeAddresses
  apply decodeList_encodeList
  · intro a ha; exact l.hex_parse a (h a ha).1 (h a ha).2
  · intro a ha; exact (parseHexAddress_no_comma _ _ (l.hex_parse a (h a ha).1 (h a ha).2)).2
  · intro a ha; exact (parseHexAddress_no_comma _ _ (l.hex_parse a (h a ha).1 (h a ha).2)).1

theorem map_normBig_id (ps : List Bytes) (h : ∀ p ∈ ps, IsBytes p ∧ normBig p = p) :
    ps.map normBig = ps := by
  induction ps with
  | nil => rfl
  | cons p rest ih =>
    simp only [List.map_cons, (h p (by simp)).2, ih (fun q hq => h q (List.mem_cons_of_mem _ hq))]

/-- **Round trip.**  Every event value the application can emit — all eight types, including empty
    lists, empty byte strings, zero integers and the largest `uint64` — decodes on the keyper side to
    exactly the values that were put in. -/
theorem C14_roundtrip (o : Oracles) (vk vg : Bytes → Prop) (l : Laws o vk vg) (e : Ev)
    (h : WF vk vg e) : makeEvent o (makeABCI o e) = some e := by
  cases e with
  | checkIn s k =>
    obtain ⟨hs, hk⟩ := h
    simp [makeEvent, makeABCI, expectAttributes, tCheckIn, decodeAddress_hex o vk vg l s hs, l.key_rt k hk]
  | batchConfig a ks t i =>
    obtain ⟨ha, ht, hi, hks⟩ := h
    simp [makeEvent, makeABCI, expectAttributes, tCheckIn, tBatchConfig, decodeUint_encodeUint _ ha,
      decodeUint_encodeUint _ ht, decodeUint_encodeUint _ hi, decodeAddresses_encode o vk vg l ks hks]
  | batchConfigStarted i =>
    simp [makeEvent, makeABCI, expectAttributes, tCheckIn, tBatchConfig, tBatchConfigStarted,
      decodeUint_encodeUint _ h]
  | eonStarted e a i =>
    obtain ⟨he, ha, hi⟩ := h
    simp [makeEvent, makeABCI, expectAttributes, tCheckIn, tBatchConfig, tBatchConfigStarted, tEonStarted,
      decodeUint_encodeUint _ he, decodeUint_encodeUint _ ha, decodeUint_encodeUint _ hi]
  | polyCommitment s e g =>
    obtain ⟨hs, he, hg⟩ := h
    simp [makeEvent, makeABCI, expectAttributes, tCheckIn, tBatchConfig, tBatchConfigStarted, tEonStarted,
      tPolyCommitment, decodeAddress_hex o vk vg l s hs, decodeUint_encodeUint _ he, l.gammas_rt g hg]
  | polyEval s e rs evs =>
    obtain ⟨hs, he, hrs, hevs⟩ := h
    simp [makeEvent, makeABCI, expectAttributes, tCheckIn, tBatchConfig, tBatchConfigStarted, tEonStarted,
      tPolyCommitment, tPolyEval, decodeAddress_hex o vk vg l s hs, decodeUint_encodeUint _ he,
      decodeAddresses_encode o vk vg l rs hrs, decodeByteSeq_encodeByteSeq evs hevs]
  | accusation s e as =>
    obtain ⟨hs, he, has⟩ := h
    simp [makeEvent, makeABCI, expectAttributes, tCheckIn, tBatchConfig, tBatchConfigStarted, tEonStarted,
      tPolyCommitment, tPolyEval, tAccusation, decodeAddress_hex o vk vg l s hs, decodeUint_encodeUint _ he,
      decodeAddresses_encode o vk vg l as has]
  | apology s e as ps =>
    obtain ⟨hs, he, has, hps⟩ := h
    simp [makeEvent, makeABCI, expectAttributes, tCheckIn, tBatchConfig, tBatchConfigStarted, tEonStarted,
      tPolyCommitment, tPolyEval, tAccusation, tApology, decodeAddress_hex o vk vg l s hs,
      decodeUint_encodeUint _ he, decodeAddresses_encode o vk vg l as has,
      decodeByteSeq_encodeByteSeq ps (fun p hp => (hps p hp).1), map_normBig_id ps hps]

/-- **No two events share a wire form.**  Two event values the application can emit that produce the same ABCI
    event (type and attributes) are the same value: nothing a keyper reads can stand for two different things
    shuttermint wrote.  (A corollary of the round trip: the reader is a left inverse of the writer.) -/
theorem C14_injective (o : Oracles) (vk vg : Bytes → Prop) (l : Laws o vk vg) (e₁ e₂ : Ev)
    (h₁ : WF vk vg e₁) (h₂ : WF vk vg e₂) (h : makeABCI o e₁ = makeABCI o e₂) : e₁ = e₂ := by
  have r₁ := C14_roundtrip o vk vg l e₁ h₁
  have r₂ := C14_roundtrip o vk vg l e₂ h₂
  rw [h, r₂] at r₁
  exact (Option.some.inj r₁).symm

/-- **Integers are never mis-read.**  Whatever text the integer decoder accepts denotes the number it
    returns, below 2^64; anything else is an error (`none`), e.g. the empty string, signs, spaces. -/
theorem C14_uint_strict (s : List Char) (n : Nat) (h : decodeUint s = some n) :
    n < 2 ^ 64 ∧ s ≠ [] ∧ ∃ ds, mapOpt digitVal? s = some ds ∧ ofDigitsBE ds = n := by
  unfold decodeUint at h
  split at h
  · cases h
  · rename_i hne
    cases hm : mapOpt digitVal? s with
    | none => simp [hm] at h
    | some ds =>
      simp only [hm] at h
      split at h
      · rename_i hlt
        simp only [Option.some.injEq] at h
        subst h
        refine ⟨hlt, ?_, ds, rfl, rfl⟩
        intro hs; subst hs; simp at hne
      · cases h

/-- **Attribute access never goes out of range**: `expectAttributes` succeeds only with as many
    values as names, so every positional access that follows is inside the list. -/
theorem C14_expect_length (attrs : List Attr) (names : List String) (vs : List (List Char))
    (h : expectAttributes attrs names = some vs) : vs.length = names.length ∧ names.length ≤ attrs.length := by
  induction names generalizing attrs vs with
  | nil => simp [expectAttributes] at h; subst h; simp
  | cons n ns ih =>
    cases attrs with
    | nil => simp [expectAttributes] at h
    | cons a as =>
      simp only [expectAttributes] at h
      split at h
      · cases hr : expectAttributes as ns with
        | none => simp [hr] at h
        | some ws =>
          simp only [hr, Option.some.injEq] at h
          subst h
          have := ih as ws hr
          simp only [List.length_cons]
          omega
      · cases h

/-- **Unknown event types and misplaced attribute names are errors.** -/
theorem C14_names_checked (o : Oracles) (ev : RawEvent) (e : Ev) (h : makeEvent o ev = some e) :
    ev.type ∈ [tCheckIn, tBatchConfig, tBatchConfigStarted, tEonStarted, tPolyCommitment, tPolyEval,
      tAccusation, tApology] := by
  unfold makeEvent at h
  repeat' split at h
  all_goals first | (simp_all; done) | cases h

/-! non-vacuity and boundary values (these are tests of the definitions, not the theorem) -/
example : decodeUint (encodeUint 18446744073709551615) = some 18446744073709551615 := by decide
example : decodeUint "18446744073709551616".toList = none := by decide
example : decodeUint "007".toList = some 7 := by decide
example : decodeUint "+7".toList = none ∧ decodeUint "".toList = none ∧ decodeUint "1_0".toList = none := by decide
example : decodeByteSeq (encodeByteSeq [[], [0, 255]]) = some [[], [0, 255]] := by decide
example : encodeByteSeq [[]] = "0x".toList ∧ encodeByteSeq [] = [] := by decide
example : decodeByteSeq "0x,".toList = none ∧ decodeByteSeq "0x0".toList = none := by decide

end Shutter.Properties.C14
