/-
C07 — Honest keypers agree on the eon key despite Byzantine participants.

The decision layer is `Model/Dkg.lean`.  Here commitments are interpreted: dealer `j`'s commitment binds it to a
polynomial `f j` (Feldman commitment: `VerifyPolyEval i v c` holds iff `v = f(x_i)`; the group arithmetic behind
it is outside the model, as in C01).  The eon public key is `F(0)` in the exponent and keyper `k`'s public key
share `F(x_k)` in the exponent, where `F` is the sum of the participants' polynomials.
-/
import Shutter.Model.Dkg
import Shutter.Proofs.EpochKG

open Polynomial

namespace Shutter.Properties.C07
open Shutter.Dkg Shutter.EpochKG List

variable {F : Type} [Field F]

/-- the public part of a view: what is on the chain -/
def SamePublic (v v' : View) : Prop :=
  v.n = v'.n ∧ v.committed = v'.committed ∧ v.accusations = v'.accusations ∧ v.apologies = v'.apologies

/-- the key polynomial: the sum of the participants' polynomials -/
noncomputable def keyPoly (f : ℕ → F[X]) (ps : List ℕ) : F[X] := (ps.map f).sum

/-- `ComputeEonSecretKeyShare`: the sum of the values used for the participants -/
def secretShare (used : ℕ → F) (ps : List ℕ) : F := (ps.map used).sum

theorem isCorrupt_public (v v' : View) (h : SamePublic v v') (d : ℕ) : isCorrupt v d = isCorrupt v' d := by
  obtain ⟨_, h2, h3, h4⟩ := h
  unfold isCorrupt
  rw [h2, h3, h4]

/-- **Who takes part is decided by the chain.**  Two keypers that have seen the same commitments, accusations
    and apologies count the same dealers in, whatever each of them received in private. -/
theorem C07_public (v v' : View) (h : SamePublic v v') : participants v = participants v' := by
  unfold participants
  rw [h.1]
  apply filter_congr
  intro d _
  rw [isCorrupt_public v v' h d]

/-- **Agreement.**  All keypers that report success after seeing the same chain hold the same key polynomial:
    the same eon public key and the same vector of public key shares. -/
theorem C07_agree (v v' : View) (h : SamePublic v v') (ps ps' : List ℕ)
    (hok : result v = .ok ps) (hok' : result v' = .ok ps') (f : ℕ → F[X]) :
    ps = ps' ∧ keyPoly f ps = keyPoly f ps' := by
  have hps : ps = participants v := by
    unfold result at hok
    split at hok
    · cases hok
    · split at hok
      · cases hok
      · injection hok with hok; exact hok.symm
  have hps' : ps' = participants v' := by
    unfold result at hok'
    split at hok'
    · cases hok'
    · split at hok'
      · cases hok'
      · injection hok' with hok'; exact hok'.symm
  have : ps = ps' := by rw [hps, hps', C07_public v v' h]
  exact ⟨this, by rw [this]⟩

theorem result_ok (v : View) (ps : List ℕ) (h : result v = .ok ps) :
    ps = participants v ∧ (∀ d ∈ ps, v.evalOK.getD d false = true) ∧ v.t ≤ ps.length := by
  unfold result at h
  split at h
  · cases h
  · rename_i hnone
    split at h
    · cases h
    · rename_i hlen
      injection h with h
      subst h
      refine ⟨rfl, ?_, by omega⟩
      intro d hd
      have := find?_eq_none.1 hnone d hd
      simpa using this

/-- **Each secret share matches its public share.**  On success, with every value a keyper uses for a
    participant being what that participant's commitment fixes for it (that is what the stored verification
    bit says), its secret key share is the key polynomial at its own point. -/
theorem C07_share_matches (v : View) (ps : List ℕ) (hok : result v = .ok ps) (f : ℕ → F[X]) (used : ℕ → F)
    (hsound : ∀ d, v.evalOK.getD d false = true → used d = (f d).eval (node v.me)) :
    secretShare used ps = (keyPoly f ps).eval (node v.me) := by
  obtain ⟨_, hall, _⟩ := result_ok v ps hok
  unfold secretShare keyPoly
  have : ∀ l : List ℕ, (∀ d ∈ l, v.evalOK.getD d false = true) →
      (l.map used).sum = ((l.map f).sum).eval (node v.me) := by
    intro l
    induction l with
    | nil => intro _; simp
    | cons d rest ih =>
      intro h
      simp only [map_cons, sum_cons, eval_add]
      rw [hsound d (h d mem_cons_self), ih (fun x hx => h x (mem_cons_of_mem _ hx))]
  exact this ps hall

/-- the key polynomial has degree below the threshold when every participant's commitment has -/
theorem C07_degree (f : ℕ → F[X]) (ps : List ℕ) (t : ℕ) (ht : 0 < t) (h : ∀ d ∈ ps, (f d).degree < t) :
    (keyPoly f ps).degree < t := by
  unfold keyPoly
  induction ps with
  | nil => simp only [map_nil, sum_nil, degree_zero]; exact WithBot.bot_lt_coe t
  | cons d rest ih =>
    simp only [map_cons, sum_cons]
    exact lt_of_le_of_lt (degree_add_le _ _) (max_lt (h d mem_cons_self) (ih (fun x hx => h x (mem_cons_of_mem _ hx))))

/-- **Any t shares decrypt.**  The epoch key interpolated (as `ComputeEpochSecretKey` does) from the epoch
    shares of any `t` keypers with pairwise distinct evaluation points is `F(0) • H`: the key for what was
    encrypted to the eon public key. -/
theorem C07_decrypts {G : Type} [AddCommGroup G] [Module F G] (f : ℕ → F[X]) (ps : List ℕ) (t : ℕ) (ht : 0 < t)
    (hdeg : ∀ d ∈ ps, (f d).degree < t) (H : G) (shares : List (ℕ × G))
    (hnd : (shares.map (·.1)).Nodup) (hinj : Set.InjOn (node : ℕ → F) ↑(shares.map (·.1)).toFinset)
    (hlen : shares.length = t) (hval : ∀ e ∈ shares, e.2 = (keyPoly f ps).eval (node e.1) • H) :
    combine (lawful : Ops F G) shares = (keyPoly f ps).eval 0 • H :=
  combine_eq (keyPoly f ps) H shares hnd hinj (by rw [hlen]; exact C07_degree f ps t ht hdeg) hval

/-- **Everybody honest.**  If every dealer's commitment is stored, nobody is accused and every value received
    verifies, the keyper succeeds with all `n` dealers taking part. -/
theorem C07_all_honest (v : View) (hn : v.t ≤ v.n) (hc : v.committed = List.replicate v.n true)
    (ha : v.accusations = []) (hp : v.apologies = []) (he : v.evalOK = List.replicate v.n true) :
    result v = .ok (List.range v.n) := by
  have hpart : participants v = List.range v.n := by
    unfold participants
    rw [filter_eq_self]
    intro d hd
    have hdn : d < v.n := mem_range.1 hd
    unfold isCorrupt
    rw [hc, ha, hp]
    simp [List.getD_eq_getElem?_getD, List.getElem?_replicate, hdn]
  unfold result
  rw [hpart]
  have hnone : (List.range v.n).find? (fun d => !(v.evalOK.getD d false)) = none := by
    rw [find?_eq_none]
    intro d hd
    have hdn : d < v.n := mem_range.1 hd
    rw [he]
    simp [List.getD_eq_getElem?_getD, List.getElem?_replicate, hdn]
  rw [hnone]
  simp only [length_range]
  rw [if_neg (by omega)]

/-- **Up to n − t corrupt dealers are tolerated.**  If at least `t` dealers are not corrupt, the outcome is never
    "too few participants". -/
theorem C07_tolerates (v : View) (h : v.t ≤ (participants v).length) : ∀ k, result v ≠ .tooFew k := by
  intro k
  unfold result
  split
  · simp
  · split
    · omega
    · simp

/-- **An accusation on the chain protects the accuser.**  If every dealer whose value for this keyper is
    missing or wrong has been accused by it on the chain, the keyper does not abort: the dealer either apologised
    with a value that verifies (which the keyper then uses) or is counted out by everybody. -/
theorem C07_no_abort (v : View)
    (hacc : ∀ d, d < v.n → v.evalOK.getD d false = false → (v.me, d) ∈ v.accusations)
    (hapo : ∀ d ok, ((v.me, d), ok) ∈ v.apologies → ok = true → v.evalOK.getD d false = true) :
    ∀ d, result v ≠ .abort d := by
  intro d
  unfold result
  cases hfind : (participants v).find? (fun d => !(v.evalOK.getD d false)) with
  | none =>
    simp only []
    split <;> simp
  | some x =>
    exfalso
    have hx := mem_of_find?_eq_some hfind
    have hbad := find?_some hfind
    simp only [Bool.not_eq_true'] at hbad
    unfold participants at hx
    rw [mem_filter] at hx
    have hxn : x < v.n := mem_range.1 hx.1
    have hnc : isCorrupt v x = false := by simpa using hx.2
    have hin := hacc x hxn hbad
    unfold isCorrupt at hnc
    simp only [Bool.or_eq_false_iff] at hnc
    obtain ⟨⟨_, hnoBad⟩, hanswered⟩ := hnc
    rw [any_eq_false] at hanswered
    have hans := hanswered (v.me, x) hin
    -- the accusation (me, x) is answered …
    have hex : ∃ a ∈ v.apologies, a.1 = (v.me, x) := by
      have : v.apologies.any (fun a => decide (a.1 = (v.me, x))) = true := by
        cases h : v.apologies.any (fun a => decide (a.1 = (v.me, x))) with
        | true => rfl
        | false => rw [h] at hans; simp at hans
      obtain ⟨a, ha, hk⟩ := any_eq_true.1 this
      exact ⟨a, ha, by simpa using hk⟩
    obtain ⟨a, ha, hkey⟩ := hex
    -- … and the answer verifies: then the value used is good, contradiction
    rw [any_eq_false] at hnoBad
    have hgood := hnoBad a ha
    have hok : a.2 = true := by
      cases h : a.2 with
      | true => rfl
      | false => rw [hkey, h] at hgood; simp at hgood
    have hmem : ((v.me, x), a.2) ∈ v.apologies := by rw [← hkey]; exact ha
    have := hapo x a.2 hmem hok
    rw [hbad] at this; cases this

/-! ### non-vacuity -/

def exView (committed : List Bool) (accs : List (ℕ × ℕ)) (apos : List ((ℕ × ℕ) × Bool)) (evalOK : List Bool) : View :=
  { n := 3, t := 2, me := 0, committed := committed, accusations := accs, apologies := apos, evalOK := evalOK }

example : result (exView [true, true, true] [(1, 2)] [] [true, true, true]) = .ok [0, 1] := by decide
example : result (exView [true, true, true] [(0, 2)] [((0, 2), true)] [true, true, true]) = .ok [0, 1, 2] := by decide
example : result (exView [true, true, true] [] [] [true, false, true]) = .abort 1 := by decide
example : result (exView [true, false, false] [] [] [true, false, false]) = .tooFew 1 := by decide

end Shutter.Properties.C07
