/-
C09 — Shuttermint replicas never diverge.

The model's step is a function of (state, call, map-iteration order); the theorems below say the
iteration order is irrelevant on every reachable state, so two replicas fed the same genesis and
block sequence return the same results and hold the same state.  `Generated/AppFacts.lean` (rewritten
from /repo on every run) pins the places where the code ranges over a map or reads anything outside
the block sequence.
-/
import Shutter.Proofs.AppOrder
import Shutter.Generated.AppFacts
import Shutter.Proofs.AppMempool

namespace Shutter.Properties.C09
open Shutter Shutter.App Shutter.App.App

/-- **One call.**  On a well-formed state the result of any ABCI call (response and new state) is
    the same for every two iteration orders of every map the application ranges over. -/
theorem C09_order_irrelevant (o₁ o₂ : Order) (h₁ : o₁.Valid) (h₂ : o₂.Valid) (a : App.App) (hwf : WF a)
    (op : Op) : a.stepWith o₁ op = a.stepWith o₂ op :=
  stepWith_order o₁ o₂ h₁ h₂ a hwf op

/-- well-formedness holds at genesis and is preserved by every call, in every order -/
theorem C09_wf_init (chainId : String) (keypers : List Addr) (threshold initialEon : Nat) (fork : Fork)
    (devMode : Bool) (validators : List (PubKey × Int)) :
    WF (App.App.init chainId keypers threshold initialEon fork devMode validators) :=
  init_WF _ _ _ _ _ _ _

theorem C09_wf_step (o : Order) (a : App.App) (hwf : WF a) (op : Op) : WF (a.stepWith o op).1 :=
  stepWith_WF o a hwf op

/-- **Two replicas.**  Same genesis, same sequence of calls, but each replica ranging over its maps
    in its own arbitrary order at every single call: identical outputs and identical final state. -/
theorem C09_replicas_agree (chainId : String) (keypers : List Addr) (threshold initialEon : Nat)
    (fork : Fork) (devMode : Bool) (validators : List (PubKey × Int))
    (ops : List Op) (orders₁ orders₂ : List Order)
    (hl₁ : orders₁.length = ops.length) (hl₂ : orders₂.length = ops.length)
    (hv₁ : ∀ o ∈ orders₁, o.Valid) (hv₂ : ∀ o ∈ orders₂, o.Valid) :
    let genesis := App.App.init chainId keypers threshold initialEon fork devMode validators
    genesis.runWith (orders₁.zip ops) = genesis.runWith (orders₂.zip ops) := by
  intro genesis
  have hwf : WF genesis := init_WF _ _ _ _ _ _ _
  have e : ∀ (orders : List Order), orders.length = ops.length → (∀ o ∈ orders, o.Valid) →
      genesis.runWith (orders.zip ops) = genesis.run ops := by
    intro orders hl hv
    have := runWith_eq_run genesis hwf (orders.zip ops)
      (fun p hp => hv p.1 (List.of_mem_zip hp).1)
    rw [this]
    congr 1
    exact List.map_snd_zip (Nat.le_of_eq hl.symm)
  rw [e orders₁ hl₁ hv₁, e orders₂ hl₂ hv₂]

open Shutter.Mempool

/-- **The mempool is not part of the block sequence.**  Run any history on a node whose mempool state is
    arbitrary (`withCheck a c`), with mempool checks interleaved anywhere: the answers to the block sequence
    (begin, deliver, end, commit) are those of the same node running the block sequence alone, and the two final
    states differ in the mempool bookkeeping only. -/
theorem C09_mempool_irrelevant (h : List (Order × Op)) (a : App.App) (c : CheckTxState) :
    ∃ c', ((withCheck a c).runWith h).1 = withCheck (a.runWith (blockOps h)).1 c' ∧
      blockOuts ((withCheck a c).runWith h).2 = (a.runWith (blockOps h)).2 := by
  induction h generalizing a c with
  | nil => exact ⟨c, rfl, rfl⟩
  | cons p rest ih =>
    obtain ⟨o, op⟩ := p
    by_cases hop : isBlockOp op = true
    · obtain ⟨c1, hs, hout⟩ := step_mem o a c op hop
      obtain ⟨c2, h1, h2⟩ := ih (stepWith o a op).1 c1
      refine ⟨c2, ?_, ?_⟩
      · have hb : blockOps ((o, op) :: rest) = (o, op) :: blockOps rest := by simp [blockOps, hop]
        rw [hb]
        simp only [runWith, hs]
        exact h1
      · have hb : blockOps ((o, op) :: rest) = (o, op) :: blockOps rest := by simp [blockOps, hop]
        rw [hb]
        simp only [runWith, hs, blockOuts, List.filter_cons, hout, if_true]
        congr 1
    · have hck : ∃ tx, op = .check tx := by
        cases op with
        | check tx => exact ⟨tx, rfl⟩
        | _ => simp [isBlockOp] at hop
      obtain ⟨tx, rfl⟩ := hck
      obtain ⟨c1, hs, hout⟩ := step_check o (withCheck a c) tx
      rw [withCheck_withCheck] at hs
      obtain ⟨c2, h1, h2⟩ := ih a c1
      have hb : blockOps ((o, Op.check tx) :: rest) = blockOps rest := by simp [blockOps, isBlockOp]
      rw [hb]
      have hstep : stepWith o (withCheck a c) (.check tx) = (withCheck a c1, (stepWith o (withCheck a c) (.check tx)).2) := by
        rw [← hs]
      refine ⟨c2, ?_, ?_⟩
      · simp only [runWith]
        rw [hstep]
        exact h1
      · simp only [runWith]
        rw [hstep]
        simp only [blockOuts, List.filter_cons, hout]
        exact h2

/-- **Replicas with different mempools.**  Two replicas that execute the same block sequence answer it
    identically, whatever transactions each of them was asked to check in between. -/
theorem C09_mempool_replicas (a : App.App) (h₁ h₂ : List (Order × Op)) (hb : blockOps h₁ = blockOps h₂) :
    blockOuts (a.runWith h₁).2 = blockOuts (a.runWith h₂).2 := by
  obtain ⟨_, _, e1⟩ := C09_mempool_irrelevant h₁ a a.checkTx
  obtain ⟨_, _, e2⟩ := C09_mempool_irrelevant h₂ a a.checkTx
  rw [withCheck_self] at e1 e2
  rw [e1, e2, hb]

/-! ### facts regenerated from the source -/

/-- The only places where package `app` (and the event/uniqueness helpers it calls) ranges over a
    map are the four sites covered by `Order`: both loops of `DiffPowermaps`, `ValidatorUpdates`
    (sorted afterwards), and the vote count in `outcomeIndex`. -/
theorem C09_map_ranges_pinned :
    Generated.AppFacts.mapRanges =
      [("DiffPowermaps", "newpm"), ("DiffPowermaps", "oldpm"),
       ("Powermap.ValidatorUpdates", "pm"), ("Voting.outcomeIndex", "v.Votes")] := by
  decide

/-- Clock, OS, randomness, goroutines are used only by loading and persisting the state file, never
    by a function on the InitChain/BeginBlock/CheckTx/DeliverTx/EndBlock path. -/
theorem C09_clock_calls_pinned :
    Generated.AppFacts.clockCalls =
      [("LoadShutterAppFromFile", "os.IsNotExist"), ("LoadShutterAppFromFile", "os.Open"),
       ("LoadShutterAppFromFile", "time.Now"), ("ShutterApp.PersistToDisk", "os.Create"),
       ("ShutterApp.PersistToDisk", "os.Rename"), ("ShutterApp.PersistToDisk", "time.Now"),
       ("ShutterApp.maybePersistToDisk", "time.Since")] := by
  decide

/-- the override table in forks.go is the one the model's `forkOverrideEon` encodes -/
theorem C09_fork_overrides_pinned :
    Generated.AppFacts.forkOverrides =
      [("shutter-api-gnosis-1001", "{CheckInUpdate:&ForkHeightOverride{Eon:uint64Ptr(13),}}"),
       ("shutter-api-gnosis-1002", "{CheckInUpdate:&ForkHeightOverride{Eon:uint64Ptr(0),}}"),
       ("shutter-chiado-102000", "{CheckInUpdate:&ForkHeightOverride{Eon:uint64Ptr(13),}}"),
       ("shutter-gnosis-1000", "{CheckInUpdate:&ForkHeightOverride{Eon:uint64Ptr(9),}}"),
       ("shutter-service-chiado-1000", "{CheckInUpdate:&ForkHeightOverride{Eon:uint64Ptr(9),}}")]
    ∧ forkOverrideEon "shutter-api-gnosis-1001" = some 13
    ∧ forkOverrideEon "shutter-api-gnosis-1002" = some 0
    ∧ forkOverrideEon "shutter-chiado-102000" = some 13
    ∧ forkOverrideEon "shutter-gnosis-1000" = some 9
    ∧ forkOverrideEon "shutter-service-chiado-1000" = some 9 := by
  decide

/-! non-vacuity: a valid non-identity order exists, and a state where the old (unfixed) outcome rule
    would have been order-dependent (votes T,T,F,F at threshold 2) is decided the same way under it -/
def reverseOrder : Order := { votes := List.reverse, power := List.reverse }

example : reverseOrder.Valid := ⟨fun l => List.reverse_perm l, fun l => List.reverse_perm l⟩

example :
    let v : Voting Bool := { votes := [(1, 0), (2, 0), (3, 1), (4, 1)], candidates := [true, false] }
    v.outcome Order.canonical 2 = some true ∧ v.outcome reverseOrder 2 = some true := by
  decide

end Shutter.Properties.C09
