/-
C17 — Trigger definitions round-trip, match totally, are never hidden by the filter.

Proved here: totality and bounded allocation of matching for every log; that matching reads exactly
the documented slice on well-formed data; existence and soundness of the derived node-side filter;
that decoding yields valid definitions only; and the round trip through bytes (`C17_roundtrip`: typed
definition → RLP item tree → bytes → item tree → definition, with go-ethereum's canonical-form checks),
for every valid definition, from the RLP round trip for arbitrary item trees (`C17_rlp_roundtrip`).  The
model's encoder and decoder are compared byte for byte with the implementation on every run.
-/
import Shutter.Proofs.TriggerDef
import Shutter.Proofs.Rlp

namespace Shutter.Properties.C17
open Shutter.TriggerDef

theorem valid_preds (d : Definition) (h : d.valid = true) : ∀ p ∈ d.preds, p.valid = true := by
  unfold Definition.valid at h
  simp only [Bool.and_eq_true, List.all_eq_true] at h
  exact h.1

/-- **Matching is total.**  For every valid definition and every log — any number of topics, any
    data, any offset or length word up to 2^256-1 — matching answers yes or no; no slice access leaves
    its bounds (the model's `oob`, Go's panic, is unreachable). -/
theorem C17_match_total (d : Definition) (h : d.valid = true) (log : Log) :
    ∃ b, matchDef d log = .ok b := by
  unfold matchDef
  split
  · exact ⟨false, rfl⟩
  · exact matchPreds_ok d.preds (valid_preds d h) log

/-- **Bounded work.**  Reading any referenced value allocates at most the size of the log data plus
    three words, whatever the reference (valid or not) and whatever the log says about lengths. -/
theorem C17_alloc_bounded (r : ValueRef) (log : Log) :
    ∃ v, getValue r log = .ok v ∧ v.alloc ≤ 3 * word + log.data.length :=
  getValue_ok r log

/-- **Documented semantics, static reference.**  If the referenced word lies inside the data, the
    value is exactly that word. -/
theorem C17_match_spec_static (r : ValueRef) (log : Log) (htop : r.isTopic = false)
    (hdyn : r.dynamic = false) (hin : (r.offset - 4) * word + word ≤ log.data.length) :
    ∃ v, getValue r log = .ok v ∧
      v.bytes = some ((log.data.drop ((r.offset - 4) * word)).take word) := by
  unfold getValue
  simp only [htop, Bool.false_eq_true, if_false, hdyn]
  unfold fill
  have h1 : (r.offset - 4) * word < log.data.length := by simp only [word] at hin ⊢; omega
  simp only [h1, if_true]
  by_cases h2 : (r.offset - 4) * word + word < log.data.length
  · simp only [h2, if_true]
    rw [slice_ok _ _ _ (by omega) (by omega)]
    refine ⟨_, rfl, ?_⟩
    simp only [copyInto, Nat.add_sub_cancel_left, List.take_take, Nat.min_self, List.length_take,
      List.length_drop]
    have : word - min word (log.data.length - (r.offset - 4) * word) = 0 := by omega
    simp [this, zeros]
  · simp only [h2, if_false]
    rw [slice_ok _ _ _ (by omega) (Nat.le_refl _)]
    refine ⟨_, rfl, ?_⟩
    have hl : log.data.length - (r.offset - 4) * word = word := by omega
    simp only [copyInto, hl, List.length_take, List.length_drop, Nat.min_self, Nat.sub_self, zeros,
      List.replicate_zero, List.append_nil, List.take_take]

/-- **Documented semantics, topics.**  A topic reference yields the topic at that index (missing
    topics read as absent). -/
theorem C17_match_spec_topic (r : ValueRef) (log : Log) (htop : r.isTopic = true) :
    ∃ v, getValue r log = .ok v ∧ v.bytes = log.topics[r.offset]? := by
  unfold getValue
  simp only [htop, if_true]
  cases log.topics[r.offset]? <;> exact ⟨_, rfl, rfl⟩

/-- **A filter exists** for every valid definition. -/
theorem C17_filter_exists (d : Definition) (h : d.valid = true) : ∃ f, toFilter d = some f := by
  unfold toFilter
  have hv := valid_preds d h
  have hnd : nodupNat (topicEqOffsets d.preds) = true := by
    unfold Definition.valid at h
    simp only [Bool.and_eq_true] at h
    exact h.2
  have harg : ∀ p ∈ d.preds, p.isTopicEq = true → ∃ t, p.pred.byteArgs[0]? = some t ∧ t.length = word := by
    intro p hp hte
    have hpv := hv p hp
    unfold LogPred.valid at hpv
    unfold LogPred.isTopicEq at hte
    simp only [Bool.and_eq_true, Bool.not_eq_true', decide_eq_true_eq] at hpv hte
    obtain ⟨⟨_, hvp⟩, hw⟩ := hpv
    unfold ValuePred.valid at hvp
    simp only [Bool.and_eq_true, decide_eq_true_eq] at hvp
    have hb : p.pred.byteArgs.length = 1 := by rw [hvp.1.2, hte.2]; rfl
    cases hl : p.pred.byteArgs with
    | nil => simp [hl] at hb
    | cons t rest =>
      refine ⟨t, by simp, ?_⟩
      simp only [hte.1, hte.2, decide_true, Bool.and_self, Bool.true_and, hl, List.headD_cons,
        ne_eq, decide_not, Bool.not_eq_eq_eq_not, Bool.not_false, decide_eq_true_eq] at hw
      by_cases e : t.length = word
      · exact e
      · simp [e] at hw
  obtain ⟨ts, hts⟩ := toFilterAux_exists d.preds [] harg hnd (by intro i _; simp)
  rw [hts]
  exact ⟨_, rfl⟩

/-- **The filter never hides a match.**  Every log that matches a valid definition also passes the
    node-side filter derived from it. -/
theorem C17_filter_sound (d : Definition) (f : Filter) (hf : toFilter d = some f)
    (log : Log) (hm : matchDef d log = .ok true) : passes f log = true := by
  unfold toFilter at hf
  cases hts : toFilterAux d.preds [] with
  | none => simp [hts] at hf
  | some ts =>
    simp only [hts, Option.some.injEq] at hf
    subst hf
    unfold matchDef at hm
    split at hm
    · cases hm
    · rename_i haddr
      have haddr' : log.address = d.contract := by simpa using haddr
      have hall := matchPreds_true d.preds log hm
      obtain ⟨h1, _, h3⟩ := toFilterAux_spec d.preds [] ts hts
      have hpin : ∀ p ∈ d.preds, p.isTopicEq = true → ∀ t, p.pred.byteArgs[0]? = some t → t.length = word →
          log.topics[p.ref.offset]? = some t := by
        intro p hp hte t ht hl
        unfold LogPred.isTopicEq at hte
        simp only [Bool.and_eq_true, decide_eq_true_eq] at hte
        exact topicEq_match p log t hte.1 hte.2 ht hl (hall p hp)
      have hlen : ts.length ≤ log.topics.length := by
        rcases h3 with e | ⟨p, hp, hte, hl, t, ht, hw⟩
        · simp at e; simp [e]
        · have := hpin p hp hte t ht hw
          have hlt : p.ref.offset < log.topics.length := by
            rcases List.getElem?_eq_some_iff.1 this with ⟨h, _⟩; exact h
          omega
      unfold passes
      simp only [haddr', decide_true, Bool.true_and, Bool.and_eq_true, decide_eq_true_eq]
      refine ⟨hlen, ?_⟩
      apply passesTopics_of ts log.topics hlen
      intro i _
      rcases h1 i with e | ⟨p, hp, hte, hpo, t, ht, hw, hts'⟩
      · left; simpa using e
      · right
        refine ⟨t, hts', ?_⟩
        rw [← hpo]; exact hpin p hp hte t ht hw

/-- **Decoded definitions are valid**: bytes that decode successfully always yield a definition that
    passes validation, with a 20-byte contract address. -/
theorem C17_decode_valid (data : Bytes) (d : Definition) (h : unmarshal data = some d) :
    d.valid = true ∧ d.contract.length = 20 := by
  unfold unmarshal at h
  cases data with
  | nil => cases h
  | cons v rest =>
    simp only at h
    split at h
    · cases h
    · split at h
      · rename_i item hdec
        cases hit : Definition.ofItem? item with
        | none => simp [hit] at h
        | some d' =>
          simp only [hit] at h
          split at h
          · rename_i hv
            simp only [Option.some.injEq] at h
            subst h
            refine ⟨hv, ?_⟩
            unfold Definition.ofItem? at hit
            split at hit
            · rename_i c ps
              split at hit
              · cases hit
              · rename_i hc
                cases hm : mapOpt LogPred.ofItem? ps with
                | none => simp [hm] at hit
                | some preds =>
                  simp only [hm, Option.map_some, Option.some.injEq] at hit
                  subst hit
                  simpa using hc
            · cases hit
          · cases h
      · cases h

/-- **Documented semantics, dynamic reference.**  On well-formed ABI data — the offset word inside the
    data, the length word inside the data, and the whole slice inside the data — the value is exactly
    `data[off+32 : off+32+len]`. -/
theorem C17_match_spec_dynamic (r : ValueRef) (log : Log) (htop : r.isTopic = false)
    (hdyn : r.dynamic = true)
    (hw1 : (r.offset - 4) * word + word ≤ log.data.length)
    (off : Nat) (hoff : off = bigOfBytes ((log.data.drop ((r.offset - 4) * word)).take word))
    (hw2 : off + word ≤ log.data.length)
    (len : Nat) (hlen : len = bigOfBytes ((log.data.drop off).take word))
    (hw3 : off + word + len ≤ log.data.length) (hsmall : log.data.length < 2 ^ 64) :
    ∃ v, getValue r log = .ok v ∧ v.bytes = some ((log.data.drop (off + word)).take len) := by
  have readIn : ∀ (start : Nat), start + word ≤ log.data.length →
      readWord log.data start = .ok ((log.data.drop start).take word) := by
    intro start hs
    unfold readWord
    have h1 : start < log.data.length := by simp only [word] at hs ⊢; omega
    simp only [h1, if_true]
    rw [slice_ok _ _ _ (by omega) (Nat.le_refl _)]
    have hs2 : (List.drop start log.data).take (log.data.length - start) = List.drop start log.data :=
      List.take_of_length_le (by simp)
    rw [hs2]
    simp only [copyInto, List.length_drop]
    have h3 : word - (log.data.length - start) = 0 := by omega
    simp [h3, zeros]
  unfold getValue
  simp only [htop, Bool.false_eq_true, if_false, hdyn, if_true]
  simp only [readIn _ hw1, ← hoff]
  have c1 : ¬ (¬ off < 2 ^ 64 ∨ log.data.length < off) := by
    simp only [word] at hw2; omega
  simp only [c1, if_false]
  simp only [readIn off hw2, ← hlen]
  have c2 : ¬ (¬ len < 2 ^ 64 ∨ log.data.length < len) := by
    simp only [word] at hw3; omega
  simp only [c2, if_false]
  unfold fill
  by_cases hz : off + word < log.data.length
  · simp only [hz, if_true]
    by_cases h2 : off + word + len < log.data.length
    · simp only [h2, if_true]
      rw [slice_ok _ _ _ (by omega) (by omega)]
      refine ⟨_, rfl, ?_⟩
      simp only [copyInto, Nat.add_sub_cancel_left, List.take_take, Nat.min_self, List.length_take,
        List.length_drop]
      have : len - min len (log.data.length - (off + word)) = 0 := by omega
      simp [this, zeros]
    · simp only [h2, if_false]
      rw [slice_ok _ _ _ (by omega) (Nat.le_refl _)]
      refine ⟨_, rfl, ?_⟩
      have hl : log.data.length - (off + word) = len := by omega
      simp only [copyInto, hl, List.length_take, List.length_drop, Nat.min_self, Nat.sub_self, zeros,
        List.replicate_zero, List.append_nil, List.take_take]
  · -- the slice starts exactly at the end: it is empty
    simp only [hz, if_false]
    have hl0 : len = 0 := by omega
    refine ⟨_, rfl, ?_⟩
    subst hl0
    simp [zeros]

theorem matchPreds_all (ps : List LogPred) (log : Log) (h : ∀ p ∈ ps, p.matchLog log = .ok true) :
    matchPreds ps log = .ok true := by
  induction ps with
  | nil => rfl
  | cons q rest ih =>
    simp only [matchPreds, h q (List.mem_cons_self), ih (fun p hp => h p (List.mem_cons_of_mem _ hp))]

theorem matchPreds_single (p : LogPred) (log : Log) : matchPreds [p] log = .ok true ↔ p.matchLog log = .ok true := by
  simp only [matchPreds]
  cases h : p.matchLog log with
  | oob => simp
  | ok b => cases b <;> simp

/-- **Matching is the conjunction of the predicates.**  A definition matches a log exactly when the log comes from
    its contract and every one of its predicates, taken alone, matches — no predicate's answer depends on another
    predicate of the same definition. -/
theorem C17_match_conjunction (d : Definition) (log : Log) :
    matchDef d log = .ok true ↔
      log.address = d.contract ∧ ∀ p ∈ d.preds, matchDef { contract := d.contract, preds := [p] } log = .ok true := by
  unfold matchDef
  by_cases ha : log.address = d.contract
  · simp only [ha, ne_eq, not_true_eq_false, if_false, true_and]
    constructor
    · intro h p hp
      exact (matchPreds_single p log).2 (matchPreds_true d.preds log h p hp)
    · intro h
      exact matchPreds_all d.preds log (fun p hp => (matchPreds_single p log).1 (h p hp))
  · simp [ha]

/-- **RLP round trip.**  Any item tree whose strings are shorter than 2^64 bytes, encoded and followed by
    arbitrary bytes, decodes to the same tree and leaves exactly those bytes (with any fuel of at least
    `need i`; twice the encoded length suffices). -/
theorem C17_rlp_roundtrip (i : Item) (hs : i.small) (fuel : Nat) (hf : need i ≤ fuel) (rest : Bytes) :
    decodeItem fuel (encodeItem i ++ rest) = some (i, rest) :=
  decodeItem_encode i hs fuel hf rest

/-- **Round trip.**  Every valid definition (20-byte contract address; item tree small, see
    `C17_roundtrip_bounds`) is read back from its own encoding unchanged. -/
theorem C17_roundtrip (d : Definition) (hv : d.valid = true) (hc : d.contract.length = 20)
    (hs : d.toItem.small) : unmarshal (marshal d) = some d := by
  unfold unmarshal marshal
  simp only [ne_eq, not_true_eq_false, if_false]
  rw [decode_encode _ hs]
  simp only [definition_roundtrip d hv hc, hv, if_true]

/-- the size hypothesis holds for byte arguments shorter than 2^64 bytes and 256-bit integer arguments -/
theorem C17_roundtrip_bounds (d : Definition) (hv : d.valid = true) (hc : d.contract.length = 20)
    (hb : ∀ p ∈ d.preds, ∀ b ∈ p.pred.byteArgs, b.length < 2 ^ 64)
    (hi : ∀ p ∈ d.preds, ∀ a ∈ p.pred.intArgs, a < 2 ^ 256) : unmarshal (marshal d) = some d := by
  apply C17_roundtrip d hv hc
  apply definition_small d hv hc
  · intro p hp b hb'
    have := hb p hp b hb'
    have h : (256 : Nat) ^ 8 = 2 ^ 64 := by decide
    omega
  · intro p hp a ha
    have := hi p hp a ha
    have h : (256 : Nat) ^ 32 = 2 ^ 256 := by decide
    omega

/-- **No two valid definitions share an encoding.** -/
theorem C17_marshal_injective (d d' : Definition) (hv : d.valid = true) (hc : d.contract.length = 20)
    (hs : d.toItem.small) (hv' : d'.valid = true) (hc' : d'.contract.length = 20) (hs' : d'.toItem.small)
    (h : marshal d = marshal d') : d = d' := by
  have h1 := C17_roundtrip d hv hc hs
  have h2 := C17_roundtrip d' hv' hc' hs'
  rw [h, h2] at h1
  exact (Option.some.inj h1).symm

/-! non-vacuity: a valid definition, a matching log, its filter (tests of the definitions) -/
def exT : Bytes := List.replicate 31 0 ++ [7]
def exDef : Definition :=
  { contract := List.replicate 20 1,
    preds := [ { ref := { dynamic := false, offset := 1 }, pred := { op := .bytesEq, intArgs := [], byteArgs := [exT] } },
               { ref := { dynamic := false, offset := 4 }, pred := { op := .uintGte, intArgs := [5], byteArgs := [] } } ] }
def exLog : Log := { address := List.replicate 20 1, topics := [exT, exT], data := exT }

example : exDef.valid = true ∧ matchDef exDef exLog = .ok true := by decide
example : (toFilter exDef).map (fun f => passes f exLog) = some true := by decide
example : unmarshal (marshal exDef) = some exDef := by decide
example : exDef.valid = true ∧ exDef.contract.length = 20 ∧
    (∀ p ∈ exDef.preds, ∀ b ∈ p.pred.byteArgs, b.length < 2 ^ 64) ∧
    (∀ p ∈ exDef.preds, ∀ a ∈ p.pred.intArgs, a < 2 ^ 256) := by decide
def exDyn : Definition :=
  { contract := List.replicate 20 1,
    preds := [ { ref := { dynamic := true, offset := 4 }, pred := { op := .uintEq, intArgs := [0], byteArgs := [] } } ] }
example : matchDef exDyn { address := List.replicate 20 1, topics := [], data := [] } = .ok true := by decide

end Shutter.Properties.C17
