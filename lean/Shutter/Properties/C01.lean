/-
C01 — A derived decryption key is the unique correct key, from any t valid shares.

Setting: an arbitrary field `F` (the BLS scalar field), an arbitrary `F`-module `G` (the group the
shares live in), the eon secret polynomial `f` of degree `< t`, an identity point `H`, keyper `i`
evaluating at `node i = i + 1`, and a share check `verify` that accepts exactly `f(node i) • H` from
keyper `i` (what the pairing equation `e(g₂, s) = e(pkᵢ, H)` says for a non-degenerate pairing; the
pairing itself is outside the model).  The eon public key corresponds to `f(0)`, so the epoch secret
key that decrypts what was encrypted for `H` is `f(0) • H`.
-/
import Shutter.Proofs.EpochKG

open Polynomial

namespace Shutter.Properties.C01
open Shutter.EpochKG

variable {F G : Type} [Field F] [AddCommGroup G] [Module F G]

/-- the assumptions about one eon key set and one identity -/
structure Setup (f : F[X]) (H : G) (n t : ℕ) (verify : ℕ → G → Bool) : Prop where
  tpos : 1 ≤ t
  deg : f.degree < t
  distinct : Set.InjOn (node : ℕ → F) ↑(Finset.range n)
  sound : ∀ i s, i < n → (verify i s = true ↔ s = f.eval (node i) • H)

/-- the distinct senders of which a valid share occurs in the sequence -/
def validSenders (verify : ℕ → G → Bool) (σ : List (ℕ × G)) : Finset ℕ :=
  ((σ.filter (fun e => verify e.1 e.2)).map (·.1)).toFinset

/-- the invariant of the per-identity state after the valid senders `seen` -/
def Inv (f : F[X]) (H : G) (n t : ℕ) (st : St G) (seen : Finset ℕ) : Prop :=
  (st.key = none ∧ (st.shares.map (·.1)).Nodup ∧
      (∀ e ∈ st.shares, e.1 < n ∧ e.2 = f.eval (node e.1) • H) ∧
      st.shares.length < t ∧ (st.shares.map (·.1)).toFinset = seen) ∨
  (st.key = some (f.eval 0 • H) ∧ t ≤ seen.card)

theorem inv_step {f : F[X]} {H : G} {n t : ℕ} {verify : ℕ → G → Bool} (S : Setup f H n t verify)
    (st : St G) (seen : Finset ℕ) (inv : Inv f H n t st seen) (sender : ℕ) (share : G) (hs : sender < n) :
    Inv f H n t (handle (lawful : Ops F G) verify n t st sender share).2
      (if verify sender share then insert sender seen else seen) ∧
    (handle (lawful : Ops F G) verify n t st sender share).1 ≠ .panic := by
  unfold handle
  rcases inv with ⟨hk, hnd, hval, hlen, hseen⟩ | ⟨hk, hcard⟩
  · -- no key yet
    simp only [hk, Option.isSome_none, Bool.false_eq_true, if_false, hs, not_true_eq_false]
    by_cases hv : verify sender share = true
    · simp only [hv, Bool.not_true, Bool.false_eq_true, if_false, if_true]
      by_cases hdup : st.shares.any (fun e => e.1 = sender) = true
      · -- a repeat of an earlier sender: nothing changes
        simp only [hdup, if_true]
        refine ⟨Or.inl ⟨hk, hnd, hval, hlen, ?_⟩, by decide⟩
        rw [hseen.symm]
        have : sender ∈ (st.shares.map (·.1)).toFinset := by
          simp only [List.any_eq_true, decide_eq_true_eq] at hdup
          obtain ⟨e, he, hes⟩ := hdup
          simp only [List.mem_toFinset, List.mem_map]
          exact ⟨e, he, hes⟩
        exact (Finset.insert_eq_of_mem this).symm
      · simp only [hdup, Bool.false_eq_true, if_false]
        have hnew : sender ∉ st.shares.map (·.1) := by
          intro hm
          apply hdup
          simp only [List.any_eq_true, decide_eq_true_eq]
          obtain ⟨e, he, hes⟩ := List.mem_map.1 hm
          exact ⟨e, he, hes⟩
        have hshare : share = f.eval (node sender) • H := (S.sound sender share hs).1 hv
        have hnd' : ((st.shares ++ [(sender, share)]).map (·.1)).Nodup := by
          rw [List.map_append, List.map_cons, List.map_nil]
          exact List.Nodup.append hnd (List.nodup_singleton _) (by
            intro a ha hb
            simp only [List.mem_singleton] at hb
            subst hb; exact hnew ha)
        have hval' : ∀ e ∈ st.shares ++ [(sender, share)], e.1 < n ∧ e.2 = f.eval (node e.1) • H := by
          intro e he
          rcases List.mem_append.1 he with h | h
          · exact hval e h
          · simp only [List.mem_singleton] at h; subst h; exact ⟨hs, hshare⟩
        have hfin : ((st.shares ++ [(sender, share)]).map (·.1)).toFinset = insert sender seen := by
          rw [List.map_append, List.toFinset_append, hseen]
          simp [Finset.union_comm]
        by_cases hfull : (st.shares ++ [(sender, share)]).length ≠ t
        · simp only [hfull, ne_eq, not_false_eq_true, if_true]
          refine ⟨Or.inl ⟨by simpa using hk, hnd', hval', ?_, hfin⟩, by decide⟩
          simp only [List.length_append, List.length_cons, List.length_nil] at hfull ⊢
          omega
        · have hfull' : (st.shares ++ [(sender, share)]).length = t := by
            by_contra h; exact hfull h
          simp only [hfull', ne_eq, not_true_eq_false, if_false]
          refine ⟨Or.inr ⟨?_, ?_⟩, by decide⟩
          · show some (combine lawful (st.shares ++ [(sender, share)])) = some (f.eval 0 • H)
            congr 1
            apply combine_eq f H
            · exact hnd'
            · intro a ha b hb hab
              apply S.distinct _ _ hab
              · simp only [Finset.coe_range, Set.mem_Iio]
                simp only [Finset.mem_coe, List.mem_toFinset, List.mem_map] at ha
                obtain ⟨e, he, rfl⟩ := ha
                exact (hval' e he).1
              · simp only [Finset.coe_range, Set.mem_Iio]
                simp only [Finset.mem_coe, List.mem_toFinset, List.mem_map] at hb
                obtain ⟨e, he, rfl⟩ := hb
                exact (hval' e he).1
            · rw [hfull']; exact S.deg
            · intro e he; exact (hval' e he).2
          · rw [← hfin, List.toFinset_card_of_nodup hnd', List.length_map, hfull']
    · have hv' : verify sender share = false := by simpa using hv
      simp only [hv', Bool.not_false, if_true, Bool.false_eq_true, if_false]
      exact ⟨Or.inl ⟨hk, hnd, hval, hlen, hseen⟩, by decide⟩
  · -- the key is already there: nothing is touched
    simp only [hk, Option.isSome_some, if_true]
    refine ⟨Or.inr ⟨hk, ?_⟩, by decide⟩
    split
    · exact le_trans hcard (Finset.card_le_card (Finset.subset_insert _ _))
    · exact hcard

theorem inv_run {f : F[X]} {H : G} {n t : ℕ} {verify : ℕ → G → Bool} (S : Setup f H n t verify)
    (σ : List (ℕ × G)) (hσ : ∀ e ∈ σ, e.1 < n) (st : St G) (seen : Finset ℕ) (inv : Inv f H n t st seen) :
    Inv f H n t (run (lawful : Ops F G) verify n t st σ) (seen ∪ validSenders verify σ) := by
  induction σ generalizing st seen with
  | nil => simpa [run, validSenders] using inv
  | cons e rest ih =>
    obtain ⟨s, sh⟩ := e
    simp only [run]
    have step := (inv_step S st seen inv s sh (hσ (s, sh) (by simp))).1
    have := ih (fun e he => hσ e (List.mem_cons_of_mem _ he)) _ _ step
    convert this using 1
    unfold validSenders
    by_cases hv : verify s sh = true
    · simp [hv, List.filter_cons, Finset.insert_union]
    · have hv' : verify s sh = false := by simpa using hv
      simp [hv', List.filter_cons]

theorem inv_empty (f : F[X]) (H : G) (n t : ℕ) (ht : 1 ≤ t) : Inv f H n t (St.empty : St G) ∅ := by
  left
  refine ⟨rfl, by simp [St.empty], by simp [St.empty], by simp [St.empty]; omega, by simp [St.empty]⟩

/-- **Exactly at t.**  After any finite sequence of incoming shares (valid, invalid, repeated, in any
    order) a key is held for the identity exactly when valid shares of at least `t` distinct keypers
    occurred in it; never from fewer. -/
theorem C01_exact {f : F[X]} {H : G} {n t : ℕ} {verify : ℕ → G → Bool} (S : Setup f H n t verify)
    (σ : List (ℕ × G)) (hσ : ∀ e ∈ σ, e.1 < n) :
    (run (lawful : Ops F G) verify n t St.empty σ).key.isSome ↔ t ≤ (validSenders verify σ).card := by
  have inv := inv_run S σ hσ St.empty ∅ (inv_empty f H n t S.tpos)
  rw [Finset.empty_union] at inv
  rcases inv with ⟨hk, hnd, _, hlen, hseen⟩ | ⟨hk, hcard⟩
  · rw [hk]
    simp only [Option.isSome_none, Bool.false_eq_true, false_iff, not_le]
    rw [← hseen, List.toFinset_card_of_nodup hnd, List.length_map]
    exact hlen
  · rw [hk]; simp [hcard]

/-- **The correct key.**  Any key that is ever derived is `f(0) • H`: the one epoch secret key matching
    the eon public key for that identity, whichever `t` shares arrived first. -/
theorem C01_correct {f : F[X]} {H : G} {n t : ℕ} {verify : ℕ → G → Bool} (S : Setup f H n t verify)
    (σ : List (ℕ × G)) (hσ : ∀ e ∈ σ, e.1 < n) (k : G)
    (hk : (run (lawful : Ops F G) verify n t St.empty σ).key = some k) : k = f.eval 0 • H := by
  have inv := inv_run S σ hσ St.empty ∅ (inv_empty f H n t S.tpos)
  rcases inv with ⟨hn, _⟩ | ⟨hs, _⟩
  · rw [hn] at hk; cases hk
  · rw [hs] at hk; simpa using hk.symm

/-- **Order and junk do not matter.**  Two sequences containing valid shares of the same keypers — in
    any order, with any invalid, foreign or repeated shares interleaved — end with the same key (or
    both with none). -/
theorem C01_order_independent {f : F[X]} {H : G} {n t : ℕ} {verify : ℕ → G → Bool} (S : Setup f H n t verify)
    (σ σ' : List (ℕ × G)) (hσ : ∀ e ∈ σ, e.1 < n) (hσ' : ∀ e ∈ σ', e.1 < n)
    (hsame : validSenders verify σ = validSenders verify σ') :
    (run (lawful : Ops F G) verify n t St.empty σ).key = (run (lawful : Ops F G) verify n t St.empty σ').key := by
  have e1 := C01_exact S σ hσ
  have e2 := C01_exact S σ' hσ'
  rw [hsame] at e1
  cases h1 : (run (lawful : Ops F G) verify n t St.empty σ).key with
  | none =>
    cases h2 : (run (lawful : Ops F G) verify n t St.empty σ').key with
    | none => rfl
    | some k' =>
      exfalso
      have : (run (lawful : Ops F G) verify n t St.empty σ).key.isSome := e1.2 (e2.1 (by simp [h2]))
      simp [h1] at this
  | some k =>
    cases h2 : (run (lawful : Ops F G) verify n t St.empty σ').key with
    | none =>
      exfalso
      have : (run (lawful : Ops F G) verify n t St.empty σ').key.isSome := e2.2 (e1.1 (by simp [h1]))
      simp [h2] at this
    | some k' => rw [C01_correct S σ hσ k h1, C01_correct S σ' hσ' k' h2]

/-- **No panic for senders inside the keyper set** (the only index expression of `EpochKG` on message
    data is `PublicKeyShares[sender]`; the validator rejects other senders, see the `fix:` commit). -/
theorem C01_no_panic {f : F[X]} {H : G} {n t : ℕ} {verify : ℕ → G → Bool} (S : Setup f H n t verify)
    (st : St G) (seen : Finset ℕ) (inv : Inv f H n t st seen) (sender : ℕ) (share : G) (hs : sender < n) :
    (handle (lawful : Ops F G) verify n t st sender share).1 ≠ .panic :=
  (inv_step S st seen inv sender share hs).2

end Shutter.Properties.C01

namespace Shutter.Properties.C01
open Shutter.EpochKG

/-! non-vacuity: the hypotheses are satisfiable (rationals, `f = 5 + X`, three keypers, threshold 2),
    and on that instance two valid shares in either order give `f(0) • H = 5`. -/
noncomputable def exF : Polynomial ℚ := Polynomial.C 5 + Polynomial.X

example : Setup exF (1 : ℚ) 3 2 (fun i s => decide (s = exF.eval (node i) • (1 : ℚ))) := by
  refine ⟨by decide, ?_, ?_, ?_⟩
  · have : exF.degree = 1 := by
      unfold exF
      rw [add_comm]
      exact Polynomial.degree_X_add_C 5
    rw [this]; norm_num
  · intro a _ b _ h
    unfold node at h
    have : a + 1 = b + 1 := by exact_mod_cast h
    omega
  · intro i s _; simp

end Shutter.Properties.C01
