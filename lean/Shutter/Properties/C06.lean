/-
C06 — Released keys carry a genuine threshold of keyper signatures.
-/
import Shutter.Model.Signers

namespace Shutter.Properties.C06
open Shutter.Signers

/-- strictly increasing -/
def StrictInc : List Nat → Prop
  | [] => True
  | [_] => True
  | a :: b :: rest => a < b ∧ StrictInc (b :: rest)

theorem validIndices_iff (n : Nat) (l : List Nat) (prev : Option Nat) :
    validIndices n l prev = true ↔
      (∀ i ∈ l, i < n) ∧ StrictInc l ∧ (∀ p, prev = some p → ∀ h : l ≠ [], p < l.head h) := by
  induction l generalizing prev with
  | nil => simp [validIndices, StrictInc]
  | cons i rest ih =>
    simp only [validIndices, Bool.and_eq_true, decide_eq_true_eq, ih, List.mem_cons, forall_eq_or_imp]
    constructor
    · rintro ⟨⟨hp, hin⟩, hall, hs, hh⟩
      refine ⟨⟨hin, hall⟩, ?_, ?_⟩
      · cases rest with
        | nil => trivial
        | cons j r => exact ⟨hh i rfl (by simp), hs⟩
      · intro p hpe _
        subst hpe
        simpa using hp
    · rintro ⟨⟨hin, hall⟩, hs, hh⟩
      refine ⟨⟨?_, hin⟩, hall, ?_, ?_⟩
      · cases prev with
        | none => trivial
        | some p => simpa using hh p rfl (by simp)
      · cases rest with
        | nil => trivial
        | cons j r => exact hs.2
      · intro p hpe hne
        simp only [Option.some.injEq] at hpe
        subst hpe
        cases rest with
        | nil => exact absurd rfl hne
        | cons j r => exact hs.1

theorem mapM_getElem_some (keypers : List Addr) (signers : List Nat) (h : ∀ i ∈ signers, i < keypers.length) :
    ∃ addrs, signers.mapM (fun i => keypers[i]?) = some addrs ∧ addrs.length = signers.length ∧
      ∀ k (hk : k < signers.length), addrs[k]? = keypers[signers[k]]? := by
  induction signers with
  | nil => exact ⟨[], rfl, rfl, fun k hk => by simp at hk⟩
  | cons i rest ih =>
    obtain ⟨as, has, hl, hget⟩ := ih (fun j hj => h j (List.mem_cons_of_mem _ hj))
    have hi : i < keypers.length := h i (by simp)
    refine ⟨keypers[i] :: as, ?_, by simp [hl], ?_⟩
    · simp only [List.mapM_cons, has, List.getElem?_eq_getElem hi]
      rfl
    · intro k hk
      cases k with
      | zero => simp [List.getElem?_eq_getElem hi]
      | succ k' => simpa using hget k' (by simpa using hk)

theorem checkAll_iff {D S : Type} (recover : D → S → Option Addr) (hashable : Bool) (d : D)
    (sigs : List S) (addrs : List Addr) (hl : sigs.length = addrs.length) :
    checkAll recover hashable d sigs addrs = true ↔
      (sigs ≠ [] → hashable = true) ∧ ∀ k (hk : k < sigs.length), recover d sigs[k] = addrs[k]? := by
  induction sigs generalizing addrs with
  | nil => simp [checkAll]
  | cons s ss ih =>
    cases addrs with
    | nil => simp at hl
    | cons a as =>
      simp only [List.length_cons, Nat.add_right_cancel_iff] at hl
      simp only [checkAll, Bool.and_eq_true, decide_eq_true_eq, ih as hl]
      constructor
      · rintro ⟨⟨hh, hr⟩, _, hall⟩
        refine ⟨fun _ => hh, ?_⟩
        intro k hk
        cases k with
        | zero => simp only [List.getElem_cons_zero, List.getElem?_cons_zero]; exact hr
        | succ k' =>
          simp only [List.getElem_cons_succ, List.getElem?_cons_succ]
          exact hall k' (Nat.lt_of_succ_lt_succ hk)
      · rintro ⟨hh, hall⟩
        have h0 := hall 0 (Nat.zero_lt_succ _)
        simp only [List.getElem_cons_zero, List.getElem?_cons_zero] at h0
        refine ⟨⟨hh (by simp), h0⟩, fun _ => hh (by simp), ?_⟩
        intro k hk
        have hk1 := hall (k + 1) (Nat.succ_lt_succ hk)
        simp only [List.getElem_cons_succ, List.getElem?_cons_succ] at hk1
        exact hk1

/-- the validator's checks, one by one -/
theorem validateGnosis_accept {S : Type} (recover : SlotData → S → Option Addr) (ks : KeyperSet) (d : SlotData)
    (signers : List Nat) (sigs : List S) :
    validateGnosis recover ks d signers sigs = .accept ↔
      signers.length = ks.threshold ∧ sigs.length = signers.length ∧
      validIndices ks.keypers.length signers none = true ∧
      ∃ addrs, signers.mapM (fun i => ks.keypers[i]?) = some addrs ∧ ¬ maxIdentities < d.identities.length ∧
        checkAll recover (d.identities.all fun i => i.length = gnosisIdentSize) d sigs addrs = true := by
  unfold validateGnosis
  split
  · rename_i h; exact ⟨fun hh => (by cases hh), fun hh => absurd hh.1 h⟩
  · rename_i h1
    split
    · rename_i h; exact ⟨fun hh => (by cases hh), fun hh => absurd hh.2.1 h⟩
    · rename_i h2
      split
      · rename_i h
        refine ⟨fun hh => (by cases hh), fun hh => ?_⟩
        rw [hh.2.2.1] at h; simp at h
      · rename_i h3
        split
        · rename_i hm
          refine ⟨fun hh => (by cases hh), fun hh => ?_⟩
          obtain ⟨_, _, _, addrs, hma, _⟩ := hh
          rw [hm] at hma; cases hma
        · rename_i addrs hm
          split
          · rename_i h4
            refine ⟨fun hh => (by cases hh), fun hh => ?_⟩
            obtain ⟨_, _, _, _, _, h5, _⟩ := hh
            exact absurd h4 h5
          · rename_i h4
            split
            · rename_i hc
              refine ⟨fun _ => ⟨Classical.not_not.1 h1, Classical.not_not.1 h2, by simpa using h3, addrs, hm, h4, hc⟩, fun _ => rfl⟩
            · rename_i hc
              refine ⟨fun hh => (by cases hh), fun hh => ?_⟩
              obtain ⟨_, _, _, addrs', hma, _, hcc⟩ := hh
              rw [hm] at hma
              simp only [Option.some.injEq] at hma
              subst hma
              exact absurd hcc hc

/-- **Gnosis: accepted iff a genuine threshold of signatures.**  The validator accepts exactly when the
    message names `threshold` signers, strictly increasing and inside the keyper set, carries exactly
    one signature per signer, at most 1024 identities (of the fixed size when anything is signed), and
    signature `k` recovers — over the message's instance, eon, slot, transaction pointer and identity
    list — to the address of signer `k`. -/
theorem C06_gnosis_iff {S : Type} (recover : SlotData → S → Option Addr) (ks : KeyperSet) (d : SlotData)
    (signers : List Nat) (sigs : List S) :
    validateGnosis recover ks d signers sigs = .accept ↔
      signers.length = ks.threshold ∧ sigs.length = signers.length ∧ StrictInc signers ∧
      (∀ i ∈ signers, i < ks.keypers.length) ∧ d.identities.length ≤ maxIdentities ∧
      (sigs ≠ [] → ∀ i ∈ d.identities, i.length = gnosisIdentSize) ∧
      ∀ k (hk : k < sigs.length), ∃ hs : k < signers.length,
        recover d sigs[k] = ks.keypers[signers[k]]? ∧ (ks.keypers[signers[k]]?).isSome := by
  rw [validateGnosis_accept]
  constructor
  · rintro ⟨h1, h2, h3, addrs, hm, h4, hc⟩
    rw [validIndices_iff] at h3
    obtain ⟨hin, hinc, _⟩ := h3
    obtain ⟨addrs', hmap, hal, hget⟩ := mapM_getElem_some ks.keypers signers hin
    rw [hm] at hmap
    simp only [Option.some.injEq] at hmap
    subst hmap
    have hl : sigs.length = addrs.length := by rw [hal, h2]
    rw [checkAll_iff _ _ _ _ _ hl] at hc
    refine ⟨h1, h2, hinc, hin, by omega, ?_, ?_⟩
    · intro hne i hi
      have := hc.1 hne
      simp only [List.all_eq_true, decide_eq_true_eq] at this
      exact this i hi
    · intro k hk
      have hks : k < signers.length := by omega
      refine ⟨hks, ?_, ?_⟩
      · rw [hc.2 k hk, hget k hks]
      · have := hin signers[k] (List.getElem_mem hks)
        simp [List.getElem?_eq_getElem this]
  · rintro ⟨h1, h2, hinc, hin, h4, hsz, hall⟩
    obtain ⟨addrs, hmap, hal, hget⟩ := mapM_getElem_some ks.keypers signers hin
    have hl : sigs.length = addrs.length := by rw [hal, h2]
    refine ⟨h1, h2, ?_, addrs, hmap, by omega, ?_⟩
    · rw [validIndices_iff]; exact ⟨hin, hinc, by intro p hp; cases hp⟩
    · rw [checkAll_iff _ _ _ _ _ hl]
      refine ⟨?_, ?_⟩
      · intro hne
        simp only [List.all_eq_true, decide_eq_true_eq]
        exact hsz hne
      · intro k hk
        obtain ⟨hks, hr, _⟩ := hall k hk
        rw [hr, hget k hks]

/-- signatures bind what was signed: a signature that recovers to a keyper over one message does not
    recover to the same keyper over a different one (ECDSA unforgeability, as a hypothesis) -/
def Binding {D S : Type} (recover : D → S → Option Addr) : Prop :=
  ∀ (d d' : D) (s : S) (a : Addr), recover d s = some a → d ≠ d' → recover d' s ≠ some a

/-- **Tampering invalidates.**  If a Gnosis message with at least one signer is accepted, then the same
    signatures attached to a message that differs in instance, eon, slot, transaction pointer or
    identity list are rejected. -/
theorem C06_tamper {S : Type} (recover : SlotData → S → Option Addr) (hb : Binding recover)
    (ks : KeyperSet) (d d' : SlotData) (signers : List Nat) (sigs : List S)
    (hacc : validateGnosis recover ks d signers sigs = .accept) (hne : d ≠ d') (hpos : 0 < ks.threshold) :
    validateGnosis recover ks d' signers sigs = .reject := by
  rw [C06_gnosis_iff] at hacc
  obtain ⟨hl, hs, _, _, _, _, hall⟩ := hacc
  cases hv : validateGnosis recover ks d' signers sigs with
  | reject => rfl
  | accept =>
    exfalso
    rw [C06_gnosis_iff] at hv
    obtain ⟨_, _, _, _, _, _, hall'⟩ := hv
    have hk : 0 < sigs.length := by omega
    obtain ⟨hks, hr, hsome⟩ := hall 0 hk
    obtain ⟨_, hr', _⟩ := hall' 0 hk
    obtain ⟨a, ha⟩ := Option.isSome_iff_exists.1 hsome
    rw [ha] at hr hr'
    exact hb d d' _ a hr hne hr'

/-- **Shutter service: the same rule over (instance, eon, identities), except that a message with
    neither signers nor signatures is admitted.** -/
theorem C06_service_unsigned {S : Type} (recover : ServiceData → S → Option Addr) (ks : KeyperSet)
    (d : ServiceData) : validateService recover ks d [] ([] : List S) = .accept := by
  simp [validateService]

theorem C06_service_signed {S : Type} (recover : ServiceData → S → Option Addr) (ks : KeyperSet)
    (d : ServiceData) (signers : List Nat) (sigs : List S) (hne : ¬ (signers.length = 0 ∧ sigs.length = 0))
    (hacc : validateService recover ks d signers sigs = .accept) :
    signers.length = ks.threshold ∧ sigs.length = signers.length ∧ StrictInc signers ∧
    (∀ i ∈ signers, i < ks.keypers.length) ∧
    ∀ k (hk : k < sigs.length), ∃ hs : k < signers.length, recover d sigs[k] = ks.keypers[signers[k]]? := by
  unfold validateService at hacc
  rw [if_neg hne] at hacc
  split at hacc
  · cases hacc
  · rename_i h1
    split at hacc
    · cases hacc
    · rename_i h2
      split at hacc
      · cases hacc
      · rename_i h3
        split at hacc
        · cases hacc
        · rename_i addrs hm
          split at hacc
          · cases hacc
          · split at hacc
            · rename_i hc
              have h1' : signers.length = ks.threshold := Classical.not_not.1 h1
              have h2' : sigs.length = signers.length := Classical.not_not.1 h2
              have h3' : validIndices ks.keypers.length signers none = true := by simpa using h3
              rw [validIndices_iff] at h3'
              obtain ⟨hin, hinc, _⟩ := h3'
              obtain ⟨addrs', hmap, hal, hget⟩ := mapM_getElem_some ks.keypers signers hin
              rw [hm] at hmap
              simp only [Option.some.injEq] at hmap
              subst hmap
              have hl : sigs.length = addrs.length := by rw [hal, h2']
              rw [checkAll_iff _ _ _ _ _ hl] at hc
              refine ⟨h1', h2', hinc, hin, ?_⟩
              intro k hk
              have hks : k < signers.length := by omega
              exact ⟨hks, by rw [hc.2 k hk, hget k hks]⟩
            · cases hacc

theorem strictInc_head_lt : ∀ (a : Nat) (l : List Nat), StrictInc (a :: l) → ∀ x ∈ l, a < x
  | _, [], _, x, hx => by cases hx
  | a, b :: rest, h, x, hx => by
    obtain ⟨hab, hr⟩ := h
    rcases List.mem_cons.1 hx with e | e
    · subst e; exact hab
    · exact Nat.lt_trans hab (strictInc_head_lt b rest hr x e)

theorem strictInc_tail : ∀ (a : Nat) (l : List Nat), StrictInc (a :: l) → StrictInc l
  | _, [], _ => trivial
  | _, _ :: _, h => h.2

theorem strictInc_nodup : ∀ (l : List Nat), StrictInc l → l.Nodup
  | [], _ => List.nodup_nil
  | a :: l, h => by
    refine List.nodup_cons.2 ⟨?_, strictInc_nodup l (strictInc_tail a l h)⟩
    intro hm
    exact Nat.lt_irrefl a (strictInc_head_lt a l h a hm)

theorem strictInc_length_le (n : Nat) : ∀ (l : List Nat) (lo : Nat), StrictInc l →
    (∀ x ∈ l, lo ≤ x ∧ x < n) → l.length ≤ n - lo
  | [], _, _, _ => Nat.zero_le _
  | a :: l, lo, h, hb => by
    have ha := hb a (by simp)
    have ih := strictInc_length_le n l (a + 1) (strictInc_tail a l h) (fun x hx =>
      ⟨strictInc_head_lt a l h x hx, (hb x (List.mem_cons_of_mem _ hx)).2⟩)
    simp only [List.length_cons]
    omega

/-- **A genuine threshold means `threshold` different keypers' positions.**  In an accepted Gnosis message no
    position of the keyper set is named twice: the `threshold` signatures are over `threshold` distinct positions
    (one keyper listed at two positions of the set can sign for both — the set's own business). -/
theorem C06_distinct_signers {S : Type} (recover : SlotData → S → Option Addr) (ks : KeyperSet) (d : SlotData)
    (signers : List Nat) (sigs : List S) (hacc : validateGnosis recover ks d signers sigs = .accept) :
    signers.Nodup ∧ signers.length = ks.threshold ∧ ks.threshold ≤ ks.keypers.length := by
  rw [C06_gnosis_iff] at hacc
  obtain ⟨hl, _, hinc, hin, _⟩ := hacc
  have hnd := strictInc_nodup signers hinc
  refine ⟨hnd, hl, ?_⟩
  rw [← hl]
  have := strictInc_length_le ks.keypers.length signers 0 hinc (fun x hx => ⟨Nat.zero_le _, hin x hx⟩)
  omega

/-- **Tampering invalidates, shutter-service flavour**: signatures accepted over one (instance, eon, identities)
    are rejected over any other, when anything was signed at all. -/
theorem C06_service_tamper {S : Type} (recover : ServiceData → S → Option Addr) (hb : Binding recover)
    (ks : KeyperSet) (d d' : ServiceData) (signers : List Nat) (sigs : List S)
    (hne0 : ¬ (signers.length = 0 ∧ sigs.length = 0))
    (hacc : validateService recover ks d signers sigs = .accept) (hne : d ≠ d') (hpos : 0 < ks.threshold) :
    validateService recover ks d' signers sigs = .reject := by
  obtain ⟨hl, hs, _, hin, hall⟩ := C06_service_signed recover ks d signers sigs hne0 hacc
  cases hv : validateService recover ks d' signers sigs with
  | reject => rfl
  | accept =>
    exfalso
    obtain ⟨_, _, _, _, hall'⟩ := C06_service_signed recover ks d' signers sigs hne0 hv
    have hk : 0 < sigs.length := by omega
    obtain ⟨hks, hr⟩ := hall 0 hk
    obtain ⟨_, hr'⟩ := hall' 0 hk
    have hlt := hin signers[0] (List.getElem_mem hks)
    rw [List.getElem?_eq_getElem hlt] at hr hr'
    exact hb d d' _ _ hr hne hr'

/-! non-vacuity: a 2-of-3 message accepted, and the zero-signature message of the original defect rejected -/
def exRecover (d : SlotData) (s : Nat × SlotData) : Option Addr := if s.2 = d then some s.1 else some 0
def exData : SlotData := { instanceId := 1, eon := 2, slot := 3, txPointer := 4, identities := [] }
example : validateGnosis exRecover { keypers := [11, 12, 13], threshold := 2 } exData [0, 2] [(11, exData), (13, exData)] = .accept := by decide
example : validateGnosis exRecover { keypers := [11, 12, 13], threshold := 2 } exData [0, 2] [] = .reject := by decide
example : validateGnosis exRecover { keypers := [11, 12, 13], threshold := 2 } { exData with slot := 4 } [0, 2] [(11, exData), (13, exData)] = .reject := by decide

end Shutter.Properties.C06
