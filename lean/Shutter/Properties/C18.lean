/-
C18 — Read-only mode blocks every state-changing HTTP endpoint.
-/
import Shutter.Proofs.Api
import Shutter.Generated.ApiFacts

namespace Shutter.Properties.C18
open Shutter.Api

/-- the tables regenerated from oapi.yaml and the generated chi server -/
def spec : List SpecOp :=
  Generated.ApiFacts.specOps.map (fun e => { template := e.1.toList, method := e.2.1, opId := e.2.2.1, readOnly := e.2.2.2 = "true" })

def routes : List Route :=
  Generated.ApiFacts.routes.map (fun e => { method := e.1, pattern := e.2.1.toList, handler := e.2.2 })

/-- **Blocked.**  For any well-formed pair of tables, any method and any request path: if the router
    would hand the request to a handler of an operation that is not marked read-only, then with write
    operations disabled the gate does not let it through — whether the gate sees the same path as the
    router or its percent-decoded form, and whatever order Go ranges over the paths map. -/
theorem C18_blocked (spec : List SpecOp) (routes : List Route) (hW : W spec routes = true)
    (unescape : Path → Path) (hun : ∀ p : Path, p.contains '%' = false → unescape p = p)
    (listing : List Path) (method : String) (routePath path : Path)
    (hpath : path = routePath ∨ path = unescape routePath)
    (r : Route) (hd : dispatch routes method routePath = some r)
    (o : SpecOp) (ho : opOf spec r = some o) (hwrite : o.readOnly = false) :
    decision spec listing false method path ≠ .allow := by
  unfold W at hW
  simp only [Bool.and_eq_true, List.all_eq_true] at hW
  obtain ⟨⟨⟨⟨_, hlit⟩, _⟩, _⟩, _⟩ := hW
  -- the route found is one of the table, with this method, and its pattern matches
  unfold dispatch at hd
  have hr := List.mem_of_find?_eq_some hd
  have hm := List.find?_some hd
  simp only [Bool.and_eq_true, decide_eq_true_eq] at hm
  -- its pattern is literal because it serves a state-changing operation
  have hl := hlit r hr
  simp only [ho, hwrite, Bool.false_or] at hl
  unfold literal at hl
  simp only [Bool.and_eq_true, Bool.not_eq_true'] at hl
  have hrp : routePath = r.pattern := templateMatches_literal r.pattern routePath hl.1.1 hm.2
  have hp : path = r.pattern := by
    rcases hpath with h | h
    · rw [h, hrp]
    · rw [h, hrp, hun r.pattern hl.1.2]
  -- the gate finds exactly this operation
  have hot := List.find?_some ho
  simp only [Bool.and_eq_true, decide_eq_true_eq] at hot
  have hmem : r.pattern ∈ templatesOf spec := by
    unfold templatesOf
    rw [mem_dedup]
    exact List.mem_map.2 ⟨o, List.mem_of_find?_eq_some ho, hot.1⟩
  unfold decision findOperation findTemplate
  have hc : (templatesOf spec).contains path = true := by
    rw [hp]; simpa [List.contains_iff_mem, List.elem_eq_mem] using hmem
  simp only [hc, if_true]
  by_cases hk : knownMethod method = true
  · simp only [hk, if_true]
    have : spec.find? (fun x => decide (x.template = path) && decide (x.method = method)) = some o := by
      rw [hp, ← hm.1]; exact ho
    rw [this]
    simp [hwrite]
  · simp [hk]

/-- the generated tables are well formed -/
theorem C18_tables_wellformed : W spec routes = true := by decide

/-- the state-changing operations are exactly shutdown and the decryption trigger -/
theorem C18_write_ops_pinned :
    (spec.filter (fun o => !o.readOnly)).map (·.opId) = ["SubmitDecryptionTrigger", "Shutdown"] := by decide

/-- the document embedded in the generated server is the one in oapi.yaml -/
theorem C18_embedded_is_yaml :
    Generated.ApiFacts.specOps.map (fun e => (e.1, e.2.1, e.2.2.2)) =
      Generated.ApiFacts.yamlOps.map (fun e => (e.1, e.2.1, e.2.2.2)) := by decide

/-- the gate is installed before the handlers, inside the `/v1` mount; the only other registrations on the outer
    router are the document, the metrics and the static files of the swagger UI; the generated handlers are
    obtained nowhere else -/
theorem C18_setup_pinned :
    Generated.ApiFacts.setupCalls =
      ["setupRouter:router.Use(middleware.Logger)", "setupRouter:router.Use(middleware.Recoverer)",
       "setupRouter:router.Mount(\"/v1\",http.StripPrefix(\"/v1\",srv.setupAPIRouter(swagger)))",
       "setupRouter:router.Get(\"/api.json\")", "setupRouter:router.Mount(\"/metrics\",promhttp.Handler())",
       "setupRouter:router.Mount(path,http.StripPrefix(path,fs))",
       "setupAPIRouter:router.Use(chimiddleware.OapiRequestValidator(swagger))",
       "setupAPIRouter:router.Use(kproapi.ConfigMiddleware(srv.config.GetEnableWriteOperations()))",
       "setupAPIRouter:kproapi.HandlerFromMux(srv,router)"] := by decide

/-- the gate keeps nothing from one request to the next: apart from the request, its code reaches only the
    configured switch, the document getter, the next handler and three functions of its package that read their
    arguments.  A memo of earlier decisions, a counter or a package-level table shows up here as a new name; the
    decision model (`decision`) has no such state, so with one the model would no longer be the gate. -/
theorem C18_gate_stateless :
    Generated.ApiFacts.gateReads =
      ["enableWriteOperations", "findOperation", "getSpec", "isReadOnlyEndpoint", "next", "shouldEnableEndpoint"] := by
  decide

/-- **Blocked, for the code as it is now** (the generic theorem instantiated with the generated tables). -/
theorem C18_blocked_now (unescape : Path → Path) (hun : ∀ p : Path, p.contains '%' = false → unescape p = p)
    (listing : List Path) (method : String) (routePath path : Path)
    (hpath : path = routePath ∨ path = unescape routePath)
    (r : Route) (hd : dispatch routes method routePath = some r)
    (o : SpecOp) (ho : opOf spec r = some o) (hwrite : o.readOnly = false) :
    decision spec listing false method path ≠ .allow :=
  C18_blocked spec routes C18_tables_wellformed unescape hun listing method routePath path hpath r hd o ho hwrite

/-- on a path that is literally a key of the document, the gate does not depend on the map order -/
theorem decision_exact (spec : List SpecOp) (listing : List Path) (we : Bool) (m : String) (path : Path)
    (h : (templatesOf spec).contains path = true) :
    decision spec listing we m path = decision spec [] we m path := by
  unfold decision findOperation findTemplate
  simp only [h, if_true]

/-- **Read-only operations stay reachable** on their plain paths, in every map order (instances for
    the current tables). -/
theorem C18_readonly_reachable (listing : List Path) :
    decision spec listing false "GET" "/ping".toList = .allow ∧
    decision spec listing false "GET" "/eons".toList = .allow := by
  constructor
  · rw [decision_exact spec listing false "GET" "/ping".toList (by decide)]; decide
  · rw [decision_exact spec listing false "GET" "/eons".toList (by decide)]; decide

/-- **Deterministic.**  For well-formed tables the gate's decision for a brace-free request path does
    not depend on the order in which Go ranges over the paths map (any two listings with the same
    members give the same decision). -/
theorem C18_deterministic (spec : List SpecOp) (routes : List Route) (hW : W spec routes = true)
    (l₁ l₂ : List Path) (h₁ : ∀ t, t ∈ l₁ ↔ t ∈ templatesOf spec) (h₂ : ∀ t, t ∈ l₂ ↔ t ∈ templatesOf spec)
    (we : Bool) (method : String) (path : Path) (hplain : path.contains '{' = false) :
    decision spec l₁ we method path = decision spec l₂ we method path := by
  unfold W at hW
  simp only [Bool.and_eq_true] at hW
  obtain ⟨⟨⟨_, _⟩, hdisj⟩, _⟩ := hW
  have hmem : ∀ t, t ∈ l₁ ↔ t ∈ l₂ := fun t => (h₁ t).trans (h₂ t).symm
  unfold decision findOperation
  have key : findTemplate (templatesOf spec) l₁ path = findTemplate (templatesOf spec) l₂ path := by
    unfold findTemplate
    by_cases hc : (templatesOf spec).contains path = true
    · simp only [hc, if_true]
    · simp only [hc, Bool.false_eq_true, if_false]
      have hnone : ∀ (l : List Path), (∀ t, t ∈ l ↔ t ∈ templatesOf spec) →
          l.find? (fun t => decide (normalize t = normalize path)) = none := by
        intro l hl
        rw [List.find?_eq_none]
        intro t ht hq
        simp only [decide_eq_true_eq] at hq
        have := normalize_eq_plain t path hplain hq
        rw [this] at ht
        exact hc (by simpa [List.contains_iff_mem, List.elem_eq_mem] using (hl path).1 ht)
      rw [hnone l₁ h₁, hnone l₂ h₂]
      simp only
      apply find?_unique _ l₁ l₂ hmem
      intro a b ha hb hqa hqb
      by_cases hab : a = b
      · exact hab
      · exfalso
        have hd := pairwise_mem (fun a b => disjointSegs (segs a) (segs b)) (templatesOf spec) hdisj
          (fun a b => disjointSegs_symm _ _) a b ((h₁ a).1 ha) ((h₁ b).1 hb) hab
        exact disjoint_no_common _ _ _ hd hqa hqb
  rw [key]

/-! non-vacuity / examples (tests of the definitions) -/
example : dispatch routes "POST" "/shutdown".toList = some ⟨"POST", "/shutdown".toList, "wrapper.Shutdown"⟩ := by decide
example : decision spec (templatesOf spec) false "POST" "/shutdown".toList = .forbidden := by decide
example : decision spec (templatesOf spec) true "POST" "/shutdown".toList = .allow := by decide
example : decision spec (templatesOf spec) false "GET" "/decryptionKey/1/0xab".toList = .allow := by decide
example : decision spec (templatesOf spec) false "GET" "/decryptionKey/1/a/b".toList = .notFound := by decide
example : decision spec (templatesOf spec) false "POST" "/shutdown/".toList = .notFound := by decide

end Shutter.Properties.C18
