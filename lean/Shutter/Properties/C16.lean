/-
C16 — Event trigger fires iff a matching log occurs in time, whatever the batching.
-/
import Shutter.Model.Trigger
import Shutter.Generated.SqlFacts

namespace Shutter.Properties.C16
open Shutter.Trigger List

/-! ### the outcome in closed form -/

/-- what is recorded for `key` after processing `blocks` (none of which stores a registration before the
    outcome is decided): an earlier fired row stays; otherwise the first matching log, in chain order, of the
    stored registration of that key that is not after its expiry -/
def outcome (st : St) (blocks : List Blk) (key : Nat) : Option Fired :=
  match firedOf st key with
  | some f => some f
  | none =>
    match st.regs.find? (fun r => r.key = key) with
    | none => none
    | some r => (candidates r blocks).head?

/-- primary key (eon, identity) of the registrations -/
def Keyed (regs : List Reg) : Prop := regs.Pairwise (fun a b => a.key ≠ b.key)

/-- the block numbers of a range are at least its start -/
def From (start : Nat) (blocks : List Blk) : Prop := ∀ b ∈ blocks, start ≤ b.number

theorem isFired_iff (fired : List Fired) (k : Nat) : isFired fired k = true ↔ (fired.find? (fun f => f.key = k)).isSome := by
  induction fired with
  | nil => simp [isFired]
  | cons f rest ih =>
    simp only [isFired, any_cons, Bool.or_eq_true, decide_eq_true_eq, find?_cons] at ih ⊢
    by_cases h : f.key = k
    · simp [h]
    · simp [h, ih]

theorem find_insertFired (fired : List Fired) (f : Fired) (k : Nat) :
    (insertFired fired f).find? (fun x => x.key = k) =
      match fired.find? (fun x => x.key = k) with
      | some x => some x
      | none => if f.key = k then some f else none := by
  unfold insertFired
  by_cases hf : isFired fired f.key = true
  · rw [if_pos hf]
    cases hk : fired.find? (fun x => x.key = k) with
    | some x => rfl
    | none =>
      simp only []
      by_cases hkk : f.key = k
      · subst hkk
        have := (isFired_iff fired f.key).1 hf
        rw [hk] at this; cases this
      · rw [if_neg hkk]
  · rw [if_neg hf, find?_append]
    cases hk : fired.find? (fun x => x.key = k) with
    | some x => simp
    | none =>
      simp only [Option.none_or, find?_cons, find?_nil]
      by_cases hkk : f.key = k
      · simp [hkk]
      · simp [hkk]

/-- inserting candidates one by one (ON CONFLICT DO NOTHING) keeps an earlier row and otherwise takes the
    first candidate of the key -/
theorem find_foldl_insertFired (cands : List Fired) (fired : List Fired) (k : Nat) :
    (cands.foldl insertFired fired).find? (fun x => x.key = k) =
      match fired.find? (fun x => x.key = k) with
      | some x => some x
      | none => cands.find? (fun x => x.key = k) := by
  induction cands generalizing fired with
  | nil => cases h : fired.find? (fun x => x.key = k) <;> simp [h]
  | cons c rest ih =>
    rw [foldl_cons, ih, find_insertFired]
    cases hk : fired.find? (fun x => x.key = k) with
    | some x => rfl
    | none =>
      simp only [find?_cons]
      by_cases hc : c.key = k
      · simp [hc]
      · simp [hc]

theorem candidates_key (r : Reg) (blocks : List Blk) : ∀ c ∈ candidates r blocks, c.key = r.key := by
  induction blocks with
  | nil => simp [candidates]
  | cons b rest ih =>
    intro c hc
    simp only [candidates, mem_append] at hc
    rcases hc with hc | hc
    · split at hc
      · obtain ⟨i, _, rfl⟩ := mem_map.1 hc; rfl
      · cases hc
    · exact ih c hc

theorem candidates_expired (r : Reg) (start : Nat) (blocks : List Blk) (hfrom : From start blocks) (h : r.expiry < start) :
    candidates r blocks = [] := by
  induction blocks with
  | nil => rfl
  | cons b rest ih =>
    simp only [candidates]
    have hb := hfrom b mem_cons_self
    rw [if_neg (by omega), ih (fun x hx => hfrom x (mem_cons_of_mem _ hx))]
    rfl

theorem candidates_append (r : Reg) (a b : List Blk) : candidates r (a ++ b) = candidates r a ++ candidates r b := by
  induction a with
  | nil => rfl
  | cons x rest ih => simp only [cons_append, candidates, ih, append_assoc]

theorem find_of_key (l : List Fired) (k : Nat) (h : ∀ c ∈ l, c.key = k) : l.find? (fun x => x.key = k) = l.head? := by
  cases l with
  | nil => rfl
  | cons c rest => simp [find?_cons, h c mem_cons_self]

theorem find_none_of_key (l : List Fired) (k k' : Nat) (h : ∀ c ∈ l, c.key = k') (hne : k' ≠ k) :
    l.find? (fun x => x.key = k) = none := by
  rw [find?_eq_none]
  intro c hc
  simp only [decide_eq_true_eq]
  rw [h c hc]; exact hne

/-- the candidates of all active triggers, searched for a key -/
theorem find_flatMap (st : St) (start : Nat) (blocks : List Blk) (hfrom : From start blocks) (k : Nat)
    (hk : Keyed st.regs) (hnot : firedOf st k = none) :
    ((st.regs.filter (fun r => decide (start ≤ r.expiry) && !isFired st.fired r.key)).flatMap
        (fun r => candidates r blocks)).find? (fun x => x.key = k) =
      match st.regs.find? (fun r => r.key = k) with
      | none => none
      | some r => (candidates r blocks).head? := by
  have hnotFired : isFired st.fired k = false := by
    cases h : isFired st.fired k with
    | false => rfl
    | true =>
      have := (isFired_iff st.fired k).1 h
      unfold firedOf at hnot
      rw [hnot] at this; cases this
  generalize st.regs = regs at hk
  induction regs with
  | nil => rfl
  | cons r rest ih =>
    unfold Keyed at hk
    rw [pairwise_cons] at hk
    rw [filter_cons]
    by_cases hr : r.key = k
    · -- this is the registration of the key; no later one has it
      have hrest : rest.find? (fun x => x.key = k) = none := by
        rw [find?_eq_none]
        intro x hx
        simp only [decide_eq_true_eq]
        intro hxk
        exact hk.1 x hx (by rw [hr, hxk])
      simp only [find?_cons, hr, decide_true]
      by_cases hact : (decide (start ≤ r.expiry) && !isFired st.fired k) = true
      · rw [if_pos hact, flatMap_cons, find?_append, find_of_key _ k (fun c hc => by rw [candidates_key r blocks c hc, hr])]
        cases hh : (candidates r blocks).head? with
        | some c => rfl
        | none =>
          simp only [Option.none_or]
          rw [find?_eq_none]
          intro c hc
          simp only [decide_eq_true_eq]
          obtain ⟨x, hx, hcx⟩ := mem_flatMap.1 hc
          rw [candidates_key x blocks c hcx]
          intro hxk
          exact hk.1 x (mem_filter.1 hx).1 (by rw [hr, hxk])
      · rw [if_neg hact]
        -- inactive: expired before the range (not fired, by hypothesis)
        have hexp : r.expiry < start := by
          simp only [Bool.and_eq_true, decide_eq_true_eq, Bool.not_eq_true', not_and] at hact
          by_cases hle : start ≤ r.expiry
          · have := hact hle
            rw [hnotFired] at this; exact absurd rfl this
          · omega
        rw [candidates_expired r start blocks hfrom hexp]
        simp only [head?_nil]
        rw [find?_eq_none]
        intro c hc
        simp only [decide_eq_true_eq]
        obtain ⟨x, hx, hcx⟩ := mem_flatMap.1 hc
        rw [candidates_key x blocks c hcx]
        intro hxk
        exact hk.1 x (mem_filter.1 hx).1 (by rw [hr, hxk])
    · simp only [find?_cons, hr, decide_false]
      split
      · rw [flatMap_cons, find?_append, find_none_of_key _ k r.key (candidates_key r blocks) hr]
        simp only [Option.none_or]
        exact ih hk.2
      · exact ih hk.2

/-- **One range, in closed form.**  Whatever the size of the range: the row recorded for a key after a sync
    range is the `outcome` of the blocks of the range. -/
theorem stepRange_outcome (st : St) (start : Nat) (blocks : List Blk) (hfrom : From start blocks) (hk : Keyed st.regs)
    (k : Nat) : firedOf (stepRange st start blocks) k = outcome st blocks k := by
  unfold firedOf stepRange outcome
  simp only []
  rw [find_foldl_insertFired]
  cases hf : st.fired.find? (fun x => x.key = k) with
  | some f => simp [firedOf, hf]
  | none =>
    simp only [firedOf, hf]
    exact find_flatMap st start blocks hfrom k hk (by unfold firedOf; exact hf)

/-! ### registrations -/

theorem insertReg_keyed (regs : List Reg) (r : Reg) (h : Keyed regs) : Keyed (insertReg regs r) := by
  unfold insertReg Keyed at *
  split
  · rw [pairwise_map]
    refine h.imp ?_
    intro a b hab
    by_cases ha : a.key = r.key <;> by_cases hb : b.key = r.key
    · exact absurd (by rw [ha, hb]) hab
    · simp only [ha, if_true, hb, if_false]; rw [← ha]; exact hab
    · simp only [ha, if_false, hb, if_true]; rw [← hb]; exact hab
    · simp only [ha, hb, if_false]; exact hab
  · rename_i hno
    rw [pairwise_append]
    refine ⟨h, by simp, ?_⟩
    intro a ha b hb
    simp only [mem_singleton] at hb
    subst hb
    intro hab
    apply hno
    simp only [any_eq_true, decide_eq_true_eq]
    exact ⟨a, ha, hab⟩

theorem foldl_insertReg_keyed (rs : List Reg) (regs : List Reg) (h : Keyed regs) : Keyed (rs.foldl insertReg regs) := by
  induction rs generalizing regs with
  | nil => exact h
  | cons r rest ih => exact ih _ (insertReg_keyed regs r h)

theorem stepRange_keyed (st : St) (start : Nat) (blocks : List Blk) (h : Keyed st.regs) :
    Keyed (stepRange st start blocks).regs := foldl_insertReg_keyed _ _ h

/-- states that record the same (same registrations, same row per key) -/
def Same (a b : St) : Prop := a.regs = b.regs ∧ ∀ k, firedOf a k = firedOf b k

theorem outcome_congr (a b : St) (h : Same a b) (blocks : List Blk) (k : Nat) : outcome a blocks k = outcome b blocks k := by
  unfold outcome
  rw [h.2 k, h.1]

/-- blocks without registrations, one by one: the closed form again -/
theorem blockwise_outcome (st : St) (bs : List Blk) (hno : ∀ b ∈ bs, regsOf b.items = []) (hk : Keyed st.regs) :
    (blockwise st bs).regs = st.regs ∧ ∀ k, firedOf (blockwise st bs) k = outcome st bs k := by
  induction bs generalizing st with
  | nil =>
    refine ⟨rfl, fun k => ?_⟩
    unfold outcome blockwise
    simp only [foldl_nil, candidates, head?_nil]
    cases firedOf st k with
    | some f => rfl
    | none => cases st.regs.find? (fun r => r.key = k) <;> rfl
  | cons b rest ih =>
    have hb := hno b mem_cons_self
    have hregs : (stepBlock st b).regs = st.regs := by
      simp [stepBlock, stepRange, hb]
    have hk' : Keyed (stepBlock st b).regs := by rw [hregs]; exact hk
    obtain ⟨ih1, ih2⟩ := ih (stepBlock st b) (fun x hx => hno x (mem_cons_of_mem _ hx)) hk'
    refine ⟨by simp only [blockwise, foldl_cons] at ih1 ⊢; rw [ih1, hregs], fun k => ?_⟩
    have := ih2 k
    simp only [blockwise, foldl_cons] at this ⊢
    rw [this]
    unfold outcome
    rw [hregs]
    have hstep := stepRange_outcome st b.number [b] (by intro x hx; simp only [mem_singleton] at hx; subst hx; exact Nat.le_refl _) hk k
    unfold stepBlock
    rw [hstep]
    unfold outcome
    cases hf : firedOf st k with
    | some f => rfl
    | none =>
      simp only []
      cases hr : st.regs.find? (fun r => r.key = k) with
      | none => rfl
      | some r =>
        simp only []
        have happ := candidates_append r [b] rest
        simp only [singleton_append] at happ
        rw [happ]
        cases hh : (candidates r [b]).head? with
        | some c =>
          simp only []
          cases hl : candidates r [b] with
          | nil => rw [hl] at hh; cases hh
          | cons c' t => rw [hl] at hh; simp only [head?_cons, Option.some.injEq] at hh; subst hh; rfl
        | none =>
          simp only []
          have : candidates r [b] = [] := by
            cases hl : candidates r [b] with
            | nil => rfl
            | cons c' t => rw [hl] at hh; cases hh
          rw [this, nil_append]

/-- **A limited range equals its blocks one by one.**  For a range in which only the last block registers
    triggers (what `limitRange` guarantees), processing the range at once records the same registrations and
    the same fired row for every key as processing its blocks one by one. -/
theorem range_eq_blockwise (st : St) (bs : List Blk) (last : Blk) (start : Nat) (hfrom : From start (bs ++ [last]))
    (hlim : ∀ b ∈ bs, regsOf b.items = []) (hk : Keyed st.regs) :
    Same (stepRange st start (bs ++ [last])) (blockwise st (bs ++ [last])) := by
  obtain ⟨hr, hf⟩ := blockwise_outcome st bs hlim hk
  have hbw : blockwise st (bs ++ [last]) = stepBlock (blockwise st bs) last := by
    simp [blockwise, foldl_append]
  rw [hbw]
  constructor
  · -- registrations: only the last block has any
    have hflat : (bs ++ [last]).flatMap (fun b => regsOf b.items) = regsOf last.items := by
      rw [flatMap_append]
      have : bs.flatMap (fun b => regsOf b.items) = [] := by
        rw [flatMap_eq_nil_iff]; exact hlim
      simp [this]
    simp only [stepRange, stepBlock, hflat, hr, flatMap_cons, flatMap_nil, append_nil]
  · intro k
    rw [stepRange_outcome st start (bs ++ [last]) hfrom hk k]
    unfold stepBlock
    rw [stepRange_outcome (blockwise st bs) last.number [last]
      (by intro x hx; simp only [mem_singleton] at hx; subst hx; exact Nat.le_refl _) (by rw [hr]; exact hk) k]
    unfold outcome
    rw [hf k, hr]
    unfold outcome
    cases hfo : firedOf st k with
    | some f => rfl
    | none =>
      simp only []
      cases hreg : st.regs.find? (fun r => r.key = k) with
      | none => rfl
      | some r =>
        simp only []
        rw [candidates_append]
        cases hl : candidates r bs with
        | nil => simp
        | cons c t => simp

/-- a range as `limitRange` leaves it: non-empty, starting at its first block's number, numbers not below the
    start, registrations only in the last block -/
structure GoodRange (r : List Blk) : Prop where
  nonempty : r ≠ []
  from_start : ∀ b0 ∈ r.head?, From b0.number r
  limited : Limited r

/-- **Whatever the batching.**  For every state with its primary key, every partition of the processed blocks
    into limited ranges (any sizes, any number of ranges) records the same registrations and, for every
    trigger, the same fired row as processing every block on its own: the outcome depends only on the chain. -/
theorem C16_batching (st : St) (ranges : List (List Blk)) (hk : Keyed st.regs) (hg : ∀ r ∈ ranges, GoodRange r) :
    Same (batched st ranges) (blockwise st ranges.flatten) := by
  suffices h : ∀ (a b : St), Same a b → Keyed a.regs →
      Same (batched a ranges) (blockwise b ranges.flatten) from h st st ⟨rfl, fun _ => rfl⟩ hk
  induction ranges with
  | nil => intro a b hab _; exact hab
  | cons r rest ih =>
    intro a b hab hka
    have hgr := hg r mem_cons_self
    -- split the range into its front and its last block
    obtain ⟨bs, last, hsplit⟩ : ∃ bs last, r = bs ++ [last] := by
      refine ⟨r.dropLast, r.getLast hgr.nonempty, (dropLast_concat_getLast hgr.nonempty).symm⟩
    have hkb : Keyed b.regs := by rw [← hab.1]; exact hka
    have hfirst : ∃ b0, r.head? = some b0 := by
      cases hr : r with
      | nil => exact absurd hr hgr.nonempty
      | cons x t => exact ⟨x, rfl⟩
    obtain ⟨b0, hb0⟩ := hfirst
    have hstep : batched a (r :: rest) = batched (stepRange a b0.number r) rest := by
      cases hr : r with
      | nil => exact absurd hr hgr.nonempty
      | cons x t =>
        rw [hr] at hb0
        simp only [head?_cons, Option.some.injEq] at hb0
        subst hb0
        simp [batched]
    have hflat : blockwise b (r :: rest).flatten = blockwise (blockwise b r) rest.flatten := by
      simp [blockwise, foldl_append]
    rw [hstep, hflat]
    apply ih (fun x hx => hg x (mem_cons_of_mem _ hx))
    · -- the range on `a` and on `b` record the same, and that equals block by block
      have hfrom := hgr.from_start b0 (by rw [hb0]; exact rfl)
      have hlim : ∀ x ∈ bs, regsOf x.items = [] := by
        intro x hx
        apply hgr.limited
        rw [hsplit, dropLast_concat]
        exact hx
      have hab' : Same (stepRange a b0.number r) (stepRange b b0.number r) := by
        constructor
        · simp only [stepRange]; rw [hab.1]
        · intro k
          rw [stepRange_outcome a b0.number r hfrom hka k, stepRange_outcome b b0.number r hfrom hkb k]
          exact outcome_congr a b hab r k
      have hrb := range_eq_blockwise b bs last b0.number (by rw [← hsplit]; exact hfrom) hlim hkb
      rw [← hsplit] at hrb
      exact ⟨hab'.1.trans hrb.1, fun k => (hab'.2 k).trans (hrb.2 k)⟩
    · exact stepRange_keyed a b0.number r hka

/-- **At most once, and only in time.**  A recorded row is never replaced, and a new row is a matching log in a
    block not after the expiry, of a registration stored before the range. -/
theorem C16_once_and_in_time (st : St) (start : Nat) (blocks : List Blk) (hfrom : From start blocks) (hk : Keyed st.regs)
    (k : Nat) :
    (∀ f, firedOf st k = some f → firedOf (stepRange st start blocks) k = some f) ∧
    (firedOf st k = none → ∀ f, firedOf (stepRange st start blocks) k = some f →
      ∃ r ∈ st.regs, r.key = k ∧ f ∈ candidates r blocks ∧ f.block ≤ r.expiry) := by
  rw [stepRange_outcome st start blocks hfrom hk k]
  constructor
  · intro f hf; unfold outcome; rw [hf]
  · intro hnone f hf
    unfold outcome at hf
    rw [hnone] at hf
    simp only [] at hf
    cases hr : st.regs.find? (fun r => r.key = k) with
    | none => rw [hr] at hf; cases hf
    | some r =>
      rw [hr] at hf
      simp only [] at hf
      have hmem : f ∈ candidates r blocks := by
        cases hl : candidates r blocks with
        | nil => rw [hl] at hf; cases hf
        | cons c t => rw [hl] at hf; simp only [head?_cons, Option.some.injEq] at hf; subst hf; exact mem_cons_self
      refine ⟨r, mem_of_find?_eq_some hr, by have := find?_some hr; simpa using this, hmem, ?_⟩
      -- every candidate is in a block not after the expiry
      have : ∀ (bl : List Blk), ∀ c ∈ candidates r bl, c.block ≤ r.expiry := by
        intro bl
        induction bl with
        | nil => simp [candidates]
        | cons b rest ih =>
          intro c hc
          simp only [candidates, mem_append] at hc
          rcases hc with hc | hc
          · split at hc
            · obtain ⟨i, _, rfl⟩ := mem_map.1 hc; assumption
            · cases hc
          · exact ih c hc
      exact this blocks f hmem

/-- the SQL behind the active-trigger query and the fired-row insert, as extracted from the source on this run -/
theorem C16_sql_pinned :
    Shutter.Generated.SqlFacts.service_GetActiveEventTriggerRegisteredEvents =
      "SELECT block_number, block_hash, tx_index, log_index, eon, identity_prefix, sender, definition, expiration_block_number, decrypted, identity FROM event_trigger_registered_event e WHERE e.expiration_block_number >= $1 -- not expired at given block AND e.decrypted = false -- not decrypted yet AND NOT EXISTS ( -- not fired yet SELECT 1 FROM fired_triggers t WHERE t.eon = e.eon AND t.identity = e.identity )" ∧
    Shutter.Generated.SqlFacts.service_InsertFiredTrigger =
      "INSERT INTO fired_triggers (eon, identity, identity_prefix, sender, block_number, block_hash, tx_index, log_index) VALUES ($1, $2, $3, $4, $5, $6, $7, $8) ON CONFLICT (eon, identity) DO NOTHING" :=
  ⟨rfl, rfl⟩

/-! ### non-vacuity: the batching matters without the limit, and not with it -/

def exBlocks : List Blk :=
  [ { number := 3, items := [.reg 0 6 0] }, { number := 4, items := [] }, { number := 5, items := [.log 0] } ]

/-- block by block the trigger registered in block 3 fires on the log of block 5 … -/
example : (blockwise {} exBlocks).fired = [{ key := 0, block := 5, logIndex := 0 }] := by decide
/-- … an unlimited range over the three blocks misses it (the defect that was repaired) … -/
example : (stepRange {} 3 exBlocks).fired = [] := by decide
/-- … and the limited ranges [3], [4, 5] record it -/
example : (batched {} [[exBlocks[0]], [exBlocks[1], exBlocks[2]]]).fired = [{ key := 0, block := 5, logIndex := 0 }] := by decide
example : GoodRange [exBlocks[1], exBlocks[2]] :=
  ⟨by simp, by intro b0 hb0; simp only [head?_cons, Option.mem_def, Option.some.injEq] at hb0; subst hb0; intro b hb; simp at hb; rcases hb with rfl | rfl <;> decide,
   by intro b hb; simp at hb; subst hb; rfl⟩

end Shutter.Properties.C16
