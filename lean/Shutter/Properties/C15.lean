/-
C15 — Synced contract events equal the canonical chain's, through reorgs and failures.
-/
import Shutter.Model.Syncer
import Shutter.Generated.SqlFacts

namespace Shutter.Properties.C15
open Shutter.Syncer List

/-- the events of `k` consecutive blocks from `a`, in chain order -/
def flat (c : Chain) (a k : Nat) : List Row := (List.range' a k).flatMap (evRows c)

/-- no key occurs twice among the events of the blocks `first … n` of the chain (a contract emits a key once) -/
def Uniq (p : P) (c : Chain) (n : Nat) : Prop := ((flat c p.first (n + 1 - p.first)).map (·.key)).Nodup

/-- two chains have the same blocks in `a … b` -/
def AgreeOn (c c' : Chain) (a b : Nat) : Prop := ∀ j, a ≤ j → j ≤ b → c j = c' j

theorem flat_succ (c : Chain) (a k : Nat) : flat c a (k + 1) = evRows c a ++ flat c (a + 1) k := by
  simp [flat, range'_succ]

theorem flat_add (c : Chain) (a k k' : Nat) : flat c a (k + k') = flat c a k ++ flat c (a + k) k' := by
  induction k generalizing a with
  | zero => simp [flat]
  | succ k ih =>
    rw [show k + 1 + k' = (k + k') + 1 by omega, flat_succ, flat_succ, ih, append_assoc]
    congr 2
    rw [show a + 1 + k = a + (k + 1) by omega]

theorem flat_block (c : Chain) (a k : Nat) : ∀ r ∈ flat c a k, a ≤ r.block ∧ r.block < a + k := by
  intro r hr
  simp only [flat, mem_flatMap, mem_range'_1] at hr
  obtain ⟨b, ⟨h1, h2⟩, hb⟩ := hr
  simp only [evRows, mem_map] at hb
  obtain ⟨e, _, rfl⟩ := hb
  exact ⟨h1, h2⟩

theorem flatMap_congr' {α β : Type} (l : List α) (f g : α → List β) (h : ∀ a ∈ l, f a = g a) :
    l.flatMap f = l.flatMap g := by
  induction l with
  | nil => rfl
  | cons x rest ih =>
    rw [flatMap_cons, flatMap_cons, h x mem_cons_self, ih (fun a ha => h a (mem_cons_of_mem _ ha))]

theorem flat_agree (c c' : Chain) (a k : Nat) (h : AgreeOn c c' a (a + k - 1)) : flat c a k = flat c' a k := by
  unfold flat
  apply flatMap_congr'
  intro b hb
  simp only [mem_range'_1] at hb
  unfold evRows
  rw [h b hb.1 (by omega)]

/-- inserting rows with fresh, pairwise distinct keys appends them -/
theorem foldl_upsert_fresh (l rows : List Row) (hfresh : ∀ r ∈ l, ∀ x ∈ rows, x.key ≠ r.key)
    (hnd : (l.map (·.key)).Nodup) : l.foldl upsert rows = rows ++ l := by
  induction l generalizing rows with
  | nil => simp
  | cons r rest ih =>
    rw [map_cons, nodup_cons] at hnd
    rw [foldl_cons]
    have hno : rows.any (fun x => x.key = r.key) = false := by
      rw [any_eq_false]
      intro x hx
      simp only [decide_eq_true_eq]
      exact hfresh r mem_cons_self x hx
    have : upsert rows r = rows ++ [r] := by unfold upsert; rw [hno]; rfl
    rw [this, ih]
    · simp
    · intro r' hr' x hx
      rcases mem_append.1 hx with hx | hx
      · exact hfresh r' (mem_cons_of_mem _ hr') x hx
      · simp only [mem_singleton] at hx
        subst hx
        intro heq
        exact hnd.1 (mem_map.2 ⟨r', hr', heq.symm⟩)
    · exact hnd.2

theorem syncN_fresh (c : Chain) (rows : List Row) (a k : Nat)
    (hnd : ((rows ++ flat c a k).map (·.key)).Nodup) : syncN c rows a k = rows ++ flat c a k := by
  induction k generalizing rows a with
  | zero => simp [syncN, flat]
  | succ k ih =>
    rw [flat_succ] at hnd ⊢
    simp only [syncN]
    rw [map_append, map_append] at hnd
    have h1 : (evRows c a).foldl upsert rows = rows ++ evRows c a := by
      apply foldl_upsert_fresh
      · intro r hr x hx heq
        have := (nodup_append.1 hnd).2.2 x.key (mem_map.2 ⟨x, hx, rfl⟩) r.key
          (mem_append_left _ (mem_map.2 ⟨r, hr, rfl⟩))
        exact this heq
      · exact ((nodup_append.1 (nodup_append.1 hnd).2.1).1)
    rw [h1, ih]
    · simp
    · rw [map_append, map_append, append_assoc]; exact hnd

theorem expected_eq (p : P) (c : Chain) (n : Nat) (hu : Uniq p c n) : expected p c n = flat c p.first (n + 1 - p.first) := by
  unfold expected
  rw [syncN_fresh c [] p.first _ (by rw [nil_append]; exact hu)]
  rw [nil_append]

theorem filter_flat (c : Chain) (a k kb : Nat) (h1 : a ≤ kb) (h2 : kb ≤ a + k) :
    (flat c a k).filter (fun r => decide (r.block < kb)) = flat c a (kb - a) := by
  have hsplit : k = (kb - a) + (a + k - kb) := by omega
  rw [hsplit, flat_add, filter_append]
  have hl : (flat c a (kb - a)).filter (fun r => decide (r.block < kb)) = flat c a (kb - a) := by
    rw [filter_eq_self]
    intro r hr
    have := flat_block c a (kb - a) r hr
    simp only [decide_eq_true_eq]; omega
  have hr : (flat c (a + (kb - a)) (a + k - kb)).filter (fun r => decide (r.block < kb)) = [] := by
    rw [filter_eq_nil_iff]
    intro r hr
    have := flat_block c _ _ r hr
    simp only [decide_eq_true_eq]; omega
  rw [hl, hr, append_nil]

theorem uniq_mono (p : P) (c : Chain) (n n' : Nat) (h : n' ≤ n) (hu : Uniq p c n) : Uniq p c n' := by
  unfold Uniq at *
  have hsplit : n + 1 - p.first = (n' + 1 - p.first) + ((n + 1 - p.first) - (n' + 1 - p.first)) := by omega
  rw [hsplit, flat_add, map_append] at hu
  exact (nodup_append.1 hu).1

/-! ### reachable states, each with the chain its rows were read from -/

/-- the invariant: the rows are exactly the events of the view chain `v` from the first block to the position,
    and the stored hash is that chain's (or the empty hash of a reset) -/
structure Inv (p : P) (st : St) (v : Chain) : Prop where
  none_empty : st.pos = none → st.rows = []
  rows : ∀ n h, st.pos = some (n, h) → st.rows = flat v p.first (n + 1 - p.first)
  hash : ∀ n h, st.pos = some (n, h) → h = (v n).hash ∨ h = 0
  uniq : ∀ n h, st.pos = some (n, h) → Uniq p v n
  above : ∀ n h, st.pos = some (n, h) → p.first ≤ n + 1

/-- where a step resumes after the reorg check -/
def resumeAfter (p : P) (st : St) (c : Chain) (m : Nat) : Nat := resume p (reorgReset p st m (c m).parent)

/-- what a step needs: it reads a chain without repeated keys, and — if it stores anything — that chain has
    the same blocks as the view from the first block up to the block before the resume point -/
structure StepOK (p : P) (st : St) (v c : Chain) (m upTo : Nat) : Prop where
  uniq : Uniq p c upTo
  agree : resumeAfter p st c m ≤ upTo → AgreeOn v c p.first (resumeAfter p st c m - 1)

theorem reorgDepth_le (p : P) (n : Nat) : reorgDepth p n ≤ n := by unfold reorgDepth; split <;> omega

theorem keepBelow_bounds (p : P) (n : Nat) (h : p.first ≤ n + 1) :
    p.first ≤ keepBelow p n ∧ keepBelow p n ≤ n + 1 ∧ 1 ≤ keepBelow p n := by
  unfold keepBelow
  have := reorgDepth_le p n
  split <;> omega

theorem reorgReset_inv (p : P) (st : St) (v : Chain) (inv : Inv p st v) (m parent : Nat) :
    Inv p (reorgReset p st m parent) v := by
  unfold reorgReset
  cases hpos : st.pos with
  | none => simp only []; exact inv
  | some nh =>
    obtain ⟨n, h⟩ := nh
    simp only []
    by_cases hdet : detects p n h m parent = true
    · rw [if_pos hdet]
      have hrows := inv.rows n h hpos
      have habove := inv.above n h hpos
      have huniq := inv.uniq n h hpos
      obtain ⟨hkb1, hkb2, hkb3⟩ := keepBelow_bounds p n habove
      generalize keepBelow p n = kb at hkb1 hkb2 hkb3
      refine ⟨(by intro h'; cases h'), ?_, ?_, ?_, ?_⟩
      · intro n' h' he
        simp only [Option.some.injEq, Prod.mk.injEq] at he
        obtain ⟨rfl, rfl⟩ := he
        simp only []
        rw [hrows, filter_flat v p.first (n + 1 - p.first) kb hkb1 (by omega)]
        congr 1; omega
      · intro n' h' he
        simp only [Option.some.injEq, Prod.mk.injEq] at he
        exact Or.inr he.2.symm
      · intro n' h' he
        simp only [Option.some.injEq, Prod.mk.injEq] at he
        obtain ⟨rfl, _⟩ := he
        exact uniq_mono p v n (kb - 1) (by omega) huniq
      · intro n' h' he
        simp only [Option.some.injEq, Prod.mk.injEq] at he
        obtain ⟨rfl, _⟩ := he
        omega
    · rw [if_neg hdet]; exact inv

/-- **One step keeps the invariant**, with the chain that was read as the new view when something was stored. -/
theorem sync_inv (p : P) (st : St) (v c : Chain) (m upTo : Nat) (inv : Inv p st v) (ok : StepOK p st v c m upTo) :
    Inv p (sync p st c m upTo) (if resumeAfter p st c m ≤ upTo then c else v) := by
  have inv1 := reorgReset_inv p st v inv m (c m).parent
  unfold sync
  simp only []
  by_cases hprog : resumeAfter p st c m ≤ upTo
  · have hnot : ¬ upTo < resume p (reorgReset p st m (c m).parent) := by unfold resumeAfter at hprog; omega
    rw [if_neg hnot, if_pos hprog]
    have hagree := ok.agree hprog
    generalize hst1 : reorgReset p st m (c m).parent = st1 at inv1 hnot hprog hagree
    unfold resumeAfter at hagree hprog
    rw [hst1] at hagree hprog
    -- the rows so far, read as rows of the new chain
    have hrows1 : st1.rows = flat c p.first (resume p st1 - p.first) ∧ p.first ≤ resume p st1 := by
      cases hpos : st1.pos with
      | none =>
        simp only [resume, hpos]
        rw [inv1.none_empty hpos]
        simp [flat]
      | some nh =>
        obtain ⟨n, h⟩ := nh
        simp only [resume, hpos]
        refine ⟨?_, inv1.above n h hpos⟩
        rw [inv1.rows n h hpos]
        apply flat_agree
        intro j hj1 hj2
        have hab := inv1.above n h hpos
        apply hagree j hj1
        simp only [resume, hpos]; omega
    obtain ⟨hr, hfirst⟩ := hrows1
    have hu := ok.uniq
    have hlen : upTo + 1 - p.first = (resume p st1 - p.first) + (upTo + 1 - resume p st1) := by omega
    have hsync : syncN c st1.rows (resume p st1) (upTo + 1 - resume p st1) = flat c p.first (upTo + 1 - p.first) := by
      rw [syncN_fresh]
      · rw [hr, hlen, flat_add]
        congr 2; omega
      · rw [hr]
        have : flat c p.first (resume p st1 - p.first) ++ flat c (resume p st1) (upTo + 1 - resume p st1) =
            flat c p.first (upTo + 1 - p.first) := by
          rw [hlen, flat_add]; congr 2; omega
        rw [this]; exact hu
    refine ⟨(by intro h'; cases h'), ?_, ?_, ?_, ?_⟩
    · intro n' h' he
      simp only [Option.some.injEq, Prod.mk.injEq] at he
      obtain ⟨rfl, _⟩ := he
      exact hsync
    · intro n' h' he
      simp only [Option.some.injEq, Prod.mk.injEq] at he
      obtain ⟨rfl, rfl⟩ := he
      exact Or.inl rfl
    · intro n' h' he
      simp only [Option.some.injEq, Prod.mk.injEq] at he
      obtain ⟨rfl, _⟩ := he
      exact hu
    · intro n' h' he
      simp only [Option.some.injEq, Prod.mk.injEq] at he
      obtain ⟨rfl, _⟩ := he
      omega
  · have hlt : upTo < resume p (reorgReset p st m (c m).parent) := by unfold resumeAfter at hprog; omega
    rw [if_pos hlt, if_neg hprog]
    exact inv1

/-- states reachable by sync steps (complete, or cut short by a failure) from the empty database -/
inductive Reach (p : P) : St → Chain → Prop where
  | init (v : Chain) : Reach p {} v
  | step (st : St) (v c : Chain) (m upTo : Nat) : Reach p st v → StepOK p st v c m upTo →
      Reach p (sync p st c m upTo) (if resumeAfter p st c m ≤ upTo then c else v)

theorem reach_inv (p : P) (st : St) (v : Chain) (h : Reach p st v) : Inv p st v := by
  induction h with
  | init v =>
    exact ⟨fun _ => rfl, (by intro n h he; cases he), (by intro n h he; cases he), (by intro n h he; cases he), (by intro n h he; cases he)⟩
  | step st v c m upTo _ ok ih => exact sync_inv p st v c m upTo ih ok

/-- **Exactly the canonical chain's events.**  In every reachable state — after any sequence of heads (repeats,
    gaps, older blocks, forks) and any failures, as long as every step that stores something reads a chain that
    has the same blocks as the one read before from the first block up to the resume point — whenever the stored
    position (number and hash) lies on the canonical chain `c`, the stored rows are exactly the admissible events
    of `c` from the first synced block up to the position: none missing, none of abandoned blocks, none twice.
    `hcoh` is "a hash identifies a block and its ancestry". -/
theorem C15_exact (p : P) (st : St) (v c : Chain) (hr : Reach p st v) (n h : Nat) (hpos : st.pos = some (n, h))
    (hcanon : h = (c n).hash) (hne : h ≠ 0)
    (hcoh : (v n).hash = (c n).hash → AgreeOn v c p.first n) :
    st.rows = flat c p.first (n + 1 - p.first) ∧ (Uniq p c n → st.rows = expected p c n) := by
  have inv := reach_inv p st v hr
  have hv : (v n).hash = (c n).hash := by
    rcases inv.hash n h hpos with hh | hh
    · rw [← hh, hcanon]
    · exact absurd hh hne
  have hag := hcoh hv
  have hflat : st.rows = flat c p.first (n + 1 - p.first) := by
    rw [inv.rows n h hpos]
    apply flat_agree
    intro j hj1 hj2
    have := inv.above n h hpos
    exact hag j hj1 (by omega)
  exact ⟨hflat, fun hu => by rw [hflat, expected_eq p c n hu]⟩

/-- **The position never moves without the events.**  A step either leaves position and rows as the reorg
    check left them, or sets the position to `upTo` with the rows of all blocks up to `upTo` inserted. -/
theorem C15_atomic (p : P) (st : St) (c : Chain) (m upTo : Nat) :
    (sync p st c m upTo = reorgReset p st m (c m).parent) ∨
    ((sync p st c m upTo).pos = some (upTo, (c upTo).hash) ∧
      (sync p st c m upTo).rows = syncN c (reorgReset p st m (c m).parent).rows (resumeAfter p st c m)
        (upTo + 1 - resumeAfter p st c m)) := by
  unfold sync resumeAfter
  simp only []
  split
  · exact Or.inl rfl
  · exact Or.inr ⟨rfl, rfl⟩

/-- **The domain of the property gives what a step needs (1).**  If the position is on the chain that is read
    now, and hashes identify ancestry, the blocks up to the position are the same. -/
theorem C15_domain_canonical (p : P) (st : St) (v c : Chain) (n h : Nat) (hpos : st.pos = some (n, h))
    (m : Nat) (hno : detects p n h m (c m).parent = false)
    (hcoh : AgreeOn v c p.first n) : AgreeOn v c p.first (resumeAfter p st c m - 1) := by
  unfold resumeAfter reorgReset
  rw [hpos]
  simp only [hno, Bool.false_eq_true, if_false, resume, hpos]
  intro j h1 h2
  exact hcoh j h1 (by omega)

/-- **The domain of the property gives what a step needs (2).**  If the new head is one past the position on a
    fork no deeper than the assumed depth (the chains agree up to `n - min depth n`), the reset goes back far
    enough. -/
theorem C15_domain_fork (p : P) (st : St) (v c : Chain) (n h : Nat) (hpos : st.pos = some (n, h))
    (m : Nat) (hdet : detects p n h m (c m).parent = true)
    (hdepth : AgreeOn v c p.first (n - reorgDepth p n)) :
    AgreeOn v c p.first (resumeAfter p st c m - 1) := by
  unfold resumeAfter reorgReset
  rw [hpos]
  simp only [hdet, if_true, resume]
  intro j h1 h2
  apply hdepth j h1
  have hdn := reorgDepth_le p n
  unfold keepBelow at h2
  split at h2 <;> omega

/-- the SQL behind insert, delete-from-block and position, as extracted from the source on this run -/
theorem C15_sql_pinned :
    Shutter.Generated.SqlFacts.service_DeleteIdentityRegisteredEventsFromBlockNumber =
      "DELETE FROM identity_registered_event WHERE block_number >= $1" ∧
    Shutter.Generated.SqlFacts.service_DeleteEventTriggerRegisteredEventsFromBlockNumber =
      "DELETE FROM event_trigger_registered_event WHERE block_number >= $1" ∧
    Shutter.Generated.SqlFacts.service_DeleteFiredTriggersFromBlockNumber =
      "DELETE FROM fired_triggers WHERE block_number >= $1" ∧
    Shutter.Generated.SqlFacts.gnosis_DeleteTransactionSubmittedEventsFromBlockNumber =
      "DELETE FROM transaction_submitted_event WHERE block_number >= $1" :=
  ⟨rfl, rfl, rfl, rfl⟩

/-! ### non-vacuity -/

def exChain : Chain := fun n => { hash := n + 1, parent := n, evs := if n = 2 then [(7, 70)] else if n = 4 then [(8, 80)] else [] }

/-- a fork from block 3: other hashes above it, the event of block 4 gone, another one in block 5 -/
def exFork : Chain := fun n =>
  if n ≤ 3 then exChain n else { hash := 100 + n, parent := if n = 4 then 4 else 99 + n, evs := if n = 5 then [(9, 90)] else [] }

def exP : P := { depth := 2, first := 1 }

example : (sync exP {} exChain 4 4).rows = [{ key := 7, block := 2, payload := 70 }, { key := 8, block := 4, payload := 80 }] := by decide
example : (sync exP (sync exP {} exChain 4 4) exFork 5 5).rows =
    [{ key := 7, block := 2, payload := 70 }, { key := 9, block := 5, payload := 90 }] := by decide
example : (sync exP (sync exP {} exChain 4 4) exFork 5 5).pos = some (5, 105) := by decide

/-! ### the open finding, in the model

The hypothesis `StepOK.agree` cannot be dropped: a head that is two or more past the position is synced without
any check of the stored hash.  After a fork whose first new head is at the position (so nothing is stored and no
reorg is seen, `detects` needs head = position + 1), the next head two past it is appended to the abandoned block's
rows.  The same history fails on the implementation (known finding `reorg-missed-when-head-skips-position+1`). -/

def openA : Chain := fun n => { hash := n + 1, parent := n, evs := if n = 3 then [(9, 90)] else [] }
def openB : Chain := fun n =>
  if n ≤ 2 then openA n else { hash := 100 + n, parent := if n = 3 then 3 else 99 + n, evs := [] }
def openP : P := { depth := 2, first := 0 }
def openSt : St := sync openP (sync openP (sync openP {} openA 3 3) openB 3 3) openB 5 5

/-- the position is on the canonical chain `openB`, yet the rows still hold the event of the abandoned block 3 -/
theorem C15_open_finding_witness :
    openSt.pos = some (5, (openB 5).hash) ∧ openSt.rows = [{ key := 9, block := 3, payload := 90 }] ∧
      expected openP openB 5 = [] := by decide

/-! ### the second open finding, in the model

`StepOK.uniq` (no key twice on one chain) cannot be dropped either.  The identity registry refuses a second
registration and the sequencer numbers its transactions, but the event trigger registry lets its owner register the
same trigger again at any time.  The insert is an upsert that overwrites the row's block number, the reorg reset
deletes by block number: after a reset that reaches back to the second registration but not to the first, the
registration is gone although its first registration is still canonical (and with it, by the foreign key, the
record that the trigger has fired).  The same history fails on the implementation (known finding
`reregistered-trigger-rolled-back`). -/

def reregA : Chain := fun n =>
  { hash := n + 1, parent := n, evs := if n = 1 then [(9, 90)] else if n = 4 then [(9, 91)] else [] }
def reregB : Chain := fun n =>
  if n ≤ 3 then reregA n else { hash := 100 + n, parent := if n = 4 then 4 else 99 + n, evs := [] }
def reregP : P := { depth := 3, first := 0 }
def reregSt : St := sync reregP (sync reregP {} reregA 5 5) reregB 6 6

/-- the position is on the canonical chain `reregB`, whose block 1 registers key 9 — and no row is stored -/
theorem C15_reregistration_witness :
    reregSt.pos = some (6, (reregB 6).hash) ∧ reregSt.rows = [] ∧
      expected reregP reregB 6 = [{ key := 9, block := 1, payload := 90 }] := by decide

end Shutter.Properties.C15
