/-
C03 — Every honest keyper obtains the correct key under any gossip delivery order.

Setting as in C01: a field `F`, an `F`-module `G`, the eon polynomial `f` of degree `< t`, an identity point
`H id` per identity, keyper `i`'s share for `id` is `f(node i) • H id`, and `verify id i s` accepts exactly
that.  A keyper's tables are `Net.Node`; what arrives are accepted messages (`Net.Ev`): key-share messages
of honest keypers, keys messages carrying correct keys, and the keyper's own trigger.
-/
import Shutter.Properties.C01
import Shutter.Model.Net
import Shutter.Drive.EpochKG
import Shutter.Proofs.AccessNode

open Polynomial

namespace Shutter.Properties.C03
open Shutter.EpochKG Shutter.Net Shutter.Sort Shutter.Properties.C01 List

variable {F G : Type} [Field F] [AddCommGroup G] [Module F G]

/-- what is fixed for one release: the key set and the identities everybody was triggered for -/
structure World (F G : Type) [Field F] [AddCommGroup G] [Module F G] where
  f : F[X]
  H : Bytes → G
  n : ℕ
  t : ℕ
  verify : Bytes → ℕ → G → Bool
  ids : List Bytes
  setup : ∀ id, Setup f (H id) n t (verify id)
  nodup : ids.Nodup

namespace World
variable (W : World F G)

/-- keyper `s`'s share for `id` -/
def share (s : ℕ) (id : Bytes) : G := W.f.eval (node s) • W.H id

/-- the epoch secret key of `id` -/
def key (id : Bytes) : G := W.f.eval 0 • W.H id

/-- the key-shares message of honest keyper `s` -/
def msg (s : ℕ) : ShareMsg G := { sender := s, shares := W.ids.map (fun id => (id, W.share s id)) }

/-- an accepted event: an honest keyper's shares, correct keys for some of the identities, or the own trigger -/
def Honest : Ev G → Prop
  | .shares m => ∃ s, s < W.n ∧ m = W.msg s
  | .keys ks => ∀ k ∈ ks, k.2 = W.key k.1
  | .own m => ∃ s, s < W.n ∧ m = W.msg s

/-- the keypers whose shares an event brings -/
def senderOf : Ev G → Finset ℕ
  | .shares m => {m.sender}
  | .keys _ => ∅
  | .own m => {m.sender}

def seen (evs : List (Ev G)) : Finset ℕ := evs.foldl (fun acc e => acc ∪ senderOf e) ∅

/-- invariant of the share table after the keypers in `sn` were seen -/
structure RowsInv (rows : List (Row G)) (sn : Finset ℕ) : Prop where
  valid : ∀ r ∈ rows, r.id ∈ W.ids ∧ r.sender ∈ sn ∧ r.sender < W.n ∧ r.share = W.share r.sender r.id
  complete : ∀ id ∈ W.ids, ∀ s ∈ sn, ∃ r ∈ rows, r.id = id ∧ r.sender = s
  keyed : rows.Pairwise (fun a b => ¬ (a.id = b.id ∧ a.sender = b.sender))

def KeysInv (keys : List (Bytes × G)) : Prop := ∀ k ∈ keys, k.2 = W.key k.1

end World

/-! ### the two insert-or-ignore loops -/

theorem hasRow_iff (rows : List (Row G)) (id : Bytes) (s : ℕ) :
    hasRow rows id s = true ↔ ∃ r ∈ rows, r.id = id ∧ r.sender = s := by
  simp [hasRow]

theorem insertShares_spec (s : ℕ) (l : List (Bytes × G)) (rows : List (Row G)) :
    (∀ r ∈ rows, r ∈ insertShares rows s l) ∧
    (∀ r ∈ insertShares rows s l, r ∈ rows ∨ ∃ e ∈ l, r.id = e.1 ∧ r.sender = s ∧ r.share = e.2) ∧
    (∀ e ∈ l, hasRow (insertShares rows s l) e.1 s = true) ∧
    (rows.Pairwise (fun a b => ¬ (a.id = b.id ∧ a.sender = b.sender)) →
      (insertShares rows s l).Pairwise (fun a b => ¬ (a.id = b.id ∧ a.sender = b.sender))) := by
  induction l generalizing rows with
  | nil => simp [insertShares]
  | cons e rest ih =>
    simp only [insertShares]
    by_cases hh : hasRow rows e.1 s = true
    · rw [if_pos hh]
      obtain ⟨h1, h2, h3, h4⟩ := ih rows
      refine ⟨h1, ?_, ?_, h4⟩
      · intro r hr
        rcases h2 r hr with h | ⟨e', he', h⟩
        · exact Or.inl h
        · exact Or.inr ⟨e', mem_cons_of_mem _ he', h⟩
      · intro e' he'
        rcases mem_cons.1 he' with rfl | he'
        · obtain ⟨r, hr, hr1, hr2⟩ := (hasRow_iff rows _ s).1 hh
          exact (hasRow_iff _ _ s).2 ⟨r, h1 r hr, hr1, hr2⟩
        · exact h3 e' he'
    · rw [if_neg hh]
      obtain ⟨h1, h2, h3, h4⟩ := ih (rows ++ [{ id := e.1, sender := s, share := e.2 }])
      refine ⟨fun r hr => h1 r (mem_append_left _ hr), ?_, ?_, ?_⟩
      · intro r hr
        rcases h2 r hr with h | ⟨e', he', h⟩
        · rcases mem_append.1 h with h | h
          · exact Or.inl h
          · simp only [mem_singleton] at h
            subst h
            exact Or.inr ⟨e, mem_cons_self, rfl, rfl, rfl⟩
        · exact Or.inr ⟨e', mem_cons_of_mem _ he', h⟩
      · intro e' he'
        rcases mem_cons.1 he' with rfl | he'
        · exact (hasRow_iff _ _ s).2 ⟨_, h1 _ (mem_append_right _ (mem_singleton.2 rfl)), rfl, rfl⟩
        · exact h3 e' he'
      · intro hp
        apply h4
        rw [pairwise_append]
        refine ⟨hp, by simp, ?_⟩
        intro a ha b hb
        simp only [mem_singleton] at hb
        subst hb
        intro hab
        exact hh ((hasRow_iff rows _ s).2 ⟨a, ha, hab.1, hab.2⟩)

theorem hasKey_iff (keys : List (Bytes × G)) (id : Bytes) : hasKey keys id = true ↔ ∃ k ∈ keys, k.1 = id := by
  simp [hasKey]

theorem insertKeys_spec (ks : List (Bytes × G)) (keys : List (Bytes × G)) :
    (∀ k ∈ keys, k ∈ insertKeys keys ks) ∧
    (∀ k ∈ insertKeys keys ks, k ∈ keys ∨ k ∈ ks) ∧
    (∀ k ∈ ks, hasKey (insertKeys keys ks) k.1 = true) := by
  induction ks generalizing keys with
  | nil => simp [insertKeys]
  | cons k rest ih =>
    simp only [insertKeys]
    by_cases hh : hasKey keys k.1 = true
    · rw [if_pos hh]
      obtain ⟨h1, h2, h3⟩ := ih keys
      refine ⟨h1, ?_, ?_⟩
      · intro x hx
        rcases h2 x hx with h | h
        · exact Or.inl h
        · exact Or.inr (mem_cons_of_mem _ h)
      · intro x hx
        rcases mem_cons.1 hx with rfl | hx
        · obtain ⟨y, hy, e⟩ := (hasKey_iff keys _).1 hh
          exact (hasKey_iff _ _).2 ⟨y, h1 y hy, e⟩
        · exact h3 x hx
    · rw [if_neg hh]
      obtain ⟨h1, h2, h3⟩ := ih (keys ++ [k])
      refine ⟨fun x hx => h1 x (mem_append_left _ hx), ?_, ?_⟩
      · intro x hx
        rcases h2 x hx with h | h
        · rcases mem_append.1 h with h | h
          · exact Or.inl h
          · simp only [mem_singleton] at h
            subst h
            exact Or.inr mem_cons_self
        · exact Or.inr (mem_cons_of_mem _ h)
      · intro x hx
        rcases mem_cons.1 hx with rfl | hx
        · exact (hasKey_iff _ _).2 ⟨_, h1 _ (mem_append_right _ (mem_singleton.2 rfl)), rfl⟩
        · exact h3 x hx

theorem aggregateAll_some (verify : Bytes → ℕ → G → Bool) (n t : ℕ) (rows : List (Row G)) (g : Bytes → G)
    (l : List (Bytes × G)) (h : ∀ e ∈ l, aggregate (lawful : Ops F G) verify n t rows e.1 = some (g e.1)) :
    aggregateAll (lawful : Ops F G) verify n t rows l = some (l.map (fun e => (e.1, g e.1))) := by
  induction l with
  | nil => rfl
  | cons e rest ih =>
    simp only [aggregateAll, h e mem_cons_self, ih (fun x hx => h x (mem_cons_of_mem _ hx)), map_cons]

/-! ### from the share table to C01 -/

namespace World
variable (W : World F G)

/-- with the shares of the keypers in `sn` stored, aggregation yields the key of `id` exactly when `sn` has
    at least `t` members, and then it is the correct key (C01_exact, C01_correct) -/
theorem aggregate_spec (rows : List (Row G)) (sn : Finset ℕ) (inv : W.RowsInv rows sn) (id : Bytes) (hid : id ∈ W.ids) :
    (W.t ≤ sn.card → aggregate (lawful : Ops F G) W.verify W.n W.t rows id = some (W.key id)) ∧
    (sn.card < W.t → aggregate (lawful : Ops F G) W.verify W.n W.t rows id = none) := by
  have S := W.setup id
  -- the rows of this identity: valid shares of pairwise distinct senders, exactly those in `sn`
  have hσ : ∀ e ∈ rowsOf rows id, e.1 < W.n := by
    intro e he
    simp only [rowsOf, mem_map, mem_filter, decide_eq_true_eq] at he
    obtain ⟨r, ⟨hr, _⟩, rfl⟩ := he
    exact (inv.valid r hr).2.2.1
  have hvalid : ∀ e ∈ rowsOf rows id, W.verify id e.1 e.2 = true := by
    intro e he
    simp only [rowsOf, mem_map, mem_filter, decide_eq_true_eq] at he
    obtain ⟨r, ⟨hr, hrid⟩, rfl⟩ := he
    have hv := inv.valid r hr
    rw [(S.sound r.sender r.share hv.2.2.1)]
    rw [hv.2.2.2, ← hrid]
    rfl
  have hsenders : validSenders (W.verify id) (rowsOf rows id) = sn := by
    unfold validSenders
    have hfilter : (rowsOf rows id).filter (fun e => W.verify id e.1 e.2) = rowsOf rows id :=
      filter_eq_self.2 hvalid
    rw [hfilter]
    ext s
    simp only [mem_toFinset, mem_map]
    constructor
    · rintro ⟨e, he, rfl⟩
      simp only [rowsOf, mem_map, mem_filter, decide_eq_true_eq] at he
      obtain ⟨r, ⟨hr, _⟩, rfl⟩ := he
      exact (inv.valid r hr).2.1
    · intro hs
      obtain ⟨r, hr, hrid, hrs⟩ := inv.complete id hid s hs
      exact ⟨(r.sender, r.share), by simp only [rowsOf, mem_map, mem_filter, decide_eq_true_eq]; exact ⟨r, ⟨hr, hrid⟩, rfl⟩, hrs⟩
  have hex := C01_exact S (rowsOf rows id) hσ
  rw [hsenders] at hex
  unfold aggregate
  constructor
  · intro hc
    have hsome := hex.2 hc
    cases hk : (run (lawful : Ops F G) (W.verify id) W.n W.t St.empty (rowsOf rows id)).key with
    | none => rw [hk] at hsome; cases hsome
    | some k => rw [C01_correct S (rowsOf rows id) hσ k hk]; rfl
  · intro hc
    cases hk : (run (lawful : Ops F G) (W.verify id) W.n W.t St.empty (rowsOf rows id)).key with
    | none => rfl
    | some k =>
      have := hex.1 (by rw [hk]; rfl)
      omega

/-- storing the shares of honest keyper `s` keeps the table invariant, with `s` seen -/
theorem insert_inv (rows : List (Row G)) (sn : Finset ℕ) (inv : W.RowsInv rows sn) (s : ℕ) (hs : s < W.n) :
    W.RowsInv (insertShares rows s (W.msg s).shares) (sn ∪ {s}) := by
  obtain ⟨h1, h2, h3, h4⟩ := insertShares_spec s (W.msg s).shares rows
  have hshares : ∀ e ∈ (W.msg s).shares, e.1 ∈ W.ids ∧ e.2 = W.share s e.1 := by
    intro e he
    simp only [msg, mem_map] at he
    obtain ⟨id, hid, rfl⟩ := he
    exact ⟨hid, rfl⟩
  refine ⟨?_, ?_, h4 inv.keyed⟩
  · intro r hr
    rcases h2 r hr with h | ⟨e, he, hid, hsd, hsh⟩
    · obtain ⟨a, b, c, d⟩ := inv.valid r h
      exact ⟨a, Finset.mem_union_left _ b, c, d⟩
    · obtain ⟨a, b⟩ := hshares e he
      refine ⟨by rw [hid]; exact a, ?_, by rw [hsd]; exact hs, by rw [hsh, b, hsd, hid]⟩
      rw [hsd]; exact Finset.mem_union_right _ (Finset.mem_singleton_self s)
  · intro id hid s' hs'
    rcases Finset.mem_union.1 hs' with h | h
    · obtain ⟨r, hr, a, b⟩ := inv.complete id hid s' h
      exact ⟨r, h1 r hr, a, b⟩
    · rw [Finset.mem_singleton] at h
      subst h
      have : (id, W.share s' id) ∈ (W.msg s').shares := by
        simp only [msg, mem_map]; exact ⟨id, hid, rfl⟩
      exact (hasRow_iff _ _ _).1 (h3 _ this)

/-- the node invariant -/
structure Inv (nd : Node G) (sn : Finset ℕ) : Prop where
  rows : W.RowsInv nd.rows sn
  keys : W.KeysInv nd.keys

theorem keys_insert (keys ks : List (Bytes × G)) (h1 : W.KeysInv keys) (h2 : ∀ k ∈ ks, k.2 = W.key k.1) :
    W.KeysInv (insertKeys keys ks) := by
  intro k hk
  rcases (insertKeys_spec ks keys).2.1 k hk with h | h
  · exact h1 k h
  · exact h2 k h

/-- one accepted event keeps the invariant -/
theorem step_inv (nd : Node G) (sn : Finset ℕ) (inv : W.Inv nd sn) (e : Ev G) (he : W.Honest e) :
    W.Inv (step (lawful : Ops F G) W.verify W.n W.t nd e) (sn ∪ senderOf e) := by
  cases e with
  | keys ks =>
    simp only [step, handleKeys, senderOf, Finset.union_empty]
    exact ⟨inv.rows, W.keys_insert nd.keys ks inv.keys he⟩
  | own m =>
    obtain ⟨s, hs, rfl⟩ := he
    simp only [step, triggerOwn, senderOf]
    exact ⟨W.insert_inv nd.rows sn inv.rows s hs, inv.keys⟩
  | shares m =>
    obtain ⟨s, hs, rfl⟩ := he
    have hrows := W.insert_inv nd.rows sn inv.rows s hs
    simp only [step, handleShares, senderOf]
    split
    · exact ⟨hrows, inv.keys⟩
    · cases hagg : aggregateAll (lawful : Ops F G) W.verify W.n W.t (insertShares nd.rows (W.msg s).sender (W.msg s).shares) (W.msg s).shares with
      | none => exact ⟨hrows, inv.keys⟩
      | some ks =>
        refine ⟨hrows, W.keys_insert nd.keys ks inv.keys ?_⟩
        -- every aggregated key is correct
        have hspec : ∀ (l : List (Bytes × G)) (out : List (Bytes × G)),
            (∀ e ∈ l, e.1 ∈ W.ids) →
            aggregateAll (lawful : Ops F G) W.verify W.n W.t (insertShares nd.rows s (W.msg s).shares) l = some out →
            ∀ k ∈ out, k.2 = W.key k.1 := by
          intro l
          induction l with
          | nil => intro out _ h; simp only [aggregateAll, Option.some.injEq] at h; subst h; simp
          | cons e rest ih =>
            intro out hl h
            simp only [aggregateAll] at h
            cases ha : aggregate (lawful : Ops F G) W.verify W.n W.t (insertShares nd.rows s (W.msg s).shares) e.1 with
            | none => simp [ha] at h
            | some k0 =>
              simp only [ha] at h
              cases hr : aggregateAll (lawful : Ops F G) W.verify W.n W.t (insertShares nd.rows s (W.msg s).shares) rest with
              | none => simp [hr] at h
              | some ks' =>
                simp only [hr, Option.some.injEq] at h
                subst h
                intro k hk
                rcases mem_cons.1 hk with rfl | hk
                · have hid := hl e mem_cons_self
                  by_cases hc : W.t ≤ (sn ∪ {s}).card
                  · have := (W.aggregate_spec _ _ hrows e.1 hid).1 hc
                    rw [ha] at this; injection this
                  · have := (W.aggregate_spec _ _ hrows e.1 hid).2 (by omega)
                    rw [ha] at this; cases this
                · exact ih ks' (fun x hx => hl x (mem_cons_of_mem _ hx)) hr k hk
        exact hspec (W.msg s).shares ks (fun e he => by
          simp only [msg, mem_map] at he
          obtain ⟨id, hid, rfl⟩ := he
          exact hid) hagg

theorem run_inv (nd : Node G) (sn : Finset ℕ) (inv : W.Inv nd sn) (evs : List (Ev G)) (he : ∀ e ∈ evs, W.Honest e) :
    W.Inv (runNode (lawful : Ops F G) W.verify W.n W.t nd evs) (evs.foldl (fun acc e => acc ∪ senderOf e) sn) := by
  induction evs generalizing nd sn with
  | nil => exact inv
  | cons e rest ih =>
    simp only [runNode, foldl_cons]
    exact ih _ _ (W.step_inv nd sn inv e (he e mem_cons_self)) (fun x hx => he x (mem_cons_of_mem _ hx))

/-- keys once stored stay stored -/
theorem hasKey_mono (nd : Node G) (id : Bytes) (h : hasKey nd.keys id = true) (evs : List (Ev G)) :
    hasKey (runNode (lawful : Ops F G) W.verify W.n W.t nd evs).keys id = true := by
  induction evs generalizing nd with
  | nil => exact h
  | cons e rest ih =>
    simp only [runNode, foldl_cons]
    apply ih
    obtain ⟨k, hk, hkid⟩ := (hasKey_iff nd.keys id).1 h
    cases e with
    | keys ks => exact (hasKey_iff _ _).2 ⟨k, (insertKeys_spec ks nd.keys).1 k hk, hkid⟩
    | own m => exact h
    | shares m =>
      simp only [step, handleShares]
      split
      · exact h
      · split
        · exact h
        · exact (hasKey_iff _ _).2 ⟨k, (insertKeys_spec _ nd.keys).1 k hk, hkid⟩

theorem empty_inv : W.Inv ({} : Node G) ∅ :=
  ⟨⟨(by intro r hr; cases hr), (by intro id _ s hs; simp at hs), Pairwise.nil⟩, (by intro k hk; cases hk)⟩

end World

/-! ### the property -/

/-- **Only correct keys, whatever arrives in whatever order.**  After any sequence of accepted events —
    honest keypers' share messages in any order with any repetitions, keys messages, the own trigger — every
    key the keyper stores is the epoch secret key of its identity. -/
theorem C03_only_correct (W : World F G) (evs : List (Ev G)) (he : ∀ e ∈ evs, W.Honest e) :
    ∀ k ∈ (runNode (lawful : Ops F G) W.verify W.n W.t {} evs).keys, k.2 = W.key k.1 :=
  (W.run_inv {} ∅ W.empty_inv evs he).keys

/-- **Complete.**  If, at the moment some honest share message arrives, shares of at least `t` distinct
    keypers (the own ones included) have been seen, then from that moment on — whatever else arrives
    afterwards, in any order, with any duplicates — the keyper stores the correct key of every identity of
    the release. -/
theorem C03_complete (W : World F G) (pre post : List (Ev G)) (s : ℕ) (hs : s < W.n)
    (hpre : ∀ e ∈ pre, W.Honest e) (hpost : ∀ e ∈ post, W.Honest e)
    (hcard : W.t ≤ (World.seen (pre ++ [Ev.shares (W.msg s)])).card) :
    ∀ id ∈ W.ids, (id, W.key id) ∈ (runNode (lawful : Ops F G) W.verify W.n W.t {} (pre ++ [.shares (W.msg s)] ++ post)).keys := by
  intro id hid
  -- state before the decisive message
  have inv0 := W.run_inv {} ∅ W.empty_inv pre hpre
  have hseen : World.seen (pre ++ [Ev.shares (W.msg s)]) = pre.foldl (fun acc e => acc ∪ World.senderOf e) ∅ ∪ {s} := by
    unfold World.seen
    rw [foldl_append]
    rfl
  rw [hseen] at hcard
  -- after it every identity has a key
  have hkeyAfter : hasKey (step (lawful : Ops F G) W.verify W.n W.t (runNode (lawful : Ops F G) W.verify W.n W.t {} pre)
      (.shares (W.msg s))).keys id = true := by
    have hrows := W.insert_inv _ _ inv0.rows s hs
    simp only [step, handleShares]
    split
    · rename_i hall
      have : (id, W.share s id) ∈ (W.msg s).shares := by simp only [World.msg, mem_map]; exact ⟨id, hid, rfl⟩
      exact (all_eq_true.1 hall) _ this
    · have hagg := aggregateAll_some (F := F) W.verify W.n W.t (insertShares _ s (W.msg s).shares) W.key (W.msg s).shares
        (fun e he => by
          simp only [World.msg, mem_map] at he
          obtain ⟨id', hid', rfl⟩ := he
          exact (W.aggregate_spec _ _ hrows id' hid').1 hcard)
      simp only [World.msg] at hagg ⊢
      rw [hagg]
      simp only []
      have hm : (id, W.key id) ∈ map (fun e => (e.1, W.key e.1)) (map (fun id => (id, W.share s id)) W.ids) := by
        simp only [mem_map]
        exact ⟨(id, W.share s id), ⟨id, hid, rfl⟩, rfl⟩
      exact (insertKeys_spec _ _).2.2 _ hm
  -- it stays, and every stored key is correct
  have hrun : runNode (lawful : Ops F G) W.verify W.n W.t {} (pre ++ [.shares (W.msg s)] ++ post) =
      runNode (lawful : Ops F G) W.verify W.n W.t
        (step (lawful : Ops F G) W.verify W.n W.t (runNode (lawful : Ops F G) W.verify W.n W.t {} pre) (.shares (W.msg s))) post := by
    simp [runNode, foldl_append]
  rw [hrun]
  have hfinal := W.hasKey_mono _ id hkeyAfter post
  obtain ⟨k, hk, hkid⟩ := (hasKey_iff _ id).1 hfinal
  have hall : ∀ e ∈ pre ++ [.shares (W.msg s)] ++ post, W.Honest e := by
    intro e he
    simp only [mem_append, mem_singleton] at he
    rcases he with (he | he) | he
    · exact hpre e he
    · subst he; exact ⟨s, hs, rfl⟩
    · exact hpost e he
  have hcorrect := C03_only_correct W _ hall
  rw [hrun] at hcorrect
  have := hcorrect k hk
  have hkeq : k = (id, W.key id) := by
    cases k with
    | mk a b => simp only at hkid this; subst hkid; rw [this]
  rw [← hkeq]; exact hk

/-- **Keys messages complete the others.**  A keyper that is delivered a keys message for the release's
    identities stores all of them, whatever else arrives in whatever order. -/
theorem C03_keys_delivered (W : World F G) (pre post : List (Ev G)) :
    ∀ id ∈ W.ids, hasKey (runNode (lawful : Ops F G) W.verify W.n W.t {}
      (pre ++ [.keys (W.ids.map (fun id => (id, W.key id)))] ++ post)).keys id = true := by
  intro id hid
  have hrun : runNode (lawful : Ops F G) W.verify W.n W.t {} (pre ++ [.keys (W.ids.map (fun id => (id, W.key id)))] ++ post) =
      runNode (lawful : Ops F G) W.verify W.n W.t
        (handleKeys (runNode (lawful : Ops F G) W.verify W.n W.t {} pre) (W.ids.map (fun id => (id, W.key id)))) post := by
    simp [runNode, foldl_append, step]
  rw [hrun]
  apply W.hasKey_mono
  simp only [handleKeys]
  exact (insertKeys_spec _ _).2.2 (id, W.key id) (by simp only [mem_map]; exact ⟨id, hid, rfl⟩)

/-- **Schedule independence.**  Two keypers (or one keyper under two schedules) that each reached the
    threshold hold byte-identical keys for every identity of the release. -/
theorem C03_agree (W : World F G) (evs evs' : List (Ev G)) (he : ∀ e ∈ evs, W.Honest e) (he' : ∀ e ∈ evs', W.Honest e)
    (id : Bytes) (k k' : G)
    (hk : (id, k) ∈ (runNode (lawful : Ops F G) W.verify W.n W.t {} evs).keys)
    (hk' : (id, k') ∈ (runNode (lawful : Ops F G) W.verify W.n W.t {} evs').keys) : k = k' := by
  have h1 := C03_only_correct W evs he _ hk
  have h2 := C03_only_correct W evs' he' _ hk'
  simp only at h1 h2
  rw [h1, h2]

/-! non-vacuity: a world exists (rationals, `f = 5 + X`, three keypers, threshold 2, two identities with
    identity points 1 and 2), and in it two honest share messages in either order complete the keyper. -/
noncomputable def exWorld : World ℚ ℚ :=
  { f := exF, H := fun id => if id = [1] then 1 else 2, n := 3, t := 2,
    verify := fun id i s => decide (s = exF.eval (node i) • (if id = [1] then (1 : ℚ) else 2)),
    ids := [[1], [2]],
    setup := by
      intro id
      refine ⟨by decide, ?_, ?_, ?_⟩
      · have : exF.degree = 1 := by
          unfold exF
          rw [add_comm]
          exact Polynomial.degree_X_add_C 5
        rw [this]; norm_num
      · intro a _ b _ h
        unfold node at h
        have : a + 1 = b + 1 := by exact_mod_cast h
        omega
      · intro i s _; simp
    nodup := by decide }

example : exWorld.t ≤ (World.seen [Ev.own (exWorld.msg 0), Ev.shares (exWorld.msg 2)]).card := by
  simp [World.seen, World.senderOf, World.msg, exWorld]

/-! ### the open finding, in the model

`C03_complete` needs the event that completes the threshold to be a share message.  When it is the keyper's own
trigger nothing is aggregated (`ConstructDecryptionKeyShares` stores the shares and returns), so the keyper holds
`t` valid shares and no key until another message arrives.  Known finding `own-share-completes-threshold`; the same
history fails on the implementation. -/

/-- **The own trigger never derives a key.** -/
theorem C03_own_trigger_no_key {F G : Type} (o : Ops F G) (verify : Sort.Bytes → Nat → G → Bool) (n t : Nat)
    (nd : Node G) (m : ShareMsg G) : (Net.step o verify n t nd (.own m)).keys = nd.keys := rfl

/-- `f = 5 + X` on discrete logarithms: keyper `s` holds `f(s + 1)`, one identity -/
def openMsg (s : Nat) : ShareMsg Nat := { sender := s, shares := [([0], 5 + (s + 1))] }
def openVerify : Sort.Bytes → Nat → Nat → Bool := fun _ s sh => sh = 5 + (s + 1)

/-- n = 3, t = 2: keyper 0 receives keyper 1's shares and is then triggered itself — two valid shares stored, no
    key; in the other order the same two events give the key. -/
theorem C03_open_finding_witness :
    (runNode Drive.EpochKG.modOps openVerify 3 2 {} [.shares (openMsg 1), .own (openMsg 0)]).keys = [] ∧
    (runNode Drive.EpochKG.modOps openVerify 3 2 {} [.shares (openMsg 1), .own (openMsg 0)]).rows.length = 2 ∧
    (runNode Drive.EpochKG.modOps openVerify 3 2 {} [.own (openMsg 0), .shares (openMsg 1)]).keys.length = 1 := by
  decide

/-! ### the access node

"… and for Gnosis the access node, accepts."  The access node validates against an in-memory store filled by its
chain sync (`Model/AccessNode.lean`); the sync keeps announcing things while keys are being released: a successor
keyper set long before its activation block, its eon key once generated, older sets on an initial sync. -/

section AccessNode
open Shutter.AccessNode

/-- **Any chain-sync history.**  After any sequence of key and keyper-set announcements, the verdict on a keys
    message is the verdict under the eon key and the keyper set *last announced for the message's own eon* —
    nothing announced for another eon, before or after, has any part in it. -/
theorem C03_accessnode_sync_history (inst max : Nat) (s : Store) (evs : List AccessNode.Ev) (m : Msg) :
    validate inst max (s.run evs) m =
      validateWith inst max (lastKey evs m.eon (s.keys.get m.eon)) (lastSet evs m.eon (s.sets.get m.eon)) m := by
  rw [validate_eq, run_keys_get, run_sets_get]

/-- announcements for other eons leave every verdict on this eon as it was -/
theorem C03_accessnode_other_eons (inst max : Nat) (s : Store) (evs : List AccessNode.Ev) (m : Msg)
    (h : ∀ ev ∈ evs, ev.eon ≠ m.eon) :
    validate inst max (s.run evs) m = validate inst max s m := by
  rw [C03_accessnode_sync_history, lastKey_other _ _ _ h, lastSet_other _ _ _ h, validate_eq]

/-- **An honest keys message is accepted, whatever else the sync has delivered.**  Once the eon key `k` and the
    keyper set `ks` of the message's eon have been announced, a message of the node's instance with between one
    and the maximum number of keys, valid under `k`, with the Gnosis extra, and with a genuine threshold of
    signatures of `ks` (C06) is accepted after any further announcements for other eons. -/
theorem C03_accessnode_accepts (inst max : Nat) (s : Store) (evs : List AccessNode.Ev) (m : Msg) (k ks : Nat)
    (hk : s.keys.get m.eon = some k) (hs : s.sets.get m.eon = some ks)
    (hother : ∀ ev ∈ evs, ev.eon ≠ m.eon)
    (hinst : m.inst = inst) (heon : m.eon ≤ maxInt64) (h1 : 1 ≤ m.nkeys) (hmax : m.nkeys ≤ max)
    (hkeys : m.keysOK k = true) (hbasic : m.basic = true) (hsigs : m.sigsOK ks = true) :
    validate inst max (s.run evs) m = true := by
  rw [C03_accessnode_other_eons _ _ _ _ _ hother]
  unfold validate
  rw [hk, hs]
  simp only [hinst, ne_eq, not_true_eq_false, if_false, hkeys, hbasic, Bool.not_true, Bool.false_eq_true]
  rw [if_neg (by omega), if_neg (by omega), if_neg (by omega)]
  exact hsigs

/-- without the eon key or without the keyper set of its eon nothing is accepted -/
theorem C03_accessnode_needs_both (inst max : Nat) (s : Store) (m : Msg) (h : validate inst max s m = true) :
    (∃ k, s.keys.get m.eon = some k ∧ m.keysOK k = true) ∧ (∃ ks, s.sets.get m.eon = some ks ∧ m.sigsOK ks = true) := by
  rw [validate_eq] at h
  unfold validateWith at h
  cases hk : s.keys.get m.eon with
  | none => rw [hk] at h; simp at h
  | some k =>
    cases hs : s.sets.get m.eon with
    | none => rw [hk, hs] at h; simp at h
    | some ks =>
      rw [hk, hs] at h
      simp only [] at h
      have hko : m.keysOK k = true := by
        cases hx : m.keysOK k with
        | true => rfl
        | false => rw [hx] at h; simp at h
      have hsg : m.sigsOK ks = true := by
        cases hx : m.sigsOK ks with
        | true => rfl
        | false => rw [hx] at h; simp at h
      exact ⟨⟨k, rfl, hko⟩, ⟨ks, rfl, hsg⟩⟩

/-- non-vacuity: set and key of eon 3, then a successor set for eon 4 announced, then its key: a message of eon 3
    is accepted all along, one of eon 4 only once both are there -/
example :
    let m3 : Msg := { inst := 5, eon := 3, nkeys := 2, basic := true, keysOK := fun k => k == 0, sigsOK := fun s => s == 0 }
    let m4 : Msg := { inst := 5, eon := 4, nkeys := 2, basic := true, keysOK := fun k => k == 1, sigsOK := fun s => s == 1 }
    validate 5 500 (({} : Store).run [.set 3 0, .key 3 0, .set 4 1]) m3 = true ∧
    validate 5 500 (({} : Store).run [.set 3 0, .key 3 0, .set 4 1]) m4 = false ∧
    validate 5 500 (({} : Store).run [.set 3 0, .key 3 0, .set 4 1, .key 4 1]) m4 = true ∧
    validate 5 500 (({} : Store).run [.set 3 0, .key 3 0, .set 4 1, .key 4 1]) m3 = true := by
  decide

end AccessNode

end Shutter.Properties.C03
