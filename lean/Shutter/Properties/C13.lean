/-
C13 — Shuttermint restarted from its saved state continues identically.

What is a theorem here: (1) replay determinism of the model — running a history in two pieces, the
second from the state the first ended in, gives exactly the outputs and state of the uninterrupted
run (`C13_replay`), and Commit, the only call that may trigger a save, does not look at the clock or
the file (`C13_commit_pure`); (2) crash-atomicity of the save protocol on a file-system model
(`C13_atomic_save`), for one save and for any history of saves cut short anywhere, each finding anything at all
at the temp path (`C13_saves_after_crashes`), with the protocol's step order pinned to the source
(`C13_persist_order_pinned`).
What is checked, not proved: that gob decoding of a gob encoding gives back the same application
state (a library fact) — the driver saves, loads and compares at every height of every history.
-/
import Shutter.Model.App
import Shutter.Proofs.SaveFile
import Shutter.Generated.PersistFacts

namespace Shutter.Properties.C13
open Shutter Shutter.App Shutter.SaveFile

/-- **Replay.**  A node that stops after `before`, is restarted with the state it had then, and
    replays `after` produces the outputs and the final state of a node that never stopped. -/
theorem C13_replay (a : App.App) (before after : List (Order × App.Op)) :
    a.runWith (before ++ after) =
      ((a.runWith before).1.runWith after |>.1,
        (a.runWith before).2 ++ ((a.runWith before).1.runWith after).2) := by
  induction before generalizing a with
  | nil => simp [App.App.runWith]
  | cons p rest ih =>
    obtain ⟨o, op⟩ := p
    simp only [List.cons_append, App.App.runWith]
    rw [ih]

/-- Commit only resets the mempool-check state: what is saved at a commit is a function of the block
    sequence alone. -/
theorem C13_commit_pure (a : App.App) :
    a.commit = { a with checkTx := { a.checkTx with txCounts := [], nonces := [] } } := rfl

/-- the height reported to Tendermint after a restart is the height of the last executed EndBlock,
    so exactly the blocks after the saved state are replayed -/
theorem C13_saved_height (a : App.App) (o : Order) (h : Int) :
    ((a.endBlock o h).1.commit).lastBlockHeight = h := by
  unfold App.App.endBlock App.App.commit
  simp only

/-- **Atomic save.**  Starting from a file system where the final path holds the complete, durable
    previous encoding, a crash after any number of steps of a save (including in the middle of the
    write, and with un-synced data lost from the end) leaves at the final path either exactly the
    previous encoding or exactly the complete new one. -/
theorem C13_atomic_save (fs : Fs) (tmp final : String) (hne : tmp ≠ final) (old enc : Bytes)
    (hold : fs final = some { data := old, durable := old.length })
    (i j : Nat) (c : Option Bytes)
    (hv : Visible (crashState fs tmp final enc i j) final c) :
    c = some old ∨ c = some enc := by
  have hne' : final ≠ tmp := fun h => hne h.symm
  unfold crashState saveOps at hv
  rcases i with _ | _ | _ | _ | i
  · -- nothing done
    left
    apply visible_complete _ _ _ _ _ hv
    simp [run, hold]
  · -- temp file created, write in progress
    left
    apply visible_complete _ _ _ _ _ hv
    simp only [List.take, run, List.foldl_cons, List.foldl_nil, if_true]
    rw [step_write_other _ _ _ _ hne', step_create_other _ _ _ hne']; exact hold
  · -- write complete, not synced
    left
    apply visible_complete _ _ _ _ _ hv
    have h2 : ¬ (0 + 1 + 1 = 1) := by decide
    simp only [List.take, run, List.foldl_cons, List.foldl_nil, h2, if_false]
    rw [step_write_other _ _ _ _ hne', step_create_other _ _ _ hne']; exact hold
  · -- synced, not renamed
    left
    apply visible_complete _ _ _ _ _ hv
    have h2 : ¬ (0 + 1 + 1 + 1 = 1) := by decide
    simp only [List.take, run, List.foldl_cons, List.foldl_nil, h2, if_false]
    rw [step_sync_other _ _ _ hne', step_write_other _ _ _ _ hne', step_create_other _ _ _ hne']; exact hold
  · -- renamed: the final path holds the complete, durable new encoding
    right
    apply visible_complete _ _ _ _ _ hv
    have h2 : ¬ (i + 1 + 1 + 1 + 1 = 1) := by omega
    simp only [h2, if_false]
    have ht : List.take (i + 1 + 1 + 1 + 1)
        [Op.create tmp, Op.write tmp enc, Op.sync tmp, Op.rename tmp final] =
        [Op.create tmp, Op.write tmp enc, Op.sync tmp, Op.rename tmp final] := by
      simp [List.take]
    rw [ht]
    simp only [run, List.foldl_cons, List.foldl_nil]
    have hs := tmp_after_sync fs tmp enc
    generalize step (step (step fs (.create tmp)) (.write tmp enc)) (.sync tmp) = s3 at hs ⊢
    simp only [step, hs]
    rw [Fs.set_other _ _ _ _ hne', Fs.set_same]

/-- one save attempt of a node's life: what is found at the temp path when it begins (left by an earlier crash,
    cut short by the reboot, removed by an operator — anything), the encoding to save, and how far the save gets
    (`i` complete steps and `j` bytes of the write; `4 ≤ i` is a save that completes) -/
structure Attempt where
  leftover : Option File
  enc : Bytes
  i : Nat
  j : Nat

def attempt (tmp final : String) (fs : Fs) (a : Attempt) : Fs :=
  crashState (fs.set tmp a.leftover) tmp final a.enc a.i a.j

/-- the encoding of the last attempt that reached its rename -/
def lastSaved (old : Bytes) (as : List Attempt) : Bytes :=
  as.foldl (fun cur a => if 4 ≤ a.i then a.enc else cur) old

/-- **Any history of saves and crashes.**  However many saves a node attempts, wherever each of them is cut
    short, and whatever each of them finds at the temp path, the state file holds — complete and durable — the
    encoding of the last save that reached its rename (the previous file if none did).  In particular a temp file
    left by a crashed save, of any length, never reaches the state file of a later save. -/
theorem C13_saves_after_crashes (tmp final : String) (hne : tmp ≠ final) (as : List Attempt) (fs : Fs) (old : Bytes)
    (hold : fs final = some { data := old, durable := old.length }) :
    (as.foldl (attempt tmp final) fs) final =
      some { data := lastSaved old as, durable := (lastSaved old as).length } := by
  have hne' : final ≠ tmp := fun h => hne h.symm
  induction as generalizing fs old with
  | nil => simpa [lastSaved] using hold
  | cons a rest ih =>
    simp only [List.foldl_cons, lastSaved]
    by_cases h4 : 4 ≤ a.i
    · rw [if_pos h4]
      exact ih _ _ (by unfold attempt; exact crash_final_after _ tmp final hne a.enc a.i a.j h4)
    · rw [if_neg h4]
      refine ih _ _ ?_
      unfold attempt
      rw [crash_final_before _ tmp final hne a.enc a.i a.j (by omega), Fs.set_other _ _ _ _ hne']
      exact hold

/-- non-vacuity: a save that crashed after its sync (a long temp file stays behind), then a complete save of a
    shorter encoding: the state file holds exactly the shorter encoding -/
example :
    let fs : Fs := fun q => if q = "state.gob" then some { data := [1], durable := 1 } else none
    (([{ leftover := none, enc := [9, 9, 9, 9, 9], i := 3, j := 0 },
       { leftover := some { data := [9, 9, 9, 9, 9], durable := 5 }, enc := [2, 3], i := 4, j := 0 }] : List Attempt).foldl
      (attempt "state.gob.tmp" "state.gob") fs) "state.gob" = some { data := [2, 3], durable := 2 } := by
  decide

/-- the steps `PersistToDisk` issues, in source order, as extracted from /repo on this run -/
theorem C13_persist_order_pinned :
    Generated.PersistFacts.persistCalls =
      ["tmppath:=app.Gobpath+\".tmp\"", "os.Create(tmppath)", "gob.NewEncoder(file)", "enc.Encode(app)",
       "file.Sync()", "os.Rename(tmppath,app.Gobpath)"] := by
  decide

/-! non-vacuity -/
example :
    let fs : Fs := fun q => if q = "state.gob" then some { data := [1, 2, 3], durable := 3 } else none
    Visible (crashState fs "state.gob.tmp" "state.gob" [7, 8] 1 1) "state.gob" (some [1, 2, 3]) ∧
    Visible (crashState fs "state.gob.tmp" "state.gob" [7, 8] 4 0) "state.gob" (some [7, 8]) := by
  constructor
  · exact ⟨3, by decide, by decide, by decide⟩
  · exact ⟨2, by decide, by decide, by decide⟩

end Shutter.Properties.C13
