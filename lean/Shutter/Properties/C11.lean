/-
C11 — Keyper-set changes need a threshold of the current set; eons are unique.
-/
import Shutter.Proofs.AppEon

namespace Shutter.Properties.C11
open Shutter Shutter.App Shutter.App.App

/-- a genesis accepted by `InitChain` (valid, physically sized) -/
structure Genesis where
  chainId : String
  keypers : List Addr
  threshold : Nat
  initialEon : Nat
  fork : Fork
  devMode : Bool
  validators : List (PubKey × Int)
  valid : (genesisConfig keypers threshold).valid = true
  sized : keypers.length < 2 ^ 63

def Genesis.app (g : Genesis) : App.App :=
  App.App.init g.chainId g.keypers g.threshold g.initialEon g.fork g.devMode g.validators

/-- a history: ABCI calls, each executed under an arbitrary map iteration order -/
abbrev History := List (Order × Op)

def History.Ok (h : History) : Prop := ∀ p ∈ h, p.1.Valid ∧ p.2.Sized

/-- **The vote invariant holds on every reachable state**: every recorded vote is from a member of
    the newest configuration, one per sender, and no candidate has yet reached the threshold. -/
theorem C11_invariant (g : Genesis) (h : History) (hok : h.Ok) : VInv (g.app.runWith h).1 :=
  runWith_VInv _ (init_VInv _ _ _ _ _ _ _ g.valid g.sized) h hok

/-- **Acceptance needs a quorum.**  On every reachable state, if a transaction changes the list of
    configurations, then it is a BatchConfig vote, the list grew by exactly that configuration, with
    a strictly larger index and a non-decreasing activation block, and the sender together with the
    earlier voters for that identical configuration are at least `threshold(current)` distinct members
    of the current configuration; the vote round is reset and a fresh eon is started. -/
theorem C11_accept (g : Genesis) (h : History) (hok : h.Ok) (o : Order) (ho : o.Valid) (tx : Tx)
    (hs : tx.Sized) :
    let a := (g.app.runWith h).1
    (a.deliverTx o tx).1.configs ≠ a.configs →
    ∃ signer chain nonce act thr idx ks bc,
      tx = .msg signer chain nonce (.batchConfig act thr idx ks) ∧
      batchConfigFromMessage act thr idx ks = some bc ∧
      Accepted { a with nonces := a.nonces ++ [(signer, nonce)] } signer bc
        (a.deliverTx o tx).1 (a.deliverTx o tx).2 := by
  intro a hne
  have inv : VInv a := C11_invariant g h hok
  cases tx with
  | undecodable => exact absurd rfl hne
  | msg signer chain nonce payload =>
    have key : a.deliverTx o (.msg signer chain nonce payload) =
        (if chain ≠ a.chainId then (a, errResp)
         else if a.nonces.contains (signer, nonce) then (a, errResp)
         else App.deliverMessage o { a with nonces := a.nonces ++ [(signer, nonce)] } signer payload) := rfl
    rw [key] at hne ⊢
    by_cases hc : chain ≠ a.chainId
    · rw [if_pos hc] at hne; exact absurd rfl hne
    · rw [if_neg hc] at hne ⊢
      cases hn : a.nonces.contains (signer, nonce) with
      | true => rw [hn, if_pos rfl] at hne; exact absurd rfl hne
      | false =>
        rw [hn] at hne
        simp only [Bool.false_eq_true, if_false] at hne ⊢
        cases payload with
        | batchConfig act thr idx ks =>
          simp only [deliverMessage] at hne ⊢
          have inv' : VInv { a with nonces := a.nonces ++ [(signer, nonce)] } := VInv_of_eq inv rfl rfl
          rcases deliverBatchConfig_cases o ho _ inv' signer act thr idx ks hs _ rfl with hcase | hcase
          · exact absurd hcase.1 hne
          · obtain ⟨bc, hp, hacc, _⟩ := hcase
            exact ⟨signer, chain, nonce, act, thr, idx, ks, bc, rfl, hp, hacc⟩
        | _ =>
          exfalso
          apply hne
          apply deliverMessage_configs
          intros; simp

/-- **Nothing else adds a configuration.**  BeginBlock, CheckTx and Commit leave the configuration
    list alone and EndBlock only sets progress flags. -/
theorem C11_other_calls (a : App.App) (o : Order) (op : Op) (h : ∀ tx, op ≠ .deliver tx) :
    (a.stepWith o op).1.configs.map BatchConfig.core = a.configs.map BatchConfig.core := by
  cases op with
  | begin _ => rfl
  | deliver tx => exact absurd rfl (h tx)
  | check tx => simp only [App.stepWith]; rw [(checkTx_cfg a tx).1]
  | endBlock height =>
    simp only [App.stepWith]
    unfold endBlock
    simp only
    generalize hcfg : endBlockLoop a 0 [] a.configs [] = lp
    obtain ⟨configs, events⟩ := lp
    have := endBlockLoop_core a 0 [] a.configs []
    rw [hcfg] at this; simpa using this
  | commit => rfl

/-- **One vote per sender and round.**  A second BatchConfig vote of a sender within a round is
    refused (or answered "seen") and changes nothing. -/
theorem C11_one_vote (a : App.App) (o : Order) (sender : Addr) (act thr idx : Nat) (ks : List Raw)
    (hvoted : a.configVoting.votes.contains sender = true) :
    (a.deliverBatchConfig o sender act thr idx ks).1 = a ∧
    (a.deliverBatchConfig o sender act thr idx ks).2.code ≠ 0 := by
  unfold deliverBatchConfig
  cases batchConfigFromMessage act thr idx ks with
  | none => exact ⟨rfl, by simp [errResp]⟩
  | some bc =>
    simp only
    split
    · exact ⟨rfl, by simp [seenResp]⟩
    · split
      · exact ⟨rfl, by simp [errResp]⟩
      · split
        · exact ⟨rfl, by simp [errResp]⟩
        · simp [Voting.addVote, hvoted, errResp]

/-- **Each (sender, nonce) executes at most once.**  A transaction whose (signer, nonce) pair was
    already executed is refused without any effect, and an executed transaction records its pair. -/
theorem C11_nonce_once (a : App.App) (o : Order) (signer : Addr) (chain : String) (nonce : Nat)
    (p : Payload) :
    (a.nonces.contains (signer, nonce) = true →
        a.deliverTx o (.msg signer chain nonce p) = (a, errResp)) ∧
    (chain = a.chainId → a.nonces.contains (signer, nonce) = false →
        (signer, nonce) ∈ (a.deliverTx o (.msg signer chain nonce p)).1.nonces) := by
  constructor
  · intro h
    unfold deliverTx
    simp only
    split
    · rfl
    · simp [h]
  · intro hc hn
    unfold deliverTx
    simp only [hc, ne_eq, not_true_eq_false, if_false, hn, Bool.false_eq_true]
    rw [deliverMessage_nonces]
    simp

/-- **Restart needs a failure quorum for the newest eon.**  A `DKGResult` transaction starts a new
    eon only if the reported eon is not older than the eon counter, the sender is a keyper of that
    eon's configuration who had not voted, and with this vote the `failure` candidate has at least
    the configuration's threshold of votes; the new eon number is the counter plus one.  Otherwise it
    emits nothing and the counter is unchanged. -/
theorem C11_restart (a : App.App) (o : Order) (ho : o.Valid) (sender : Addr) (eon : Nat) (success : Bool) :
    ((a.deliverDKGResult o sender eon success).1.eonCounter = a.eonCounter ∧
      (a.deliverDKGResult o sender eon success).2.events = []) ∨
    Restarted a sender eon success (a.deliverDKGResult o sender eon success).1
      (a.deliverDKGResult o sender eon success).2 := by
  rcases deliverDKGResult_cases o ho a sender eon success with h | h
  · left
    refine ⟨h.1, ?_⟩
    cases hev : (a.deliverDKGResult o sender eon success).2.events with
    | nil => rfl
    | cons e es => exact absurd (h.2 e (by simp [hev])) id
  · right; exact h

/-- **A configuration is marked started only on a block-seen quorum of the preceding one.** -/
theorem C11_started (a : App.App) (cfgs : List BatchConfig) (i : Nat) (c : BatchConfig)
    (hnot : c.started = false) (hnow : (endBlockStep a cfgs i c).1.started = true) :
    (cfgs.getD (i - 1) default).threshold ≤ a.seenVotes (cfgs.getD (i - 1) default) c := by
  unfold endBlockStep at hnow
  simp only [hnot, Bool.not_false, Bool.true_and] at hnow
  split at hnow
  · rename_i h; simpa using h
  · split at hnow <;> simp [hnot] at hnow

theorem uniqueAddrs_nodup : ∀ (l : List Addr), uniqueAddrs l = true → l.Nodup
  | [], _ => List.nodup_nil
  | a :: rest, h => by
    unfold uniqueAddrs at h
    simp only [Bool.and_eq_true, Bool.not_eq_true'] at h
    rw [List.nodup_cons]
    refine ⟨?_, uniqueAddrs_nodup rest h.2⟩
    intro hmem
    have : rest.contains a = true := List.contains_iff_mem.2 hmem
    rw [h.1] at this
    cases this

/-- **A voted-in configuration lists every keyper once.**  Whatever configuration a vote can name has pairwise
    distinct keypers (so has every configuration `C11_accept` speaks of). -/
theorem C11_voted_keypers_distinct (act thr idx : Nat) (ks : List Raw) (bc : BatchConfig)
    (h : batchConfigFromMessage act thr idx ks = some bc) : bc.keypers.Nodup := by
  unfold batchConfigFromMessage at h
  cases hp : parseAddresses ks with
  | none => simp [hp] at h
  | some l =>
    simp only [hp] at h
    by_cases hu : uniqueAddrs l = true
    · simp only [hu, if_true, Option.some.injEq] at h
      subst h
      exact uniqueAddrs_nodup l hu
    · simp [hu] at h

/-- **Started on a quorum of distinct keypers.**  When the preceding configuration lists every keyper once (every
    voted-in one does), the block-seen reports that mark a configuration started come from at least
    `threshold(preceding)` different keypers of it, each having reported a block at or past the activation
    block. -/
theorem C11_started_distinct (a : App.App) (cfgs : List BatchConfig) (i : Nat) (c : BatchConfig)
    (hnot : c.started = false) (hnow : (endBlockStep a cfgs i c).1.started = true)
    (hnd : (cfgs.getD (i - 1) default).keypers.Nodup) :
    ∃ S : List Addr, S.Nodup ∧ (cfgs.getD (i - 1) default).threshold ≤ S.length ∧
      ∀ k ∈ S, k ∈ (cfgs.getD (i - 1) default).keypers ∧ ∃ b, a.blocksSeen.get? k = some b ∧ c.activation ≤ b := by
  have h := C11_started a cfgs i c hnot hnow
  unfold seenVotes at h
  refine ⟨_, hnd.filter _, h, ?_⟩
  intro k hk
  rw [List.mem_filter] at hk
  refine ⟨hk.1, ?_⟩
  cases hb : a.blocksSeen.get? k with
  | none => rw [hb] at hk; simp at hk
  | some b => rw [hb] at hk; exact ⟨b, rfl, by simpa using hk.2⟩

/-! non-vacuity: a concrete reachable state and an accepting vote -/
def g3 : Genesis :=
  { chainId := "c0", keypers := [1, 2, 3], threshold := 2, initialEon := 0,
    fork := { enabled := false, height := 0 }, devMode := false, validators := [(100, 10)],
    valid := by decide, sized := by decide }

def bcTx (signer nonce : Nat) : Tx :=
  .msg signer "c0" nonce (.batchConfig 5 2 1 [⟨20, 1⟩, ⟨20, 2⟩, ⟨20, 4⟩])

example :
    let a := (g3.app.runWith [(Order.canonical, .deliver (bcTx 1 1))]).1
    (a.deliverTx Order.canonical (bcTx 2 2)).1.configs.length = 2 ∧
    (a.deliverTx Order.canonical (bcTx 2 2)).2.events =
      [.batchConfig 5 [1, 2, 4] 2 1, .eonStarted 1 5 1] := by
  decide

end Shutter.Properties.C11
