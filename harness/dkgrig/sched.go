//go:build verif

package dkgrig

import "verif/harness/hx"

// Block schedule and step order policies (test inputs). The default policy (Config.Schedule == nil)
// puts everything pending into the next block in arrival order.

// OnePerBlock includes only the oldest pending transaction.
func OnePerBlock(_ int64, pending []*Tx) []*Tx {
	if len(pending) == 0 {
		return nil
	}
	return pending[:1]
}

// RandomSchedule includes each pending transaction with probability percent/100, in a random order,
// except that a transaction that has waited maxDelay blocks is always included (maxDelay 0: no
// transaction is ever delayed, only the order within a block is shuffled).
func RandomSchedule(r *hx.Rand, percent int, maxDelay int64) Selector {
	return func(height int64, pending []*Tx) []*Tx {
		var out []*Tx
		for _, i := range r.Perm(len(pending)) {
			t := pending[i]
			if height-1-t.ArrivedAt >= maxDelay || r.Chance(percent) {
				out = append(out, t)
			}
		}
		return out
	}
}

// RandomOrder advances the keypers in a fresh random order every round.
func RandomOrder(r *hx.Rand) func(round, n int) []int {
	return func(_, n int) []int { return r.Perm(n) }
}

// SkipSometimes advances each keyper only with probability percent/100 per round (a slow keyper), in
// index order.
func SkipSometimes(r *hx.Rand, percent int) func(round, n int) []int {
	return func(_, n int) []int {
		var out []int
		for i := 0; i < n; i++ {
			if r.Chance(percent) {
				out = append(out, i)
			}
		}
		return out
	}
}
