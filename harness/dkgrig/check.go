//go:build verif

package dkgrig

import (
	"bytes"
	"encoding/base64"
	"fmt"
	"math/big"
	"sort"

	"github.com/ethereum/go-ethereum/common"
	"github.com/shutter-network/shutter/shlib/shcrypto"
)

func b64(b []byte) string { return base64.RawURLEncoding.EncodeToString(b) }

// Honest returns the results of the keypers that are not Byzantine.
func (res *RunResult) Honest() []KeyperResult {
	out := []KeyperResult{}
	for _, k := range res.Keypers {
		if !k.Byzantine {
			out = append(out, k)
		}
	}
	return out
}

// g2Pow returns g2^x as an eon public key share (the degree 0 commitment of the constant polynomial x).
func g2Pow(x *big.Int) (*shcrypto.EonPublicKeyShare, error) {
	poly, err := shcrypto.NewPolynomial([]*big.Int{new(big.Int).Set(x)})
	if err != nil {
		return nil, err
	}
	g := (*poly.Gammas())[0]
	return (*shcrypto.EonPublicKeyShare)(g), nil
}

// subsets calls f with every k-element subset of 0..n-1.
func subsets(n, k int, f func([]int)) {
	idx := make([]int, 0, k)
	var rec func(start int)
	rec = func(start int) {
		if len(idx) == k {
			f(append([]int{}, idx...))
			return
		}
		for i := start; i < n; i++ {
			idx = append(idx, i)
			rec(i + 1)
			idx = idx[:len(idx)-1]
		}
	}
	rec(0)
}

// CheckAgreement checks the agreement property on the honest keypers that report success:
//
//  1. they hold the same eon public key and the same vector of public key shares,
//  2. each one's secret key share matches its own entry of that vector (g2^share),
//  3. a message encrypted to the eon key is decrypted by the epoch secret key interpolated from the
//     epoch shares of any T of them.
//
// It returns one line per violation.
func CheckAgreement(res *RunResult) []string {
	var bad []string
	ok := []KeyperResult{}
	for _, k := range res.Honest() {
		if !k.Finished || !k.Success {
			continue
		}
		if k.Result == nil {
			bad = append(bad, fmt.Sprintf("keyper %d reports success but has no decodable result (%s)", k.Index, k.DecodeErr))
			continue
		}
		ok = append(ok, k)
	}
	if len(ok) == 0 {
		return bad
	}
	ref := ok[0].Result
	for _, k := range ok {
		r := k.Result
		if r.Eon != res.Eon || int(r.NumKeypers) != res.Cfg.N || int(r.Threshold) != res.Cfg.T || int(r.Keyper) != k.Index {
			bad = append(bad, fmt.Sprintf("keyper %d: result header eon=%d n=%d t=%d keyper=%d does not match the run (eon=%d n=%d t=%d)",
				k.Index, r.Eon, r.NumKeypers, r.Threshold, r.Keyper, res.Eon, res.Cfg.N, res.Cfg.T))
		}
		if !r.PublicKey.Equal(ref.PublicKey) {
			bad = append(bad, fmt.Sprintf("keypers %d and %d hold different eon public keys", ok[0].Index, k.Index))
		}
		if len(r.PublicKeyShares) != len(ref.PublicKeyShares) {
			bad = append(bad, fmt.Sprintf("keypers %d and %d hold public key share vectors of different length", ok[0].Index, k.Index))
			continue
		}
		for j := range r.PublicKeyShares {
			if !r.PublicKeyShares[j].Equal(ref.PublicKeyShares[j]) {
				bad = append(bad, fmt.Sprintf("keypers %d and %d disagree on the public key share of keyper %d", ok[0].Index, k.Index, j))
			}
		}
		if k.Index < len(r.PublicKeyShares) {
			pub, err := g2Pow((*big.Int)(r.SecretKeyShare))
			if err != nil {
				bad = append(bad, fmt.Sprintf("keyper %d: secret key share out of range: %v", k.Index, err))
			} else if !pub.Equal(r.PublicKeyShares[k.Index]) {
				bad = append(bad, fmt.Sprintf("keyper %d: secret key share does not match its public key share", k.Index))
			}
		}
	}
	if len(bad) > 0 || len(ok) < res.Cfg.T {
		return bad
	}
	// decryption with any T of the successful honest keypers
	identity := []byte("dkgrig identity preimage")
	message := []byte("a message to the eon key of the rig")
	epochID := shcrypto.ComputeEpochID(identity)
	sigma := shcrypto.Block{}
	copy(sigma[:], []byte("dkgrig-sigma-0123456789abcdefghi"))
	enc := shcrypto.Encrypt(message, ref.PublicKey, epochID, sigma)
	shares := make([]*shcrypto.EpochSecretKeyShare, len(ok))
	for i, k := range ok {
		shares[i] = shcrypto.ComputeEpochSecretKeyShare(k.Result.SecretKeyShare, epochID)
		if !shcrypto.VerifyEpochSecretKeyShare(shares[i], ref.PublicKeyShares[k.Index], epochID) {
			bad = append(bad, fmt.Sprintf("keyper %d: epoch secret key share does not verify against its public key share", k.Index))
		}
	}
	subsets(len(ok), res.Cfg.T, func(sub []int) {
		var idx []int
		var sh []*shcrypto.EpochSecretKeyShare
		for _, i := range sub {
			idx = append(idx, ok[i].Index)
			sh = append(sh, shares[i])
		}
		key, err := shcrypto.ComputeEpochSecretKey(idx, sh, uint64(res.Cfg.T))
		if err != nil {
			bad = append(bad, fmt.Sprintf("keypers %v: cannot interpolate the epoch secret key: %v", idx, err))
			return
		}
		if good, err := shcrypto.VerifyEpochSecretKey(key, ref.PublicKey, identity); err != nil || !good {
			bad = append(bad, fmt.Sprintf("keypers %v: interpolated epoch secret key does not verify against the eon public key (%v)", idx, err))
		}
		plain, err := enc.Decrypt(key)
		if err != nil || !bytes.Equal(plain, message) {
			bad = append(bad, fmt.Sprintf("keypers %v: decryption with the interpolated key failed (%v)", idx, err))
		}
	})
	return bad
}

// CheckTrace checks what must hold for a keyper whatever crashes it went through:
//
//  1. the committed values of tendermint_sync_meta.current_block are 0, 1, 2, ... without gap or
//     repetition (every block's events are applied exactly once),
//  2. all poly commitment transactions of that keyper for one eon carry the same gammas (it never
//     commits to two polynomials), and
//  3. the keyper hands messages to the chain in outbox order: ids of first transmission are increasing.
//
// Byzantine keypers are exempt from 2 (their strategy may equivocate on purpose).
func CheckTrace(res *RunResult, keyper int) []string {
	var bad []string
	k := res.Keypers[keyper]
	for i, b := range k.Trace.SyncBlocks {
		if b != int64(i) {
			bad = append(bad, fmt.Sprintf("keyper %d: committed current_block sequence %v is not 0,1,2,...", keyper, k.Trace.SyncBlocks))
			break
		}
	}
	if !k.Byzantine {
		first := map[uint64]PolyCommitmentTx{}
		for _, pc := range res.PolyCommits {
			if pc.SenderIndex != keyper {
				continue
			}
			f, seen := first[pc.Eon]
			if !seen {
				first[pc.Eon] = pc
				continue
			}
			same := len(f.Gammas) == len(pc.Gammas)
			for i := 0; same && i < len(f.Gammas); i++ {
				same = bytes.Equal(f.Gammas[i], pc.Gammas[i])
			}
			if !same {
				bad = append(bad, fmt.Sprintf("keyper %d: two different poly commitments for eon %d on chain (blocks %d and %d)", keyper, pc.Eon, f.Height, pc.Height))
			}
		}
	}
	// outbox order: the id of each row at the time it first disappears / is first sent
	lastID := int32(0)
	seen := map[int32]bool{}
	for _, snap := range k.Trace.Outbox {
		for _, row := range snap.Rows {
			if seen[row.ID] {
				continue
			}
			seen[row.ID] = true
			if row.ID <= lastID {
				bad = append(bad, fmt.Sprintf("keyper %d: outbox id %d appeared after id %d", keyper, row.ID, lastID))
			}
			lastID = row.ID
		}
	}
	return bad
}

// SameOutcome compares the DKG outcome of two runs keyper by keyper: finished, success, and for
// successful keypers the eon public key, the public key shares and the secret key share.
func SameOutcome(a, b *RunResult) []string {
	var bad []string
	if len(a.Keypers) != len(b.Keypers) {
		return []string{"different number of keypers"}
	}
	for i := range a.Keypers {
		x, y := a.Keypers[i], b.Keypers[i]
		if x.Finished != y.Finished || x.Success != y.Success {
			bad = append(bad, fmt.Sprintf("keyper %d: finished/success %v/%v versus %v/%v (errors %q, %q)", i, x.Finished, x.Success, y.Finished, y.Success, x.Error, y.Error))
			continue
		}
		if x.Result == nil || y.Result == nil {
			if (x.Result == nil) != (y.Result == nil) {
				bad = append(bad, fmt.Sprintf("keyper %d: one run has a result, the other has not", i))
			}
			continue
		}
		if !x.Result.PublicKey.Equal(y.Result.PublicKey) {
			bad = append(bad, fmt.Sprintf("keyper %d: different eon public keys", i))
		}
		if !x.Result.SecretKeyShare.Equal(y.Result.SecretKeyShare) {
			bad = append(bad, fmt.Sprintf("keyper %d: different secret key shares", i))
		}
		if len(x.Result.PublicKeyShares) != len(y.Result.PublicKeyShares) {
			bad = append(bad, fmt.Sprintf("keyper %d: different number of public key shares", i))
			continue
		}
		for j := range x.Result.PublicKeyShares {
			if !x.Result.PublicKeyShares[j].Equal(y.Result.PublicKeyShares[j]) {
				bad = append(bad, fmt.Sprintf("keyper %d: different public key share %d", i, j))
			}
		}
	}
	return bad
}

// messageShape describes a key generation message without its secret or random parts.
func (res *RunResult) messageShape(t *Tx) string {
	idx := func(bs [][]byte) string {
		out := []int{}
		for _, b := range bs {
			a := common.BytesToAddress(b)
			j := -1
			for _, k := range res.Keypers {
				if k.Address == a {
					j = k.Index
				}
			}
			out = append(out, j)
		}
		sort.Ints(out)
		return fmt.Sprint(out)
	}
	m := t.Msg
	switch {
	case m == nil:
		return ""
	case m.GetPolyCommitment() != nil:
		return fmt.Sprintf("polycommitment eon=%d coefficients=%d", m.GetPolyCommitment().Eon, len(m.GetPolyCommitment().Gammas))
	case m.GetPolyEval() != nil:
		return fmt.Sprintf("polyeval eon=%d to=%s", m.GetPolyEval().Eon, idx(m.GetPolyEval().Receivers))
	case m.GetAccusation() != nil:
		return fmt.Sprintf("accusation eon=%d accused=%s", m.GetAccusation().Eon, idx(m.GetAccusation().Accused))
	case m.GetApology() != nil:
		return fmt.Sprintf("apology eon=%d accusers=%s", m.GetApology().Eon, idx(m.GetApology().Accusers))
	case m.GetDkgResult() != nil:
		return fmt.Sprintf("dkgresult eon=%d success=%v", m.GetDkgResult().Eon, m.GetDkgResult().Success)
	}
	return ""
}

// MessageShapes lists, per keyper, the distinct key generation messages of it that the chain executed.
func (res *RunResult) MessageShapes() map[int]map[string]bool {
	out := map[int]map[string]bool{}
	for _, b := range res.Blocks {
		for _, t := range b.Txs {
			if t.Deliver == nil || t.Deliver.Code != 0 || t.SignerIndex < 0 {
				continue
			}
			if sh := res.messageShape(t); sh != "" {
				if out[t.SignerIndex] == nil {
					out[t.SignerIndex] = map[string]bool{}
				}
				out[t.SignerIndex][sh] = true
			}
		}
	}
	return out
}

// SameMessages compares what every keyper got executed on the chain in two runs (a message sent twice counts
// once): nothing of the first run may be missing in the second and nothing new may appear.
func SameMessages(a, b *RunResult) []string {
	var bad []string
	sa, sb := a.MessageShapes(), b.MessageShapes()
	for i := range a.Keypers {
		for sh := range sa[i] {
			if !sb[i][sh] {
				bad = append(bad, fmt.Sprintf("keyper %d: %q was executed in the crash-free run and is missing", i, sh))
			}
		}
		for sh := range sb[i] {
			if !sa[i][sh] {
				bad = append(bad, fmt.Sprintf("keyper %d: %q is executed although the crash-free run has no such message", i, sh))
			}
		}
	}
	sort.Strings(bad)
	return bad
}

// QueuedDescriptions counts what a keyper ever had in its outbox (committed rows, by id) per description.
func QueuedDescriptions(tr *Trace) map[string]int {
	ids := map[int32]string{}
	for _, snap := range tr.Outbox {
		for _, row := range snap.Rows {
			ids[row.ID] = row.Description
		}
	}
	out := map[string]int{}
	for _, d := range ids {
		out[d]++
	}
	return out
}

// SameQueued compares what the observed keyper queued in two runs: a restart may send a queued message again,
// it never queues one the crash-free run does not queue, or one more of a kind.
func SameQueued(a, b *RunResult, keyper int) []string {
	qa, qb := QueuedDescriptions(a.Keypers[keyper].Trace), QueuedDescriptions(b.Keypers[keyper].Trace)
	var bad []string
	for d, n := range qa {
		if qb[d] != n {
			bad = append(bad, fmt.Sprintf("%q queued %d times in the crash-free run and %d times here", d, n, qb[d]))
		}
	}
	for d, n := range qb {
		if _, ok := qa[d]; !ok {
			bad = append(bad, fmt.Sprintf("%q queued %d times here and never in the crash-free run", d, n))
		}
	}
	sort.Strings(bad)
	return bad
}

// Accepted counts the transactions DeliverTx accepted (code 0) by kind.
func (res *RunResult) Accepted() map[string]int {
	out := map[string]int{}
	for _, b := range res.Blocks {
		for _, t := range b.Txs {
			if t.Deliver.Code == 0 {
				out[t.Kind]++
			}
		}
	}
	return out
}

// History renders the chain for a report: one line per transaction (empty blocks are left out).
func (res *RunResult) History() string {
	var b bytes.Buffer
	for _, blk := range res.Blocks {
		if len(blk.Txs) == 0 && len(blk.Begin.Events) == 0 && len(blk.End.Events) == 0 {
			continue // empty block
		}
		fmt.Fprintf(&b, "block %d: begin-events=%d end-events=%d\n", blk.Height, len(blk.Begin.Events), len(blk.End.Events))
		for _, t := range blk.Txs {
			fmt.Fprintf(&b, "  tx %d.%d: from keyper %d %-14s code=%d events=%d origin=%s %s\n", blk.Height, t.Index, t.SignerIndex, t.Kind, t.Deliver.Code, len(t.Deliver.Events), t.Origin, t.Deliver.Log)
		}
	}
	for _, t := range res.Rejected {
		fmt.Fprintf(&b, "rejected (arrived at height %d): keyper %d %s origin=%s evicted=%v: %s\n", t.ArrivedAt, t.SignerIndex, t.Kind, t.Origin, t.Evicted, t.CheckTx.Log)
	}
	for _, k := range res.Keypers {
		fmt.Fprintf(&b, "keyper %d: byzantine=%v finished=%v success=%v error=%q round-trips=%d steps=%d sync=0..%d\n",
			k.Index, k.Byzantine, k.Finished, k.Success, k.Error, len(k.Trace.RoundTrips), k.Trace.Steps, len(k.Trace.SyncBlocks)-1)
		for _, rs := range k.Trace.Restarts {
			fmt.Fprintf(&b, "  restarted at round trip %d (step %d, chain height %d, blocks applied up to %d), crash point %v, step error %q\n",
				rs.AtRoundTrip, rs.Step, rs.ChainHeight, rs.SyncedTo, rs.Crash, rs.Err)
		}
	}
	return b.String()
}
