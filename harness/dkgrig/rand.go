//go:build verif

package dkgrig

import (
	crand "crypto/rand"
	"crypto/sha256"
	"encoding/binary"
	"io"
	"sync"
)

// The code under test draws its randomness from crypto/rand directly and offers no io.Reader
// parameter:
//
//   - puredkg.StartPhase1Dealing: shcrypto.RandomPolynomial(crypto/rand.Reader, degree)
//   - smobserver.sendPolyEvals:   ecies.Encrypt(crypto/rand.Reader, ...)
//   - fx.randomNonce:             crypto/rand.Read
//
// All three go through the package variable crypto/rand.Reader (rand.Read is
// io.ReadFull(rand.Reader, b) in the Go 1.23 toolchain this module builds with), so for the duration
// of a run the rig replaces that variable by a deterministic stream. The replacement is process
// global; runs are serialised by runMu.
//
// The stream is not positional. It is re-keyed ("context") by the rig at well defined points:
//
//	(seed, keyper k, "block", h)   when keyper k fetches the results of chain block h (the polynomial of
//	                               an eon and the ECIES ephemeral keys are drawn while block h is handled)
//	(seed, keyper k, "send", i)    before keyper k signs its i-th outgoing shuttermint message (nonce)
//
// so that handling block h a second time after a crash draws the same polynomial, and a run with a
// crash yields the same eon key as the run without it. The send counter belongs to the rig and
// survives restarts: a message that is sent again after a crash gets a fresh nonce, as in reality.
//
// One source of nondeterminism is deliberately built into the standard library:
// ecdsa.GenerateKey (used by ecies.Encrypt for the ephemeral key) calls randutil.MaybeReadByte, which
// reads one byte from the reader with probability 1/2. The deterministic reader answers every
// one-byte read with a constant and does not advance, which makes that call invisible.
type detReader struct {
	mu    sync.Mutex
	seed  uint64
	label string
	ctr   uint64
	buf   []byte
	reads int
}

func (r *detReader) setContext(label string) {
	r.mu.Lock()
	r.label = label
	r.ctr = 0
	r.buf = nil
	r.mu.Unlock()
}

func (r *detReader) Read(p []byte) (int, error) {
	r.mu.Lock()
	defer r.mu.Unlock()
	if len(p) == 1 {
		p[0] = 0x5a
		return 1, nil
	}
	r.reads++
	n := 0
	for n < len(p) {
		if len(r.buf) == 0 {
			h := sha256.New()
			var b [16]byte
			binary.BigEndian.PutUint64(b[:8], r.seed)
			binary.BigEndian.PutUint64(b[8:], r.ctr)
			h.Write(b[:])
			h.Write([]byte(r.label))
			r.buf = h.Sum(nil)
			r.ctr++
		}
		c := copy(p[n:], r.buf)
		r.buf = r.buf[c:]
		n += c
	}
	return n, nil
}

var (
	// runMu serialises runs: the deterministic reader is installed in a process global.
	runMu sync.Mutex
	// curRand is the reader of the run in progress (nil outside a run or with Config.SystemRandom).
	curRand *detReader
)

// installRand swaps crypto/rand.Reader; the returned function restores it.
func installRand(seed uint64) (*detReader, func()) {
	r := &detReader{seed: seed, label: "idle"}
	old := crand.Reader
	crand.Reader = r
	curRand = r
	return r, func() {
		crand.Reader = old
		curRand = nil
	}
}

func randContext(label string) {
	if curRand != nil {
		curRand.setContext(label)
	}
}

var _ io.Reader = (*detReader)(nil)
