//go:build verif

package dkgrig

import (
	"context"
	"fmt"
	"os"
	"testing"

	"github.com/shutter-network/shutter/shlib/puredkg"

	"github.com/shutter-network/rolling-shutter/rolling-shutter/shdb"

	"verif/harness/hx"
)

func TestMain(m *testing.M) {
	MuteLogs()
	os.Exit(m.Run())
}

func baseConfig() Config {
	return Config{N: 3, T: 2, Seed: 1}
}

func TestAllHonest(t *testing.T) {
	res, err := Run(baseConfig())
	if err != nil {
		t.Fatal(err)
	}
	t.Logf("blocks=%d rounds=%d elapsed=%v eon=%d start=%d", res.Height, res.Rounds, res.Elapsed, res.Eon, res.EonStartHeight)
	for _, k := range res.Keypers {
		t.Logf("keyper %d: round trips %d, steps %d, broadcasts %d", k.Index, len(k.Trace.RoundTrips), k.Trace.Steps, k.Trace.Broadcasts)
	}
	if !res.AllFinished {
		t.Fatalf("not all keypers finished:\n%s", res.History())
	}
	for _, k := range res.Keypers {
		if !k.Success {
			t.Errorf("keyper %d failed: %s", k.Index, k.Error)
		}
	}
	for _, v := range CheckAgreement(res) {
		t.Error(v)
	}
	for i := range res.Keypers {
		for _, v := range CheckTrace(res, i) {
			t.Error(v)
		}
	}
	if len(res.Notes) > 0 {
		t.Errorf("notes: %v", res.Notes)
	}
	if t.Failed() || os.Getenv("DKGRIG_HISTORY") != "" {
		t.Log("\n" + res.History())
	}
}

func TestDeterministic(t *testing.T) {
	a, err := Run(baseConfig())
	if err != nil {
		t.Fatal(err)
	}
	b, err := Run(baseConfig())
	if err != nil {
		t.Fatal(err)
	}
	for _, v := range SameOutcome(a, b) {
		t.Error(v)
	}
	if len(a.Blocks) != len(b.Blocks) {
		t.Fatalf("different number of blocks: %d, %d", len(a.Blocks), len(b.Blocks))
	}
	for i := range a.Blocks {
		if len(a.Blocks[i].Txs) != len(b.Blocks[i].Txs) {
			t.Fatalf("block %d differs in the number of transactions", i+1)
		}
		for j := range a.Blocks[i].Txs {
			if string(a.Blocks[i].Txs[j].Raw) != string(b.Blocks[i].Txs[j].Raw) {
				t.Errorf("block %d tx %d (%s) differs between two runs with the same seed", i+1, j, a.Blocks[i].Txs[j].Kind)
			}
		}
	}
	c := baseConfig()
	c.Seed = 2
	d, err := Run(c)
	if err != nil {
		t.Fatal(err)
	}
	if d.Keypers[0].Result == nil || d.Keypers[0].Result.PublicKey.Equal(a.Keypers[0].Result.PublicKey) {
		t.Error("a different seed gave the same eon key")
	}
}

// One Byzantine keyper sends a wrong evaluation to keyper 1 and does not apologize.
func TestByzantineWrongEval(t *testing.T) {
	for _, apology := range []ApologyMode{ApologyOmit, ApologyWrong, ApologyCorrect} {
		cfg := baseConfig()
		s := HonestStrategy(3)
		s.Eval[1] = EvalWrong
		s.Apology[1] = apology
		cfg.Byzantine = map[int]Strategy{2: s}
		res, err := Run(cfg)
		if err != nil {
			t.Fatal(err)
		}
		if !res.AllFinished {
			t.Fatalf("%v: not all keypers finished:\n%s", s, res.History())
		}
		accused := false
		for _, b := range res.Blocks {
			for _, tx := range b.Txs {
				if tx.Kind == "accusation" && tx.SignerIndex == 1 && tx.Deliver.Code == 0 {
					accused = true
				}
			}
		}
		if !accused {
			t.Errorf("%v: keyper 1 did not accuse", s)
		}
		for _, v := range CheckAgreement(res) {
			t.Errorf("%v: %s", s, v)
		}
		succ := 0
		for _, k := range res.Honest() {
			if k.Success {
				succ++
			}
		}
		// with threshold 2 and two honest dealers the honest keypers can always finish
		if succ != 2 {
			t.Errorf("%v: %d of 2 honest keypers succeeded", s, succ)
		}
		for i := range res.Keypers {
			for _, v := range CheckTrace(res, i) {
				t.Errorf("%v: %s", s, v)
			}
		}
		t.Logf("%v: blocks=%d success=%v/%v/%v elapsed=%v", s, res.Height, res.Keypers[0].Success, res.Keypers[1].Success, res.Keypers[2].Success, res.Elapsed)
		if t.Failed() {
			t.Fatalf("\n%s", res.History())
		}
	}
}

func TestRandomStrategies(t *testing.T) {
	r := hx.NewRand(7)
	n := 40
	if testing.Short() {
		n = 8
	}
	dist := map[string]int{}
	for i := 0; i < n; i++ {
		cfg := baseConfig()
		cfg.Seed = uint64(100 + i)
		s := RandomStrategy(r, 3, 2)
		cfg.Byzantine = map[int]Strategy{2: s}
		res, err := Run(cfg)
		if err != nil {
			t.Fatal(err)
		}
		if !res.AllFinished {
			t.Errorf("%v: not all keypers finished", s)
		}
		for _, v := range CheckAgreement(res) {
			t.Errorf("%v: %s", s, v)
		}
		for _, k := range []int{0, 1} {
			for _, v := range CheckTrace(res, k) {
				t.Errorf("%v: %s", s, v)
			}
		}
		dist[fmt.Sprintf("honest-success=%v/%v", res.Keypers[0].Success, res.Keypers[1].Success)]++
		if t.Failed() {
			t.Fatalf("\n%s", res.History())
		}
	}
	t.Logf("outcomes: %v", dist)
}

func TestEnumerate(t *testing.T) {
	all := EnumerateStrategies(3, 2)
	if len(all) != NumStrategies(3) || len(all) != 31104 {
		t.Fatalf("%d strategies, NumStrategies says %d", len(all), NumStrategies(3))
	}
	seen := map[string]bool{}
	for _, s := range all {
		seen[s.String()] = true
	}
	if len(seen) != len(all) {
		t.Fatalf("%d distinct of %d", len(seen), len(all))
	}
}

// A crash at five evenly spaced round trips, both modes: same outcome as without the crash.
func TestCrashAtRoundTrips(t *testing.T) {
	cfg := baseConfig()
	cfg.Observed = 1
	n, ref, err := CountRoundTrips(cfg)
	if err != nil {
		t.Fatal(err)
	}
	if !ref.AllFinished || n == 0 {
		t.Fatalf("reference run: finished=%v round trips=%d", ref.AllFinished, n)
	}
	t.Logf("fault-free run: %d round trips of keyper %d, %d blocks", n, cfg.Observed, ref.Height)
	for i := 1; i <= 5; i++ {
		seq := i * n / 6
		for _, mode := range []CrashMode{DropBefore, DropAfter} {
			cp := CrashPoint{Seq: seq, Mode: mode}
			rt := ref.Keypers[cfg.Observed].Trace.RoundTrips[seq-1]
			res, err := RunWithCrash(cfg, cp)
			if err != nil {
				t.Fatal(err)
			}
			checkCrashRun(t, cfg, ref, res, fmt.Sprintf("%v (%s %s)", cp, rt.Kind, rt.Name))
		}
	}
}

func checkCrashRun(t *testing.T, cfg Config, ref, res *RunResult, what string) {
	t.Helper()
	k := res.Keypers[cfg.Observed]
	if len(k.Trace.Restarts) != 1 || k.Trace.Restarts[0].Crash == nil {
		t.Errorf("%s: expected exactly one restart caused by the crash point, got %+v", what, k.Trace.Restarts)
	} else if k.Trace.Restarts[0].Err == "" && k.Trace.Restarts[0].Crash.Broadcast == 0 {
		// (a process killed while it waits in BroadcastTxCommit is different: SendShutterMessages
		// swallows the send error by design, "will be retried")
		t.Errorf("%s: the step during which the connection was dropped reported no error", what)
	}
	if !res.AllFinished {
		t.Errorf("%s: not all keypers finished", what)
	}
	for _, v := range crashProblems(ref, res) {
		t.Errorf("%s: %s", what, v)
	}
	t.Logf("%s: restart after %q with blocks applied up to %d; blocks=%d, round trips=%d", what, firstErr(k.Trace.Restarts), restartHeight(res, cfg.Observed), res.Height, len(k.Trace.RoundTrips))
	if t.Failed() && !historyShown {
		historyShown = true
		t.Logf("history of the first failing run (%s):\n%s", what, res.History())
	}
}

var historyShown bool

// crashProblems compares a run with a crash to the crash-free run of the same configuration (all
// keypers honest).
func crashProblems(ref, res *RunResult) []string {
	p := SameOutcome(ref, res)
	p = append(p, CheckAgreement(res)...)
	for i := range res.Keypers {
		p = append(p, CheckTrace(res, i)...)
	}
	// nobody deviates, so nobody may be accused (an accusation makes the accused reveal, in its
	// apology, the evaluation it had sent encrypted)
	a, b := ref.Accepted(), res.Accepted()
	for _, kind := range []string{"accusation", "apology"} {
		if a[kind] != b[kind] {
			p = append(p, fmt.Sprintf("%d %s transactions accepted, %d without the crash", b[kind], kind, a[kind]))
		}
	}
	return append(p, res.Notes...)
}

// restartHeight is the last block the keyper had applied when it was restarted.
func restartHeight(res *RunResult, k int) int64 {
	tr := res.Keypers[k].Trace
	if len(tr.Restarts) == 0 {
		return -1
	}
	return tr.Restarts[0].SyncedTo
}

func firstErr(rs []Restart) string {
	if len(rs) == 0 {
		return ""
	}
	return rs[0].Err
}

// A crash between every accepted broadcast and the deletion of its outbox row, and while waiting
// for the broadcast.
func TestCrashAroundBroadcast(t *testing.T) {
	cfg := baseConfig()
	cfg.Observed = 0
	_, ref, err := CountRoundTrips(cfg)
	if err != nil {
		t.Fatal(err)
	}
	deletes := 0
	for _, rt := range ref.Keypers[0].Trace.RoundTrips {
		if rt.Name == "DeleteShutterMessage" {
			deletes++
		}
	}
	if deletes == 0 || deletes != ref.Keypers[0].Trace.Broadcasts {
		t.Fatalf("%d DeleteShutterMessage round trips, %d broadcasts", deletes, ref.Keypers[0].Trace.Broadcasts)
	}
	for i := 1; i <= deletes; i++ {
		for _, cp := range []CrashPoint{
			{Stmt: "DeleteShutterMessage", Nth: i, Mode: DropBefore},
			{Stmt: "DeleteShutterMessage", Nth: i, Mode: DropAfter},
			{Broadcast: i},
		} {
			res, err := RunWithCrash(cfg, cp)
			if err != nil {
				t.Fatal(err)
			}
			checkCrashRun(t, cfg, ref, res, cp.String())
		}
	}
}

// The synchronous form: Keyper.Step with blocks made on the spot by every BroadcastTxCommit, and
// empty blocks made by the caller in between.
func TestManualSteps(t *testing.T) {
	r, err := New(baseConfig())
	if err != nil {
		t.Fatal(err)
	}
	defer r.Close()
	ctx := context.Background()
	for r.Chain.Height() < 120 && !r.allFinished() {
		for _, k := range r.Keypers {
			if err := k.Step(ctx); err != nil {
				t.Fatalf("keyper %d: %v", k.Index, err)
			}
		}
		r.Tick(r.Chain.Height() + 1)
		r.Chain.MakeBlock(nil)
		r.scanEvents()
	}
	res := r.Result()
	if !res.AllFinished {
		t.Fatalf("not finished after %d blocks\n%s", res.Height, res.History())
	}
	for _, v := range CheckAgreement(res) {
		t.Error(v)
	}
	for _, k := range res.Keypers {
		if !k.Success {
			t.Errorf("keyper %d failed: %s", k.Index, k.Error)
		}
	}
	t.Logf("blocks=%d", res.Height)
}

// Other sizes, random step order and block schedule (delays of at most one block, which honest
// messages survive with phase length 8).
func TestSizesAndSchedules(t *testing.T) {
	for i, nt := range [][2]int{{1, 1}, {2, 2}, {4, 3}, {5, 3}, {3, 2}, {4, 2}} {
		r := hx.NewRand(uint64(i))
		cfg := Config{N: nt[0], T: nt[1], Seed: uint64(i), Schedule: RandomSchedule(r.Fork(), 50, 1), Order: RandomOrder(r.Fork())}
		res, err := Run(cfg)
		if err != nil {
			t.Fatal(err)
		}
		if !res.AllFinished {
			t.Errorf("n=%d t=%d: not finished", nt[0], nt[1])
		}
		for _, k := range res.Keypers {
			if !k.Success {
				t.Errorf("n=%d t=%d: keyper %d failed: %s", nt[0], nt[1], k.Index, k.Error)
			}
		}
		for _, v := range CheckAgreement(res) {
			t.Errorf("n=%d t=%d: %s", nt[0], nt[1], v)
		}
		for k := range res.Keypers {
			for _, v := range CheckTrace(res, k) {
				t.Errorf("n=%d t=%d: %s", nt[0], nt[1], v)
			}
		}
		t.Logf("n=%d t=%d: blocks=%d elapsed=%v round trips of keyper 0: %d", nt[0], nt[1], res.Height, res.Elapsed, len(res.Keypers[0].Trace.RoundTrips))
		if t.Failed() {
			t.Fatalf("\n%s", res.History())
		}
	}
}

// The root cause of the failures of the crash tests, in isolation: the keyper stores its DKG state
// with encoding/gob (shdb.EncodePureDKG) and reads it back after a restart (ShuttermintState.Load).
// "No commitment / no evaluation received from dealer j yet" is a nil pointer in
// PureDKG.Commitments / PureDKG.Evals, and gob does not preserve it: *big.Int(nil) comes back as 0
// and *Gammas(nil) as an empty commitment. puredkg takes "not nil" for "already received".
func TestPureDKGSurvivesReload(t *testing.T) {
	p := puredkg.NewPureDKG(1, 3, 2, 1)
	if _, _, err := p.StartPhase1Dealing(); err != nil {
		t.Fatal(err)
	}
	blob, err := shdb.EncodePureDKG(&p)
	if err != nil {
		t.Fatal(err)
	}
	q, err := shdb.DecodePureDKG(blob)
	if err != nil {
		t.Fatal(err)
	}
	for j := range p.Evals {
		if (p.Evals[j] == nil) != (q.Evals[j] == nil) {
			t.Errorf("Evals[%d]: nil before the round trip, %v after", j, q.Evals[j])
		}
		if (p.Commitments[j] == nil) != (q.Commitments[j] == nil) {
			t.Errorf("Commitments[%d]: nil before the round trip, a commitment with %d gammas after", j, len(*q.Commitments[j]))
		}
	}
	other := puredkg.NewPureDKG(1, 3, 2, 0)
	commitment, evals, err := other.StartPhase1Dealing()
	if err != nil {
		t.Fatal(err)
	}
	if err := q.HandlePolyCommitmentMsg(commitment); err != nil {
		t.Errorf("reloaded state refuses the first commitment of dealer 0: %v", err)
	}
	if err := q.HandlePolyEvalMsg(evals[0]); err != nil {
		t.Errorf("reloaded state refuses the first evaluation of dealer 0: %v", err)
	}
}

// Every round trip, both modes (about 500 runs; set DKGRIG_FULL=1). Reports which crash points change
// the outcome instead of stopping at the first.
func TestCrashEverywhere(t *testing.T) {
	if os.Getenv("DKGRIG_FULL") == "" {
		t.Skip("set DKGRIG_FULL=1")
	}
	cfg := baseConfig()
	cfg.Observed = 1
	n, ref, err := CountRoundTrips(cfg)
	if err != nil {
		t.Fatal(err)
	}
	type fail struct {
		cp       CrashPoint
		synced   int64
		problems []string
	}
	var fails []fail
	for seq := 1; seq <= n; seq++ {
		for _, mode := range []CrashMode{DropBefore, DropAfter} {
			cp := CrashPoint{Seq: seq, Mode: mode}
			res, err := RunWithCrash(cfg, cp)
			if err != nil {
				t.Fatal(err)
			}
			var p []string
			k := res.Keypers[cfg.Observed]
			if len(k.Trace.Restarts) != 1 {
				p = append(p, fmt.Sprintf("%d restarts", len(k.Trace.Restarts)))
			}
			if !res.AllFinished {
				p = append(p, "not finished")
			}
			p = append(p, crashProblems(ref, res)...)
			if len(p) > 0 {
				fails = append(fails, fail{cp, restartHeight(res, cfg.Observed), p})
			}
		}
	}
	t.Logf("%d crash points, %d change the outcome", 2*n, len(fails))
	for _, f := range fails {
		rt := ref.Keypers[cfg.Observed].Trace.RoundTrips[f.cp.Seq-1]
		t.Errorf("%v (%s, step %d, blocks applied up to %d): %v", f.cp, rt.Name, rt.Step, f.synced, f.problems)
	}
}
