//go:build verif

package dkgrig

import (
	"fmt"
	"os"
	"testing"

	"verif/harness/hx"
)

func TestMain(m *testing.M) {
	MuteLogs()
	os.Exit(m.Run())
}

func baseConfig() Config {
	return Config{N: 3, T: 2, Seed: 1}
}

func TestAllHonest(t *testing.T) {
	res, err := Run(baseConfig())
	if err != nil {
		t.Fatal(err)
	}
	t.Logf("blocks=%d rounds=%d elapsed=%v eon=%d start=%d", res.Height, res.Rounds, res.Elapsed, res.Eon, res.EonStartHeight)
	for _, k := range res.Keypers {
		t.Logf("keyper %d: round trips %d, steps %d, broadcasts %d", k.Index, len(k.Trace.RoundTrips), k.Trace.Steps, k.Trace.Broadcasts)
	}
	if !res.AllFinished {
		t.Fatalf("not all keypers finished:\n%s", res.History())
	}
	for _, k := range res.Keypers {
		if !k.Success {
			t.Errorf("keyper %d failed: %s", k.Index, k.Error)
		}
	}
	for _, v := range CheckAgreement(res) {
		t.Error(v)
	}
	for i := range res.Keypers {
		for _, v := range CheckTrace(res, i) {
			t.Error(v)
		}
	}
	if len(res.Notes) > 0 {
		t.Errorf("notes: %v", res.Notes)
	}
	if t.Failed() || os.Getenv("DKGRIG_HISTORY") != "" {
		t.Log("\n" + res.History())
	}
}

func TestDeterministic(t *testing.T) {
	a, err := Run(baseConfig())
	if err != nil {
		t.Fatal(err)
	}
	b, err := Run(baseConfig())
	if err != nil {
		t.Fatal(err)
	}
	for _, v := range SameOutcome(a, b) {
		t.Error(v)
	}
	if len(a.Blocks) != len(b.Blocks) {
		t.Fatalf("different number of blocks: %d, %d", len(a.Blocks), len(b.Blocks))
	}
	for i := range a.Blocks {
		if len(a.Blocks[i].Txs) != len(b.Blocks[i].Txs) {
			t.Fatalf("block %d differs in the number of transactions", i+1)
		}
		for j := range a.Blocks[i].Txs {
			if string(a.Blocks[i].Txs[j].Raw) != string(b.Blocks[i].Txs[j].Raw) {
				t.Errorf("block %d tx %d (%s) differs between two runs with the same seed", i+1, j, a.Blocks[i].Txs[j].Kind)
			}
		}
	}
	c := baseConfig()
	c.Seed = 2
	d, err := Run(c)
	if err != nil {
		t.Fatal(err)
	}
	if d.Keypers[0].Result == nil || d.Keypers[0].Result.PublicKey.Equal(a.Keypers[0].Result.PublicKey) {
		t.Error("a different seed gave the same eon key")
	}
}

// One Byzantine keyper sends a wrong evaluation to keyper 1 and does not apologize.
func TestByzantineWrongEval(t *testing.T) {
	for _, apology := range []ApologyMode{ApologyOmit, ApologyWrong, ApologyCorrect} {
		cfg := baseConfig()
		s := HonestStrategy(3)
		s.Eval[1] = EvalWrong
		s.Apology[1] = apology
		cfg.Byzantine = map[int]Strategy{2: s}
		res, err := Run(cfg)
		if err != nil {
			t.Fatal(err)
		}
		if !res.AllFinished {
			t.Fatalf("%v: not all keypers finished:\n%s", s, res.History())
		}
		accused := false
		for _, b := range res.Blocks {
			for _, tx := range b.Txs {
				if tx.Kind == "accusation" && tx.SignerIndex == 1 && tx.Deliver.Code == 0 {
					accused = true
				}
			}
		}
		if !accused {
			t.Errorf("%v: keyper 1 did not accuse", s)
		}
		for _, v := range CheckAgreement(res) {
			t.Errorf("%v: %s", s, v)
		}
		succ := 0
		for _, k := range res.Honest() {
			if k.Success {
				succ++
			}
		}
		// with threshold 2 and two honest dealers the honest keypers can always finish
		if succ != 2 {
			t.Errorf("%v: %d of 2 honest keypers succeeded", s, succ)
		}
		for i := range res.Keypers {
			for _, v := range CheckTrace(res, i) {
				t.Errorf("%v: %s", s, v)
			}
		}
		t.Logf("%v: blocks=%d success=%v/%v/%v elapsed=%v", s, res.Height, res.Keypers[0].Success, res.Keypers[1].Success, res.Keypers[2].Success, res.Elapsed)
		if t.Failed() {
			t.Fatalf("\n%s", res.History())
		}
	}
}

func TestRandomStrategies(t *testing.T) {
	r := hx.NewRand(7)
	n := 40
	if testing.Short() {
		n = 8
	}
	dist := map[string]int{}
	for i := 0; i < n; i++ {
		cfg := baseConfig()
		cfg.Seed = uint64(100 + i)
		s := RandomStrategy(r, 3, 2)
		cfg.Byzantine = map[int]Strategy{2: s}
		res, err := Run(cfg)
		if err != nil {
			t.Fatal(err)
		}
		if !res.AllFinished {
			t.Errorf("%v: not all keypers finished", s)
		}
		for _, v := range CheckAgreement(res) {
			t.Errorf("%v: %s", s, v)
		}
		for _, k := range []int{0, 1} {
			for _, v := range CheckTrace(res, k) {
				t.Errorf("%v: %s", s, v)
			}
		}
		dist[fmt.Sprintf("honest-success=%v/%v", res.Keypers[0].Success, res.Keypers[1].Success)]++
		if t.Failed() {
			t.Fatalf("\n%s", res.History())
		}
	}
	t.Logf("outcomes: %v", dist)
}

func TestEnumerate(t *testing.T) {
	all := EnumerateStrategies(3, 2)
	if len(all) != NumStrategies(3) || len(all) != 31104 {
		t.Fatalf("%d strategies, NumStrategies says %d", len(all), NumStrategies(3))
	}
	seen := map[string]bool{}
	for _, s := range all {
		seen[s.String()] = true
	}
	if len(seen) != len(all) {
		t.Fatalf("%d distinct of %d", len(seen), len(all))
	}
}

// A crash at five evenly spaced round trips, both modes: same outcome as without the crash.
func TestCrashAtRoundTrips(t *testing.T) {
	cfg := baseConfig()
	cfg.Observed = 1
	n, ref, err := CountRoundTrips(cfg)
	if err != nil {
		t.Fatal(err)
	}
	if !ref.AllFinished || n == 0 {
		t.Fatalf("reference run: finished=%v round trips=%d", ref.AllFinished, n)
	}
	t.Logf("fault-free run: %d round trips of keyper %d, %d blocks", n, cfg.Observed, ref.Height)
	for i := 1; i <= 5; i++ {
		seq := i * n / 6
		for _, mode := range []CrashMode{DropBefore, DropAfter} {
			cp := CrashPoint{Seq: seq, Mode: mode}
			rt := ref.Keypers[cfg.Observed].Trace.RoundTrips[seq-1]
			res, err := RunWithCrash(cfg, cp)
			if err != nil {
				t.Fatal(err)
			}
			checkCrashRun(t, cfg, ref, res, fmt.Sprintf("%v (%s %s)", cp, rt.Kind, rt.Name))
		}
	}
}

func checkCrashRun(t *testing.T, cfg Config, ref, res *RunResult, what string) {
	t.Helper()
	k := res.Keypers[cfg.Observed]
	if len(k.Trace.Restarts) != 1 || k.Trace.Restarts[0].Crash == nil {
		t.Errorf("%s: expected exactly one restart caused by the crash point, got %+v", what, k.Trace.Restarts)
	} else if k.Trace.Restarts[0].Err == "" && k.Trace.Restarts[0].Crash.Broadcast == 0 {
		// (a process killed while it waits in BroadcastTxCommit is different: SendShutterMessages
		// swallows the send error by design, "will be retried")
		t.Errorf("%s: the step during which the connection was dropped reported no error", what)
	}
	if !res.AllFinished {
		t.Errorf("%s: not all keypers finished", what)
	}
	for _, v := range SameOutcome(ref, res) {
		t.Errorf("%s: %s", what, v)
	}
	for _, v := range CheckAgreement(res) {
		t.Errorf("%s: %s", what, v)
	}
	for i := range res.Keypers {
		for _, v := range CheckTrace(res, i) {
			t.Errorf("%s: %s", what, v)
		}
	}
	if len(res.Notes) > 0 {
		t.Errorf("%s: notes: %v", what, res.Notes)
	}
	t.Logf("%s: restart after %q with blocks applied up to %d; blocks=%d, round trips=%d", what, firstErr(k.Trace.Restarts), restartHeight(res, cfg.Observed), res.Height, len(k.Trace.RoundTrips))
	if t.Failed() && !historyShown {
		historyShown = true
		t.Logf("history of the first failing run (%s):\n%s", what, res.History())
	}
}

var historyShown bool

// restartHeight is the last block the keyper had applied when it was restarted.
func restartHeight(res *RunResult, k int) int64 {
	tr := res.Keypers[k].Trace
	if len(tr.Restarts) == 0 {
		return -1
	}
	return tr.Restarts[0].SyncedTo
}

func firstErr(rs []Restart) string {
	if len(rs) == 0 {
		return ""
	}
	return rs[0].Err
}

// A crash between every accepted broadcast and the deletion of its outbox row, and while waiting
// for the broadcast.
func TestCrashAroundBroadcast(t *testing.T) {
	cfg := baseConfig()
	cfg.Observed = 0
	_, ref, err := CountRoundTrips(cfg)
	if err != nil {
		t.Fatal(err)
	}
	deletes := 0
	for _, rt := range ref.Keypers[0].Trace.RoundTrips {
		if rt.Name == "DeleteShutterMessage" {
			deletes++
		}
	}
	if deletes == 0 || deletes != ref.Keypers[0].Trace.Broadcasts {
		t.Fatalf("%d DeleteShutterMessage round trips, %d broadcasts", deletes, ref.Keypers[0].Trace.Broadcasts)
	}
	for i := 1; i <= deletes; i++ {
		for _, cp := range []CrashPoint{
			{Stmt: "DeleteShutterMessage", Nth: i, Mode: DropBefore},
			{Stmt: "DeleteShutterMessage", Nth: i, Mode: DropAfter},
			{Broadcast: i},
		} {
			res, err := RunWithCrash(cfg, cp)
			if err != nil {
				t.Fatal(err)
			}
			checkCrashRun(t, cfg, ref, res, cp.String())
		}
	}
}
