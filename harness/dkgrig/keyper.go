//go:build verif

package dkgrig

import (
	"context"
	"crypto/ecdsa"
	"crypto/ed25519"
	"fmt"
	"reflect"
	"strings"
	"sync"
	"time"

	"github.com/ethereum/go-ethereum/common"
	"github.com/ethereum/go-ethereum/crypto"
	"github.com/jackc/pgx/v4/pgxpool"
	"google.golang.org/protobuf/proto"

	"github.com/shutter-network/shutter/shlib/puredkg"

	"github.com/shutter-network/rolling-shutter/rolling-shutter/keyper/database"
	"github.com/shutter-network/rolling-shutter/rolling-shutter/keyper/fx"
	"github.com/shutter-network/rolling-shutter/rolling-shutter/keyper/kprconfig"
	"github.com/shutter-network/rolling-shutter/rolling-shutter/keyper/smobserver"
	"github.com/shutter-network/rolling-shutter/rolling-shutter/medley/configuration"
	"github.com/shutter-network/rolling-shutter/rolling-shutter/medley/encodeable/keys"
	"github.com/shutter-network/rolling-shutter/rolling-shutter/shdb"
	"github.com/shutter-network/rolling-shutter/rolling-shutter/shmsg"

	"verif/harness/kdb"
	"verif/harness/pgfake"
)

// CrashMode says how the keyper process dies at a crash point.
type CrashMode int

const (
	// DropBefore: the database round trip is not executed, the connection is gone.
	DropBefore CrashMode = iota
	// DropAfter: the round trip is executed (a commit is applied, a statement outside a transaction
	// is committed) but the keyper never learns the result.
	DropAfter
)

func (m CrashMode) String() string {
	if m == DropAfter {
		return "DropAfter"
	}
	return "DropBefore"
}

// CrashPoint selects the instant at which the observed keyper's process dies. Exactly one of the
// three selectors is used, in this order of precedence:
//
//	Broadcast > 0: while the keyper waits in its Broadcast-th BroadcastTxCommit (counting only
//	               transactions CheckTx accepted). The transaction stays in the mempool and is
//	               included later; the outbox row remains. Mode is ignored.
//	Stmt != "":    at the Nth (from 1) database round trip named Stmt: a sqlc query name such as
//	               "DeleteShutterMessage", or "begin", "commit", "rollback".
//	               {Stmt: "DeleteShutterMessage", Mode: DropBefore} is "the chain accepted the
//	               transaction, the outbox row remains".
//	otherwise:     at the Seq-th (from 1) database round trip of that keyper, counted from the start
//	               of the run (the initial row written by database initialisation is not counted).
type CrashPoint struct {
	Seq       int
	Stmt      string
	Nth       int
	Broadcast int
	Mode      CrashMode
}

func (c CrashPoint) String() string {
	switch {
	case c.Broadcast > 0:
		return fmt.Sprintf("in-broadcast#%d", c.Broadcast)
	case c.Stmt != "":
		return fmt.Sprintf("%s#%d/%s", c.Stmt, c.Nth, c.Mode)
	}
	return fmt.Sprintf("seq%d/%s", c.Seq, c.Mode)
}

// RoundTrip is one database round trip of a keyper as seen by the pgfake hook.
type RoundTrip struct {
	Seq         int    // 1, 2, ... over the whole run, across restarts
	Kind        string // stmt begin commit rollback
	Name        string // query name for stmt
	Incarnation int    // 0 for the first process, +1 per restart
	Step        int    // loop iteration (of that incarnation's numbering: global count of started steps)
}

// OutboxRow is a row of tendermint_outgoing_messages.
type OutboxRow struct {
	ID          int32
	Description string
	Msg         []byte
}

// OutboxSnapshot is the committed content of tendermint_outgoing_messages after it changed.
type OutboxSnapshot struct {
	AtRoundTrip int // number of round trips seen when the change was noticed
	Rows        []OutboxRow
}

// SendRecord is one message handed to the chain by the keyper's message sender.
type SendRecord struct {
	N           int // 0, 1, ...: the rig's send counter for this keyper (survives restarts)
	Incarnation int
	Msg         *shmsg.Message // as signed (after the Byzantine rewrite, if any)
	Err         string         // "" if SendMessage reported success
}

// Restart records one death and restart of the keyper process.
type Restart struct {
	AtRoundTrip int
	Step        int
	SyncedTo    int64       // the last committed tendermint_sync_meta.current_block at that time
	ChainHeight int64       // height of the chain at that time
	Crash       *CrashPoint // nil: the step failed on its own
	Err         string      // the error the dying step returned ("" if it returned nil although the connection was dropped)
}

// Trace is what the checks observe about one keyper.
type Trace struct {
	RoundTrips []RoundTrip
	// SyncBlocks are the values of tendermint_sync_meta.current_block in the order in which the rows
	// were committed, starting with the 0 written by database initialisation.
	SyncBlocks []int64
	Outbox     []OutboxSnapshot
	Sends      []SendRecord
	Restarts   []Restart
	Steps      int
	Panics     int // loop bodies that ended in a panic (the process would have died)
	Broadcasts int // BroadcastTxCommit calls that passed CheckTx
	// LastPureDKG is, per eon, the last committed content of the puredkg row (gob of puredkg.PureDKG). The row is
	// deleted when the key generation is finalized, in the transaction of the block whose height shifts the phase
	// and before that block's events are handled, so this is the state ComputeResult ran on.
	LastPureDKG map[int64][]byte
	// PureDKGHistory are all contents the puredkg rows went through, in commit order (consecutive repeats once).
	PureDKGHistory [][]byte
}

// Keyper is one keyper: a database that lives as long as the run, and a process incarnation (pool,
// ShuttermintState, message sender) that is replaced on restart.
type Keyper struct {
	Index           int
	Key             *ecdsa.PrivateKey // signs shuttermint transactions
	Address         common.Address
	EncKey          *ecdsa.PrivateKey // ECIES key announced in the check-in
	ValKey          ed25519.PrivateKey
	Config          *kprconfig.Config
	Srv             *pgfake.Server
	Strategy        *Strategy // nil: honest
	stashedCommit   []outMsg  // EvalFirst: commitment waiting for the evaluations
	unsolicitedSent map[uint64]bool
	straySent       map[uint64]bool

	rig *Rig

	// process incarnation
	pool   *pgxpool.Pool
	state  *smobserver.ShuttermintState
	client *Client
	sender *Sender

	// coroutine state, owned by the driver except where noted
	running bool
	cancel  context.CancelFunc
	yield   chan yieldMsg
	resume  chan struct{}
	waiting *Tx // written by the keyper goroutine before it yields
	killNow bool

	// hook state
	hmu         sync.Mutex
	armed       bool
	dead        bool
	fired       *CrashPoint
	crashes     []CrashPoint
	nameCount   map[string]int
	incarnation int
	seenMeta    int
	lastOutbox  string

	sendCounter        int
	accusationInjected map[uint64]bool

	Trace Trace
}

type yieldMsg struct {
	done    bool
	blocked bool
	err     error
}

func deriveKey(seed uint64, purpose string, i int) *ecdsa.PrivateKey {
	for c := 0; ; c++ {
		k, err := crypto.ToECDSA(crypto.Keccak256([]byte(fmt.Sprintf("verif-dkgrig-%d-%s-%d-%d", seed, purpose, i, c))))
		if err == nil {
			return k
		}
	}
}

func newKeyper(r *Rig, i int) *Keyper {
	seed := r.Cfg.Seed
	k := &Keyper{
		Index:              i,
		rig:                r,
		Key:                deriveKey(seed, "eth", i),
		EncKey:             deriveKey(seed, "ecies", i),
		ValKey:             ed25519.NewKeyFromSeed(crypto.Keccak256([]byte(fmt.Sprintf("verif-dkgrig-%d-val-%d", seed, i)))),
		yield:              make(chan yieldMsg),
		resume:             make(chan struct{}),
		nameCount:          map[string]int{},
		accusationInjected: map[uint64]bool{},
	}
	k.Address = crypto.PubkeyToAddress(k.Key.PublicKey)
	k.Config = &kprconfig.Config{
		InstanceID: 0,
		Ethereum:   &configuration.EthnodeConfig{PrivateKey: &keys.ECDSAPrivate{Key: k.Key}},
		Shuttermint: &kprconfig.ShuttermintConfig{
			ValidatorPublicKey: &keys.Ed25519Public{Key: k.ValKey.Public().(ed25519.PublicKey)},
			EncryptionKey:      &keys.ECDSAPrivate{Key: k.EncKey},
			DKGPhaseLength:     r.Cfg.PhaseLength,
			DKGStartBlockDelta: 200,
		},
	}
	if s, ok := r.Cfg.Byzantine[i]; ok {
		s := s
		k.Strategy = &s
	}
	return k
}

// initDB creates the keyper's database: the freshly migrated tables (kdb.New) plus the row
// keyper/database.KeyperDB.Init writes, through the same generated query.
func (k *Keyper) initDB(ctx context.Context) error {
	k.Srv = pgfake.NewServer(kdb.New())
	k.Srv.Logf = func(format string, args ...interface{}) {
		k.rig.note(fmt.Sprintf("keyper %d pgfake: ", k.Index) + fmt.Sprintf(format, args...))
	}
	kdb.Register(k.Srv)
	pool, err := k.Srv.Pool(ctx, 2)
	if err != nil {
		return err
	}
	defer pool.Close()
	return database.New(pool).TMSetSyncMeta(ctx, database.TMSetSyncMetaParams{
		CurrentBlock:        0,
		LastCommittedHeight: -1,
		SyncTimestamp:       time.Now(),
	})
}

// boot starts a process incarnation over the existing database: what KeyperCore.Start builds for
// operateShuttermint (pool, message sender, ShuttermintState), without touching the database.
func (k *Keyper) boot(ctx context.Context) error {
	pool, err := k.Srv.Pool(ctx, 2)
	if err != nil {
		return err
	}
	k.pool = pool
	k.client = k.rig.Chain.NewClient(fmt.Sprintf("keyper:%d", k.Index))
	k.client.OnBlockResults = func(h int64) { randContext(fmt.Sprintf("k%d/block/%d", k.Index, h)) }
	k.sender = &Sender{k: k, inner: fx.NewRPCMessageSender(k.client, k.Config.Ethereum.PrivateKey.Key)}
	k.state = smobserver.NewShuttermintState(k.Config)
	return nil
}

// arm installs the hook; round trips are counted from here.
func (k *Keyper) arm() {
	k.observe()
	k.hmu.Lock()
	k.armed = true
	k.hmu.Unlock()
	k.Srv.SetHook(k.hook)
}

func (k *Keyper) hook(ev pgfake.Event) pgfake.Action {
	k.hmu.Lock()
	defer k.hmu.Unlock()
	k.observeLocked()
	if k.dead {
		// the process is gone; whatever its dying step still tries has no effect
		return pgfake.DropBefore
	}
	name := ev.Name
	if ev.Kind != "stmt" {
		name = ev.Kind
	}
	seq := len(k.Trace.RoundTrips) + 1
	k.nameCount[name]++
	k.Trace.RoundTrips = append(k.Trace.RoundTrips, RoundTrip{Seq: seq, Kind: ev.Kind, Name: name, Incarnation: k.incarnation, Step: k.Trace.Steps})
	if len(k.crashes) > 0 {
		cp := k.crashes[0]
		hit := false
		switch {
		case cp.Broadcast > 0:
		case cp.Stmt != "":
			hit = cp.Stmt == name && k.nameCount[name] == cp.Nth
		default:
			hit = cp.Seq == seq
		}
		if hit {
			k.crashes = k.crashes[1:]
			k.dead = true
			k.fired = &cp
			if cp.Mode == DropAfter {
				return pgfake.DropAfter
			}
			return pgfake.DropBefore
		}
	}
	return pgfake.Proceed
}

// observe records changes of the committed database content.
func (k *Keyper) observe() {
	k.hmu.Lock()
	defer k.hmu.Unlock()
	k.observeLocked()
}

func (k *Keyper) observeLocked() {
	db, ok := k.Srv.State().(*kdb.DB)
	if !ok || db == nil {
		return
	}
	for ; k.seenMeta < len(db.TendermintSyncMeta); k.seenMeta++ {
		k.Trace.SyncBlocks = append(k.Trace.SyncBlocks, db.TendermintSyncMeta[k.seenMeta].CurrentBlock)
	}
	for _, r := range db.Puredkg {
		if k.Trace.LastPureDKG == nil {
			k.Trace.LastPureDKG = map[int64][]byte{}
		}
		if prev, ok := k.Trace.LastPureDKG[r.Eon]; !ok || string(prev) != string(r.Puredkg) {
			k.Trace.PureDKGHistory = append(k.Trace.PureDKGHistory, append([]byte{}, r.Puredkg...))
		}
		k.Trace.LastPureDKG[r.Eon] = append([]byte{}, r.Puredkg...)
	}
	var fp strings.Builder
	for _, r := range db.TendermintOutgoingMessages {
		fmt.Fprintf(&fp, "%d:%s;", r.ID, r.Description)
	}
	if s := fp.String(); s != k.lastOutbox {
		k.lastOutbox = s
		snap := OutboxSnapshot{AtRoundTrip: len(k.Trace.RoundTrips)}
		for _, r := range db.TendermintOutgoingMessages {
			snap.Rows = append(snap.Rows, OutboxRow{ID: r.ID, Description: r.Description, Msg: append([]byte{}, r.Msg...)})
		}
		k.Trace.Outbox = append(k.Trace.Outbox, snap)
	}
}

// DB returns the committed database content (read-only).
func (k *Keyper) DB() *kdb.DB { return k.Srv.State().(*kdb.DB) }

// stepBody is the body of the loop in KeyperCore.operateShuttermint without the L1 part: no
// blockSyncClient.BlockNumber, no handleOnChainChanges (unexported method of KeyperCore, see the
// package comment), no 2 s sleep.
func (k *Keyper) stepBody(ctx context.Context) error {
	if err := k.syncApp(ctx); err != nil {
		return err
	}
	return fx.SendShutterMessages(ctx, database.New(k.pool), k.sender)
}

// syncApp calls smobserver.SyncAppWithDB with what operateShuttermint hands it. The call goes through reflect so
// that a version of the function that also wants one of the other things the keyper owns (its message sender)
// can still be driven: each parameter gets the first unused value of a fitting type.
func (k *Keyper) syncApp(ctx context.Context) error {
	f := reflect.ValueOf(smobserver.SyncAppWithDB)
	have := []reflect.Value{reflect.ValueOf(ctx), reflect.ValueOf(k.client), reflect.ValueOf(k.pool), reflect.ValueOf(k.state), reflect.ValueOf(k.sender)}
	used := make([]bool, len(have))
	args := []reflect.Value{}
	for i := 0; i < f.Type().NumIn(); i++ {
		found := false
		for j, v := range have {
			if !used[j] && v.IsValid() && v.Type().AssignableTo(f.Type().In(i)) {
				args, used[j], found = append(args, v), true, true
				break
			}
		}
		if !found {
			return fmt.Errorf("dkgrig: nothing to pass for parameter %d (%s) of SyncAppWithDB", i, f.Type().In(i))
		}
	}
	out := f.Call(args)
	if len(out) == 1 && !out[0].IsNil() {
		return out[0].Interface().(error)
	}
	return nil
}

// Step performs exactly one iteration of the loop body, synchronously. A BroadcastTxCommit inside it
// makes a block on the spot (everything pending, arrival order) - there is nobody else to make one.
// Run does not use Step but the coroutine form (Rig.Advance), where the keyper stays blocked in
// BroadcastTxCommit until the driver's block schedule includes its transaction.
func (k *Keyper) Step(ctx context.Context) error {
	if k.running {
		return fmt.Errorf("dkgrig: keyper %d is in the middle of a coroutine step", k.Index)
	}
	k.client.Wait = nil
	k.Trace.Steps++
	err := k.stepBody(ctx)
	k.observe()
	return err
}

// Restart discards the process incarnation and boots a new one over the same database.
func (k *Keyper) Restart(ctx context.Context) error {
	if k.pool != nil {
		k.pool.Close()
	}
	k.hmu.Lock()
	k.dead = false
	k.fired = nil
	k.incarnation++
	k.hmu.Unlock()
	return k.boot(ctx)
}

// wait is Client.Wait in coroutine mode: tell the driver that the keyper is blocked in
// BroadcastTxCommit and sleep until the driver resumes it (the transaction is settled) or kills it.
func (k *Keyper) wait(ctx context.Context, t *Tx) error {
	k.Trace.Broadcasts++
	k.waiting = t
	k.hmu.Lock()
	k.killNow = len(k.crashes) > 0 && k.crashes[0].Broadcast > 0 && k.crashes[0].Broadcast == k.Trace.Broadcasts
	k.hmu.Unlock()
	k.yield <- yieldMsg{blocked: true}
	select {
	case <-k.resume:
		return nil
	case <-ctx.Done():
		return ctx.Err()
	}
}

// dkgOutcome reads the dkg_result row of an eon from the committed database.
func (k *Keyper) dkgOutcome(eon uint64) (finished, success bool, errText string, res *puredkg.Result, decodeErr error) {
	for _, row := range k.DB().DkgResult {
		if row.Eon != int64(eon) {
			continue
		}
		finished, success = true, row.Success
		if row.Error.Valid {
			errText = row.Error.String
		}
		if row.PureResult != nil {
			res, decodeErr = shdb.DecodePureDKGResult(row.PureResult)
		}
	}
	return
}

// Sender is the keyper's fx.MessageSender: the real fx.RPCMessageSender behind a shim that numbers
// the sends (for the deterministic nonce), records them, and applies the Byzantine strategy.
type Sender struct {
	k     *Keyper
	inner fx.RPCMessageSender
}

var _ fx.MessageSender = (*Sender)(nil)

func (s *Sender) SendMessage(ctx context.Context, msg *shmsg.Message) error {
	k := s.k
	outs := []outMsg{{msg: msg}}
	if k.Strategy != nil {
		outs = k.rig.mutate(k, msg)
	}
	for _, o := range outs {
		if o.hold {
			k.rig.hold(k, o.msg)
			continue
		}
		if o.edge {
			k.rig.holdEdge(k, o.msg)
			continue
		}
		n := k.sendCounter
		k.sendCounter++
		randContext(fmt.Sprintf("k%d/send/%d", k.Index, n))
		err := s.inner.SendMessage(ctx, o.msg)
		rec := SendRecord{N: n, Incarnation: k.incarnation, Msg: proto.Clone(o.msg).(*shmsg.Message)}
		if err != nil {
			rec.Err = err.Error()
		}
		k.Trace.Sends = append(k.Trace.Sends, rec)
		if err != nil {
			return err
		}
	}
	return nil
}
