//go:build verif

// Package dkgrig runs complete distributed key generations of n keypers over shuttermint in one
// process: the real shuttermint application (app.ShutterApp) behind an in-process chain, and for every
// keyper the real loop body of KeyperCore.operateShuttermint (smobserver.SyncAppWithDB, then
// fx.SendShutterMessages with the real fx.RPCMessageSender) over its own pgfake/kdb database.
//
// It is the infrastructure for two checks: agreement of honest keypers on the eon key in the presence
// of scripted Byzantine keypers (Strategy), and crash safety of one observed keyper (CrashPoint).
//
// # What is real and what is not
//
// Real: the application, the event encoding, ShuttermintState with puredkg, the outbox
// (tendermint_outgoing_messages) and its sender, message signing, CheckTx/DeliverTx.
//
// Not real:
//   - tendermint itself. Chain makes a block when told to, with the transactions it is told to
//     include (Config.Schedule); CheckTx runs on arrival and again for the rest of the mempool after
//     every commit. There are no validators, votes, timeouts or peers.
//   - the L1 side. KeyperCore.handleOnChainChanges is an unexported method of a struct with unexported
//     fields and cannot be called from here, so the two kinds of message it produces are signed with
//     the keypers' keys by the rig and put into the mempool directly: BlockSeen (before block 1) and
//     the BatchConfig votes for keyper config index 1 (they land in block Config.VoteHeight, which
//     starts the eon). These messages therefore do not pass through the keypers' outboxes.
//   - process start. KeyperCore.Start validates the schema version and links the config address to the
//     database (meta_inf table) before it builds pool, sender and state; kdb has no meta_inf, so a
//     restart here performs no database round trips of its own.
//   - time. The 2 s sleep between loop iterations is gone; one round = every keyper advances once,
//     then one block is made.
//
// # Concurrency model
//
// BroadcastTxCommit blocks until the transaction is in a block. In Run every keyper step runs on its
// own goroutine, but only one goroutine runs at any time: the driver starts or resumes a keyper and
// waits until it finishes the step or blocks in BroadcastTxCommit; then the next keyper; then a block
// is made and the keypers whose transaction was included become resumable. The interleaving is
// therefore deterministic and is determined by Config.Order and Config.Schedule.
package dkgrig

import (
	"context"
	"crypto/ed25519"
	"fmt"
	"sort"
	"strings"
	"time"

	"github.com/ethereum/go-ethereum/common"
	"github.com/rs/zerolog"

	"github.com/shutter-network/shutter/shlib/puredkg"

	"github.com/shutter-network/rolling-shutter/rolling-shutter/keyper/shutterevents"
	"github.com/shutter-network/rolling-shutter/rolling-shutter/shmsg"
)

// Config describes one run.
type Config struct {
	N int // number of keypers
	T int // threshold of the keyper config whose eon key is generated

	Seed uint64
	// SystemRandom leaves crypto/rand alone (polynomials, ECIES and nonces are then not reproducible).
	SystemRandom bool

	// PhaseLength is the keypers' DKGPhaseLength in shuttermint blocks (default 8; the keyper's
	// default configuration has 30). Messages need 3 blocks from cause to effect (see Run), so
	// lengths below 5 make even honest keypers miss phases.
	PhaseLength int64
	// VoteHeight is the height of the block that carries the batch config votes, i.e. the start
	// height of the eon (default 6: by then the check-ins caused by block 1 are on chain).
	VoteHeight int64
	// MaxBlocks ends the run (default VoteHeight + 3*PhaseLength + 24).
	MaxBlocks int64
	// ActivationBlock is the L1 activation block number of keyper config 1 (default 10).
	ActivationBlock uint64
	// GenesisThreshold is the threshold of the bootstrap config 0 (default (2N+2)/3 as `chain init`).
	GenesisThreshold int
	InitialEon       uint64
	ChainID          string // default "shutter-verif-dkgrig"
	DevMode          bool

	// Byzantine marks keypers (by index) whose outgoing messages are rewritten.
	Byzantine map[int]Strategy

	// Schedule selects the transactions of each block; nil: everything pending, in arrival order.
	Schedule Selector
	// Order gives the order in which keypers advance in a round; nil: 0..N-1.
	Order func(round, n int) []int

	// Observed is the keyper the crash points refer to.
	Observed int
	Crashes  []CrashPoint

	// Retry makes the run about the second key generation of the keyper config (the first one is expected to
	// fail and be restarted by shuttermint): outcomes, agreement and termination refer to that eon.
	Retry bool

	// HoldCheckIn[i] = h: keyper i's check-in is not included in a block before height h (a keyper that comes up
	// late; the others cannot encrypt their evaluations for it until then).
	HoldCheckIn map[int]int64

	// ExtraRounds are run after every keyper has recorded its DKG outcome and emptied its outbox
	// (default 0).
	ExtraRounds int
}

func (c *Config) defaults() error {
	if c.N < 1 {
		return fmt.Errorf("dkgrig: N must be at least 1")
	}
	if c.T < 1 || c.T > c.N {
		return fmt.Errorf("dkgrig: threshold %d out of range for %d keypers", c.T, c.N)
	}
	if c.PhaseLength == 0 {
		c.PhaseLength = 8
	}
	if c.VoteHeight == 0 {
		c.VoteHeight = 6
	}
	if c.VoteHeight < 2 {
		return fmt.Errorf("dkgrig: VoteHeight must be at least 2")
	}
	if c.MaxBlocks == 0 {
		c.MaxBlocks = c.VoteHeight + 3*c.PhaseLength + 24
	}
	if c.ActivationBlock == 0 {
		c.ActivationBlock = 10
	}
	if c.GenesisThreshold == 0 {
		c.GenesisThreshold = (2*c.N + 2) / 3
	}
	if c.ChainID == "" {
		c.ChainID = "shutter-verif-dkgrig"
	}
	if c.Observed < 0 || c.Observed >= c.N {
		return fmt.Errorf("dkgrig: observed keyper %d out of range", c.Observed)
	}
	for i := range c.Byzantine {
		if i < 0 || i >= c.N {
			return fmt.Errorf("dkgrig: byzantine keyper %d out of range", i)
		}
	}
	return nil
}

// Rig is one run in progress.
type Rig struct {
	Cfg     Config
	Chain   *Chain
	Keypers []*Keyper
	// EonStart maps an eon to the height of the block with its EonStarted event.
	EonStart map[uint64]int64
	// Notes collects diagnostics (pgfake complaints about unsupported SQL etc.); a clean run has none.
	Notes []string

	ctx         context.Context
	round       int
	held        []*heldTx
	rigNonce    uint64
	scanned     int64
	voted       bool
	restoreRand func()
	closed      bool
	started     time.Time
}

func (r *Rig) note(s string) { r.Notes = append(r.Notes, s) }

func (r *Rig) indexOf(a common.Address) int {
	for i, k := range r.Keypers {
		if k.Address == a {
			return i
		}
	}
	return -1
}

// signAs signs a message with keyper i's key the way fx.RPCMessageSender does, with a nonce from a
// range the deterministic reader does not produce by accident (top four bits set).
func (r *Rig) signAs(i int, m *shmsg.Message) []byte {
	r.rigNonce++
	mwn := &shmsg.MessageWithNonce{ChainId: []byte(r.Cfg.ChainID), RandomNonce: 0xF<<60 | r.rigNonce, Msg: m}
	signed, err := shmsg.SignMessage(mwn, r.Keypers[i].Key)
	if err != nil {
		panic(err)
	}
	return []byte(b64(signed))
}

// New builds chain and keypers. It takes the process-wide run lock and (unless Config.SystemRandom)
// replaces crypto/rand.Reader; Close undoes both.
func New(cfg Config) (*Rig, error) {
	if err := cfg.defaults(); err != nil {
		return nil, err
	}
	runMu.Lock()
	r := &Rig{Cfg: cfg, EonStart: map[uint64]int64{}, ctx: context.Background(), started: time.Now()}
	if !cfg.SystemRandom {
		_, r.restoreRand = installRand(cfg.Seed)
	}
	for i := 0; i < cfg.N; i++ {
		r.Keypers = append(r.Keypers, newKeyper(r, i))
	}
	g := Genesis{ChainID: cfg.ChainID, Threshold: cfg.GenesisThreshold, InitialEon: cfg.InitialEon, DevMode: cfg.DevMode}
	for _, k := range r.Keypers {
		g.Keypers = append(g.Keypers, k.Address)
		g.Validators = append(g.Validators, k.ValKey.Public().(ed25519.PublicKey))
	}
	r.Chain = NewChain(g)
	for _, k := range r.Keypers {
		if err := k.initDB(r.ctx); err != nil {
			r.Close()
			return nil, err
		}
		if err := k.boot(r.ctx); err != nil {
			r.Close()
			return nil, err
		}
		if k.Index == cfg.Observed {
			k.crashes = append([]CrashPoint{}, cfg.Crashes...)
		}
		k.arm()
	}
	// What handleOnChainChanges/sendNewBlockSeen would send once the keypers' L1 nodes are past the
	// activation block: it starts config 0 at the end of block 1 and config 1 as soon as it exists.
	for i := range r.Keypers {
		r.Chain.Submit(r.signAs(i, shmsg.NewBlockSeen(cfg.ActivationBlock)), "rig:bootstrap")
	}
	return r, nil
}

// Close ends the run: kills keypers that are still blocked, closes pools and servers, restores
// crypto/rand and releases the run lock.
func (r *Rig) Close() {
	if r.closed {
		return
	}
	r.closed = true
	for _, k := range r.Keypers {
		if k.running {
			k.cancel()
			<-k.yield
			k.running = false
		}
		if k.pool != nil {
			k.pool.Close()
		}
		if k.Srv != nil {
			k.Srv.SetHook(nil)
			k.Srv.Close()
		}
	}
	if r.restoreRand != nil {
		r.restoreRand()
	}
	runMu.Unlock()
}

// Advance lets keyper k run until it has finished its current loop iteration or blocks in
// BroadcastTxCommit: it starts a new iteration if none is in progress, resumes a blocked one if its
// transaction has been settled, and does nothing if it has not. A step that ends with an error, or
// during which a crash point fired, is followed by a restart.
func (r *Rig) Advance(k *Keyper) {
	if !k.running {
		ctx, cancel := context.WithCancel(r.ctx)
		k.cancel = cancel
		k.running = true
		k.client.Wait = k.wait
		k.Trace.Steps++
		go func() {
			// a panic in the keyper's loop body ends the process; the supervisor starts it again (Restart below)
			var err error
			defer func() {
				if rec := recover(); rec != nil {
					err = fmt.Errorf("keyper process died: panic: %v", rec)
					k.Trace.Panics++
				}
				k.yield <- yieldMsg{done: true, err: err}
			}()
			err = k.stepBody(ctx)
		}()
	} else {
		if k.waiting == nil || !k.waiting.Settled() {
			return
		}
		k.resume <- struct{}{}
	}
	m := <-k.yield
	k.observe()
	var killed *CrashPoint
	if m.blocked {
		if !k.killNow {
			return
		}
		// the process dies while it waits for its transaction
		k.hmu.Lock()
		cp := k.crashes[0]
		k.crashes = k.crashes[1:]
		k.dead = true
		k.hmu.Unlock()
		killed = &cp
		k.killNow = false
		k.cancel()
		m = <-k.yield
	}
	k.running = false
	k.waiting = nil
	k.cancel()
	k.hmu.Lock()
	fired := k.fired
	k.hmu.Unlock()
	if killed != nil {
		fired = killed
	}
	if m.err == nil && fired == nil {
		return
	}
	rs := Restart{AtRoundTrip: len(k.Trace.RoundTrips), Step: k.Trace.Steps, Crash: fired, ChainHeight: r.Chain.Height()}
	if n := len(k.Trace.SyncBlocks); n > 0 {
		rs.SyncedTo = k.Trace.SyncBlocks[n-1]
	}
	if m.err != nil {
		rs.Err = m.err.Error()
	}
	k.Trace.Restarts = append(k.Trace.Restarts, rs)
	if err := k.Restart(r.ctx); err != nil {
		r.note(fmt.Sprintf("keyper %d: restart failed: %v", k.Index, err))
	}
	k.observe()
}

// scanEvents records the start heights of eons from the blocks made since the last call.
func (r *Rig) scanEvents() {
	for h := r.scanned + 1; h <= r.Chain.Height(); h++ {
		b := r.Chain.Block(h)
		for _, t := range b.Txs {
			for _, ev := range t.Deliver.Events {
				x, err := shutterevents.MakeEvent(ev, h)
				if err != nil {
					continue
				}
				if es, ok := x.(*shutterevents.EonStarted); ok {
					r.EonStart[es.Eon] = h
				}
			}
		}
		r.scanned = h
	}
}

// Tick puts the rig's own transactions for the block at height next into the mempool: the batch
// config votes (what handleOnChainKeyperSetChanges would schedule) and whatever the Byzantine
// keypers' strategies release now.
func (r *Rig) Tick(next int64) {
	if next >= r.Cfg.VoteHeight && !r.voted {
		r.voted = true
		var addrs []common.Address
		for _, k := range r.Keypers {
			addrs = append(addrs, k.Address)
		}
		for i := range r.Keypers {
			m := shmsg.NewBatchConfig(r.Cfg.ActivationBlock, addrs, uint64(r.Cfg.T), 1)
			r.Chain.Submit(r.signAs(i, m), "rig:bootstrap")
		}
	}
	r.byzTick(next)
}

// Round advances every keyper once (Config.Order), then makes one block (Config.Schedule).
func (r *Rig) Round() *Block {
	order := make([]int, r.Cfg.N)
	for i := range order {
		order[i] = i
	}
	if r.Cfg.Order != nil {
		order = r.Cfg.Order(r.round, r.Cfg.N)
	}
	for _, i := range order {
		r.Advance(r.Keypers[i])
	}
	r.Tick(r.Chain.Height() + 1)
	sel := r.Cfg.Schedule
	if len(r.Cfg.HoldCheckIn) > 0 {
		inner := sel
		sel = func(height int64, pending []*Tx) []*Tx {
			keep := []*Tx{}
			for _, t := range pending {
				if h, held := r.Cfg.HoldCheckIn[t.SignerIndex]; held && t.Kind == "checkin" && height < h {
					continue
				}
				keep = append(keep, t)
			}
			if inner != nil {
				return inner(height, keep)
			}
			return keep
		}
	}
	// the proposer is free in the order of a block: a stray evaluation of a Byzantine keyper goes in front
	{
		inner := sel
		sel = func(height int64, pending []*Tx) []*Tx {
			if inner != nil {
				pending = inner(height, pending)
			}
			front, rest := []*Tx{}, []*Tx{}
			strayOf := map[int]bool{}
			for _, t := range pending {
				if strings.HasSuffix(t.Origin, ":stray-eval") {
					strayOf[t.SignerIndex] = true
				}
			}
			if len(strayOf) == 0 {
				return pending
			}
			// first the Byzantine keyper's own apologies, then its stray evaluation, then everybody else's messages
			for _, t := range pending {
				if strayOf[t.SignerIndex] && t.Kind == "apology" {
					front = append(front, t)
				}
			}
			for _, t := range pending {
				switch {
				case strings.HasSuffix(t.Origin, ":stray-eval"):
					front = append(front, t)
				case strayOf[t.SignerIndex] && t.Kind == "apology":
				default:
					rest = append(rest, t)
				}
			}
			return append(front, rest...)
		}
	}
	b := r.Chain.MakeBlock(sel)
	r.scanEvents()
	r.round++
	return b
}

// Eon is the eon whose key generation the run is about: the first one started.
func (r *Rig) Eon() (uint64, bool) {
	eons := []uint64{}
	for e := range r.EonStart {
		eons = append(eons, e)
	}
	if len(eons) == 0 {
		return 0, false
	}
	sort.Slice(eons, func(i, j int) bool { return eons[i] < eons[j] })
	if r.Cfg.Retry {
		if len(eons) < 2 {
			return eons[0], false
		}
		return eons[1], true
	}
	return eons[0], true
}

func (r *Rig) allFinished() bool {
	eon, ok := r.Eon()
	if !ok {
		return false
	}
	for _, k := range r.Keypers {
		if fin, _, _, _, _ := k.dkgOutcome(eon); !fin {
			return false
		}
		if k.running || len(k.DB().TendermintOutgoingMessages) > 0 {
			return false
		}
	}
	return true
}

// KeyperResult is the outcome for one keyper.
type KeyperResult struct {
	Index     int
	Address   common.Address
	Byzantine bool
	Finished  bool   // a dkg_result row for the eon exists
	Success   bool   // its success column
	Error     string // its error column
	// Result is the decoded pure_result column (nil unless Success).
	Result    *puredkg.Result
	DecodeErr string
	Trace     *Trace
}

// RunResult is what Run returns.
type RunResult struct {
	Cfg            Config
	Eon            uint64
	EonStarted     bool
	EonStartHeight int64
	Keypers        []KeyperResult
	Blocks         []*Block
	Rejected       []*Tx // refused by CheckTx or evicted by a recheck
	StillPending   []*Tx
	PolyCommits    []PolyCommitmentTx
	Height         int64
	Rounds         int
	AllFinished    bool
	Notes          []string
	Elapsed        time.Duration
}

// Result collects the outcome so far.
func (r *Rig) Result() *RunResult {
	res := &RunResult{Cfg: r.Cfg, Blocks: r.Chain.Blocks(), Rejected: r.Chain.Rejected(), StillPending: r.Chain.Pending(),
		PolyCommits: r.Chain.PolyCommitments(), Height: r.Chain.Height(), Rounds: r.round, AllFinished: r.allFinished(),
		Notes: append([]string{}, r.Notes...), Elapsed: time.Since(r.started)}
	res.Eon, res.EonStarted = r.Eon()
	res.EonStartHeight = r.EonStart[res.Eon]
	for _, k := range r.Keypers {
		k.observe()
		kr := KeyperResult{Index: k.Index, Address: k.Address, Byzantine: k.Strategy != nil && !k.Strategy.Faithful}
		if res.EonStarted {
			var derr error
			kr.Finished, kr.Success, kr.Error, kr.Result, derr = k.dkgOutcome(res.Eon)
			if derr != nil {
				kr.DecodeErr = derr.Error()
			}
		}
		tr := k.Trace
		kr.Trace = &tr
		res.Keypers = append(res.Keypers, kr)
	}
	return res
}

// Run performs rounds until every keyper has recorded the outcome of the eon's key generation and
// sent everything in its outbox, or Config.MaxBlocks is reached.
//
// Timing, for choosing PhaseLength: a transaction in block h is seen by a keyper once the chain is at
// h+2 (SyncAppWithDB handles blocks below the latest block's LastCommit height), the keyper's answer
// is broadcast in the same step and lands in block h+3.
func (r *Rig) Run() *RunResult {
	extra := r.Cfg.ExtraRounds
	for r.Chain.Height() < r.Cfg.MaxBlocks {
		r.Round()
		if r.allFinished() {
			if extra == 0 {
				break
			}
			extra--
		}
	}
	return r.Result()
}

// Run builds a rig, runs it and closes it.
func Run(cfg Config) (*RunResult, error) {
	r, err := New(cfg)
	if err != nil {
		return nil, err
	}
	defer r.Close()
	return r.Run(), nil
}

// RunWithCrash is Run with crash points for the observed keyper (applied in the given order: the
// second one is armed once the first has fired).
func RunWithCrash(cfg Config, cps ...CrashPoint) (*RunResult, error) {
	cfg.Crashes = append([]CrashPoint{}, cps...)
	return Run(cfg)
}

// CountRoundTrips performs a fault-free run and returns the number of database round trips of the
// observed keyper, i.e. the number of Seq crash points (times two modes), together with that run.
func CountRoundTrips(cfg Config) (int, *RunResult, error) {
	cfg.Crashes = nil
	res, err := Run(cfg)
	if err != nil {
		return 0, nil, err
	}
	return len(res.Keypers[cfg.Observed].Trace.RoundTrips), res, nil
}

// MuteLogs silences zerolog (the repository logs through the global logger).
func MuteLogs() { zerolog.SetGlobalLevel(zerolog.Disabled) }
