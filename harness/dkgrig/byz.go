//go:build verif

package dkgrig

import (
	crand "crypto/rand"
	"fmt"
	"math/big"
	"strings"

	"github.com/ethereum/go-ethereum/common"
	"github.com/ethereum/go-ethereum/crypto/ecies"
	"google.golang.org/protobuf/proto"

	"github.com/shutter-network/shutter/shlib/shcrypto"

	"github.com/shutter-network/rolling-shutter/rolling-shutter/shmsg"

	"verif/harness/hx"
)

// A Byzantine keyper runs the honest code (so that it produces well-formed messages and follows the
// phases) and the rig rewrites what it sends: the Strategy is applied to every outgoing shuttermint
// message of that keyper between the outbox and the signature.

// EvalMode says what the Byzantine keyper sends to one receiver as polynomial evaluation.
type EvalMode int

const (
	EvalCorrect EvalMode = iota // as computed
	EvalWrong                   // a well-formed value that does not match the commitment (value + 1), encrypted to the receiver
	EvalOmit                    // nothing for this receiver
)

// CommitMode says what happens to the polynomial commitment.
type CommitMode int

const (
	CommitCorrect    CommitMode = iota
	CommitOmit                  // never sent
	CommitTooFew                // last gamma dropped (degree too small)
	CommitTooMany               // one valid point appended (degree too large)
	CommitTwice                 // the same commitment in two transactions
	CommitEquivocate            // the commitment, then a different well-formed commitment for the same eon
	numCommitModes
)

// ApologyMode says how the Byzantine keyper answers an accusation of one accuser.
type ApologyMode int

const (
	ApologyCorrect ApologyMode = iota // reveals the true evaluation
	ApologyWrong                      // reveals value + 1
	ApologyOmit                       // no apology towards this accuser
)

// Strategy is the behaviour of one Byzantine keyper. The slices are indexed by keyper index; the
// entry at the Byzantine keyper's own index is ignored.
type Strategy struct {
	Eval    []EvalMode
	Commit  CommitMode
	Accuse  []bool        // true: accuse keyper j although it dealt correctly
	Apology []ApologyMode // towards accuser j (only matters if j accuses)
	// Late*: the transaction is signed by the rig and held back until its phase is over; it lands in
	// the first block of the following phase (commitment and evaluations: first block of the accusing
	// phase; accusation: first block of the apologizing phase; apology: first block after finalization).
	LateCommit, LateEval, LateAccusation, LateApology bool
	// Edge*: the transaction is signed by the rig and lands in the last block of its phase (still in
	// phase). Late* wins if both are set.
	EdgeCommit, EdgeEval, EdgeAccusation, EdgeApology bool
	// Unsolicited[j]: in the apologizing phase the keyper sends an apology naming keyper j as accuser, with a value
	// that does not verify, although j never accused it (the chain accepts such a message).
	Unsolicited []bool
	// Stray[j]: in the apologizing phase (StrayOffset blocks into it; 0 means 3) the keyper sends keyper j a private
	// polynomial evaluation — far too late; it only reaches j as an event if nothing was sent to j in phase
	// (Eval[j] = EvalOmit), the chain refuses a second one.
	Stray       []bool
	StrayOffset int64
	// OnlyFirstEon: the deviations apply to the first key generation only; later ones are left alone.
	OnlyFirstEon bool
	// EvalFirst puts the polynomial evaluations on the chain before the commitment (same block or
	// earlier), which the honest sender never does.
	EvalFirst bool
	// Faithful marks a keyper whose messages are unchanged and all land within their phases: only the
	// Edge* placements may be set. Such a keyper counts as honest.
	Faithful bool
}

// FaithfulStrategy is an honest keyper whose messages are placed at the end of their phases.
func FaithfulStrategy(n int, commit, eval, accusation, apology bool) Strategy {
	s := HonestStrategy(n)
	s.Faithful = true
	s.EdgeCommit, s.EdgeEval, s.EdgeAccusation, s.EdgeApology = commit, eval, accusation, apology
	return s
}

// HonestStrategy is the strategy that changes nothing.
func HonestStrategy(n int) Strategy {
	return Strategy{Eval: make([]EvalMode, n), Accuse: make([]bool, n), Apology: make([]ApologyMode, n)}
}

func (s Strategy) String() string {
	var b strings.Builder
	b.WriteString("eval=")
	for _, e := range s.Eval {
		b.WriteByte("cwo"[e])
	}
	fmt.Fprintf(&b, " commit=%s accuse=", [...]string{"correct", "omit", "toofew", "toomany", "twice", "equivocate"}[s.Commit])
	for _, a := range s.Accuse {
		if a {
			b.WriteByte('1')
		} else {
			b.WriteByte('0')
		}
	}
	b.WriteString(" apology=")
	for _, a := range s.Apology {
		b.WriteByte("cwo"[a])
	}
	b.WriteString(" late=")
	for _, l := range []bool{s.LateCommit, s.LateEval, s.LateAccusation, s.LateApology} {
		if l {
			b.WriteByte('1')
		} else {
			b.WriteByte('0')
		}
	}
	b.WriteString(" edge=")
	for _, l := range []bool{s.EdgeCommit, s.EdgeEval, s.EdgeAccusation, s.EdgeApology} {
		if l {
			b.WriteByte('1')
		} else {
			b.WriteByte('0')
		}
	}
	if s.EvalFirst {
		b.WriteString(" evalfirst")
	}
	for j, u := range s.Unsolicited {
		if u {
			fmt.Fprintf(&b, " unsolicited-apology->%d", j)
		}
	}
	for j, u := range s.Stray {
		if u {
			fmt.Fprintf(&b, " stray-eval->%d@+%d", j, s.strayOffset())
		}
	}
	if s.Faithful {
		b.WriteString(" faithful")
	}
	return b.String()
}

// NumStrategies is the size of the product alphabet: 3^(n-1) evaluation vectors x 6 commitment modes
// x 2^(n-1) accusation vectors x 3^(n-1) apology vectors x 2^4 timings (n=3: 31104).
func NumStrategies(n int) int {
	p := 1
	for i := 0; i < n-1; i++ {
		p *= 3 * 2 * 3
	}
	return p * int(numCommitModes) * 16
}

// EnumerateStrategiesFunc calls yield for every strategy of the product alphabet until it returns false.
func EnumerateStrategiesFunc(n, byzIndex int, yield func(Strategy) bool) {
	others := []int{}
	for j := 0; j < n; j++ {
		if j != byzIndex {
			others = append(others, j)
		}
	}
	m := len(others)
	pow := func(b, e int) int {
		p := 1
		for i := 0; i < e; i++ {
			p *= b
		}
		return p
	}
	for ev := 0; ev < pow(3, m); ev++ {
		for cm := 0; cm < int(numCommitModes); cm++ {
			for ac := 0; ac < pow(2, m); ac++ {
				for ap := 0; ap < pow(3, m); ap++ {
					for tm := 0; tm < 16; tm++ {
						s := HonestStrategy(n)
						e, a, p := ev, ac, ap
						for _, j := range others {
							s.Eval[j] = EvalMode(e % 3)
							e /= 3
							s.Accuse[j] = a%2 == 1
							a /= 2
							s.Apology[j] = ApologyMode(p % 3)
							p /= 3
						}
						s.Commit = CommitMode(cm)
						s.LateCommit, s.LateEval, s.LateAccusation, s.LateApology = tm&1 != 0, tm&2 != 0, tm&4 != 0, tm&8 != 0
						if !yield(s) {
							return
						}
					}
				}
			}
		}
	}
}

// EnumerateStrategies returns the full product alphabet (use for n = 3; see NumStrategies).
func EnumerateStrategies(n, byzIndex int) []Strategy {
	out := make([]Strategy, 0, NumStrategies(n))
	EnumerateStrategiesFunc(n, byzIndex, func(s Strategy) bool {
		out = append(out, s)
		return true
	})
	return out
}

// RandomStrategy draws one strategy; deviations are chosen with moderate probability so that most
// strategies combine a few of them.
func RandomStrategy(r *hx.Rand, n, byzIndex int) Strategy {
	s := HonestStrategy(n)
	for j := 0; j < n; j++ {
		if j == byzIndex {
			continue
		}
		if r.Chance(40) {
			s.Eval[j] = EvalMode(1 + r.Intn(2))
		}
		s.Accuse[j] = r.Chance(25)
		if r.Chance(50) {
			s.Apology[j] = ApologyMode(1 + r.Intn(2))
		}
	}
	if r.Chance(40) {
		s.Commit = CommitMode(1 + r.Intn(int(numCommitModes)-1))
	}
	s.LateCommit, s.LateEval, s.LateAccusation, s.LateApology = r.Chance(15), r.Chance(15), r.Chance(15), r.Chance(15)
	s.EdgeCommit, s.EdgeEval, s.EdgeAccusation, s.EdgeApology = r.Chance(15), r.Chance(15), r.Chance(15), r.Chance(15)
	s.EvalFirst = r.Chance(30)
	if r.Chance(25) {
		s.Unsolicited = make([]bool, n)
		for j := 0; j < n; j++ {
			s.Unsolicited[j] = j != byzIndex && r.Chance(50)
		}
	}
	if r.Chance(25) {
		s.Stray = make([]bool, n)
		s.StrayOffset = int64(1 + r.Intn(5))
		for j := 0; j < n; j++ {
			if j != byzIndex && r.Chance(50) {
				s.Stray[j] = true
				s.Eval[j] = EvalOmit
			}
		}
	}
	return s
}

func (s Strategy) strayOffset() int64 {
	if s.StrayOffset > 0 {
		return s.StrayOffset
	}
	return 3
}

// outMsg is one message to be put on the chain in place of an original one.
type outMsg struct {
	msg  *shmsg.Message
	hold bool // sign it in the rig and release it after its phase
	edge bool // sign it in the rig and release it into the last block of its phase
}

func bumpBytes(b []byte) []byte {
	return new(big.Int).Add(new(big.Int).SetBytes(b), big.NewInt(1)).Bytes()
}

// mutate applies the strategy of Byzantine keyper k to one outgoing message and returns what is sent
// instead (possibly nothing).
func (r *Rig) mutate(k *Keyper, msg *shmsg.Message) []outMsg {
	s := k.Strategy
	msg = proto.Clone(msg).(*shmsg.Message)
	if s.OnlyFirstEon {
		first, any := uint64(0), false
		for e := range r.EonStart {
			if !any || e < first {
				first, any = e, true
			}
		}
		if any && eonOf(msg) != first {
			return []outMsg{{msg, false, false}}
		}
	}
	switch {
	case msg.GetPolyCommitment() != nil:
		pc := msg.GetPolyCommitment()
		switch s.Commit {
		case CommitOmit:
			return nil
		case CommitTooFew:
			if len(pc.Gammas) > 0 {
				pc.Gammas = pc.Gammas[:len(pc.Gammas)-1]
			}
		case CommitTooMany:
			pc.Gammas = append(pc.Gammas, append([]byte{}, pc.Gammas[0]...))
		case CommitTwice:
			return r.commitOut(k, []outMsg{{msg, s.LateCommit, s.EdgeCommit}, {proto.Clone(msg).(*shmsg.Message), s.LateCommit, s.EdgeCommit}})
		case CommitEquivocate:
			coeffs := []*big.Int{}
			for i := range pc.Gammas {
				coeffs = append(coeffs, big.NewInt(int64(i+2)))
			}
			poly, err := shcrypto.NewPolynomial(coeffs)
			if err != nil {
				panic(err)
			}
			return r.commitOut(k, []outMsg{{msg, s.LateCommit, s.EdgeCommit}, {shmsg.NewPolyCommitment(pc.Eon, poly.Gammas()), s.LateCommit, s.EdgeCommit}})
		}
		return r.commitOut(k, []outMsg{{msg, s.LateCommit, s.EdgeCommit}})

	case msg.GetPolyEval() != nil:
		pe := msg.GetPolyEval()
		var recv, evals [][]byte
		for i, rb := range pe.Receivers {
			j := r.indexOf(common.BytesToAddress(rb))
			mode := EvalCorrect
			if j >= 0 && j < len(s.Eval) {
				mode = s.Eval[j]
			}
			switch mode {
			case EvalOmit:
				continue
			case EvalWrong:
				// the rig knows every keyper's ECIES key: decrypt, change, encrypt again
				priv := ecies.ImportECDSA(r.Keypers[j].EncKey)
				plain, err := priv.Decrypt(pe.EncryptedEvals[i], nil, nil)
				if err != nil {
					panic(fmt.Sprintf("dkgrig: cannot decrypt poly eval of byzantine keyper: %v", err))
				}
				ct, err := ecies.Encrypt(crand.Reader, &priv.PublicKey, bumpBytes(plain), nil, nil)
				if err != nil {
					panic(err)
				}
				recv, evals = append(recv, rb), append(evals, ct)
			default:
				recv, evals = append(recv, rb), append(evals, pe.EncryptedEvals[i])
			}
		}
		stash := k.stashedCommit
		k.stashedCommit = nil
		if len(recv) == 0 {
			return stash
		}
		pe.Receivers, pe.EncryptedEvals = recv, evals
		for i := range stash {
			// the commitment is not to overtake the evaluations
			stash[i].hold = stash[i].hold || s.LateEval
			stash[i].edge = stash[i].edge || s.EdgeEval
		}
		return append([]outMsg{{msg, s.LateEval, s.EdgeEval}}, stash...)

	case msg.GetAccusation() != nil:
		acc := msg.GetAccusation()
		have := map[common.Address]bool{}
		for _, a := range acc.Accused {
			have[common.BytesToAddress(a)] = true
		}
		for j, f := range s.Accuse {
			if f && j != k.Index && !have[r.Keypers[j].Address] {
				acc.Accused = append(acc.Accused, r.Keypers[j].Address.Bytes())
			}
		}
		if k.accusationInjected[acc.Eon] {
			return nil // the rig already sent the (false) accusation of this eon on its own
		}
		k.accusationInjected[acc.Eon] = true
		return []outMsg{{msg, s.LateAccusation, s.EdgeAccusation}}

	case msg.GetApology() != nil:
		ap := msg.GetApology()
		var accusers, evals [][]byte
		for i, ab := range ap.Accusers {
			j := r.indexOf(common.BytesToAddress(ab))
			mode := ApologyCorrect
			if j >= 0 && j < len(s.Apology) {
				mode = s.Apology[j]
			}
			switch mode {
			case ApologyOmit:
				continue
			case ApologyWrong:
				accusers, evals = append(accusers, ab), append(evals, bumpBytes(ap.PolyEvals[i]))
			default:
				accusers, evals = append(accusers, ab), append(evals, ap.PolyEvals[i])
			}
		}
		if len(accusers) == 0 {
			return nil
		}
		ap.Accusers, ap.PolyEvals = accusers, evals
		return []outMsg{{msg, s.LateApology, s.EdgeApology}}
	}
	return []outMsg{{msg, false, false}}
}

// commitOut sends the commitment now, or with EvalFirst keeps it until the evaluations have gone out.
func (r *Rig) commitOut(k *Keyper, outs []outMsg) []outMsg {
	if k.Strategy.EvalFirst {
		k.stashedCommit = append(k.stashedCommit, outs...)
		return nil
	}
	return outs
}

// falseAccused lists the addresses the strategy accuses falsely.
func (r *Rig) falseAccused(k *Keyper) []common.Address {
	var out []common.Address
	if k.Strategy == nil {
		return nil
	}
	for j, f := range k.Strategy.Accuse {
		if f && j != k.Index && j < len(r.Keypers) {
			out = append(out, r.Keypers[j].Address)
		}
	}
	return out
}

// evalsFirst reorders the dealing messages of keypers with EvalFirst: evaluations, then commitments, at
// the place of the first of them; everything else keeps its place.
func (r *Rig) evalsFirst(in []*heldTx) []*heldTx {
	dealing := func(h *heldTx) bool {
		s := r.Keypers[h.keyper].Strategy
		return s != nil && s.EvalFirst && (h.msg.GetPolyEval() != nil || h.msg.GetPolyCommitment() != nil)
	}
	done := map[int]bool{}
	var out []*heldTx
	for _, h := range in {
		if !dealing(h) {
			out = append(out, h)
			continue
		}
		if done[h.keyper] {
			continue
		}
		done[h.keyper] = true
		var commits []*heldTx
		for _, g := range in {
			if g.keyper != h.keyper || !dealing(g) {
				continue
			}
			if g.msg.GetPolyEval() != nil {
				out = append(out, g)
			} else {
				commits = append(commits, g)
			}
		}
		out = append(out, commits...)
	}
	return out
}

// heldTx is a message of a Byzantine keyper waiting for its phase to end.
type heldTx struct {
	keyper int
	msg    *shmsg.Message
	eon    uint64
	phases int64 // release so that it lands at eon start + phases * phase length
	early  int64 // 1: lands in the last block of its phase instead
}

func eonOf(m *shmsg.Message) uint64 {
	switch {
	case m.GetPolyCommitment() != nil:
		return m.GetPolyCommitment().Eon
	case m.GetPolyEval() != nil:
		return m.GetPolyEval().Eon
	case m.GetAccusation() != nil:
		return m.GetAccusation().Eon
	case m.GetApology() != nil:
		return m.GetApology().Eon
	}
	return 0
}

func phasesOf(m *shmsg.Message) int64 {
	switch {
	case m.GetAccusation() != nil:
		return 2
	case m.GetApology() != nil:
		return 3
	}
	return 1
}

func (r *Rig) hold(k *Keyper, m *shmsg.Message) {
	r.held = append(r.held, &heldTx{keyper: k.Index, msg: m, eon: eonOf(m), phases: phasesOf(m)})
}

func (r *Rig) holdEdge(k *Keyper, m *shmsg.Message) {
	r.held = append(r.held, &heldTx{keyper: k.Index, msg: m, eon: eonOf(m), phases: phasesOf(m), early: 1})
}

// byzTick releases held transactions whose phase is over with the next block, and sends the false
// accusations of Byzantine keypers whose honest code has nothing to accuse. Called once per round
// before the block at height next is made.
func (r *Rig) byzTick(next int64) {
	L := r.Cfg.PhaseLength
	rest := r.held[:0]
	var release []*heldTx
	for _, h := range r.held {
		start, ok := r.EonStart[h.eon]
		if ok && next >= start+h.phases*L-h.early {
			release = append(release, h)
			continue
		}
		rest = append(rest, h)
	}
	r.held = rest
	// EvalFirst: a keyper's evaluations go before its commitment
	release = r.evalsFirst(release)
	for _, h := range release {
		r.Chain.Submit(r.signAs(h.keyper, h.msg), fmt.Sprintf("byz:%d:held", h.keyper))
	}
	for _, k := range r.Keypers {
		accused := r.falseAccused(k)
		if len(accused) == 0 {
			continue
		}
		for eon, start := range r.EonStart {
			// The honest code sends its accusation when it handles block start+L, which it does once the
			// chain is at start+L+2; that transaction is in block start+L+3 at the latest if nothing
			// delays the keyper. If none has shown up by then the rig sends the false accusation itself.
			if k.accusationInjected[eon] || next < start+L+4 {
				continue
			}
			k.accusationInjected[eon] = true
			m := shmsg.NewAccusation(eon, accused)
			if k.Strategy.LateAccusation {
				r.hold(k, m)
				continue
			}
			r.Chain.Submit(r.signAs(k.Index, m), fmt.Sprintf("byz:%d:accusation", k.Index))
		}
	}
	// unsolicited apologies: early in the apologizing phase
	for _, k := range r.Keypers {
		if k.Strategy == nil || len(k.Strategy.Unsolicited) == 0 {
			continue
		}
		for eon, start := range r.EonStart {
			if k.unsolicitedSent[eon] || next < start+2*L+2 {
				continue
			}
			if k.unsolicitedSent == nil {
				k.unsolicitedSent = map[uint64]bool{}
			}
			k.unsolicitedSent[eon] = true
			var accusers []common.Address
			var vals []*big.Int
			for j, u := range k.Strategy.Unsolicited {
				if u && j != k.Index && j < len(r.Keypers) {
					accusers = append(accusers, r.Keypers[j].Address)
					vals = append(vals, big.NewInt(int64(4242+j)))
				}
			}
			if len(accusers) > 0 {
				r.Chain.Submit(r.signAs(k.Index, shmsg.NewApology(eon, accusers, vals)), fmt.Sprintf("byz:%d:unsolicited-apology", k.Index))
			}
		}
	}
	// stray private evaluations in the apologizing phase
	for _, k := range r.Keypers {
		if k.Strategy == nil || len(k.Strategy.Stray) == 0 {
			continue
		}
		for eon, start := range r.EonStart {
			if k.straySent[eon] || next < start+2*L+k.Strategy.strayOffset() || next >= start+3*L {
				continue
			}
			if k.straySent == nil {
				k.straySent = map[uint64]bool{}
			}
			k.straySent[eon] = true
			var recv []common.Address
			var evals [][]byte
			for j, u := range k.Strategy.Stray {
				if u && j != k.Index && j < len(r.Keypers) {
					priv := ecies.ImportECDSA(r.Keypers[j].EncKey)
					ct, err := ecies.Encrypt(crand.Reader, &priv.PublicKey, big.NewInt(int64(777+j)).FillBytes(make([]byte, 32)), nil, nil)
					if err != nil {
						panic(err)
					}
					recv, evals = append(recv, r.Keypers[j].Address), append(evals, ct)
				}
			}
			if len(recv) > 0 {
				r.Chain.Submit(r.signAs(k.Index, shmsg.NewPolyEval(eon, recv, evals)), fmt.Sprintf("byz:%d:stray-eval", k.Index))
			}
		}
	}
}
