//go:build verif

package dkgrig

import (
	"context"
	"crypto/ed25519"
	"encoding/base64"
	"fmt"
	"sync"

	"github.com/ethereum/go-ethereum/common"
	"github.com/tendermint/go-amino"
	abcitypes "github.com/tendermint/tendermint/abci/types"
	tmcrypto "github.com/tendermint/tendermint/proto/tendermint/crypto"
	tmproto "github.com/tendermint/tendermint/proto/tendermint/types"
	"github.com/tendermint/tendermint/rpc/client"
	coretypes "github.com/tendermint/tendermint/rpc/core/types"
	tmtypes "github.com/tendermint/tendermint/types"

	"github.com/shutter-network/rolling-shutter/rolling-shutter/app"
	"github.com/shutter-network/rolling-shutter/rolling-shutter/shmsg"
)

// Genesis is what `chain init` puts into genesis.json, as far as the application sees it.
type Genesis struct {
	ChainID    string
	Keypers    []common.Address
	Threshold  int                 // threshold of the bootstrap config (index 0); `chain init` uses (2n+2)/3
	InitialEon uint64              // `chain init --initial-eon`, default 0
	Forks      *app.ForkHeights    // nil: the default of `chain init` (check-in update fork enabled at height 0)
	Validators []ed25519.PublicKey // genesis validators, power 10 each
	DevMode    bool
}

// Tx is a shuttermint transaction known to the chain: in the mempool, in a block, or rejected.
type Tx struct {
	Raw         []byte // as broadcast: base64url(signature || protobuf MessageWithNonce)
	Signer      common.Address
	SignerIndex int // index into Genesis.Keypers, -1 if foreign
	Nonce       uint64
	Msg         *shmsg.Message // nil if the bytes do not decode
	Kind        string         // batchconfig blockseen checkin dkgresult polyeval polycommitment accusation apology none
	Origin      string         // who handed it to the chain: "keyper:<i>", "rig:bootstrap", "byz:<i>:held", ...
	Arrival     int            // position in the order of arrival at the mempool
	ArrivedAt   int64          // chain height when it arrived
	CheckTx     abcitypes.ResponseCheckTx

	// set when included in a block
	Height  int64
	Index   int
	Deliver *abcitypes.ResponseDeliverTx

	// Evicted is set if a recheck after a commit threw the transaction out of the mempool.
	Evicted bool

	done chan struct{} // closed when included or evicted
}

// Settled tells whether the transaction has been included in a block or evicted.
func (t *Tx) Settled() bool {
	select {
	case <-t.done:
		return true
	default:
		return false
	}
}

// Block is one block with the application's responses.
type Block struct {
	Height int64
	Txs    []*Tx
	Begin  abcitypes.ResponseBeginBlock
	End    abcitypes.ResponseEndBlock
}

// Selector chooses which pending transactions go into the block at the given height, and in which
// order. It must return a sub-sequence (in any order) of pending.
type Selector func(height int64, pending []*Tx) []*Tx

// Chain is an in-process shuttermint: the real application plus a block store and a mempool. There
// is no consensus and there are no peers; the caller decides when a block is made and what is in it.
type Chain struct {
	mu       sync.Mutex
	App      *app.ShutterApp
	Genesis  Genesis
	blocks   []*Block
	mempool  []*Tx
	rejected []*Tx
	arrivals int

	// Recheck makes the chain run CheckTx (type Recheck) for everything left in the mempool after
	// each commit and evict what fails, like tendermint's default configuration.
	Recheck bool
}

// NewChain runs InitChain on a fresh application the way a tendermint node does with the genesis
// file written by `rolling-shutter chain init` (cmd/chain/init.go).
func NewChain(g Genesis) *Chain {
	a := app.NewShutterApp()
	a.DevMode = g.DevMode
	forks := g.Forks
	if forks == nil {
		forks = app.NewForkHeightsAllDisabled()
		forks.CheckInUpdateNew = app.ForkHeight{Enabled: true, Height: 0}
	}
	gen := app.NewGenesisAppState(g.Keypers, g.Threshold, g.InitialEon, forks)
	bz, err := amino.NewCodec().MarshalJSONIndent(gen, "", "    ")
	if err != nil {
		panic(err)
	}
	vals := []abcitypes.ValidatorUpdate{}
	for _, v := range g.Validators {
		vals = append(vals, abcitypes.ValidatorUpdate{
			Power:  10,
			PubKey: tmcrypto.PublicKey{Sum: &tmcrypto.PublicKey_Ed25519{Ed25519: v}},
		})
	}
	a.InitChain(abcitypes.RequestInitChain{ChainId: g.ChainID, AppStateBytes: bz, Validators: vals})
	return &Chain{App: a, Genesis: g, Recheck: true}
}

// Height is the height of the latest block (0: none yet).
func (c *Chain) Height() int64 {
	c.mu.Lock()
	defer c.mu.Unlock()
	return int64(len(c.blocks))
}

// Blocks returns all blocks so far.
func (c *Chain) Blocks() []*Block {
	c.mu.Lock()
	defer c.mu.Unlock()
	return append([]*Block{}, c.blocks...)
}

// Block returns the block at height h, or nil.
func (c *Chain) Block(h int64) *Block {
	c.mu.Lock()
	defer c.mu.Unlock()
	if h < 1 || h > int64(len(c.blocks)) {
		return nil
	}
	return c.blocks[h-1]
}

// Pending returns the mempool in arrival order.
func (c *Chain) Pending() []*Tx {
	c.mu.Lock()
	defer c.mu.Unlock()
	return append([]*Tx{}, c.mempool...)
}

// Rejected returns the transactions CheckTx refused (they never entered the mempool) and the ones a
// recheck evicted.
func (c *Chain) Rejected() []*Tx {
	c.mu.Lock()
	defer c.mu.Unlock()
	return append([]*Tx{}, c.rejected...)
}

func kindOf(m *shmsg.Message) string {
	switch {
	case m == nil:
		return "none"
	case m.GetBatchConfig() != nil:
		return "batchconfig"
	case m.GetBlockSeen() != nil:
		return "blockseen"
	case m.GetCheckIn() != nil:
		return "checkin"
	case m.GetDkgResult() != nil:
		return "dkgresult"
	case m.GetPolyEval() != nil:
		return "polyeval"
	case m.GetPolyCommitment() != nil:
		return "polycommitment"
	case m.GetAccusation() != nil:
		return "accusation"
	case m.GetApology() != nil:
		return "apology"
	}
	return "none"
}

func (c *Chain) decode(raw []byte, origin string) *Tx {
	t := &Tx{Raw: append([]byte{}, raw...), Origin: origin, SignerIndex: -1, Kind: "none", done: make(chan struct{})}
	signed, err := base64.RawURLEncoding.DecodeString(string(raw))
	if err != nil {
		return t
	}
	signer, err := shmsg.GetSigner(signed)
	if err != nil {
		return t
	}
	t.Signer = signer
	for i, k := range c.Genesis.Keypers {
		if k == signer {
			t.SignerIndex = i
		}
	}
	mwn, err := shmsg.GetMessage(signed)
	if err != nil {
		return t
	}
	t.Nonce = mwn.RandomNonce
	t.Msg = mwn.Msg
	t.Kind = kindOf(mwn.Msg)
	return t
}

// Submit runs CheckTx (type New) on the application and, if the transaction is accepted, appends it
// to the mempool. The returned Tx tells which of the two happened (CheckTx.Code).
func (c *Chain) Submit(raw []byte, origin string) *Tx {
	c.mu.Lock()
	defer c.mu.Unlock()
	t := c.decode(raw, origin)
	t.Arrival = c.arrivals
	c.arrivals++
	t.ArrivedAt = int64(len(c.blocks))
	t.CheckTx = c.App.CheckTx(abcitypes.RequestCheckTx{Tx: t.Raw, Type: abcitypes.CheckTxType_New})
	if t.CheckTx.Code != 0 {
		c.rejected = append(c.rejected, t)
		close(t.done)
		return t
	}
	c.mempool = append(c.mempool, t)
	return t
}

// MakeBlock runs BeginBlock, DeliverTx for the selected transactions, EndBlock and Commit on the
// application and stores the responses. sel == nil selects everything pending in arrival order.
func (c *Chain) MakeBlock(sel Selector) *Block {
	c.mu.Lock()
	h := int64(len(c.blocks)) + 1
	chosen := append([]*Tx{}, c.mempool...)
	c.mu.Unlock()
	if sel != nil {
		chosen = sel(h, append([]*Tx{}, chosen...))
	}
	c.mu.Lock()
	defer c.mu.Unlock()
	inBlock := map[*Tx]bool{}
	inPool := map[*Tx]bool{}
	for _, t := range c.mempool {
		inPool[t] = true
	}
	for _, t := range chosen {
		if !inPool[t] || inBlock[t] {
			panic(fmt.Sprintf("dkgrig: selector for block %d returned a transaction that is not pending (or twice): %s", h, t.Kind))
		}
		inBlock[t] = true
	}
	b := &Block{Height: h, Txs: append([]*Tx{}, chosen...)}
	b.Begin = c.App.BeginBlock(abcitypes.RequestBeginBlock{Header: tmproto.Header{ChainID: c.Genesis.ChainID, Height: h}})
	for i, t := range b.Txs {
		r := c.App.DeliverTx(abcitypes.RequestDeliverTx{Tx: t.Raw})
		t.Height, t.Index, t.Deliver = h, i, &r
	}
	b.End = c.App.EndBlock(abcitypes.RequestEndBlock{Height: h})
	c.App.Commit()
	c.blocks = append(c.blocks, b)
	rest := []*Tx{}
	for _, t := range c.mempool {
		if !inBlock[t] {
			rest = append(rest, t)
		}
	}
	c.mempool = rest
	if c.Recheck {
		kept := []*Tx{}
		for _, t := range c.mempool {
			r := c.App.CheckTx(abcitypes.RequestCheckTx{Tx: t.Raw, Type: abcitypes.CheckTxType_Recheck})
			if r.Code != 0 {
				t.CheckTx = r
				t.Evicted = true
				c.rejected = append(c.rejected, t)
				close(t.done)
				continue
			}
			kept = append(kept, t)
		}
		c.mempool = kept
	}
	for _, t := range b.Txs {
		close(t.done)
	}
	return b
}

// PolyCommitmentTx is a poly commitment transaction seen on chain.
type PolyCommitmentTx struct {
	Height      int64
	Index       int
	Sender      common.Address
	SenderIndex int
	Eon         uint64
	Gammas      [][]byte
	Code        uint32 // DeliverTx code: 0 accepted (event emitted), 1 error, 2 "already seen"
	Log         string
}

// PolyCommitments lists every poly commitment transaction that made it into a block, in chain order.
func (c *Chain) PolyCommitments() []PolyCommitmentTx {
	out := []PolyCommitmentTx{}
	for _, b := range c.Blocks() {
		for _, t := range b.Txs {
			if pc := t.Msg.GetPolyCommitment(); pc != nil {
				out = append(out, PolyCommitmentTx{Height: b.Height, Index: t.Index, Sender: t.Signer, SenderIndex: t.SignerIndex,
					Eon: pc.Eon, Gammas: pc.Gammas, Code: t.Deliver.Code, Log: t.Deliver.Log})
			}
		}
	}
	return out
}

// ---- the part of tendermint's rpc/client.Client the keyper uses

// Client implements the methods of tendermint's rpc client that the keyper calls: Block,
// BlockResults, BlockchainInfo, BroadcastTxCommit (and BroadcastTxSync/Async, Status-free). Every
// other method of the embedded interface is nil and panics when called, which is intended: it shows
// that the keyper started to use something the rig does not model.
type Client struct {
	client.Client // nil; only the methods below exist
	Chain         *Chain
	Origin        string

	// OnBlockResults, if set, is called before the results of a block are returned.
	OnBlockResults func(height int64)
	// Wait is called by BroadcastTxCommit after CheckTx accepted the transaction and it is in the
	// mempool; it must return once the transaction is settled (included or evicted) or give up with
	// an error. nil: a block containing everything pending is made on the spot.
	Wait func(ctx context.Context, t *Tx) error
}

// NewClient returns a client whose BroadcastTxCommit makes a block immediately.
func (c *Chain) NewClient(origin string) *Client {
	return &Client{Chain: c, Origin: origin}
}

func (cl *Client) header(h int64) tmtypes.Header {
	return tmtypes.Header{ChainID: cl.Chain.Genesis.ChainID, Height: h}
}

// Block returns the block at the given height (nil: the latest). As in tendermint, the LastCommit of
// block h is the commit for block h-1, so getLastCommittedHeight() yields "latest height - 1"; with
// no block yet, Block is nil.
func (cl *Client) Block(_ context.Context, height *int64) (*coretypes.ResultBlock, error) {
	latest := cl.Chain.Height()
	h := latest
	if height != nil {
		h = *height
		if h <= 0 {
			return nil, fmt.Errorf("height must be greater than 0, but got %d", h)
		}
		if h > latest {
			return nil, fmt.Errorf("height %d must be less than or equal to the current blockchain height %d", h, latest)
		}
	}
	if h == 0 {
		return &coretypes.ResultBlock{}, nil
	}
	b := cl.Chain.Block(h)
	txs := tmtypes.Txs{}
	for _, t := range b.Txs {
		txs = append(txs, tmtypes.Tx(t.Raw))
	}
	return &coretypes.ResultBlock{Block: &tmtypes.Block{
		Header:     cl.header(h),
		Data:       tmtypes.Data{Txs: txs},
		LastCommit: &tmtypes.Commit{Height: h - 1},
	}}, nil
}

// BlockResults returns the application's responses for a block.
func (cl *Client) BlockResults(_ context.Context, height *int64) (*coretypes.ResultBlockResults, error) {
	latest := cl.Chain.Height()
	h := latest
	if height != nil {
		h = *height
	}
	if h <= 0 {
		return nil, fmt.Errorf("height must be greater than 0, but got %d", h)
	}
	if h > latest {
		return nil, fmt.Errorf("height %d must be less than or equal to the current blockchain height %d", h, latest)
	}
	if cl.OnBlockResults != nil {
		cl.OnBlockResults(h)
	}
	b := cl.Chain.Block(h)
	res := &coretypes.ResultBlockResults{
		Height:           h,
		BeginBlockEvents: b.Begin.Events,
		EndBlockEvents:   b.End.Events,
		ValidatorUpdates: b.End.ValidatorUpdates,
	}
	for _, t := range b.Txs {
		res.TxsResults = append(res.TxsResults, t.Deliver)
	}
	return res, nil
}

// BlockchainInfo returns up to 20 block metas, latest first (the keyper reads the chain id from the first).
func (cl *Client) BlockchainInfo(_ context.Context, minHeight, maxHeight int64) (*coretypes.ResultBlockchainInfo, error) {
	latest := cl.Chain.Height()
	if maxHeight <= 0 || maxHeight > latest {
		maxHeight = latest
	}
	if minHeight <= 0 {
		minHeight = 1
	}
	if maxHeight-minHeight >= 20 {
		minHeight = maxHeight - 19
	}
	res := &coretypes.ResultBlockchainInfo{LastHeight: latest}
	for h := maxHeight; h >= minHeight && h >= 1; h-- {
		res.BlockMetas = append(res.BlockMetas, &tmtypes.BlockMeta{Header: cl.header(h)})
	}
	return res, nil
}

// ErrNotIncluded is what BroadcastTxCommit returns for a transaction that was accepted by CheckTx but
// thrown out of the mempool before it made it into a block (tendermint: "timed out waiting for tx to
// be included in a block").
var ErrNotIncluded = fmt.Errorf("timed out waiting for tx to be included in a block")

// BroadcastTxCommit runs CheckTx, and if the transaction is accepted waits until it is in a block and
// returns the DeliverTx response.
func (cl *Client) BroadcastTxCommit(ctx context.Context, tx tmtypes.Tx) (*coretypes.ResultBroadcastTxCommit, error) {
	t := cl.Chain.Submit(tx, cl.Origin)
	res := &coretypes.ResultBroadcastTxCommit{CheckTx: t.CheckTx, Hash: tx.Hash()}
	if t.CheckTx.Code != 0 {
		return res, nil
	}
	if cl.Wait == nil {
		cl.Chain.MakeBlock(nil)
	} else if err := cl.Wait(ctx, t); err != nil {
		return nil, err
	}
	if !t.Settled() {
		return nil, fmt.Errorf("dkgrig: Wait returned before the transaction was settled")
	}
	if t.Evicted || t.Deliver == nil {
		return nil, ErrNotIncluded
	}
	res.DeliverTx = *t.Deliver
	res.Height = t.Height
	return res, nil
}

// BroadcastTxSync runs CheckTx and returns its response; the transaction stays in the mempool.
func (cl *Client) BroadcastTxSync(_ context.Context, tx tmtypes.Tx) (*coretypes.ResultBroadcastTx, error) {
	t := cl.Chain.Submit(tx, cl.Origin)
	return &coretypes.ResultBroadcastTx{Code: t.CheckTx.Code, Log: t.CheckTx.Log, Hash: tx.Hash()}, nil
}

// BroadcastTxAsync is BroadcastTxSync without the CheckTx response.
func (cl *Client) BroadcastTxAsync(_ context.Context, tx tmtypes.Tx) (*coretypes.ResultBroadcastTx, error) {
	cl.Chain.Submit(tx, cl.Origin)
	return &coretypes.ResultBroadcastTx{Hash: tx.Hash()}, nil
}

var _ client.Client = (*Client)(nil)
