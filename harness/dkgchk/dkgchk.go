//go:build verif

// Package dkgchk checks the distributed key generation over shuttermint with dkgrig: agreement of the honest
// keypers under scripted Byzantine participants and block schedules (C07), and crash consistency of one
// observed keyper at every database round trip and around every broadcast (C08).
package dkgchk

import (
	"crypto/sha256"
	"encoding/json"
	"fmt"
	"math/big"
	"os"
	"path/filepath"
	"reflect"
	"sort"
	"strings"

	"github.com/shutter-network/shutter/shlib/puredkg"
	"github.com/shutter-network/shutter/shlib/shcrypto"

	"github.com/shutter-network/rolling-shutter/rolling-shutter/shdb"
	"github.com/shutter-network/rolling-shutter/rolling-shutter/shmsg"
	"google.golang.org/protobuf/proto"

	"verif/harness/dkgrig"
	"verif/harness/hx"
)

type Config struct {
	Tier, Lean, Out, ReplayDir, Replay string
	Seed                               uint64
	Prop                               string // "C07" or "C08"
}

type item struct{ line, impl string }

type runner struct {
	cfg   Config
	res   *hx.Result
	items []item
	xform []func(string) string // per item (C08): translation of the model's answer before comparing
	stop  bool
	// search: the correspondence broke; look through every crash point for a run on which the property fails
	search bool
}

func (r *runner) violate(kind, key, what string, extra map[string]interface{}) {
	path := filepath.Join(r.cfg.ReplayDir, fmt.Sprintf("%s-%s-%s-%d.json", r.cfg.Prop, kind, key, len(r.res.Violations)))
	_ = os.MkdirAll(r.cfg.ReplayDir, 0o755)
	rec := map[string]interface{}{"property": r.cfg.Prop, "kind": kind, "what": what,
		"how": "`config` is the dkgrig.Config (sizes, seed, Byzantine strategies, crash points); `history` lists the shuttermint transactions block by block; re-run the check with the same VERIF_SEED to reproduce"}
	for k, v := range extra {
		rec[k] = v
	}
	b, _ := json.MarshalIndent(rec, "", " ")
	_ = os.WriteFile(path, b, 0o644)
	r.res.Violate(hx.Violation{Kind: kind, Key: key, What: what, Replay: path})
	r.stop = true
}

func cfgText(c dkgrig.Config) map[string]interface{} {
	byz := map[string]string{}
	for i, s := range c.Byzantine {
		byz[fmt.Sprint(i)] = s.String()
	}
	cps := []string{}
	for _, cp := range c.Crashes {
		cps = append(cps, cp.String())
	}
	return map[string]interface{}{"n": c.N, "t": c.T, "seed": c.Seed, "phase_length": c.PhaseLength, "byzantine": byz, "observed": c.Observed, "crashes": cps}
}

type accKey struct{ accuser, accused uint64 }

// keysOf reads a map whose key type is puredkg's unexported accusationKey{Accuser, Accused}.
func keysOf(m interface{}) map[accKey]*big.Int {
	out := map[accKey]*big.Int{}
	v := reflect.ValueOf(m)
	for _, k := range v.MapKeys() {
		key := accKey{k.FieldByName("Accuser").Uint(), k.FieldByName("Accused").Uint()}
		val := v.MapIndex(k)
		if val.Kind() == reflect.Ptr && !val.IsNil() {
			out[key] = val.Interface().(*big.Int)
		} else {
			out[key] = nil
		}
	}
	return out
}

// viewLine renders what a keyper held when it computed its result; the verification bits come from the real
// polynomial evaluation check.
func viewLine(p *puredkg.PureDKG) string {
	n := int(p.NumKeypers)
	me := int(p.Keyper)
	committed := make([]byte, n)
	for j := 0; j < n; j++ {
		committed[j] = '0'
		if p.Commitments[j] != nil {
			committed[j] = '1'
		}
	}
	accs := keysOf(p.Accusations)
	apos := keysOf(p.Apologies)
	accKeys := []accKey{}
	for k := range accs {
		accKeys = append(accKeys, k)
	}
	sort.Slice(accKeys, func(i, j int) bool {
		if accKeys[i].accuser != accKeys[j].accuser {
			return accKeys[i].accuser < accKeys[j].accuser
		}
		return accKeys[i].accused < accKeys[j].accused
	})
	accParts := []string{}
	for _, k := range accKeys {
		accParts = append(accParts, fmt.Sprintf("%d>%d", k.accuser, k.accused))
	}
	apoKeys := []accKey{}
	for k := range apos {
		apoKeys = append(apoKeys, k)
	}
	sort.Slice(apoKeys, func(i, j int) bool {
		if apoKeys[i].accuser != apoKeys[j].accuser {
			return apoKeys[i].accuser < apoKeys[j].accuser
		}
		return apoKeys[i].accused < apoKeys[j].accused
	})
	apoParts := []string{}
	for _, k := range apoKeys {
		ok := false
		if c := p.Commitments[k.accused]; c != nil && apos[k] != nil {
			ok = shcrypto.VerifyPolyEval(int(k.accuser), apos[k], c, p.Threshold)
		}
		apoParts = append(apoParts, fmt.Sprintf("%d>%d:%s", k.accuser, k.accused, b2s(ok)))
	}
	evalOK := make([]byte, n)
	for j := 0; j < n; j++ {
		evalOK[j] = '0'
		val := p.Evals[j]
		if v, has := apos[accKey{uint64(me), uint64(j)}]; has {
			val = v
		}
		if c := p.Commitments[j]; c != nil && val != nil && shcrypto.VerifyPolyEval(me, val, c, p.Threshold) {
			evalOK[j] = '1'
		}
	}
	join := func(l []string) string {
		if len(l) == 0 {
			return "-"
		}
		return strings.Join(l, ",")
	}
	return fmt.Sprintf("DKG %d %d %d %s %s %s %s", n, p.Threshold, me, committed, join(accParts), join(apoParts), evalOK)
}

func b2s(b bool) string {
	if b {
		return "1"
	}
	return "0"
}

// outcomeText renders a keyper's recorded outcome in the model's vocabulary.
func outcomeText(k dkgrig.KeyperResult, participants func() string) string {
	if k.Success {
		return "ok:" + participants()
	}
	var d, a, b int
	if _, err := fmt.Sscanf(k.Error, "corrupt keyper %d not considered corrupt", &d); err == nil {
		return fmt.Sprintf("abort:%d", d)
	}
	if _, err := fmt.Sscanf(k.Error, "only %d keypers participated, but threshold is %d", &a, &b); err == nil {
		return fmt.Sprintf("toofew:%d", a)
	}
	return "error:" + k.Error
}

// Run is the C07 / C08 check.
func Run(cfg Config) (int, error) {
	res := hx.NewResult(cfg.Prop, cfg.Seed, cfg.Tier)
	r := &runner{cfg: cfg, res: res}
	if cfg.Replay != "" {
		return 2, fmt.Errorf("replay: re-run the check with the same VERIF_SEED; the replay file carries the run configuration and the chain history")
	}
	dkgrig.MuteLogs()
	var err error
	if cfg.Prop == "C07" {
		err = r.c07()
	} else {
		err = r.c08()
	}
	if err != nil {
		return 2, err
	}
	lines := []string{}
	for _, it := range r.items {
		lines = append(lines, it.line)
	}
	if len(lines) > 0 && !r.stop {
		model, err := hx.RunLean(cfg.Lean, lines)
		if err != nil {
			return 2, err
		}
		for i, it := range r.items {
			res.Traces++
			if i < len(r.xform) && r.xform[i] != nil {
				model[i] = r.xform[i](model[i])
			}
			if model[i] != it.impl {
				r.violate("correspondence", "model", fmt.Sprintf("impl=%q model=%q for %s", it.impl, model[i], it.line), map[string]interface{}{"lines": []string{it.line}})
				break
			}
		}
		if r.stop && cfg.Prop == "C08" && cfg.Tier != "thorough" {
			// the model no longer describes the code: look for a crash point at which the property itself fails
			r.stop, r.search, r.items, r.xform = false, true, nil, nil
			if err := r.c08(); err != nil {
				return 2, err
			}
		}
	}
	if cfg.Out != "" {
		if err := res.Write(cfg.Out); err != nil {
			return 2, err
		}
	}
	if len(res.Violations) > 0 {
		return 1, nil
	}
	return 0, nil
}

// ---- C07 ----

func (r *runner) c07() error {
	r.res.Rule = "complete key generations over the real shuttermint app and n real keyper loops: sizes 3/2 (mostly), 4/3, 4/2, 5/3; Byzantine subsets of size 0..n-t with strategies drawn from eval {correct, wrong, none} per victim x commitment {correct, none, too few / too many coefficients, twice, two different} x false accusations x apology {correct, wrong, none} x each message as sent, in the last block of its phase, or held until its phase is over x evaluations before or after the commitment; honest keypers whose messages land in the last block of their phases; a scripted list first (all honest at every edge placement, single false accusation, evaluations-first with one wrong value, single wrong value with correct / wrong apology, each for every choice of the Byzantine keyper); random keyper order and block schedules (transactions delayed up to 2 blocks) in a third of the runs. Distinct by model line (the view a keyper computed its result on)."
	rnd := hx.NewRand(r.cfg.Seed ^ 0xC07)
	runs := 60
	if r.cfg.Tier == "thorough" {
		runs = 2500
	}
	sizes := [][2]int{{3, 2}, {3, 2}, {3, 2}, {4, 3}, {4, 2}, {5, 3}}
	scripted := c07Scripted()
	for i := 0; i < runs+len(scripted) && !r.stop; i++ {
		var cfg dkgrig.Config
		var n, t, nbyz int
		shuffled := false
		if i < len(scripted) {
			cfg = scripted[i]
			cfg.Seed = rnd.U64()
			n, t = cfg.N, cfg.T
			for _, s := range cfg.Byzantine {
				if !s.Faithful {
					nbyz++
				}
			}
		} else {
			sz := sizes[rnd.Intn(len(sizes))]
			n, t = sz[0], sz[1]
			cfg = dkgrig.Config{N: n, T: t, Seed: rnd.U64(), Byzantine: map[int]dkgrig.Strategy{}}
			switch {
			case rnd.Chance(20):
			case rnd.Chance(15):
				nbyz = n - t + 1 // more than the key generation tolerates: agreement among those who succeed still has to hold
			default:
				nbyz = 1 + rnd.Intn(n-t)
			}
			perm := rnd.Perm(n)
			for _, b := range perm[:nbyz] {
				cfg.Byzantine[b] = dkgrig.RandomStrategy(rnd, n, b)
			}
			if rnd.Chance(40) {
				// honest keypers whose messages land at the end of their phases (the honest sender puts the
				// commitment before the evaluations, so a commitment at the edge takes the evaluations with it)
				for _, h := range perm[nbyz:] {
					if rnd.Chance(30) {
						continue
					}
					eval := rnd.Chance(60)
					commit := eval && rnd.Chance(50)
					cfg.Byzantine[h] = dkgrig.FaithfulStrategy(n, commit, eval, rnd.Chance(40), rnd.Chance(40))
				}
			}
			shuffled = rnd.Chance(33)
			if shuffled {
				sub := rnd.Fork()
				cfg.Schedule = dkgrig.RandomSchedule(sub, 60, 2)
				cfg.Order = dkgrig.RandomOrder(sub)
			}
		}
		out, err := dkgrig.Run(cfg)
		if err != nil {
			return fmt.Errorf("dkgrig.Run: %w", err)
		}
		r.res.Evaluations++
		r.res.Count(fmt.Sprintf("size:%d/%d byzantine:%d", n, t, nbyz))
		extra := map[string]interface{}{"config": cfgText(cfg), "history": strings.Split(out.History(), "\n")}
		honest := out.Honest()
		succ := 0
		for _, k := range honest {
			if !k.Finished {
				r.violate("spec", "not-finished", fmt.Sprintf("honest keyper %d never recorded an outcome of the key generation (n=%d t=%d, %d Byzantine)", k.Index, n, t, nbyz), extra)
				break
			}
			if k.Success {
				succ++
			}
		}
		if r.stop {
			break
		}
		r.res.Count(fmt.Sprintf("honest-success:%d-of-%d", succ, len(honest)))
		if bad := dkgrig.CheckAgreement(out); len(bad) > 0 {
			r.violate("spec", "disagreement", fmt.Sprintf("n=%d t=%d Byzantine=%v: %s", n, t, cfgText(cfg)["byzantine"], strings.Join(bad, "; ")), extra)
			break
		}
		if nbyz == 0 && !shuffled && succ != len(honest) {
			r.violate("spec", "honest-run-failed", fmt.Sprintf("n=%d t=%d, every keyper honest and every message in its phase, but only %d of %d report success", n, t, succ, len(honest)), extra)
			break
		}
		// the model's view of every honest keyper
		for _, k := range honest {
			blob := k.Trace.LastPureDKG[int64(out.Eon)]
			if blob == nil {
				continue
			}
			p, err := shdb.DecodePureDKG(blob)
			if err != nil {
				r.violate("spec", "state-undecodable", fmt.Sprintf("keyper %d: stored key generation state does not decode: %v", k.Index, err), extra)
				break
			}
			line := viewLine(p)
			impl := outcomeText(k, func() string {
				// the participants as the result shows them: dealers whose public contribution is in the key are not
				// observable from the result alone, so take them from the same state by the library's own rule
				parts := []string{}
				for j := 0; j < n; j++ {
					if !corrupt(p, uint64(j)) {
						parts = append(parts, fmt.Sprint(j))
					}
				}
				if len(parts) == 0 {
					return "-"
				}
				return strings.Join(parts, ",")
			})
			r.items = append(r.items, item{line, impl})
			r.res.Distinct(line)
			if len(r.res.Samples) < 4 && nbyz > 0 {
				r.res.Sample(map[string]string{"line": line, "impl": impl, "byzantine": fmt.Sprint(cfgText(cfg)["byzantine"])})
			}
		}
	}
	return nil
}

// c07Scripted are the runs every tier starts with: everybody honest with the default placement and with
// every message in the last block of its phase, and the adversaries whose effect depends on one message
// (false accusation answered correctly; evaluations before the commitment with one wrong value and a correct
// apology; a commitment in the last dealing block).
func c07Scripted() []dkgrig.Config {
	var out []dkgrig.Config
	all := func(n, t int, f func(i int) (dkgrig.Strategy, bool)) {
		cfg := dkgrig.Config{N: n, T: t, Byzantine: map[int]dkgrig.Strategy{}}
		for i := 0; i < n; i++ {
			if s, ok := f(i); ok {
				cfg.Byzantine[i] = s
			}
		}
		out = append(out, cfg)
	}
	all(3, 2, func(int) (dkgrig.Strategy, bool) { return dkgrig.Strategy{}, false })
	for _, e := range [][4]bool{{true, true, true, true}, {false, true, false, false}, {true, true, false, false}, {false, false, true, true}} {
		e := e
		all(3, 2, func(int) (dkgrig.Strategy, bool) { return dkgrig.FaithfulStrategy(3, e[0], e[1], e[2], e[3]), true })
		all(4, 3, func(i int) (dkgrig.Strategy, bool) { return dkgrig.FaithfulStrategy(4, e[0], e[1], e[2], e[3]), i != 0 })
	}
	for b := 0; b < 3; b++ {
		b := b
		v := (b + 1) % 3
		// false accusation of v, everything else as computed
		all(3, 2, func(i int) (dkgrig.Strategy, bool) {
			s := dkgrig.HonestStrategy(3)
			s.Accuse[v] = true
			return s, i == b
		})
		// evaluations first, a wrong value for v only, apologising correctly
		for _, edge := range []bool{false, true} {
			edge := edge
			all(3, 2, func(i int) (dkgrig.Strategy, bool) {
				s := dkgrig.HonestStrategy(3)
				s.Eval[v] = dkgrig.EvalWrong
				s.EvalFirst = true
				s.EdgeEval, s.EdgeCommit = edge, edge
				return s, i == b
			})
		}
		// dealing correctly, then an apology nobody asked for, with a wrong value, naming v as accuser
		all(3, 2, func(i int) (dkgrig.Strategy, bool) {
			s := dkgrig.HonestStrategy(3)
			s.Unsolicited = make([]bool, 3)
			s.Unsolicited[v] = true
			return s, i == b
		})
		// a wrong value for v, a false accusation of v on top, and a correct apology when v accuses
		all(3, 2, func(i int) (dkgrig.Strategy, bool) {
			s := dkgrig.HonestStrategy(3)
			s.Eval[v] = dkgrig.EvalWrong
			s.Accuse[v] = true
			return s, i == b
		})
		// nothing for v in the dealing phase, a correct apology when v accuses, a false accusation of the third
		// keyper, and a private evaluation for v in the middle of the apologizing phase
		for off := int64(1); off <= 5; off++ {
			off := off
			all(3, 2, func(i int) (dkgrig.Strategy, bool) {
				s := dkgrig.HonestStrategy(3)
				s.Eval[v] = dkgrig.EvalOmit
				s.Accuse[3-b-v] = true
				s.Stray = make([]bool, 3)
				s.Stray[v] = true
				s.StrayOffset = off
				return s, i == b
			})
		}
		// a wrong value for v only with the commitment first, apologising correctly / wrongly
		for _, apo := range []dkgrig.ApologyMode{dkgrig.ApologyCorrect, dkgrig.ApologyWrong} {
			apo := apo
			all(3, 2, func(i int) (dkgrig.Strategy, bool) {
				s := dkgrig.HonestStrategy(3)
				s.Eval[v] = dkgrig.EvalWrong
				s.Apology[v] = apo
				return s, i == b
			})
		}
	}
	return out
}

// corrupt is the statement's notion of a dealer that does not take part, computed from the chain-visible part
// of the state: no commitment, an accusation without apology, or an apology that does not verify.
func corrupt(p *puredkg.PureDKG, dealer uint64) bool {
	c := p.Commitments[dealer]
	if c == nil {
		return true
	}
	apos := keysOf(p.Apologies)
	for k, v := range apos {
		if k.accused == dealer && (v == nil || !shcrypto.VerifyPolyEval(int(k.accuser), v, c, p.Threshold)) {
			return true
		}
	}
	for k := range keysOf(p.Accusations) {
		if k.accused == dealer {
			if _, ok := apos[k]; !ok {
				return true
			}
		}
	}
	return false
}

// ---- C08 ----

// opsOf derives the crash model's operation string from what the database saw: block transactions (committed,
// committed with the reply lost, aborted), restarts, and sends (row deleted, or accepted but not deleted).
// ks[h-1] is the number of messages the committed transaction of block h scheduled.
func opsOf(tr *dkgrig.Trace) (ops string, ks []int) {
	restartAt := map[int]*dkgrig.Restart{}
	for i := range tr.Restarts {
		restartAt[tr.Restarts[i].AtRoundTrip] = &tr.Restarts[i]
	}
	var b strings.Builder
	inTx, scheduled := false, 0
	skipInc := -1 // round trips of an incarnation after its death are dropped by the rig; none are recorded
	_ = skipInc
	for i, rt := range tr.RoundTrips {
		idx := i + 1
		rs := restartAt[idx]
		died := rs != nil
		switch {
		case rt.Kind == "begin":
			inTx, scheduled = true, 0
			if died {
				b.WriteByte('a')
				inTx = false
			}
		case rt.Kind == "commit" && inTx:
			inTx = false
			switch {
			case died && rs.Crash != nil && rs.Crash.Mode == dkgrig.DropAfter:
				b.WriteByte('l')
				ks = append(ks, scheduled)
			case died:
				b.WriteByte('a')
			default:
				b.WriteByte('c')
				ks = append(ks, scheduled)
			}
		case rt.Kind == "rollback":
			inTx = false
			b.WriteByte('a')
		case rt.Kind == "stmt" && inTx:
			if strings.HasPrefix(rt.Name, "Schedule") {
				scheduled++
			}
			if died {
				b.WriteByte('a')
				inTx = false
			}
		case rt.Kind == "stmt" && rt.Name == "DeleteShutterMessage":
			switch {
			case died && rs.Crash != nil && rs.Crash.Mode == dkgrig.DropBefore:
				b.WriteByte('n')
			case died:
				b.WriteString("ox")
			default:
				b.WriteByte('o')
			}
		default:
			if died {
				if rs.Crash != nil && rs.Crash.Broadcast > 0 {
					b.WriteByte('n') // died while the broadcast was waiting for its block: the chain has the message, the row stays
				} else {
					b.WriteByte('x')
				}
			}
		}
	}
	// restarts that the hook did not pin to a round trip (e.g. the crash point fired after the last one)
	return b.String(), ks
}

func (r *runner) c08() error {
	r.res.Rule = "complete key generations (n=3 t=2, and n=4 t=3 in the thorough tier; everybody honest, with a Byzantine peer that makes the observed keyper accuse and apologise, and with a peer that checks in after the eon has started) in which one observed keyper is killed at a database round trip (before the request is sent / after a commit was applied but before its reply is read), at the deletion of an outbox row after an accepted broadcast, or while waiting in a broadcast, and restarted over the same database; quick: evenly spaced round trips in both modes plus every outbox deletion and broadcast; thorough: every round trip in both modes and sampled pairs. Each run is compared with the crash-free run (outcome, keys), its trace is checked (blocks applied 0,1,2,…, one commitment per eon, outbox order) and its database-level operations are replayed on the crash model. Distinct by model line."
	rnd := hx.NewRand(r.cfg.Seed ^ 0xC08)
	type setup struct {
		n, t, observed int
		// kind: "" everybody honest and up from the start; "byz": another keyper deals a wrong value to the observed
		// one and accuses it falsely (so the observed keyper has accusations and apologies to send); "late": another
		// keyper checks in only after the eon has started
		kind string
	}
	setups := []setup{{3, 2, 1, ""}, {3, 2, 1, "byz"}, {3, 2, 1, "late"}, {3, 2, 1, "retry"}}
	if r.cfg.Tier == "thorough" {
		setups = append(setups, setup{3, 2, 0, ""}, setup{4, 3, 2, ""}, setup{4, 3, 2, "byz"}, setup{3, 2, 0, "late"})
	}
	if r.search {
		setups = setups[:4]
	}
	for _, su := range setups {
		if r.stop {
			break
		}
		base := dkgrig.Config{N: su.n, T: su.t, Seed: rnd.U64(), Observed: su.observed}
		other := (su.observed + 1) % su.n
		switch su.kind {
		case "byz":
			s := dkgrig.HonestStrategy(su.n)
			s.Eval[su.observed] = dkgrig.EvalWrong
			s.Accuse[su.observed] = true
			base.Byzantine = map[int]dkgrig.Strategy{other: s}
		case "retry":
			// the first key generation fails (the other keypers withhold their commitments) and shuttermint starts
			// a second one for the same keyper config, in which everybody is honest: the observed keyper is killed
			// during the second one
			base.Byzantine = map[int]dkgrig.Strategy{}
			for i := 0; i < su.n; i++ {
				if i != su.observed {
					s := dkgrig.HonestStrategy(su.n)
					s.Commit = dkgrig.CommitOmit
					s.OnlyFirstEon = true
					base.Byzantine[i] = s
				}
			}
			base.Retry = true
			base.MaxBlocks = 6 + 6*8 + 60
		case "late":
			// long phases: a restart costs the keyper a few blocks, which must not push a message out of its phase
			base.HoldCheckIn = map[int]int64{other: 9}
			base.PhaseLength = 16
		}
		r.res.Count("setup:" + map[string]string{"": "all-honest", "byz": "byzantine-peer", "late": "late-check-in", "retry": "second-key-generation"}[su.kind])
		total, ref, err := dkgrig.CountRoundTrips(base)
		if err != nil {
			return fmt.Errorf("crash-free run: %w", err)
		}
		r.res.CountN(fmt.Sprintf("round-trips-of-the-crash-free-run(n=%d)", su.n), total)
		if bad := dkgrig.CheckAgreement(ref); len(bad) > 0 {
			r.violate("spec", "crash-free-run", strings.Join(bad, "; "), map[string]interface{}{"config": cfgText(base)})
			break
		}
		points := [][]dkgrig.CrashPoint{}
		stride := 1
		if r.cfg.Tier != "thorough" && !r.search {
			stride = total/34 + 1
		}
		for s := 1; s <= total; s += stride {
			for _, m := range []dkgrig.CrashMode{dkgrig.DropBefore, dkgrig.DropAfter} {
				points = append(points, []dkgrig.CrashPoint{{Seq: s, Mode: m}})
			}
		}
		nDeletes := 0
		for _, rt := range ref.Keypers[su.observed].Trace.RoundTrips {
			if rt.Name == "DeleteShutterMessage" {
				nDeletes++
			}
		}
		for k := 1; k <= nDeletes; k++ {
			for _, m := range []dkgrig.CrashMode{dkgrig.DropBefore, dkgrig.DropAfter} {
				points = append(points, []dkgrig.CrashPoint{{Stmt: "DeleteShutterMessage", Nth: k, Mode: m}})
			}
			points = append(points, []dkgrig.CrashPoint{{Broadcast: k}})
		}
		if r.cfg.Tier == "thorough" {
			for k := 0; k < 250; k++ {
				a, b := 1+rnd.Intn(total), 1+rnd.Intn(total)
				if a > b {
					a, b = b, a
				}
				points = append(points, []dkgrig.CrashPoint{{Seq: a, Mode: dkgrig.CrashMode(rnd.Intn(2))}, {Seq: b + 5, Mode: dkgrig.CrashMode(rnd.Intn(2))}})
			}
		}
		for _, cps := range points {
			if r.stop {
				break
			}
			cfg := base
			out, err := dkgrig.RunWithCrash(cfg, cps...)
			if err != nil {
				return fmt.Errorf("RunWithCrash %v: %w", cps, err)
			}
			r.res.Evaluations++
			cfg.Crashes = cps
			names := []string{}
			for _, cp := range cps {
				names = append(names, cp.String())
			}
			what := strings.Join(names, "+")
			extra := map[string]interface{}{"config": cfgText(cfg), "history": strings.Split(out.History(), "\n")}
			tr := out.Keypers[su.observed].Trace
			r.res.Count(fmt.Sprintf("restarts:%d", len(tr.Restarts)))
			if bad := dkgrig.SameOutcome(ref, out); len(bad) > 0 {
				r.violate("spec", "outcome-differs", fmt.Sprintf("crash %s of keyper %d: the outcome differs from the crash-free run: %s", what, su.observed, strings.Join(bad, "; ")), extra)
				break
			}
			if bad := dkgrig.SameMessages(ref, out); len(bad) > 0 {
				r.violate("spec", "messages-differ", fmt.Sprintf("crash %s of keyper %d: the key generation messages executed on the chain differ from the crash-free run: %s", what, su.observed, strings.Join(bad, "; ")), extra)
				break
			}
			if bad := dkgrig.SameQueued(ref, out, su.observed); len(bad) > 0 {
				r.violate("spec", "queued-differs", fmt.Sprintf("crash %s of keyper %d: what it queued for shuttermint differs from the crash-free run: %s", what, su.observed, strings.Join(bad, "; ")), extra)
				break
			}
			if bad := dkgrig.CheckTrace(out, su.observed); len(bad) > 0 {
				r.violate("spec", "trace", fmt.Sprintf("crash %s: %s", what, strings.Join(bad, "; ")), extra)
				break
			}
			if bad := dkgrig.CheckAgreement(out); len(bad) > 0 {
				r.violate("spec", "disagreement", fmt.Sprintf("crash %s: %s", what, strings.Join(bad, "; ")), extra)
				break
			}
			// what is stored reads back (the model's RoundTrip hypothesis), on every state this run stored last
			for eon, blob := range tr.PureDKGHistory {
				p, err := shdb.DecodePureDKG(blob)
				if err != nil {
					r.violate("spec", "state-undecodable", fmt.Sprintf("stored key generation state #%d does not decode: %v", eon, err), extra)
					break
				}
				again, err := shdb.EncodePureDKG(p)
				if err != nil {
					return err
				}
				p2, err := shdb.DecodePureDKG(again)
				if err != nil || !reflect.DeepEqual(p, p2) {
					r.violate("spec", "state-does-not-read-back", fmt.Sprintf("crash %s: the key generation state #%d changes when stored and loaded (nil entries: %d commitments, %d evaluations before)", what, eon, nilCount(p.Commitments), nilCount(p.Evals)), extra)
					break
				}
				r.res.Count(fmt.Sprintf("state-read-back-with-%d-nil-entries", min(nilCount(p.Commitments)+nilCount(p.Evals), 4)))
			}
			if r.stop {
				break
			}
			// the crash model on the same operations
			ops, ks := opsOf(tr)
			ksText := []string{}
			for _, k := range ks {
				ksText = append(ksText, fmt.Sprint(k))
			}
			kt := "-"
			if len(ksText) > 0 {
				kt = strings.Join(ksText, ",")
			}
			line := fmt.Sprintf("CR 1 %s %s", kt, ops)
			// observed: last applied block, ids ever queued, final outbox, and what the chain got from this keyper
			content := map[int32]string{}
			maxID := int32(0)
			finalOutbox := []string{}
			for i, snap := range tr.Outbox {
				for _, row := range snap.Rows {
					content[row.ID] = fmt.Sprintf("%x", row.Msg)
					if row.ID > maxID {
						maxID = row.ID
					}
				}
				if i == len(tr.Outbox)-1 {
					for _, row := range snap.Rows {
						finalOutbox = append(finalOutbox, fmt.Sprint(row.ID))
					}
				}
			}
			ob := "-"
			if len(finalOutbox) > 0 {
				ob = strings.Join(finalOutbox, ",")
			}
			cur := int64(0)
			if len(tr.SyncBlocks) > 0 {
				cur = tr.SyncBlocks[len(tr.SyncBlocks)-1]
			}
			// what the chain got from this keyper's own loop, in order of arrival (blocks, then what is still pending)
			type arrived struct {
				at  int
				raw string
			}
			got := []arrived{}
			origin := fmt.Sprintf("keyper:%d", su.observed)
			collect := func(t *dkgrig.Tx) {
				if t.Origin == origin && t.Msg != nil && t.CheckTx.Code == 0 {
					raw, _ := protoMarshal(t.Msg)
					got = append(got, arrived{t.Arrival, fmt.Sprintf("%x", raw)})
				}
			}
			for _, blk := range out.Blocks {
				for _, t := range blk.Txs {
					collect(t)
				}
			}
			for _, t := range out.StillPending {
				collect(t)
			}
			sort.Slice(got, func(i, j int) bool { return got[i].at < got[j].at })
			sentContents := []string{}
			for _, g := range got {
				sentContents = append(sentContents, g.raw)
			}
			impl := fmt.Sprintf("cur=%d next=%d outbox=%s sent=%s", cur, maxID+1, ob, digest(sentContents))
			r.items = append(r.items, item{line, impl})
			r.xform = append(r.xform, func(model string) string {
				// the model speaks in outbox ids: translate the sent ids into message contents
				i := strings.Index(model, " sent=")
				if i < 0 {
					return model
				}
				ids := strings.Split(model[i+6:], ",")
				cs := []string{}
				for _, id := range ids {
					if id == "-" || id == "" {
						continue
					}
					var n int32
					fmt.Sscan(id, &n)
					cs = append(cs, content[n])
				}
				return model[:i] + " sent=" + digest(cs)
			})
			r.res.Distinct(line)
			if len(r.res.Samples) < 3 && len(tr.Restarts) > 0 {
				r.res.Sample(map[string]string{"crash": what, "line": line, "impl": impl})
			}
		}
	}
	return nil
}

func nilCount(v interface{}) int {
	rv := reflect.ValueOf(v)
	n := 0
	for i := 0; i < rv.Len(); i++ {
		if rv.Index(i).IsNil() {
			n++
		}
	}
	return n
}

// digest names a sequence of message contents by a short fingerprint list (first 12 hex digits each).
func digest(cs []string) string {
	if len(cs) == 0 {
		return "-"
	}
	out := []string{}
	for _, c := range cs {
		h := fmt.Sprintf("%x", hash(c))
		out = append(out, h[:12])
	}
	return strings.Join(out, ",")
}

func hash(s string) []byte { h := sha256.Sum256([]byte(s)); return h[:] }

func protoMarshal(m *shmsg.Message) ([]byte, error) { return proto.Marshal(m) }
