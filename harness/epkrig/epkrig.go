//go:build verif

// Package epkrig drives the keyper's eon public key publication tick (C20) over pgfake + kdb.
package epkrig

import (
	"context"
	"encoding/json"
	"errors"
	"fmt"
	mbig "math/big"
	"os"
	"path/filepath"
	"strings"
	"sync"
	"time"

	"github.com/ethereum/go-ethereum/common"
	"github.com/ethereum/go-ethereum/crypto"

	"github.com/shutter-network/rolling-shutter/rolling-shutter/keyper"
	"github.com/shutter-network/rolling-shutter/rolling-shutter/keyper/kprconfig"
	"github.com/shutter-network/rolling-shutter/rolling-shutter/medley/configuration"
	"github.com/shutter-network/rolling-shutter/rolling-shutter/medley/encodeable/keys"
	"github.com/shutter-network/rolling-shutter/rolling-shutter/medley/retry"
	"github.com/shutter-network/rolling-shutter/rolling-shutter/medley/service"
	"github.com/shutter-network/rolling-shutter/rolling-shutter/p2p"
	"github.com/shutter-network/rolling-shutter/rolling-shutter/p2pmsg"
	"github.com/shutter-network/rolling-shutter/rolling-shutter/shdb"

	"verif/harness/hx"
	"verif/harness/kdb"
	"verif/harness/pgfake"
)

type Config struct {
	Tier, Lean, Out, ReplayDir, Replay string
	Seed                               uint64
}

type handed struct {
	pk                      string
	activation, config, eon uint64
}

// fakeMessaging records what is broadcast.
type fakeMessaging struct {
	mu     sync.Mutex
	sent   []handed
	refuse map[string]bool
}

func (m *fakeMessaging) Start(context.Context, service.Runner) error       { return nil }
func (m *fakeMessaging) AddValidator(p2p.ValidatorFunc, ...p2pmsg.Message) {}
func (m *fakeMessaging) AddMessageHandler(...p2p.MessageHandler)           {}
func (m *fakeMessaging) SendMessage(ctx context.Context, msg p2pmsg.Message, _ ...retry.Option) error {
	// like the real mechanisms (publishing through retry.FunctionCall, callbacks that select on ctx.Done()), the
	// stand-in refuses to work under a context that has ended
	if err := ctx.Err(); err != nil {
		return err
	}
	e, ok := msg.(*p2pmsg.EonPublicKey)
	if !ok {
		return errors.New("unexpected message type")
	}
	slowDown(string(e.PublicKey))
	m.mu.Lock()
	defer m.mu.Unlock()
	m.sent = append(m.sent, handed{string(e.PublicKey), e.ActivationBlock, e.KeyperConfigIndex, e.Eon})
	if m.refuse[string(e.PublicKey)] {
		return errors.New("refused")
	}
	return nil
}

// slowDown makes the hand-over of a key named slow-… take longer than the polling interval of the loop scenario
// (a callback waiting for a mined transaction, a slow publish): accepted all the same.
func slowDown(pk string) {
	if strings.HasPrefix(pk, "slow-") {
		time.Sleep(30 * time.Millisecond)
	}
}

func addr(i int) common.Address {
	k, _ := crypto.ToECDSA(crypto.Keccak256([]byte(fmt.Sprintf("verif-epk-%d", i))))
	return crypto.PubkeyToAddress(k.PublicKey)
}

// Run is the C20 check.
func Run(cfg Config) (int, error) {
	res := hx.NewResult("C20", cfg.Seed, cfg.Tier)
	res.Rule = "scenarios of several polling ticks; before each tick 0..4 eon keys are pending (successful key generations recorded since the last tick) for eons of one or several keyper sets, some of which the keyper does not belong to, some with an unknown eon; both publication modes; the mechanism accepts or refuses. Distinct by the tick line."
	n := 600
	if cfg.Tier == "thorough" {
		n = 20000
	}
	r := hx.NewRand(cfg.Seed ^ 0xC20)
	ctx := context.Background()
	priv, _ := crypto.ToECDSA(crypto.Keccak256([]byte("verif-epk-0")))
	me := crypto.PubkeyToAddress(priv.PublicKey)
	kcfg := &kprconfig.Config{InstanceID: 42, Ethereum: &configuration.EthnodeConfig{PrivateKey: &keys.ECDSAPrivate{Key: priv}}}
	violate := func(kind, key, what string, lines []string) {
		path := filepath.Join(cfg.ReplayDir, fmt.Sprintf("C20-%s-%s-%d.json", kind, key, len(res.Violations)))
		_ = os.MkdirAll(cfg.ReplayDir, 0o755)
		b, _ := json.MarshalIndent(map[string]interface{}{"property": "C20", "kind": kind, "what": what, "lines": lines}, "", " ")
		_ = os.WriteFile(path, b, 0o644)
		res.Violate(hx.Violation{Kind: kind, Key: key, What: what, Replay: path})
	}
	type item struct{ line, impl string }
	items := []item{}
	for sc := 0; sc < n && len(res.Violations) == 0; sc++ {
		db := kdb.New()
		srv := pgfake.NewServer(db)
		kdb.Register(srv)
		pool, err := srv.Pool(ctx, 2)
		if err != nil {
			return 2, err
		}
		mode := []string{"b", "c"}[r.Intn(2)]
		msg := &fakeMessaging{refuse: map[string]bool{}}
		var called []handed
		refuseCb := map[string]bool{}
		cb := func(ctx context.Context, k keyper.EonPublicKey) error {
			if err := ctx.Err(); err != nil {
				return err
			}
			called = append(called, handed{string(k.PublicKey), k.ActivationBlock, k.KeyperConfigIndex, k.Eon})
			if refuseCb[string(k.PublicKey)] {
				return errors.New("refused")
			}
			return nil
		}
		var h *keyper.VerifEonPubKeyHandler
		if mode == "b" {
			h = keyper.VerifNewEonPubKeyHandler(pool, kcfg, msg, nil, true)
		} else {
			h = keyper.VerifNewEonPubKeyHandler(pool, kcfg, msg, cb, false)
		}
		// keyper sets: 1..3 configs; membership of `me` varies
		ncfg := 1 + r.Intn(3)
		member := map[int32]bool{}
		st := srv.State().(*kdb.DB).Clone().(*kdb.DB)
		for c := 0; c < ncfg; c++ {
			ks := []common.Address{addr(10 + c), addr(20 + c)}
			if r.Chance(85) {
				ks = append(ks, me)
				member[int32(c)] = true
			}
			st.TendermintBatchConfig = append(st.TendermintBatchConfig, kdb.TendermintBatchConfigRow{KeyperConfigIndex: int32(c), Height: 1,
				Keypers: shdb.EncodeAddresses(ks), Threshold: 2, Started: true, ActivationBlockNumber: int64(100 * (c + 1))})
		}
		srv.SetState(st)
		// eon numbers are unique but complete in any order: a later tick may carry a lower eon
		eonPool := r.Perm(24)
		nextEon := 0
		pkCounter := 0
		ticks := 1 + r.Intn(4)
		for tk := 0; tk < ticks && len(res.Violations) == 0; tk++ {
			st := srv.State().(*kdb.DB).Clone().(*kdb.DB)
			pending := 0
			if r.Chance(85) {
				pending = r.Intn(5)
			}
			rows := []string{}
			mask := ""
			type exp struct {
				h      handed
				good   bool
				accept bool
			}
			exps := []exp{}
			for p := 0; p < pending; p++ {
				c := r.Intn(ncfg)
				eon := int64(1 + eonPool[nextEon%len(eonPool)])
				nextEon++
				pkCounter++
				pk := []byte(fmt.Sprintf("eon-public-key-%d", pkCounter))
				act := int64(100*(c+1) + r.Intn(5))
				known := r.Chance(95)
				if known {
					st.Eons = append(st.Eons, kdb.EonRow{Eon: eon, Height: 5, ActivationBlockNumber: act, KeyperConfigIndex: int64(c)})
				}
				st.OutgoingEonKeys = append(st.OutgoingEonKeys, kdb.OutgoingEonKeyRow{EonPublicKey: pk, Eon: eon})
				accept := r.Chance(90)
				if !accept {
					msg.refuse[string(pk)] = true
					refuseCb[string(pk)] = true
				}
				if known { // only joined rows are returned by the query
					ks := []string{}
					row := st.TendermintBatchConfig[c]
					for _, k := range row.Keypers {
						ks = append(ks, new(bigInt).fromAddr(k))
					}
					rows = append(rows, fmt.Sprintf("%d/%d/%d/%d/%s", eon, pkCounter, act, c, strings.Join(ks, "+")))
					if accept {
						mask += "1"
					} else {
						mask += "0"
					}
					exps = append(exps, exp{handed{string(pk), uint64(act), uint64(c), uint64(eon)}, member[int32(c)], accept})
				}
			}
			srv.SetState(st)
			msg.sent, called = nil, nil
			tickErr := h.QueryAndHandle(ctx)
			got := msg.sent
			if mode == "c" {
				got = called
			}
			res.Evaluations++
			res.Count(fmt.Sprintf("pending=%d", pending))
			// the property on the implementation: if every pending key is for a set we belong to and the
			// mechanism accepts, each is handed exactly once with the right data
			allGood := true
			for _, e := range exps {
				if !e.good || !e.accept {
					allGood = false
				}
			}
			if allGood {
				ok := len(got) == len(exps) && tickErr == nil
				seen := map[handed]int{}
				for _, g := range got {
					seen[g]++
				}
				for _, e := range exps {
					if seen[e.h] != 1 {
						ok = false
					}
				}
				if !ok {
					violate("spec", "not-all-handed", fmt.Sprintf("%d eon keys were pending for sets the keyper belongs to, %d were handed to publication (mode %s, err=%v)", len(exps), len(got), mode, tickErr), rows)
					break
				}
				if len(exps) >= 2 {
					res.Count("ticks-with-several-keys-all-handed")
				}
			}
			if left := len(srv.State().(*kdb.DB).OutgoingEonKeys); left != 0 {
				res.Count("pending-left-after-tick")
			}
			// canonical text for the model
			hs := []string{}
			for _, g := range got {
				var id int
				fmt.Sscanf(g.pk, "eon-public-key-%d", &id)
				hs = append(hs, fmt.Sprintf("%d:%d:%d:%d", id, g.activation, g.config, g.eon))
			}
			implTxt := "-"
			if len(hs) > 0 {
				implTxt = strings.Join(hs, ",")
			}
			e := "0"
			if tickErr != nil {
				e = "1"
			}
			rowsTxt, maskTxt := "-", "-"
			if len(rows) > 0 {
				rowsTxt, maskTxt = strings.Join(rows, ";"), mask
			}
			line := fmt.Sprintf("EPK tick %s %s %s %s", new(bigInt).fromAddr(me.Hex()), mode, rowsTxt, maskTxt)
			res.Distinct(line)
			items = append(items, item{line, implTxt + " err=" + e})
			if len(res.Samples) < 3 && len(rows) >= 2 {
				res.Sample(map[string]string{"line": line, "impl": implTxt + " err=" + e})
			}
		}
		pool.Close()
		srv.Close()
	}
	// the polling loop itself (what Start hands to the service runner): a tick that ends in an error — the mechanism
	// refuses a key — must not be the last one; a key recorded afterwards is handed over by a later tick
	loops := 3
	if cfg.Tier == "thorough" {
		loops = 40
	}
	for lp := 0; lp < loops && len(res.Violations) == 0; lp++ {
		db := kdb.New()
		srv := pgfake.NewServer(db)
		kdb.Register(srv)
		pool, err := srv.Pool(ctx, 2)
		if err != nil {
			return 2, err
		}
		mode := []string{"b", "c"}[lp%2]
		msg := &fakeMessaging{refuse: map[string]bool{"loop-key-1": true}}
		var cmu sync.Mutex
		var called []handed
		cb := func(ctx context.Context, k keyper.EonPublicKey) error {
			if err := ctx.Err(); err != nil {
				return err
			}
			slowDown(string(k.PublicKey))
			cmu.Lock()
			defer cmu.Unlock()
			called = append(called, handed{string(k.PublicKey), k.ActivationBlock, k.KeyperConfigIndex, k.Eon})
			if string(k.PublicKey) == "loop-key-1" {
				return errors.New("refused")
			}
			return nil
		}
		var h *keyper.VerifEonPubKeyHandler
		if mode == "b" {
			h = keyper.VerifNewEonPubKeyHandler(pool, kcfg, msg, nil, true)
		} else {
			h = keyper.VerifNewEonPubKeyHandler(pool, kcfg, msg, cb, false)
		}
		seenKey := func(pk string) bool {
			msg.mu.Lock()
			cmu.Lock()
			defer msg.mu.Unlock()
			defer cmu.Unlock()
			for _, g := range append(append([]handed{}, msg.sent...), called...) {
				if g.pk == pk {
					return true
				}
			}
			return false
		}
		addKeys := func(pks []string, eon int64) {
			st := srv.State().(*kdb.DB).Clone().(*kdb.DB)
			if len(st.TendermintBatchConfig) == 0 {
				st.TendermintBatchConfig = append(st.TendermintBatchConfig, kdb.TendermintBatchConfigRow{KeyperConfigIndex: 0, Height: 1,
					Keypers: shdb.EncodeAddresses([]common.Address{addr(10), me}), Threshold: 2, Started: true, ActivationBlockNumber: 100})
			}
			for i, pk := range pks {
				st.Eons = append(st.Eons, kdb.EonRow{Eon: eon + int64(i), Height: 5, ActivationBlockNumber: 100, KeyperConfigIndex: 0})
				st.OutgoingEonKeys = append(st.OutgoingEonKeys, kdb.OutgoingEonKeyRow{EonPublicKey: []byte(pk), Eon: eon + int64(i)})
			}
			srv.SetState(st)
		}
		addKey := func(pk string, eon int64) { addKeys([]string{pk}, eon) }
		waitFor := func(pk string, d time.Duration) bool {
			for end := time.Now().Add(d); time.Now().Before(end); time.Sleep(5 * time.Millisecond) {
				if seenKey(pk) {
					return true
				}
			}
			return seenKey(pk)
		}
		addKey("loop-key-1", 1)
		lctx, cancel := context.WithCancel(ctx)
		done := make(chan error, 1)
		go func() { done <- h.RunLoop(lctx, 20*time.Millisecond) }()
		first := waitFor("loop-key-1", 2*time.Second)
		time.Sleep(time.Duration(10+10*lp%50) * time.Millisecond)
		addKey("loop-key-2", 2)
		second := waitFor("loop-key-2", 2*time.Second)
		// three keys completed within one interval, each hand-over taking longer than the interval
		addKeys([]string{"slow-3", "slow-4", "slow-5"}, 3)
		slow := waitFor("slow-3", 2*time.Second) && waitFor("slow-4", 2*time.Second) && waitFor("slow-5", 2*time.Second)
		cancel()
		<-done
		pool.Close()
		srv.Close()
		res.Evaluations++
		res.Count("polling-loop-runs:" + mode)
		if !first || !second {
			violate("spec", "not-all-handed", fmt.Sprintf("polling loop (mode %s, interval 20 ms): the first key (refused by the mechanism) was offered=%v; a key recorded after that failed tick was handed over within 2 s=%v", mode, first, second),
				[]string{"loop: key 1 pending (mechanism refuses it), loop started, key 2 recorded after the failed tick"})
		} else if !slow {
			violate("spec", "not-all-handed", fmt.Sprintf("polling loop (mode %s, interval 20 ms): three keys pending at one tick, the mechanism takes 30 ms for each and accepts: not all of them were handed over within 2 s", mode),
				[]string{"loop: keys slow-3 slow-4 slow-5 recorded together, each hand-over takes 30 ms"})
		}
	}
	lines := []string{}
	for _, it := range items {
		lines = append(lines, it.line)
	}
	model, err := hx.RunLean(cfg.Lean, lines)
	if err != nil {
		return 2, err
	}
	for i, it := range items {
		res.Traces++
		if model[i] != it.impl {
			violate("correspondence", "eonpk-model", fmt.Sprintf("impl=%q model=%q for %s", it.impl, model[i], it.line), []string{it.line})
			break
		}
	}
	if cfg.Out != "" {
		if err := res.Write(cfg.Out); err != nil {
			return 2, err
		}
	}
	if len(res.Violations) > 0 {
		return 1, nil
	}
	return 0, nil
}

type bigInt struct{}

// fromAddr renders an address text as the decimal number of its 20 bytes.
func (*bigInt) fromAddr(hexAddr string) string {
	a := common.HexToAddress(hexAddr)
	return new(mbig.Int).SetBytes(a.Bytes()).String()
}
