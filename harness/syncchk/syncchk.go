//go:build verif

// Package syncchk checks the contract-event syncers (C15) and the event-trigger firing (C16) with syncrig:
// random block trees with registrations, matching and non-matching logs and expiries at every relative
// offset, head sequences with repeats, gaps, steps back and forks, RPC errors at every call and database
// failures / crashes at every statement; after every step the stored rows are compared with the canonical
// chain's, and for C16 the fired set with the block-by-block outcome and with a second keyper that batches
// differently.
package syncchk

import (
	"context"
	"encoding/json"
	"fmt"
	"math/big"
	"os"
	"path/filepath"
	"sort"
	"strings"

	"github.com/ethereum/go-ethereum/common"
	"github.com/ethereum/go-ethereum/core/types"
	"github.com/ethereum/go-ethereum/crypto"

	"github.com/shutter-network/rolling-shutter/rolling-shutter/keyperimpl/shutterservice"

	"verif/harness/fakechain"
	"verif/harness/hx"
	"verif/harness/pgfake"
	"verif/harness/syncrig"
)

type Config struct {
	Tier, Lean, Out, ReplayDir, Replay string
	Seed                               uint64
	Prop                               string // "C15" or "C16"
}

type item struct{ line, impl string }

type runner struct {
	cfg   Config
	res   *hx.Result
	items []item
	stop  bool
	once  map[string]bool
}

func (r *runner) violate(key, what string, history []string) {
	path := filepath.Join(r.cfg.ReplayDir, fmt.Sprintf("%s-spec-%s-%d.json", r.cfg.Prop, key, len(r.res.Violations)))
	_ = os.MkdirAll(r.cfg.ReplayDir, 0o755)
	b, _ := json.MarshalIndent(map[string]interface{}{"property": r.cfg.Prop, "kind": "spec", "what": what, "history": history,
		"how": "history entries: `block <number>/<fork salt> parent=<number>/<salt> logs=<…>` builds the tree, `sync <number>/<salt>` presents that block as head, `fail-rpc k` / `fail-db k mode` arm a fault for the next sync; re-run the check with the same VERIF_SEED to reproduce"}, "", " ")
	_ = os.WriteFile(path, b, 0o644)
	r.res.Violate(hx.Violation{Kind: "spec", Key: key, What: what, Replay: path})
	r.stop = true
}

func (r *runner) violateOnce(key, what string, history []string) {
	if r.once[key] {
		r.res.Count("again:" + key)
		return
	}
	r.once[key] = true
	stop := r.stop
	r.violate(key, what, history)
	r.stop = stop
}

func h32(s string) [32]byte          { return crypto.Keccak256Hash([]byte(s)) }
func addrOf(s string) common.Address { return common.BytesToAddress(crypto.Keccak256([]byte(s))[12:]) }

var watched = addrOf("watched contract")

// buildOp is one chain-building step, replayable on a second world (same hashes: blocks depend on parent,
// time, salt and logs only).
type buildOp struct {
	parentNum  uint64
	parentSalt uint64
	salt       uint64
	logs       func(w *syncrig.World) []types.Log
	text       string
	items      []string // the block's logs for the model: R<key>/<expiry>/<topic>, L<topic>, Lx
}

type tree struct {
	ops    []buildOp
	blocks map[[2]uint64]*fakechain.Block // (number, salt) -> block, per world
}

// scenario state shared by the worlds that replay the same tree
type scen struct {
	kind    syncrig.Kind
	rnd     *hx.Rand
	nextKey int
	history []string
}

// eventLog makes the i-th distinct admissible event of the kind; triggers watch topic "t<i>".
func eventLog(w *syncrig.World, kind syncrig.Kind, i int, expiry uint64) types.Log {
	name := fmt.Sprintf("ev%d", i)
	switch kind {
	case syncrig.Registry:
		return w.IdentityRegisteredLog(uint64(1+i%2), h32(name), addrOf("sender"+name), uint64(1000+i))
	case syncrig.MultiEvent:
		// keys from 1000 on are twins: the trigger of key i-1000 (same prefix, sender and definition, hence the same
		// identity) registered for the other keyper set
		base := i % 1000
		name = fmt.Sprintf("ev%d", base)
		preds := []syncrig.Pred{syncrig.TopicEq(0, h32(fmt.Sprintf("t%d", base)))}
		if numericTopic(base) {
			// every third definition also wants the second topic, read as a number, to be at least 1000
			preds = append(preds, syncrig.Pred{Offset: 1, Op: shutterservice.UintGte, Int: big.NewInt(1000)})
		}
		eon := uint64(1 + base%2)
		if i >= 1000 {
			eon = uint64(1 + (base+1)%2)
		}
		return w.EventTriggerRegisteredLog(eon, h32(name), addrOf("sender"+name), syncrig.TriggerDefinition(watched, preds...), expiry)
	default:
		return w.TransactionSubmittedLog(uint64(1+i%2), uint64(i), h32(name), addrOf("sender"+name), []byte(name), big.NewInt(int64(21000+i)))
	}
}

func numericTopic(base int) bool { return base%3 == 2 }

type world struct {
	w      *syncrig.World
	blocks map[[2]uint64]*fakechain.Block
}

func newWorld(ctx context.Context, kind syncrig.Kind, opts syncrig.Opts) (*world, error) {
	w, err := syncrig.NewWorld(ctx, kind, opts)
	if err != nil {
		return nil, err
	}
	x := &world{w: w, blocks: map[[2]uint64]*fakechain.Block{}}
	x.blocks[[2]uint64{0, 0}] = w.Chain.Genesis()
	return x, nil
}

func (x *world) apply(op buildOp) *fakechain.Block {
	parent := x.blocks[[2]uint64{op.parentNum, op.parentSalt}]
	b := x.w.AddBlock(parent, op.salt, op.logs(x.w)...)
	x.blocks[[2]uint64{b.Number(), op.salt}] = b
	return b
}

// check compares what is stored with the canonical chain (C15) and the fired rows with the block-by-block
// outcome (C16). It returns a description of the first difference.
func check(w *syncrig.World) (c15, c16 string) {
	st := w.Stored()
	if !st.HasPosition || !w.PositionCanonical(st) {
		return "", ""
	}
	got, want := syncrig.EventsText(st.Events), syncrig.EventsText(w.ExpectedStored(uint64(st.SyncedNumber)))
	if got != want {
		c15 = fmt.Sprintf("position %d is on the canonical chain but the stored events differ from the chain's: stored [%s] chain [%s]", st.SyncedNumber, short(got), short(want))
	}
	if w.Kind == syncrig.MultiEvent && c15 == "" {
		gf, wf := syncrig.FiredText(st.Fired), syncrig.FiredText(w.ExpectedFired(uint64(st.SyncedNumber), nil))
		if gf != wf {
			c16 = fmt.Sprintf("at position %d the fired triggers differ from the chain's (first matching log after the registration block and not after expiry): %s; recorded [%s] chain [%s]", st.SyncedNumber, rowDiff(gf, wf), short(gf), short(wf))
		}
	}
	return c15, c16
}

// rowDiff names the rows that are in one list only.
func rowDiff(got, want string) string {
	set := func(s string) map[string]bool {
		m := map[string]bool{}
		for _, r := range strings.Split(strings.Trim(s, "[]"), "; ") {
			if r != "" {
				m[r] = true
			}
		}
		return m
	}
	g, w := set(got), set(want)
	out := []string{}
	for r := range g {
		if !w[r] {
			out = append(out, "recorded only: "+r)
		}
	}
	for r := range w {
		if !g[r] {
			out = append(out, "chain only: "+r)
		}
	}
	sort.Strings(out)
	return strings.Join(out, " | ")
}

func short(s string) string {
	if len(s) > 700 {
		return s[:700] + "…"
	}
	return s
}

func (r *runner) scenario(ctx context.Context, rnd *hx.Rand, kind syncrig.Kind) error {
	opts := syncrig.Opts{SyncStart: uint64([]int{0, 0, 3}[rnd.Intn(3)])}
	if kind == syncrig.MultiEvent {
		opts.AssumedReorgDepth = []int{2, 3, 10}[rnd.Intn(3)]
		opts.MaxRange = []uint64{1, 2, 3, 5, 100}[rnd.Intn(5)]
	}
	x, err := newWorld(ctx, kind, opts)
	if err != nil {
		return err
	}
	defer x.w.Close()
	depth := x.w.AssumedReorgDepth()
	hist := []string{fmt.Sprintf("%s sync-start=%d depth=%d max-range=%d", kind, opts.SyncStart, depth, x.w.MaxRange())}
	ops := []buildOp{}
	nextKey := 0
	salt := uint64(0)
	tip := x.w.Chain.Genesis()
	tipSalt := uint64(0)
	// pending triggers of the canonical branch: key -> (registered at, expiry)
	type trig struct{ at, expiry uint64 }
	trigs := map[int]trig{}
	// on the abandoned side of a fork: keys that may be registered again on the new side
	abandonedKeys := []int{}
	itemsOf := map[common.Hash][]string{}

	extend := func(n int) {
		for i := 0; i < n; i++ {
			num := tip.Number() + 1
			parentNum, parentSalt, s := tip.Number(), tipSalt, salt
			// decide the logs of this block
			specs := []func(w *syncrig.World) types.Log{}
			texts := []string{}
			items := []string{}
			if rnd.Chance(45) {
				k := nextKey
				twinOf := -1
				if kind == syncrig.MultiEvent && rnd.Chance(25) {
					// a pending trigger registered for the other keyper set as well, with an expiry of its own
					pend := []int{}
					for b := range trigs {
						if _, has := trigs[b+1000]; b < 1000 && !has {
							pend = append(pend, b)
						}
					}
					sort.Ints(pend)
					if len(pend) > 0 {
						twinOf = pend[rnd.Intn(len(pend))]
					}
				}
				if twinOf >= 0 {
					k = twinOf + 1000
				} else if len(abandonedKeys) > 0 && rnd.Chance(35) { // the same key registered again on the other fork
					k = abandonedKeys[rnd.Intn(len(abandonedKeys))]
					abandonedKeys = nil
					if _, has := trigs[k]; has {
						// registered on this side already (as a twin): a second registration of the same trigger on
						// one chain is the subject of reRegistration below, not of these scenarios
						k = nextKey
						nextKey++
					}
				} else {
					nextKey++
				}
				expiry := num + uint64(1+rnd.Intn(5))
				trigs[k] = trig{num, expiry}
				specs = append(specs, func(w *syncrig.World) types.Log { return eventLog(w, kind, k, expiry) })
				texts = append(texts, fmt.Sprintf("register(%d,expiry=%d)", k, expiry))
				items = append(items, fmt.Sprintf("R%d/%d/%d", k, expiry, k%1000))
			}
			if kind == syncrig.MultiEvent {
				for k, t := range trigs {
					k, t := k, t
					// matching logs at every relative offset: same block, next block, at expiry, after expiry
					if num >= t.at && num <= t.expiry+1 && rnd.Chance(30) {
						base := k % 1000
						topics := []common.Hash{h32(fmt.Sprintf("t%d", base))}
						it, tx := fmt.Sprintf("L%d", base), fmt.Sprintf("log(t%d)", base)
						if numericTopic(base) {
							v := []int64{999, 1000, 5000}[rnd.Intn(3)]
							topics = append(topics, common.BigToHash(big.NewInt(v)))
							tx = fmt.Sprintf("log(t%d,%d)", base, v)
							if v < 1000 { // passes the node's filter, does not match the definition
								it = "Lx"
							}
						}
						specs = append(specs, func(w *syncrig.World) types.Log { return w.PlainLog(watched, topics, []byte{1}) })
						texts = append(texts, tx)
						items = append(items, it)
					}
				}
				if rnd.Chance(20) {
					specs = append(specs, func(w *syncrig.World) types.Log {
						return w.PlainLog(watched, []common.Hash{h32("unrelated")}, []byte{2})
					})
					texts = append(texts, "log(unrelated)")
					items = append(items, "Lx")
				}
			}
			// registrations first or last in the block
			if len(specs) > 1 && rnd.Chance(50) {
				specs[0], specs[len(specs)-1] = specs[len(specs)-1], specs[0]
				texts[0], texts[len(texts)-1] = texts[len(texts)-1], texts[0]
				items[0], items[len(items)-1] = items[len(items)-1], items[0]
			}
			op := buildOp{parentNum: parentNum, parentSalt: parentSalt, salt: s,
				logs: func(w *syncrig.World) []types.Log {
					out := []types.Log{}
					for _, f := range specs {
						out = append(out, f(w))
					}
					return out
				},
				text:  fmt.Sprintf("block %d/%d parent=%d/%d logs=%s", num, s, parentNum, parentSalt, strings.Join(texts, ",")),
				items: items}
			ops = append(ops, op)
			tip = x.apply(op)
			itemsOf[tip.Hash()] = items
			tipSalt = s
			hist = append(hist, op.text)
		}
	}
	// one sync step with the monitors
	idm := newIDs()
	step := func(head *fakechain.Block, headSalt uint64, note string) {
		pre := x.w.Stored()
		err := x.w.Sync(ctx, head)
		if r.cfg.Prop == "C15" {
			line, impl := synLine(x.w, idm, pre, x.w.Stored(), head.Number(), err)
			r.items = append(r.items, item{line, impl})
			r.res.Distinct(line)
		}
		r.res.Evaluations++
		e := ""
		if err != nil {
			e = " -> error"
			r.res.Count(kind.String() + ":sync-error")
		}
		hist = append(hist, fmt.Sprintf("sync %d/%d%s%s", head.Number(), headSalt, note, e))
		c15, c16 := check(x.w)
		if r.cfg.Prop == "C15" && c15 != "" {
			r.violate("events-differ", kind.String()+": "+c15, hist)
		}
		if r.cfg.Prop == "C16" && c16 != "" {
			r.violate("fired-differ", c16, hist)
		}
		if r.cfg.Prop == "C16" && c15 != "" {
			r.res.Count("c15-difference-seen(not-judged-here)")
		}
	}
	pos := func() int64 {
		st := x.w.Stored()
		if !st.HasPosition {
			return int64(x.w.FirstBlock()) - 1
		}
		return st.SyncedNumber
	}

	extend(2 + rnd.Intn(4))
	nsteps := 10 + rnd.Intn(14)
	for i := 0; i < nsteps && !r.stop; i++ {
		switch k := rnd.Intn(100); {
		case k < 40: // the chain grows, the new head (or a later one: gap) is presented
			extend(1 + rnd.Intn(3))
			if rnd.Chance(75) {
				step(tip, tipSalt, "")
			}
			r.res.Count(kind.String() + ":op:grow")
		case k < 50: // the same head again, or an older block of the canonical chain
			if rnd.Chance(50) || tip.Number() < 2 {
				step(tip, tipSalt, " (repeat)")
			} else {
				back := tip
				for target := 1 + uint64(rnd.Intn(int(tip.Number())-1)); back.Number() > target; {
					back = x.w.Chain.Block(back.ParentHash())
				}
				step(back, 0, " (older block)")
			}
			r.res.Count(kind.String() + ":op:repeat-or-back")
		case k < 62: // an RPC or database fault during the next step, then the step again without fault
			extend(1 + rnd.Intn(2))
			rpc, dbEvents, cerr := x.w.CountCalls(ctx, tip)
			if cerr != nil || rpc+dbEvents == 0 {
				step(tip, tipSalt, "")
				continue
			}
			if rnd.Chance(40) && rpc > 0 {
				kk := 1 + rnd.Intn(rpc)
				x.w.FailRPC(kk)
				hist = append(hist, fmt.Sprintf("fail-rpc %d", kk))
				r.res.Count(kind.String() + ":fault:rpc")
			} else if dbEvents > 0 {
				kk := 1 + rnd.Intn(dbEvents)
				mode := []pgfake.Action{pgfake.Fail, pgfake.DropBefore, pgfake.DropAfter}[rnd.Intn(3)]
				x.w.FailDB(kk, mode)
				hist = append(hist, fmt.Sprintf("fail-db %d mode=%d", kk, mode))
				r.res.Count(kind.String() + ":fault:db")
			}
			step(tip, tipSalt, " (with fault)")
			if !r.stop {
				step(tip, tipSalt, " (again)")
			}
		default: // a fork no deeper than the assumed reorg depth
			p := pos()
			if p < 2 {
				extend(2)
				step(tip, tipSalt, "")
				continue
			}
			d := 1 + rnd.Intn(min(depth, int(p)-int(x.w.FirstBlock())+1, 6))
			forkNum := uint64(p) - uint64(d) // last common block
			if int64(forkNum) < 0 {
				continue
			}
			common := x.w.Chain.CanonicalByNumber(forkNum)
			if common == nil {
				continue
			}
			// the keys registered on the abandoned side may come back on the new side
			abandonedKeys = nil
			for k, t := range trigs {
				if t.at > forkNum {
					abandonedKeys = append(abandonedKeys, k)
					delete(trigs, k)
				}
			}
			sort.Ints(abandonedKeys)
			commonSalt := uint64(0)
			for key, b := range x.blocks {
				if b == common {
					commonSalt = key[1]
				}
			}
			salt++
			tip, tipSalt = common, commonSalt
			oldPos := uint64(p)
			// grow the new side beyond the old position
			extend(int(oldPos-forkNum) + 1 + rnd.Intn(3))
			hist = append(hist, fmt.Sprintf("fork: depth %d below position %d", d, oldPos))
			r.res.Count(fmt.Sprintf("%s:op:fork-depth-%d", kind, min(d, 4)))
			newAt := func(n uint64) *fakechain.Block {
				b := tip
				for b.Number() > n {
					b = x.w.Chain.Block(b.ParentHash())
				}
				return b
			}
			skipping := rnd.Chance(12) && r.cfg.Prop == "C15" // (the fired rows of a missed reorg are C15's finding, not C16's)
			// optionally a head of the new side at or below the position first
			if rnd.Chance(40) || skipping {
				step(newAt(forkNum+1+uint64(rnd.Intn(d))), salt, " (new fork, at or below the position)")
			}
			if r.stop {
				break
			}
			if skipping && tip.Number() >= oldPos+2 {
				// the head one past the position is never presented: the syncer cannot see the fork
				err := x.w.Sync(ctx, tip)
				r.res.Evaluations++
				hist = append(hist, fmt.Sprintf("sync %d/%d (new fork, skipping %d) err=%v", tip.Number(), salt, oldPos+1, err))
				c15, _ := check(x.w)
				if c15 != "" {
					if r.cfg.Prop == "C15" {
						r.violateOnce("reorg-missed-when-head-skips-position+1", kind.String()+": after a fork whose first new head was at or below the synced block, the head one past the synced block was skipped: "+c15, hist)
					}
					return nil // the state is off the chain from here on
				}
				continue
			}
			faulty := false
			if rnd.Chance(35) {
				// a fault inside the step that sees the fork: in the reset transaction, or in the resync after it
				head := newAt(oldPos + 1)
				rpc, dbEvents, cerr := x.w.CountCalls(ctx, head)
				if cerr == nil && rpc+dbEvents > 0 {
					if rnd.Chance(40) && rpc > 0 {
						kk := 1 + rnd.Intn(rpc)
						x.w.FailRPC(kk)
						hist = append(hist, fmt.Sprintf("fail-rpc %d", kk))
						r.res.Count(kind.String() + ":fault-in-fork-step:rpc")
					} else if dbEvents > 0 {
						kk := 1 + rnd.Intn(dbEvents)
						mode := []pgfake.Action{pgfake.Fail, pgfake.DropBefore, pgfake.DropAfter}[rnd.Intn(3)]
						x.w.FailDB(kk, mode)
						hist = append(hist, fmt.Sprintf("fail-db %d mode=%d", kk, mode))
						r.res.Count(kind.String() + ":fault-in-fork-step:db")
					}
					faulty = true
				}
			}
			beforeForkStep := x.w.Stored()
			step(newAt(oldPos+1), salt, " (new fork, one past the position)")
			if faulty && !r.stop {
				if st := x.w.Stored(); st.HasPosition && len(st.SyncedHash) == 0 &&
					(st.SyncedNumber != beforeForkStep.SyncedNumber || len(beforeForkStep.SyncedHash) != 0) {
					// the reset was stored and the resync failed: whatever comes next (often another fork, seen
					// at the reset position + 1) starts from a position without a hash
					r.res.Count(kind.String() + ":reset-stored-resync-failed")
					continue
				}
				// the same head again: a later head would be two past the position, which is the open finding
				// (a reorg is only seen at position + 1) in another guise
				step(newAt(oldPos+1), salt, " (again)")
			}
			if !r.stop && rnd.Chance(60) {
				step(tip, tipSalt, "")
			}
		}
	}
	if r.stop {
		return nil
	}
	// final: sync to the tip, then (C16) a second keyper over the same tree with another batching
	step(tip, tipSalt, " (final)")
	if r.stop || kind != syncrig.MultiEvent || r.cfg.Prop != "C16" {
		return nil
	}
	st := x.w.Stored()
	if !st.HasPosition || !x.w.PositionCanonical(st) {
		return nil
	}
	opts2 := opts
	opts2.MaxRange = []uint64{1, 2, 4, 100}[rnd.Intn(4)]
	y, err := newWorld(ctx, kind, opts2)
	if err != nil {
		return err
	}
	defer y.w.Close()
	for _, op := range ops {
		y.apply(op)
	}
	yTip := y.w.Chain.Block(tip.Hash())
	at := func(n uint64) *fakechain.Block {
		b := yTip
		for b.Number() > n {
			b = y.w.Chain.Block(b.ParentHash())
		}
		return b
	}
	// the second keyper walks the final canonical chain in its own steps
	for n := y.w.FirstBlock(); n <= tip.Number(); {
		n += uint64(rnd.Intn(5))
		if n > tip.Number() {
			n = tip.Number()
		}
		if err := y.w.Sync(ctx, at(n)); err != nil {
			return fmt.Errorf("second keyper: %w", err)
		}
		n++
	}
	if err := y.w.Sync(ctx, yTip); err != nil {
		return fmt.Errorf("second keyper: %w", err)
	}
	a, b := syncrig.FiredText(x.w.Stored().Fired), syncrig.FiredText(y.w.Stored().Fired)
	r.res.Count("batching-compared")
	if a != b {
		r.violate("batching-dependent", fmt.Sprintf("two keypers on the same chain (range limits %d and %d, different sync steps) recorded different fired triggers: [%s] vs [%s]", x.w.MaxRange(), y.w.MaxRange(), short(a), short(b)), hist)
	}
	// the model's view of the final chain
	line := chainLine(x.w, tip.Number(), itemsOf)
	r.items = append(r.items, item{line, "fired=" + firedModelText(x.w.Stored().Fired, nextKey)})
	r.res.Distinct(line)
	if len(r.res.Samples) < 3 {
		r.res.Sample(map[string]interface{}{"history": hist})
	}
	return nil
}

// reRegistration: a trigger is registered, (mostly) fires, and is registered again later on the same chain — the
// registry contract lets its owner do that at any time, e.g. to prolong a trigger — and then a reorg within the
// assumed depth replaces the block of the second registration. The first registration and the firing stay
// canonical throughout.
func (r *runner) reRegistration(ctx context.Context, rnd *hx.Rand) error {
	kind := syncrig.MultiEvent
	opts := syncrig.Opts{AssumedReorgDepth: 3, MaxRange: []uint64{1, 3, 100}[rnd.Intn(3)]}
	x, err := newWorld(ctx, kind, opts)
	if err != nil {
		return err
	}
	defer x.w.Close()
	hist := []string{fmt.Sprintf("%s sync-start=0 depth=%d max-range=%d (a trigger registered twice on one chain)", kind, x.w.AssumedReorgDepth(), x.w.MaxRange())}
	fires := rnd.Chance(70)
	again := rnd.Chance(50) // the new side registers it once more as well
	gap := 1 + rnd.Intn(3)
	tip, tipSalt := x.w.Chain.Genesis(), uint64(0)
	add := func(salt uint64, text string, logs func(w *syncrig.World) []types.Log) {
		op := buildOp{parentNum: tip.Number(), parentSalt: tipSalt, salt: salt, logs: logs,
			text: fmt.Sprintf("block %d/%d parent=%d/%d logs=%s", tip.Number()+1, salt, tip.Number(), tipSalt, text)}
		tip, tipSalt = x.apply(op), salt
		hist = append(hist, op.text)
	}
	none := func(w *syncrig.World) []types.Log { return nil }
	reg := func(expiry uint64) func(w *syncrig.World) []types.Log {
		return func(w *syncrig.World) []types.Log { return []types.Log{eventLog(w, kind, 0, expiry)} }
	}
	match := func(w *syncrig.World) []types.Log {
		return []types.Log{w.PlainLog(watched, []common.Hash{h32("t0")}, []byte{1})}
	}
	add(0, "register(0,expiry=40)", reg(40))
	if fires {
		add(0, "log(t0)", match)
	}
	for i := 0; i < gap; i++ {
		add(0, "", none)
	}
	common, commonSalt := tip, tipSalt
	add(0, "register(0,expiry=60)", reg(60))
	add(0, "", none)
	sync := func(note string) bool {
		err := x.w.Sync(ctx, tip)
		r.res.Evaluations++
		hist = append(hist, fmt.Sprintf("sync %d/%d%s err=%v", tip.Number(), tipSalt, note, err))
		c15, c16 := check(x.w)
		what := ""
		if r.cfg.Prop == "C15" {
			what = c15
		} else {
			what = c16
		}
		if what != "" {
			r.violateOnce("reregistered-trigger-rolled-back", "a trigger registered a second time on the same chain, then a reorg that replaces the block of the second registration only: "+what, hist)
			return false
		}
		return true
	}
	if !sync("") {
		return nil
	}
	// the other side of the fork: from the block before the second registration, one block longer
	tip, tipSalt = common, commonSalt
	if again {
		add(1, "register(0,expiry=50)", reg(50))
	} else {
		add(1, "", none)
	}
	add(1, "", none)
	add(1, "", none)
	hist = append(hist, "fork: the block of the second registration is replaced")
	r.res.Count("reregistration-scenarios")
	if !sync(" (new fork, one past the position)") {
		return nil
	}
	if !fires {
		// the trigger is still pending under its canonical registration: a matching log now fires it
		add(1, "log(t0)", match)
		sync("")
	}
	return nil
}

// sharedFilter: two triggers that the node-side filter cannot tell apart (same contract, same first topic) and that
// differ in a predicate the filter does not carry (second topic, read as a number, at least 1000 / below 1000),
// both pending while logs for each of them arrive close together, so that with a range limit above one they come
// back from the node in one answer: each trigger fires on the first log matching its own definition.
func (r *runner) sharedFilter(ctx context.Context, rnd *hx.Rand) error {
	kind := syncrig.MultiEvent
	opts := syncrig.Opts{AssumedReorgDepth: 3, MaxRange: []uint64{1, 3, 100}[rnd.Intn(3)]}
	x, err := newWorld(ctx, kind, opts)
	if err != nil {
		return err
	}
	defer x.w.Close()
	hist := []string{fmt.Sprintf("%s sync-start=0 depth=%d max-range=%d (two triggers with one filter and different further predicates)", kind, x.w.AssumedReorgDepth(), x.w.MaxRange())}
	tip, tipSalt := x.w.Chain.Genesis(), uint64(0)
	add := func(text string, logs func(w *syncrig.World) []types.Log) {
		op := buildOp{parentNum: tip.Number(), parentSalt: tipSalt, salt: 0, logs: logs,
			text: fmt.Sprintf("block %d/0 parent=%d/%d logs=%s", tip.Number()+1, tip.Number(), tipSalt, text)}
		tip, tipSalt = x.apply(op), 0
		hist = append(hist, op.text)
	}
	none := func(w *syncrig.World) []types.Log { return nil }
	topic := h32("shared")
	def := func(op shutterservice.Op) []byte {
		return syncrig.TriggerDefinition(watched, syncrig.TopicEq(0, topic), syncrig.Pred{Offset: 1, Op: op, Int: big.NewInt(1000)})
	}
	regLarge := func(w *syncrig.World) types.Log {
		return w.EventTriggerRegisteredLog(1, h32("large"), addrOf("senderlarge"), def(shutterservice.UintGte), 60)
	}
	regSmall := func(w *syncrig.World) types.Log {
		return w.EventTriggerRegisteredLog(1, h32("small"), addrOf("sendersmall"), def(shutterservice.UintLt), 60)
	}
	plain := func(v int64) func(w *syncrig.World) []types.Log {
		return func(w *syncrig.World) []types.Log {
			return []types.Log{w.PlainLog(watched, []common.Hash{topic, common.BigToHash(big.NewInt(v))}, []byte{1})}
		}
	}
	order := rnd.Intn(3)
	switch order {
	case 0:
		add("register(large) register(small)", func(w *syncrig.World) []types.Log { return []types.Log{regLarge(w), regSmall(w)} })
	case 1:
		add("register(small) register(large)", func(w *syncrig.World) []types.Log { return []types.Log{regSmall(w), regLarge(w)} })
	default:
		add("register(large)", func(w *syncrig.World) []types.Log { return []types.Log{regLarge(w)} })
		add("register(small)", func(w *syncrig.World) []types.Log { return []types.Log{regSmall(w)} })
	}
	sync := func() bool {
		err := x.w.Sync(ctx, tip)
		r.res.Evaluations++
		hist = append(hist, fmt.Sprintf("sync %d/%d err=%v", tip.Number(), tipSalt, err))
		_, c16 := check(x.w)
		if c16 != "" {
			r.violateOnce("shared-filter", "two pending triggers with the same node-side filter and different further predicates: "+c16, hist)
			return false
		}
		return true
	}
	if rnd.Bool() { // the registrations are synced before the logs exist, or together with them
		if !sync() {
			return nil
		}
	}
	for i := rnd.Intn(2); i > 0; i-- {
		add("", none)
	}
	first, second := int64(5), int64(5000)
	if rnd.Chance(40) {
		first, second = second, first
	}
	add(fmt.Sprintf("log(shared,%d)", first), plain(first))
	for i := rnd.Intn(3); i > 0; i-- {
		add("", none)
	}
	add(fmt.Sprintf("log(shared,%d)", second), plain(second))
	add("", none)
	r.res.Count("shared-filter-scenarios")
	sync()
	return nil
}

// Run is the C15 / C16 check.
func Run(cfg Config) (int, error) {
	res := hx.NewResult(cfg.Prop, cfg.Seed, cfg.Tier)
	res.Rule = "random block trees (registrations keyed uniquely per chain, the same key registered again on the other side of a fork, for triggers: matching logs in the registration block, the next block, at and after expiry, unrelated logs), head sequences with growth, gaps, repeats, older blocks and forks of depth 1..min(assumed depth,6) whose first new head is at or one past the synced block, one RPC or database fault (error, crash before / after the statement or commit) at a random call followed by a clean retry; sync start 0 or 3; for the multi event syncer assumed depth 2/3/10 and range limit 1/2/3/5/100. Distinct by final chain line."
	r := &runner{cfg: cfg, res: res, once: map[string]bool{}}
	ctx := context.Background()
	if cfg.Replay != "" {
		return 2, fmt.Errorf("replay: re-run the check with the same VERIF_SEED; the replay file lists the chain and head history")
	}
	n := 150
	if cfg.Tier == "thorough" {
		n = 6000
	}
	kinds := []syncrig.Kind{syncrig.Registry, syncrig.MultiEvent, syncrig.Sequencer}
	if cfg.Prop == "C16" {
		kinds = []syncrig.Kind{syncrig.MultiEvent}
	}
	rnd := hx.NewRand(cfg.Seed ^ 0xC15)
	for sc := 0; sc < n && !r.stop; sc++ {
		for _, kind := range kinds {
			if r.stop {
				break
			}
			if err := r.scenario(ctx, rnd.Fork(), kind); err != nil {
				return 2, err
			}
		}
	}
	// the second registration of one trigger on one chain (what the scenarios above leave out)
	for sc := 0; sc < 12 && !r.stop; sc++ {
		if err := r.reRegistration(ctx, rnd.Fork()); err != nil {
			return 2, err
		}
	}
	if cfg.Prop == "C16" {
		for sc := 0; sc < 18 && !r.stop; sc++ {
			if err := r.sharedFilter(ctx, rnd.Fork()); err != nil {
				return 2, err
			}
		}
	}
	lines := []string{}
	for _, it := range r.items {
		lines = append(lines, it.line)
	}
	if len(lines) > 0 && !r.stop {
		model, err := hx.RunLean(cfg.Lean, lines)
		if err != nil {
			return 2, err
		}
		for i, it := range r.items {
			res.Traces++
			if model[i] != it.impl {
				path := filepath.Join(cfg.ReplayDir, fmt.Sprintf("%s-correspondence-%d.json", cfg.Prop, len(res.Violations)))
				_ = os.MkdirAll(cfg.ReplayDir, 0o755)
				b, _ := json.MarshalIndent(map[string]interface{}{"property": cfg.Prop, "kind": "correspondence", "lines": []string{it.line}, "impl": it.impl, "model": model[i]}, "", " ")
				_ = os.WriteFile(path, b, 0o644)
				res.Violate(hx.Violation{Kind: "correspondence", Key: "model", What: fmt.Sprintf("impl=%q model=%q", it.impl, model[i]), Replay: path})
				break
			}
		}
	}
	if cfg.Out != "" {
		if err := res.Write(cfg.Out); err != nil {
			return 2, err
		}
	}
	if len(res.Violations) > 0 {
		return 1, nil
	}
	return 0, nil
}

// chainLine renders the canonical chain from the first synced block to last for the trigger model:
// `TRG <first> <last> <number:item,item;…>`.
func chainLine(w *syncrig.World, last uint64, itemsOf map[common.Hash][]string) string {
	parts := []string{}
	for n := w.FirstBlock(); n <= last; n++ {
		b := w.Chain.CanonicalByNumber(n)
		if b == nil {
			break
		}
		its := itemsOf[b.Hash()]
		txt := "-"
		if len(its) > 0 {
			txt = strings.Join(its, ",")
		}
		parts = append(parts, fmt.Sprintf("%d:%s", n, txt))
	}
	if len(parts) == 0 {
		parts = []string{"-"}
	}
	return fmt.Sprintf("TRG %d %d %s", w.FirstBlock(), last, strings.Join(parts, ";"))
}

// firedModelText renders fired rows as `<key>@<block>/<log index>` sorted by key.
func firedModelText(rows []syncrig.FiredRow, nkeys int) string {
	keyOf := map[string]int{}
	for k := 0; k < nkeys; k++ {
		p := h32(fmt.Sprintf("ev%d", k))
		keyOf[string(p[:])] = k
	}
	type fr struct{ k, b, l int64 }
	out := []fr{}
	for _, r := range rows {
		k := keyOf[string(r.IdentityPrefix)]
		if r.Eon != int64(1+k%2) { // the twin: the same trigger registered for the other keyper set
			k += 1000
		}
		out = append(out, fr{int64(k), r.BlockNumber, r.LogIndex})
	}
	sort.Slice(out, func(i, j int) bool { return out[i].k < out[j].k })
	parts := []string{}
	for _, f := range out {
		parts = append(parts, fmt.Sprintf("%d@%d/%d", f.k, f.b, f.l))
	}
	if len(parts) == 0 {
		return "-"
	}
	return strings.Join(parts, ";")
}

// ---- the syncer model's view of one step (C15) ----

type ids struct {
	hash    map[common.Hash]int
	key     map[string]int
	payload map[string]int
}

func newIDs() *ids {
	return &ids{hash: map[common.Hash]int{}, key: map[string]int{}, payload: map[string]int{}}
}

func (x *ids) hashID(h common.Hash) int {
	if _, ok := x.hash[h]; !ok {
		x.hash[h] = len(x.hash) + 1
	}
	return x.hash[h]
}

func keyText(kind syncrig.Kind, e syncrig.StoredEvent) string {
	switch kind {
	case syncrig.Registry:
		return fmt.Sprintf("%x|%s", e.IdentityPrefix, e.Sender)
	case syncrig.MultiEvent:
		return fmt.Sprintf("%d|%x", e.Eon, e.Identity)
	default:
		return fmt.Sprintf("%d|%d", e.Eon, e.Index)
	}
}

func (x *ids) row(kind syncrig.Kind, e syncrig.StoredEvent) string {
	k := keyText(kind, e)
	if _, ok := x.key[k]; !ok {
		x.key[k] = len(x.key) + 1
	}
	// everything but the block number is the payload (the block hash included: rows of abandoned blocks differ)
	c := e
	c.BlockNumber = 0
	p := c.Text()
	if _, ok := x.payload[p]; !ok {
		x.payload[p] = len(x.payload) + 1
	}
	return fmt.Sprintf("%d/%d/%d", x.key[k], e.BlockNumber, x.payload[p])
}

func (x *ids) rowsText(kind syncrig.Kind, evs []syncrig.StoredEvent) string {
	type kr struct {
		block int64
		key   int
		txt   string
	}
	rows := []kr{}
	for _, e := range evs {
		t := x.row(kind, e)
		var k, b, p int
		fmt.Sscanf(t, "%d/%d/%d", &k, &b, &p)
		rows = append(rows, kr{e.BlockNumber, k, t})
	}
	sort.Slice(rows, func(i, j int) bool {
		if rows[i].block != rows[j].block {
			return rows[i].block < rows[j].block
		}
		return rows[i].key < rows[j].key
	})
	parts := []string{}
	for _, r := range rows {
		parts = append(parts, r.txt)
	}
	if len(parts) == 0 {
		return "-"
	}
	return strings.Join(parts, ";")
}

func (x *ids) posText(st syncrig.Stored) string {
	if !st.HasPosition {
		return "-"
	}
	h := 0
	if len(st.SyncedHash) > 0 {
		h = x.hashID(common.BytesToHash(st.SyncedHash))
	}
	return fmt.Sprintf("%d/%d", st.SyncedNumber, h)
}

// synLine renders pre-state, the canonical chain up to the head and how far the call got.
func synLine(w *syncrig.World, x *ids, pre, post syncrig.Stored, head uint64, callErr error) (line, impl string) {
	blocks := []string{}
	for n := uint64(0); n <= head; n++ {
		b := w.Chain.CanonicalByNumber(n)
		if b == nil {
			break
		}
		evs := []string{}
		for _, e := range w.CanonicalEvents(n, n) {
			t := strings.SplitN(x.row(w.Kind, e), "/", 3)
			evs = append(evs, t[0]+":"+t[2])
		}
		et := "-"
		if len(evs) > 0 {
			et = strings.Join(evs, "+")
		}
		parent := 0
		if n > 0 {
			parent = x.hashID(b.ParentHash())
		}
		blocks = append(blocks, fmt.Sprintf("%d/%d/%d/%s", n, x.hashID(b.Hash()), parent, et))
	}
	upTo := "-"
	// the call stored something iff the position now carries a real hash that it did not carry before at that number
	if post.HasPosition && len(post.SyncedHash) > 0 && (!pre.HasPosition || post.SyncedNumber != pre.SyncedNumber || string(post.SyncedHash) != string(pre.SyncedHash)) {
		upTo = fmt.Sprintf("%d", post.SyncedNumber)
	}
	if callErr != nil && upTo == "-" && x.posText(pre) == x.posText(post) && x.rowsText(w.Kind, pre.Events) == x.rowsText(w.Kind, post.Events) {
		upTo = "x" // the call failed and left everything as it was: it did not get past the reset transaction
	}
	line = fmt.Sprintf("SYN %d %d %s %s %s %d %s", w.AssumedReorgDepth(), w.FirstBlock(), x.posText(pre), x.rowsText(w.Kind, pre.Events), strings.Join(blocks, ";"), head, upTo)
	impl = fmt.Sprintf("pos=%s rows=%s", x.posText(post), x.rowsText(w.Kind, post.Events))
	return line, impl
}
