// Package hx holds what every property driver shares: the PRNG, the Lean driver pipe, the
// result file, replay files.
package hx

import (
	"bufio"
	"bytes"
	"encoding/json"
	"fmt"
	"os"
	"os/exec"
	"path/filepath"
	"sort"
	"strings"
	"time"
)

// Rand is splitmix64; every random choice of a run derives from one state.
type Rand struct{ s uint64 }

func NewRand(seed uint64) *Rand { return &Rand{s: seed*0x9E3779B97F4A7C15 + 0x1234567} }

func (r *Rand) U64() uint64 {
	r.s += 0x9E3779B97F4A7C15
	z := r.s
	z = (z ^ (z >> 30)) * 0xBF58476D1CE4E5B9
	z = (z ^ (z >> 27)) * 0x94D049BB133111EB
	return z ^ (z >> 31)
}
func (r *Rand) Intn(n int) int {
	if n <= 0 {
		return 0
	}
	return int(r.U64() % uint64(n))
}
func (r *Rand) Perm(n int) []int {
	p := make([]int, n)
	for i := range p {
		p[i] = i
	}
	for i := n - 1; i > 0; i-- {
		j := r.Intn(i + 1)
		p[i], p[j] = p[j], p[i]
	}
	return p
}
func (r *Rand) Bool() bool         { return r.U64()&1 == 1 }
func (r *Rand) Chance(p int) bool  { return r.Intn(100) < p }
func (r *Rand) Fork() *Rand        { return NewRand(r.U64()) }
func (r *Rand) Bytes(n int) []byte { b := make([]byte, n); for i := range b { b[i] = byte(r.U64()) }; return b }

// RunLean pipes lines to the Lean driver executable and returns one output line per input line.
func RunLean(driver string, lines []string) ([]string, error) {
	if len(lines) == 0 {
		return []string{}, nil
	}
	cmd := exec.Command(driver)
	cmd.Stdin = strings.NewReader(strings.Join(lines, "\n") + "\n")
	var out, errb bytes.Buffer
	cmd.Stdout = &out
	cmd.Stderr = &errb
	if err := cmd.Run(); err != nil {
		return nil, fmt.Errorf("lean driver: %v: %s", err, errb.String())
	}
	res := []string{}
	sc := bufio.NewScanner(&out)
	sc.Buffer(make([]byte, 1<<20), 1<<28)
	for sc.Scan() {
		res = append(res, sc.Text())
	}
	if len(res) != len(lines) {
		return res, fmt.Errorf("lean driver answered %d lines for %d ops", len(res), len(lines))
	}
	return res, nil
}

// Violation is one thing a run found.
type Violation struct {
	Kind   string      `json:"kind"` // "spec" (impl violates the property), "correspondence" (impl != model), "model-spec" (model violates spec: driver bug)
	Key    string      `json:"key"`  // class of the failing input, matched against known_findings.json
	What   string      `json:"what"`
	Replay interface{} `json:"replay"` // minimal op list etc.
}

// Result is written by a driver and turned into the evidence file by bin/check.
type Result struct {
	Property     string                 `json:"property"`
	Seed         uint64                 `json:"seed"`
	Tier         string                 `json:"tier"`
	Evaluations  int                    `json:"evaluations"`
	Nontrivial   int                    `json:"distinct_nontrivial"`
	Rule         string                 `json:"rule"`
	Samples      []interface{}          `json:"samples"`
	Traces       int                    `json:"traces_validated_against_impl"`
	Exhaustive   bool                   `json:"exhaustive"`
	Distribution map[string]int         `json:"distribution"`
	Extra        map[string]interface{} `json:"extra,omitempty"`
	Violations   []Violation            `json:"violations"`
	WallS        float64                `json:"wall_s"`
	start        time.Time
	distinct     map[string]struct{}
}

func NewResult(prop string, seed uint64, tier string) *Result {
	return &Result{Property: prop, Seed: seed, Tier: tier, Distribution: map[string]int{},
		Extra: map[string]interface{}{}, start: time.Now(), distinct: map[string]struct{}{}, Violations: []Violation{}, Samples: []interface{}{}}
}

func (r *Result) Count(k string)        { r.Distribution[k]++ }
func (r *Result) CountN(k string, n int) { r.Distribution[k] += n }

// Distinct records a non-trivial case by its canonical text; duplicates are counted once.
func (r *Result) Distinct(canon string) {
	r.distinct[canon] = struct{}{}
}
func (r *Result) Sample(s interface{}) {
	if len(r.Samples) < 5 {
		r.Samples = append(r.Samples, s)
	}
}
func (r *Result) Violate(v Violation) {
	if len(r.Violations) < 20 {
		r.Violations = append(r.Violations, v)
	}
}
func (r *Result) Write(path string) error {
	r.Nontrivial = len(r.distinct)
	r.WallS = time.Since(r.start).Seconds()
	b, err := json.MarshalIndent(r, "", " ")
	if err != nil {
		return err
	}
	if err := os.MkdirAll(filepath.Dir(path), 0o755); err != nil {
		return err
	}
	return os.WriteFile(path, b, 0o644)
}

func SortedKeys[V any](m map[string]V) []string {
	ks := make([]string, 0, len(m))
	for k := range m {
		ks = append(ks, k)
	}
	sort.Strings(ks)
	return ks
}

// Env helpers
func EnvOr(k, d string) string {
	if v := os.Getenv(k); v != "" {
		return v
	}
	return d
}
