//go:build verif

// Package gsrig drives the Gnosis keyper's slot handler and transaction pointer (C19) over pgfake + kdb:
// the real processNewSlot (hook), DecryptionKeysHandler.HandleMessage and MessagingMiddleware.SendMessage.
package gsrig

import (
	"bytes"
	"context"
	"database/sql"
	"encoding/hex"
	"encoding/json"
	"fmt"
	"github.com/shutter-network/rolling-shutter/rolling-shutter/medley/identitypreimage"
	"math/big"
	"net/http"
	"net/http/httptest"
	"os"
	"path/filepath"
	"sort"
	"strconv"
	"strings"
	"time"

	"github.com/ethereum/go-ethereum/common"
	"github.com/ethereum/go-ethereum/crypto"
	"github.com/jackc/pgx/v4/pgxpool"

	"github.com/shutter-network/rolling-shutter/rolling-shutter/keyper/epochkghandler"
	"github.com/shutter-network/rolling-shutter/rolling-shutter/keyperimpl/gnosis"
	gnosisdatabase "github.com/shutter-network/rolling-shutter/rolling-shutter/keyperimpl/gnosis/database"
	"github.com/shutter-network/rolling-shutter/rolling-shutter/medley/beaconapiclient"
	"github.com/shutter-network/rolling-shutter/rolling-shutter/medley/broker"
	"github.com/shutter-network/rolling-shutter/rolling-shutter/medley/configuration"
	"github.com/shutter-network/rolling-shutter/rolling-shutter/medley/encodeable/keys"
	"github.com/shutter-network/rolling-shutter/rolling-shutter/medley/retry"
	"github.com/shutter-network/rolling-shutter/rolling-shutter/medley/service"
	"github.com/shutter-network/rolling-shutter/rolling-shutter/p2p"
	"github.com/shutter-network/rolling-shutter/rolling-shutter/p2pmsg"
	"github.com/shutter-network/rolling-shutter/rolling-shutter/shdb"

	"verif/harness/hx"
	"verif/harness/kdb"
	"verif/harness/pgfake"
)

type Config struct {
	Tier, Lean, Out, ReplayDir, Replay string
	Seed                               uint64
}

const (
	slotsPerEpoch   = 4
	registeredVal   = 7
	unregisteredVal = 8
)

// ---- fakes ----

type sink struct{ sent []p2pmsg.Message }

func (m *sink) Start(context.Context, service.Runner) error       { return nil }
func (m *sink) AddValidator(p2p.ValidatorFunc, ...p2pmsg.Message) {}
func (m *sink) AddMessageHandler(...p2p.MessageHandler)           {}
func (m *sink) SendMessage(_ context.Context, msg p2pmsg.Message, _ ...retry.Option) error {
	m.sent = append(m.sent, msg)
	return nil
}

// beacon answers proposer duties: the proposer of slot s is the unregistered validator iff unreg[s].
type beacon struct {
	srv   *httptest.Server
	unreg map[uint64]bool
}

func newBeacon() *beacon {
	b := &beacon{unreg: map[uint64]bool{}}
	b.srv = httptest.NewServer(http.HandlerFunc(func(w http.ResponseWriter, r *http.Request) {
		parts := strings.Split(strings.TrimSuffix(r.URL.Path, "/"), "/")
		epoch, err := strconv.ParseUint(parts[len(parts)-1], 10, 64)
		if err != nil {
			w.WriteHeader(http.StatusNotFound)
			return
		}
		type duty struct {
			Pubkey         string `json:"pubkey"`
			ValidatorIndex string `json:"validator_index"`
			Slot           string `json:"slot"`
		}
		out := struct {
			Data []duty `json:"data"`
		}{}
		for s := epoch * slotsPerEpoch; s < (epoch+1)*slotsPerEpoch; s++ {
			v := registeredVal
			if b.unreg[s] {
				v = unregisteredVal
			}
			out.Data = append(out.Data, duty{"0x00", strconv.Itoa(v), strconv.FormatUint(s, 10)})
		}
		_ = json.NewEncoder(w).Encode(out)
	}))
	return b
}

// ---- one keyper over one database ----

type node struct {
	srv     *pgfake.Server
	pool    *pgxpool.Pool
	kpr     *gnosis.Keyper
	ch      chan *broker.Event[*epochkghandler.DecryptionTrigger]
	mw      *gnosis.MessagingMiddleware
	sink    *sink
	handler p2p.MessageHandler
}

func newNode(ctx context.Context, cfg *gnosis.Config, bc *beaconapiclient.Client, st *kdb.DB) (*node, error) {
	n := &node{srv: pgfake.NewServer(st), sink: &sink{}}
	kdb.Register(n.srv)
	pool, err := n.srv.Pool(ctx, 2)
	if err != nil {
		return nil, err
	}
	n.pool = pool
	n.ch = make(chan *broker.Event[*epochkghandler.DecryptionTrigger], 4)
	n.kpr = gnosis.VerifNewKeyper(cfg, pool, bc, n.ch)
	n.mw = gnosis.NewMessagingMiddleware(n.sink, pool, cfg)
	n.handler = gnosis.VerifNewDecryptionKeysHandler(pool)
	return n, nil
}

func (n *node) close()      { n.pool.Close(); n.srv.Close() }
func (n *node) db() *kdb.DB { return n.srv.State().(*kdb.DB) }

type tickOut struct {
	emitted bool
	err     error
	ids     [][]byte
	block   uint64
}

// issued keeps the identity lists of the last triggers as the implementation handed them over (the very slices,
// which the key share handler reads later on) next to a copy taken at that moment.
type issuedTrigger struct {
	slot uint64
	orig []identitypreimage.IdentityPreimage
	snap [][]byte
}

var issued []issuedTrigger

// issuedChanged reports a trigger whose identity list no longer reads as it did when it was issued.
func issuedChanged() string {
	for _, it := range issued {
		for i := range it.orig {
			if !bytes.Equal(it.orig[i], it.snap[i]) {
				return fmt.Sprintf("the trigger issued for slot %d listed identity %d as %x; after later slots were handled the same trigger reads %x", it.slot, i, it.snap[i], []byte(it.orig[i]))
			}
		}
	}
	return ""
}

var devnull, _ = os.OpenFile(os.DevNull, os.O_WRONLY, 0)

// tick runs the slot handler; the implementation prints the slot number to stdout, which is muted.
func (n *node) tick(ctx context.Context, slot uint64) tickOut {
	saved := os.Stdout
	os.Stdout = devnull
	err := n.kpr.VerifProcessNewSlot(ctx, slot)
	os.Stdout = saved
	out := tickOut{err: err}
	select {
	case ev := <-n.ch:
		out.emitted = true
		out.block = ev.Value.BlockNumber
		for _, id := range ev.Value.IdentityPreimages {
			out.ids = append(out.ids, append([]byte{}, id...))
		}
		issued = append(issued, issuedTrigger{slot: slot, orig: ev.Value.IdentityPreimages, snap: out.ids})
		if len(issued) > 6 {
			issued = issued[len(issued)-6:]
		}
	default:
	}
	return out
}

// ---- canonical text ----

func hexOf(b []byte) string {
	if len(b) == 0 {
		return "-"
	}
	return hex.EncodeToString(b)
}

func rowsText(db *kdb.DB) string {
	parts := []string{}
	for _, r := range db.TransactionSubmittedEvent {
		a, _ := shdb.DecodeAddress(r.Sender)
		parts = append(parts, fmt.Sprintf("%d/%d/%s/%s/%d", r.Index, r.Eon, hexOf(r.IdentityPrefix), hexOf(a.Bytes()), r.GasLimit))
	}
	if len(parts) == 0 {
		return "-"
	}
	return strings.Join(parts, ";")
}

func ptrsText(db *kdb.DB) string {
	rows := append([]kdb.TxPointerRow{}, db.TxPointer...)
	sort.Slice(rows, func(i, j int) bool { return rows[i].Eon < rows[j].Eon })
	parts := []string{}
	for _, r := range rows {
		age := "n"
		if r.Age.Valid {
			age = strconv.FormatInt(r.Age.Int64, 10)
		}
		parts = append(parts, fmt.Sprintf("%d/%d/%s", r.Eon, r.Value, age))
	}
	if len(parts) == 0 {
		return "-"
	}
	return strings.Join(parts, ";")
}

func idsText(ids [][]byte) string {
	parts := []string{}
	for _, id := range ids {
		parts = append(parts, hexOf(id))
	}
	return strings.Join(parts, ",")
}

// ---- the property, written independently of the model (used on the implementation's outputs) ----

func slotIdentity(slot uint64) []byte {
	b := make([]byte, 52)
	new(big.Int).SetUint64(slot).FillBytes(b[32:])
	return b
}

type qtx struct {
	index, gas int64
	id         []byte
}

// queueOf returns the eon's queue in index order and whether it is numbered 0,1,2,… without gaps.
func queueOf(db *kdb.DB, eon int64) ([]qtx, bool) {
	q := []qtx{}
	for _, r := range db.TransactionSubmittedEvent {
		if r.Eon == eon {
			a, _ := shdb.DecodeAddress(r.Sender)
			q = append(q, qtx{r.Index, r.GasLimit, append(append([]byte{}, r.IdentityPrefix...), a.Bytes()...)})
		}
	}
	sort.Slice(q, func(i, j int) bool { return q[i].index < q[j].index })
	for i, t := range q {
		if t.index != int64(i) {
			return q, false
		}
	}
	return q, true
}

// expectedIdentities is the statement of C19: the slot identity, then queued transactions from the
// pointer in queue order while the cumulative gas stays within the limit (at least one), sorted.
// slotFirst reports whether every chosen identity is byte-wise above the slot identity.
func expectedIdentities(q []qtx, ptr int64, slot uint64, gasLimit uint64) (ids [][]byte, slotFirst bool) {
	sid := slotIdentity(slot)
	chosen := [][]byte{}
	var gas uint64
	for i := ptr; i >= 0 && i < int64(len(q)); i++ {
		gas += uint64(q[i].gas)
		if gas > gasLimit && len(chosen) >= 1 {
			break
		}
		chosen = append(chosen, q[i].id)
	}
	slotFirst = true
	for _, c := range chosen {
		if bytes.Compare(c, sid) <= 0 {
			slotFirst = false
		}
	}
	sort.Slice(chosen, func(i, j int) bool { return bytes.Compare(chosen[i], chosen[j]) < 0 })
	if slotFirst {
		return append([][]byte{sid}, chosen...), true
	}
	all := append([][]byte{sid}, chosen...)
	sort.Slice(all, func(i, j int) bool { return bytes.Compare(all[i], all[j]) < 0 })
	return all, false
}

func sameIDs(a, b [][]byte) bool {
	if len(a) != len(b) {
		return false
	}
	for i := range a {
		if !bytes.Equal(a[i], b[i]) {
			return false
		}
	}
	return true
}

// ---- run ----

type item struct{ line, impl string }

type runner struct {
	cfg   Config
	res   *hx.Result
	items []item
}

func (r *runner) violate(kind, key, what string, lines []string) {
	path := filepath.Join(r.cfg.ReplayDir, fmt.Sprintf("C19-%s-%s-%d.json", kind, key, len(r.res.Violations)))
	_ = os.MkdirAll(r.cfg.ReplayDir, 0o755)
	b, _ := json.MarshalIndent(map[string]interface{}{"property": "C19", "kind": kind, "what": what, "lines": lines,
		"how": "each line is `GS <gasLimit> <minGas> <maxAge> <queue rows index/eon/prefix/sender/gas> <tx_pointer rows eon/value/age> <op>`; replay with cmd/gscheck -replay <this file>"}, "", " ")
	_ = os.WriteFile(path, b, 0o644)
	r.res.Violate(hx.Violation{Kind: kind, Key: key, What: what, Replay: path})
}

func me() (*keys.ECDSAPrivate, common.Address) {
	k, _ := crypto.ToECDSA(crypto.Keccak256([]byte("verif-gs-me")))
	return &keys.ECDSAPrivate{Key: k}, crypto.PubkeyToAddress(k.PublicKey)
}

func other(i int) common.Address {
	k, _ := crypto.ToECDSA(crypto.Keccak256([]byte(fmt.Sprintf("verif-gs-%d", i))))
	return crypto.PubkeyToAddress(k.PublicKey)
}

func gcfg(url string, gasLimit, minGas, maxAge uint64) *gnosis.Config {
	priv, _ := me()
	c := &gnosis.Config{InstanceID: 42, BeaconAPIURL: url}
	c.Gnosis = &gnosis.GnosisConfig{
		Node:                 &configuration.EthnodeConfig{PrivateKey: priv},
		EncryptedGasLimit:    gasLimit,
		MinGasPerTransaction: minGas,
		MaxTxPointerAge:      maxAge,
		SecondsPerSlot:       5,
		SlotsPerEpoch:        slotsPerEpoch,
	}
	return c
}

// shuffled returns a copy of the state whose queue rows and pointer rows are in another physical order.
func shuffled(db *kdb.DB, r *hx.Rand) *kdb.DB {
	c := db.Clone().(*kdb.DB)
	p := r.Perm(len(c.TransactionSubmittedEvent))
	rows := make([]kdb.TransactionSubmittedEventRow, len(p))
	for i, j := range p {
		rows[i] = c.TransactionSubmittedEvent[j]
	}
	c.TransactionSubmittedEvent = rows
	p = r.Perm(len(c.TxPointer))
	ptrs := make([]kdb.TxPointerRow, len(p))
	for i, j := range p {
		ptrs[i] = c.TxPointer[j]
	}
	c.TxPointer = ptrs
	return c
}

type env struct {
	gasLimit, minGas, maxAge uint64
}

func (e env) prefix() string { return fmt.Sprintf("GS %d %d %d", e.gasLimit, e.minGas, e.maxAge) }

// predicted gating of a slot tick from the tables, as maybeTriggerDecryption decides it
type gate struct {
	run       bool // the handler should reach triggerDecryption and emit
	errExpect bool // the handler returns an error before emitting
	eonE      int64
	eonK      int64
	nextBlock int64
}

func predict(db *kdb.DB, meAddr common.Address, latest *uint64, slot uint64, unreg bool) gate {
	g := gate{}
	if latest != nil && slot <= *latest {
		return g
	}
	var syncedSlot, syncedBlock int64
	if len(db.TransactionSubmittedEventsSyncedUntil) > 0 {
		syncedSlot = db.TransactionSubmittedEventsSyncedUntil[0].Slot
		syncedBlock = db.TransactionSubmittedEventsSyncedUntil[0].BlockNumber
	}
	if syncedSlot >= int64(slot) {
		g.errExpect = true
		return g
	}
	g.nextBlock = syncedBlock + 1
	var ks *kdb.KeyperSetRow
	for i := range db.KeyperSet {
		k := &db.KeyperSet[i]
		if k.ActivationBlockNumber <= g.nextBlock && (ks == nil || k.ActivationBlockNumber > ks.ActivationBlockNumber) {
			ks = k
		}
	}
	if ks == nil {
		return g
	}
	member := false
	for _, k := range ks.Keypers {
		if k == shdb.EncodeAddress(meAddr) {
			member = true
		}
	}
	if !member || unreg {
		return g
	}
	g.eonK = ks.KeyperConfigIndex
	var eon *kdb.EonRow
	for i := range db.Eons {
		e := &db.Eons[i]
		if e.ActivationBlockNumber > g.nextBlock {
			continue
		}
		if eon == nil || e.ActivationBlockNumber > eon.ActivationBlockNumber ||
			(e.ActivationBlockNumber == eon.ActivationBlockNumber && e.Height > eon.Height) {
			eon = e
		}
	}
	if eon == nil {
		g.errExpect = true
		return g
	}
	g.eonE = eon.KeyperConfigIndex
	g.run = true
	return g
}

// checkTick evaluates the property on what the implementation emitted for a slot and queues the model line.
func (r *runner) checkTick(e env, pre *kdb.DB, post *kdb.DB, g gate, slot uint64, out tickOut, op string) bool {
	line := fmt.Sprintf("%s %s %s %s %d %d %d", e.prefix(), rowsText(pre), ptrsText(pre), op, g.eonE, g.eonK, slot)
	tooBig := e.gasLimit/e.minGas+1 > 2147483647
	if !out.emitted {
		if tooBig && out.err != nil {
			r.items = append(r.items, item{line, "err ptrs=" + ptrsText(post)})
			r.res.Count("tick:gas-limit-too-big")
			return true
		}
		r.violate("spec", "no-request", fmt.Sprintf("slot %d: member keyper, registered proposer, eon known, but no identities were requested (err=%v)", slot, out.err), []string{line})
		return false
	}
	// pointer used, from current_decryption_trigger
	var used *kdb.GnosisCurrentDecryptionTriggerRow
	for i := range post.GnosisCurrentDecryptionTrigger {
		if post.GnosisCurrentDecryptionTrigger[i].Eon == g.eonE {
			used = &post.GnosisCurrentDecryptionTrigger[i]
		}
	}
	if used == nil || used.Slot != int64(slot) {
		r.violate("spec", "trigger-not-recorded", fmt.Sprintf("slot %d: identities requested but the trigger in flight was not recorded for eon %d", slot, g.eonE), []string{line})
		return false
	}
	impl := fmt.Sprintf("ptr=%d ids=%s ptrs=%s", used.TxPointer, idsText(out.ids), ptrsText(post))
	r.items = append(r.items, item{line, impl})
	r.res.Distinct(line)
	if len(r.res.Samples) < 3 && len(out.ids) >= 3 {
		r.res.Sample(map[string]string{"line": line, "impl": impl})
	}
	// where the request starts
	ageInc := op == "tick"
	var row *kdb.TxPointerRow
	for i := range pre.TxPointer {
		if pre.TxPointer[i].Eon == g.eonE {
			row = &pre.TxPointer[i]
		}
	}
	qE, contigE := queueOf(pre, g.eonE)
	var wantPtr int64
	state := ""
	switch {
	case row == nil:
		wantPtr, state = 0, "missing"
	case !row.Age.Valid:
		wantPtr, state = int64(len(qE)), "unknown"
	default:
		age := row.Age.Int64
		if ageInc && g.eonK == g.eonE {
			age++
		}
		if age > int64(e.maxAge) {
			wantPtr, state = int64(len(qE)), "outdated"
		} else {
			wantPtr, state = row.Value, "fresh"
		}
	}
	r.res.Count("pointer:" + state)
	if (contigE || state == "missing" || state == "fresh") && used.TxPointer != wantPtr {
		r.violate("spec", "pointer-start", fmt.Sprintf("slot %d: stored pointer is %s, the request should start at %d but started at %d", slot, state, wantPtr, used.TxPointer), []string{line})
		return false
	}
	// a slot tick ages the stored pointer; only a keys message moves it or makes it fresh again
	if row != nil {
		var after *kdb.TxPointerRow
		for i := range post.TxPointer {
			if post.TxPointer[i].Eon == g.eonE {
				after = &post.TxPointer[i]
			}
		}
		wantAge := row.Age
		if row.Age.Valid && ageInc && g.eonK == g.eonE {
			wantAge.Int64++
		}
		if after == nil || after.Value != row.Value || after.Age.Valid != wantAge.Valid || (wantAge.Valid && after.Age.Int64 != wantAge.Int64) {
			r.violate("spec", "pointer-start", fmt.Sprintf("slot %d: the slot tick (no keys message in between) changed the stored pointer of eon %d from value=%d age=%v to %+v; it should only have aged to %v", slot, g.eonE, row.Value, row.Age, after, wantAge), []string{line})
			return false
		}
	}
	// which identities
	qK, contigK := queueOf(pre, g.eonK)
	minOK := true
	for _, t := range qK {
		if uint64(t.gas) < e.minGas {
			minOK = false
		}
	}
	switch {
	case used.TxPointer < int64(len(qK)) && used.TxPointer >= 0:
		r.res.Count("pointer-position:inside")
	case used.TxPointer == int64(len(qK)):
		r.res.Count("pointer-position:at-end")
	default:
		r.res.Count("pointer-position:beyond-or-before")
	}
	if contigK && minOK && used.TxPointer >= 0 {
		want, slotFirst := expectedIdentities(qK, used.TxPointer, slot, e.gasLimit)
		r.res.Count(fmt.Sprintf("identities=%d", min(len(want), 6)))
		if !slotFirst {
			r.res.Count("identity-below-slot-identity(assumption-excluded)")
		}
		if !sameIDs(out.ids, want) {
			r.violate("spec", "identities", fmt.Sprintf("slot %d pointer %d: requested %s, the property gives %s", slot, used.TxPointer, idsText(out.ids), idsText(want)), []string{line})
			return false
		}
	} else {
		r.res.Count("tick:outside-hypotheses(model-only)")
	}
	return true
}

func (r *runner) scenario(ctx context.Context, rnd *hx.Rand, bc *beacon, client *beaconapiclient.Client) error {
	_, meAddr := me()
	e := env{}
	switch rnd.Intn(10) {
	case 0:
		e = env{gasLimit: 1 << 40, minGas: 1, maxAge: 2} // row limit above MaxInt32
	case 1, 2:
		e = env{gasLimit: 100, minGas: 21, maxAge: uint64(rnd.Intn(3))}
	case 3:
		e = env{gasLimit: 20, minGas: 21, maxAge: 1} // limit below the minimum: one row window
	default:
		e = env{gasLimit: uint64(21000 * (1 + rnd.Intn(12))), minGas: 21000, maxAge: uint64([]int{0, 1, 2, 5, 5, 8}[rnd.Intn(6)])}
	}
	cfg := gcfg(bc.srv.URL, e.gasLimit, e.minGas, e.maxAge)
	st := kdb.New()
	// keyper sets and eons
	nsets := 1 + rnd.Intn(2)
	for c := 0; c < nsets; c++ {
		ks := []common.Address{other(10 + c), other(20 + c)}
		if rnd.Chance(90) {
			ks = append(ks, meAddr)
		}
		st.KeyperSet = append(st.KeyperSet, kdb.KeyperSetRow{KeyperConfigIndex: int64(c), ActivationBlockNumber: int64(20 * c),
			Keypers: shdb.EncodeAddresses(ks), Threshold: 2})
		if c == 0 || rnd.Chance(85) {
			st.Eons = append(st.Eons, kdb.EonRow{Eon: int64(c + 1), Height: int64(5 + c), ActivationBlockNumber: int64(20 * c), KeyperConfigIndex: int64(c)})
		}
	}
	st.ValidatorRegistrations = append(st.ValidatorRegistrations, kdb.ValidatorRegistrationRow{BlockNumber: 0, ValidatorIndex: registeredVal, Nonce: 0, IsRegistration: true})
	a, err := newNode(ctx, cfg, client, st)
	if err != nil {
		return err
	}
	defer a.close()
	gdb := gnosisdatabase.New(a.pool)
	var latest *uint64
	slot := uint64(1 + rnd.Intn(3))
	block := int64(rnd.Intn(5))
	nextIndex := map[int64]int64{}
	nops := 6 + rnd.Intn(10)
	lastTrig := map[int64]tickOut{}
	pending := rnd.Intn(14) // transactions queued before the first slot
	// now and then the queue starts with a window that uses the gas limit up exactly, followed by a transaction
	// that asks for no gas at all (the sequencer contract admits it; it is below the configured minimum)
	scriptGas := []int64{}
	if e.gasLimit <= 1<<32 && e.gasLimit >= e.minGas && rnd.Chance(10) {
		k := int64(e.gasLimit / e.minGas)
		for j := int64(0); j < k; j++ {
			g := int64(e.minGas)
			if j == 0 {
				g += int64(e.gasLimit % e.minGas)
			}
			scriptGas = append(scriptGas, g)
		}
		scriptGas = append(scriptGas, 0, int64(e.minGas))
		if pending < len(scriptGas) {
			pending = len(scriptGas)
		}
		r.res.Count("scenario:exactly-full-window-then-zero-gas")
	}
	for i := 0; i < nops+pending && len(r.res.Violations) == 0; i++ {
		k := rnd.Intn(100)
		if i < pending {
			k = 0
		}
		switch {
		case k < 30: // a transaction is queued
			eon := int64(rnd.Intn(nsets))
			if rnd.Chance(60) {
				eon = 0
			}
			var gas int64
			switch rnd.Intn(8) {
			case 0:
				gas = int64(e.minGas) - 1 // below the minimum (outside the hypothesis)
				if rnd.Chance(92) {
					gas = int64(e.minGas)
				}
			case 1:
				gas = int64(e.gasLimit)
			case 2:
				gas = int64(e.gasLimit) + 1
			case 3:
				gas = int64(e.gasLimit) * 3
			default:
				gas = int64(e.minGas) + int64(rnd.Intn(int(e.minGas)+1))
			}
			if e.gasLimit > 1<<32 {
				gas = int64(1 + rnd.Intn(100))
			}
			if gas < 0 {
				gas = 0
			}
			if len(scriptGas) > 0 {
				eon, gas = 0, scriptGas[0]
				scriptGas = scriptGas[1:]
			}
			idx := nextIndex[eon]
			if rnd.Chance(1) {
				idx++ // a gap in the queue (outside the hypothesis)
			}
			nextIndex[eon] = idx + 1
			prefix := rnd.Bytes(32)
			sender := common.BytesToAddress(rnd.Bytes(20))
			if rnd.Chance(4) { // an identity that sorts below the slot identity
				prefix = make([]byte, 32)
				sender = common.BigToAddress(big.NewInt(int64(rnd.Intn(3))))
			}
			if rnd.Chance(6) && idx > 0 { // same identity as an earlier transaction
				prev := a.db().TransactionSubmittedEvent
				if len(prev) > 0 {
					p := prev[rnd.Intn(len(prev))]
					prefix = p.IdentityPrefix
					sender, _ = shdb.DecodeAddress(p.Sender)
				}
			}
			_, err := gdb.InsertTransactionSubmittedEvent(ctx, gnosisdatabase.InsertTransactionSubmittedEventParams{
				Index: idx, BlockNumber: block, BlockHash: []byte{1}, TxIndex: idx, LogIndex: 0, Eon: eon,
				IdentityPrefix: prefix, Sender: shdb.EncodeAddress(sender), GasLimit: gas,
			})
			if err != nil {
				return err
			}
			r.res.Count("op:submit")
		case k < 62: // a slot starts
			if rnd.Chance(85) {
				slot += uint64(1 + rnd.Intn(2))
			}
			if rnd.Chance(50) {
				block += int64(rnd.Intn(12))
			}
			st := a.db().Clone().(*kdb.DB)
			st.TransactionSubmittedEventsSyncedUntil = []kdb.TransactionSubmittedEventsSyncedUntilRow{{EnforceOneRow: true, BlockHash: []byte{2}, BlockNumber: block, Slot: int64(slot) - 1}}
			a.srv.SetState(st)
			unreg := rnd.Chance(8)
			bc.unreg[slot] = unreg
			pre := a.db().Clone().(*kdb.DB)
			g := predict(pre, meAddr, latest, slot, unreg)
			out := a.tick(ctx, slot)
			if latest == nil || slot > *latest {
				s := slot
				latest = &s
			}
			post := a.db()
			r.res.Evaluations++
			if !g.run {
				r.res.Count("tick:skipped")
				if out.emitted {
					r.violate("spec", "unexpected-request", fmt.Sprintf("slot %d should be skipped (already handled, not a member, or proposer not registered) but identities were requested", slot), []string{fmt.Sprintf("%s %s %s tick ? ? %d", e.prefix(), rowsText(pre), ptrsText(pre), slot)})
					break
				}
				if !g.errExpect && ptrsText(pre) != ptrsText(post) {
					r.violate("spec", "pointer-moved-on-skip", fmt.Sprintf("slot %d was skipped but tx_pointer changed from %s to %s", slot, ptrsText(pre), ptrsText(post)), nil)
				}
				break
			}
			r.res.Count("op:tick")
			if g.eonE != g.eonK {
				r.res.Count("tick:eon-row-missing-for-keyper-set")
			}
			if !r.checkTick(e, pre, post, g, slot, out, "tick") {
				break
			}
			lastTrig[g.eonE] = out
			// agreement: a second keyper whose database holds the same rows in another physical order
			b, err := newNode(ctx, cfg, client, shuffled(pre, rnd))
			if err != nil {
				return err
			}
			outB := b.tick(ctx, slot)
			postB := b.db()
			if outB.emitted != out.emitted || !sameIDs(outB.ids, out.ids) || ptrsText(postB) != ptrsText(post) {
				r.violate("spec", "disagreement", fmt.Sprintf("slot %d: two keypers with the same rows requested %s and %s (pointers %s and %s)", slot, idsText(out.ids), idsText(outB.ids), ptrsText(post), ptrsText(postB)),
					[]string{fmt.Sprintf("%s %s %s tick %d %d %d", e.prefix(), rowsText(pre), ptrsText(pre), g.eonE, g.eonK, slot)})
			}
			b.close()
			r.res.Count("agreement-checked")
			if what := issuedChanged(); what != "" {
				r.violate("spec", "identities", "identity lists already handed to the key share handler changed: "+what, nil)
				break
			}
		case k < 76: // a keys message is received
			eon := int64(rnd.Intn(nsets))
			p := int64(rnd.Intn(int(nextIndex[eon]) + 3))
			kk := 1 + rnd.Intn(4)
			if lt, ok := lastTrig[eon]; ok && rnd.Chance(60) { // the keys the other keypers produced for the trigger in flight
				for _, row := range a.db().GnosisCurrentDecryptionTrigger {
					if row.Eon == eon {
						p, kk = row.TxPointer, len(lt.ids)
					}
				}
			}
			// the keys may belong to an earlier slot than the trigger in flight (they arrive late) or to a later one
			ms := slot
			switch {
			case rnd.Chance(35) && slot > 4:
				ms = slot - uint64(1+rnd.Intn(3))
				r.res.Count("keys-received-for-an-earlier-slot")
			case rnd.Chance(10):
				ms = slot + uint64(1+rnd.Intn(2))
			}
			msg := keysMsg(uint64(eon), uint64(p), ms, kk, true)
			pre := a.db().Clone().(*kdb.DB)
			if _, err := a.handler.HandleMessage(ctx, msg); err != nil {
				return fmt.Errorf("HandleMessage: %w", err)
			}
			r.res.Evaluations++
			r.res.Count("op:keys-received")
			if !r.checkKeys(e, pre, a.db(), eon, p, kk, "received") {
				break
			}
		case k < 84: // own keys message that already carries the slot data
			eon := int64(rnd.Intn(nsets))
			p := int64(rnd.Intn(int(nextIndex[eon]) + 3))
			kk := 1 + rnd.Intn(4)
			msg := keysMsg(uint64(eon), uint64(p), slot, kk, true)
			pre := a.db().Clone().(*kdb.DB)
			if err := a.mw.SendMessage(ctx, msg); err != nil {
				return fmt.Errorf("SendMessage: %w", err)
			}
			r.res.Evaluations++
			r.res.Count("op:keys-self-with-extra")
			if !r.checkKeys(e, pre, a.db(), eon, p, kk, "self-produced") {
				break
			}
		case k < 92: // own keys message for the trigger in flight, enough signatures collected
			if len(lastTrig) == 0 {
				continue
			}
			var eon int64 = -1
			for e2 := range lastTrig {
				if eon < 0 || e2 < eon {
					eon = e2
				}
			}
			pre := a.db().Clone().(*kdb.DB)
			var trig *kdb.GnosisCurrentDecryptionTriggerRow
			for i := range pre.GnosisCurrentDecryptionTrigger {
				if pre.GnosisCurrentDecryptionTrigger[i].Eon == eon {
					trig = &pre.GnosisCurrentDecryptionTrigger[i]
				}
			}
			var haveSet bool
			for _, ks := range pre.KeyperSet {
				if ks.KeyperConfigIndex == eon {
					haveSet = true
				}
			}
			if trig == nil || !haveSet {
				continue
			}
			cl := pre.Clone().(*kdb.DB)
			cl.SlotDecryptionSignatures = nil // signatures of earlier (generated) keys messages for this slot
			a.srv.SetState(cl)
			for ki := int64(0); ki < 2; ki++ {
				if err := gdb.InsertSlotDecryptionSignature(ctx, gnosisdatabase.InsertSlotDecryptionSignatureParams{Eon: eon, Slot: trig.Slot, KeyperIndex: ki,
					TxPointer: trig.TxPointer, IdentitiesHash: trig.IdentitiesHash, Signature: bytes.Repeat([]byte{byte(ki + 1)}, 65)}); err != nil {
					return err
				}
			}
			ids := lastTrig[eon].ids
			msg := &p2pmsg.DecryptionKeys{InstanceId: 42, Eon: uint64(eon)}
			for _, id := range ids {
				msg.Keys = append(msg.Keys, &p2pmsg.Key{IdentityPreimage: id, Key: []byte{9}})
			}
			pre = a.db().Clone().(*kdb.DB)
			a.sink.sent = nil
			if err := a.mw.SendMessage(ctx, msg); err != nil {
				return fmt.Errorf("SendMessage: %w", err)
			}
			r.res.Evaluations++
			r.res.Count("op:keys-self-from-trigger")
			if len(a.sink.sent) != 1 {
				r.violate("spec", "keys-not-sent", "a keys message for the trigger in flight with a threshold of signatures was not sent", nil)
				break
			}
			if !r.checkKeys(e, pre, a.db(), eon, trig.TxPointer, len(ids), "self-produced") {
				break
			}
		case k < 96: // keyper restart
			pre := a.db().Clone().(*kdb.DB)
			if err := gdb.ResetAllTxPointerAges(ctx); err != nil {
				return err
			}
			latest = nil
			a.kpr = gnosis.VerifNewKeyper(cfg, a.pool, client, a.ch)
			r.res.Evaluations++
			r.res.Count("op:restart")
			r.items = append(r.items, item{fmt.Sprintf("%s %s %s restart", e.prefix(), rowsText(pre), ptrsText(pre)), "ptrs=" + ptrsText(a.db())})
			for _, row := range a.db().TxPointer {
				if row.Age.Valid {
					r.violate("spec", "restart-age", fmt.Sprintf("after a restart the age of pointer %d is still known", row.Eon), nil)
				}
			}
		default: // put the pointer somewhere else (state exploration, not an operation of the keyper)
			eon := int64(rnd.Intn(nsets))
			st := a.db().Clone().(*kdb.DB)
			row := kdb.TxPointerRow{Eon: eon, Value: int64(rnd.Intn(int(nextIndex[eon]) + 3))}
			switch rnd.Intn(6) {
			case 0, 4, 5:
				row.Age = sql.NullInt64{Int64: 0, Valid: true}
			case 1:
				row.Age = sql.NullInt64{Int64: int64(e.maxAge), Valid: true}
			case 2:
				row.Age = sql.NullInt64{Int64: int64(e.maxAge) + 1, Valid: true}
			}
			found := false
			for i := range st.TxPointer {
				if st.TxPointer[i].Eon == eon {
					st.TxPointer[i] = row
					found = true
				}
			}
			if !found {
				st.TxPointer = append(st.TxPointer, row)
			}
			a.srv.SetState(st)
			r.res.Count("op:poke-pointer")
		}
	}
	return nil
}

func keysMsg(eon, ptr, slot uint64, k int, extra bool) *p2pmsg.DecryptionKeys {
	msg := &p2pmsg.DecryptionKeys{InstanceId: 42, Eon: eon}
	for i := 0; i < k; i++ {
		msg.Keys = append(msg.Keys, &p2pmsg.Key{IdentityPreimage: []byte{byte(i)}, Key: []byte{9}})
	}
	if extra {
		msg.Extra = &p2pmsg.DecryptionKeys_Gnosis{Gnosis: &p2pmsg.GnosisDecryptionKeysExtra{Slot: slot, TxPointer: ptr,
			SignerIndices: []uint64{0, 1}, Signatures: [][]byte{bytes.Repeat([]byte{1}, 65), bytes.Repeat([]byte{2}, 65)}}}
	}
	return msg
}

func (r *runner) checkKeys(e env, pre, post *kdb.DB, eon, p int64, k int, how string) bool {
	line := fmt.Sprintf("%s %s %s keys %d %d %d", e.prefix(), rowsText(pre), ptrsText(pre), eon, p, k)
	r.items = append(r.items, item{line, "ptrs=" + ptrsText(post)})
	r.res.Distinct(line)
	for _, row := range post.TxPointer {
		if row.Eon == eon {
			if row.Value != p+int64(k)-1 || !row.Age.Valid || row.Age.Int64 != 0 {
				r.violate("spec", "pointer-advance", fmt.Sprintf("%s keys message with %d keys at pointer %d for eon %d: pointer row is now value=%d age=%v, expected value=%d age=0", how, k, p, eon, row.Value, row.Age, p+int64(k)-1), []string{line})
				return false
			}
			return true
		}
	}
	r.violate("spec", "pointer-advance", fmt.Sprintf("%s keys message for eon %d left no pointer row", how, eon), []string{line})
	return false
}

// Run is the C19 check.
func Run(cfg Config) (int, error) {
	res := hx.NewResult("C19", cfg.Seed, cfg.Tier)
	res.Rule = "scenarios of 6..15 operations on one keyper database: queue submissions (gas below/at/above the minimum and the limit, several eons, rare gaps, duplicate and below-slot identities), slot ticks through the real slot handler (member/non-member, registered/unregistered proposer, repeated slots, eon row missing for the newest keyper set), keys messages received and self-produced (with and without slot data), restarts, and pointer rows placed before/inside/at/beyond the queue end with ages 0, max, max+1 and unknown. Distinct by the full pre-state + operation line."
	r := &runner{cfg: cfg, res: res}
	ctx := context.Background()
	if cfg.Replay != "" {
		return r.replay(ctx)
	}
	n := 1500
	if cfg.Tier == "thorough" {
		n = 40000
	}
	rnd := hx.NewRand(cfg.Seed ^ 0xC19)
	bc := newBeacon()
	defer bc.srv.Close()
	client, err := beaconapiclient.New(bc.srv.URL)
	if err != nil {
		return 2, err
	}
	start := time.Now()
	for sc := 0; sc < n && len(res.Violations) == 0; sc++ {
		if err := r.scenario(ctx, rnd.Fork(), bc, client); err != nil {
			return 2, err
		}
		if cfg.Tier != "thorough" && time.Since(start) > 60*time.Second {
			break
		}
	}
	return r.finish()
}

func (r *runner) finish() (int, error) {
	lines := []string{}
	for _, it := range r.items {
		lines = append(lines, it.line)
	}
	if len(lines) > 0 {
		model, err := hx.RunLean(r.cfg.Lean, lines)
		if err != nil {
			return 2, err
		}
		for i, it := range r.items {
			r.res.Traces++
			if model[i] != it.impl {
				r.violate("correspondence", "gnosis-slot-model", fmt.Sprintf("impl=%q model=%q", it.impl, model[i]), []string{it.line})
				break
			}
		}
	}
	if r.cfg.Out != "" {
		if err := r.res.Write(r.cfg.Out); err != nil {
			return 2, err
		}
	}
	if len(r.res.Violations) > 0 {
		return 1, nil
	}
	return 0, nil
}
