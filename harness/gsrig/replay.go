//go:build verif

package gsrig

import (
	"context"
	"database/sql"
	"encoding/hex"
	"encoding/json"
	"fmt"
	"os"
	"strconv"
	"strings"

	"github.com/ethereum/go-ethereum/common"

	"github.com/shutter-network/rolling-shutter/rolling-shutter/medley/beaconapiclient"
	gnosisdatabase "github.com/shutter-network/rolling-shutter/rolling-shutter/keyperimpl/gnosis/database"
	"github.com/shutter-network/rolling-shutter/rolling-shutter/shdb"

	"verif/harness/kdb"
)

func unhex(s string) []byte {
	if s == "-" {
		return nil
	}
	b, _ := hex.DecodeString(s)
	return b
}

// stateOf rebuilds the tables a `GS …` line describes.
func stateOf(toks []string) (env, *kdb.DB, error) {
	if len(toks) < 7 || toks[0] != "GS" {
		return env{}, nil, fmt.Errorf("not a GS line")
	}
	gl, _ := strconv.ParseUint(toks[1], 10, 64)
	mg, _ := strconv.ParseUint(toks[2], 10, 64)
	ma, _ := strconv.ParseUint(toks[3], 10, 64)
	e := env{gl, mg, ma}
	st := kdb.New()
	if toks[4] != "-" {
		for _, row := range strings.Split(toks[4], ";") {
			f := strings.Split(row, "/")
			if len(f) != 5 {
				return e, nil, fmt.Errorf("bad row %q", row)
			}
			idx, _ := strconv.ParseInt(f[0], 10, 64)
			eon, _ := strconv.ParseInt(f[1], 10, 64)
			gas, _ := strconv.ParseInt(f[4], 10, 64)
			st.TransactionSubmittedEvent = append(st.TransactionSubmittedEvent, kdb.TransactionSubmittedEventRow{Index: idx, Eon: eon,
				BlockHash: []byte{1}, IdentityPrefix: unhex(f[2]), Sender: shdb.EncodeAddress(common.BytesToAddress(unhex(f[3]))), GasLimit: gas})
		}
	}
	if toks[5] != "-" {
		for _, row := range strings.Split(toks[5], ";") {
			f := strings.Split(row, "/")
			if len(f) != 3 {
				return e, nil, fmt.Errorf("bad pointer %q", row)
			}
			eon, _ := strconv.ParseInt(f[0], 10, 64)
			v, _ := strconv.ParseInt(f[1], 10, 64)
			r := kdb.TxPointerRow{Eon: eon, Value: v}
			if f[2] != "n" {
				a, _ := strconv.ParseInt(f[2], 10, 64)
				r.Age = sql.NullInt64{Int64: a, Valid: true}
			}
			st.TxPointer = append(st.TxPointer, r)
		}
	}
	return e, st, nil
}

// replay re-runs the lines of a replay file on the implementation, from the recorded pre-state.
func (r *runner) replay(ctx context.Context) (int, error) {
	raw, err := os.ReadFile(r.cfg.Replay)
	if err != nil {
		return 2, err
	}
	var rec struct {
		Lines []string `json:"lines"`
	}
	if err := json.Unmarshal(raw, &rec); err != nil {
		return 2, err
	}
	bc := newBeacon()
	defer bc.srv.Close()
	client, err := beaconapiclient.New(bc.srv.URL)
	if err != nil {
		return 2, err
	}
	_, meAddr := me()
	for _, line := range rec.Lines {
		toks := strings.Fields(line)
		e, st, err := stateOf(toks)
		if err != nil {
			return 2, err
		}
		op := toks[6:]
		cfg := gcfg(bc.srv.URL, e.gasLimit, e.minGas, e.maxAge)
		switch op[0] {
		case "tick":
			eE, errE := strconv.ParseInt(op[1], 10, 64)
			eK, errK := strconv.ParseInt(op[2], 10, 64)
			slot, _ := strconv.ParseUint(op[3], 10, 64)
			if errE != nil || errK != nil {
				eE, eK = 0, 0
			}
			st.KeyperSet = []kdb.KeyperSetRow{{KeyperConfigIndex: eK, ActivationBlockNumber: 0, Keypers: shdb.EncodeAddresses([]common.Address{meAddr, other(1), other(2)}), Threshold: 2}}
			st.Eons = []kdb.EonRow{{Eon: 1, Height: 1, ActivationBlockNumber: 0, KeyperConfigIndex: eE}}
			st.ValidatorRegistrations = []kdb.ValidatorRegistrationRow{{BlockNumber: 0, ValidatorIndex: registeredVal, IsRegistration: true}}
			st.TransactionSubmittedEventsSyncedUntil = []kdb.TransactionSubmittedEventsSyncedUntilRow{{EnforceOneRow: true, BlockHash: []byte{2}, BlockNumber: 0, Slot: int64(slot) - 1}}
			n, err := newNode(ctx, cfg, client, st)
			if err != nil {
				return 2, err
			}
			pre := n.db().Clone().(*kdb.DB)
			out := n.tick(ctx, slot)
			r.res.Evaluations++
			r.checkTick(e, pre, n.db(), gate{run: true, eonE: eE, eonK: eK, nextBlock: 1}, slot, out, "tick")
			n.close()
		case "keys":
			eon, _ := strconv.ParseInt(op[1], 10, 64)
			p, _ := strconv.ParseInt(op[2], 10, 64)
			k, _ := strconv.Atoi(op[3])
			for _, how := range []string{"received", "self-produced"} {
				n, err := newNode(ctx, cfg, client, st.Clone().(*kdb.DB))
				if err != nil {
					return 2, err
				}
				pre := n.db().Clone().(*kdb.DB)
				msg := keysMsg(uint64(eon), uint64(p), 1, k, true)
				if how == "received" {
					_, err = n.handler.HandleMessage(ctx, msg)
				} else {
					err = n.mw.SendMessage(ctx, msg)
				}
				if err != nil {
					return 2, err
				}
				r.res.Evaluations++
				r.checkKeys(e, pre, n.db(), eon, p, k, how)
				n.close()
			}
		case "restart":
			n, err := newNode(ctx, cfg, client, st)
			if err != nil {
				return 2, err
			}
			pre := n.db().Clone().(*kdb.DB)
			if err := gnosisdatabase.New(n.pool).ResetAllTxPointerAges(ctx); err != nil {
				return 2, err
			}
			r.items = append(r.items, item{fmt.Sprintf("%s %s %s restart", e.prefix(), rowsText(pre), ptrsText(pre)), "ptrs=" + ptrsText(n.db())})
			n.close()
		default:
			return 2, fmt.Errorf("cannot replay op %q", op[0])
		}
	}
	return r.finish()
}
