// Package tdrig drives keyperimpl/shutterservice/eventtrigger.go (C17).
package tdrig

import (
	"bytes"
	"encoding/hex"
	"encoding/json"
	"fmt"
	"math/big"
	"os"
	"path/filepath"
	"runtime"
	"strings"

	"github.com/ethereum/go-ethereum"
	"github.com/ethereum/go-ethereum/common"
	"github.com/ethereum/go-ethereum/core/types"

	ss "github.com/shutter-network/rolling-shutter/rolling-shutter/keyperimpl/shutterservice"

	"verif/harness/hx"
)

type Config struct {
	Tier, Lean, Out, ReplayDir, Replay string
	Seed                               uint64
}

func hexB(b []byte) string {
	if len(b) == 0 {
		return "e"
	}
	return hex.EncodeToString(b)
}

func showInt(i *big.Int) string {
	if i.Sign() < 0 {
		return "n" + new(big.Int).Neg(i).String()
	}
	return i.String()
}

func b2s(b bool) string {
	if b {
		return "1"
	}
	return "0"
}

func showDef(d *ss.EventTriggerDefinition) string {
	ps := []string{}
	for _, p := range d.LogPredicates {
		is, bs := []string{}, []string{}
		for _, i := range p.ValuePredicate.IntArgs {
			is = append(is, showInt(i))
		}
		for _, b := range p.ValuePredicate.ByteArgs {
			bs = append(bs, hexB(b))
		}
		j := func(l []string) string {
			if len(l) == 0 {
				return "~"
			}
			return strings.Join(l, "/")
		}
		ps = append(ps, fmt.Sprintf("%s:%d:%d:%s:%s", b2s(p.LogValueRef.Dynamic), p.LogValueRef.Offset, uint64(p.ValuePredicate.Op), j(is), j(bs)))
	}
	s := "~"
	if len(ps) > 0 {
		s = strings.Join(ps, ";")
	}
	return hexB(d.Contract.Bytes()) + "|" + s
}

func showLog(l *types.Log) string {
	ts := []string{}
	for _, t := range l.Topics {
		ts = append(ts, hexB(t.Bytes()))
	}
	t := "~"
	if len(ts) > 0 {
		t = strings.Join(ts, ",")
	}
	return hexB(l.Address.Bytes()) + "|" + t + "|" + hexB(l.Data)
}

func showFilter(q ethereum.FilterQuery) string {
	ts := []string{}
	for _, alts := range q.Topics {
		if len(alts) == 0 {
			ts = append(ts, "*")
			continue
		}
		as := []string{}
		for _, a := range alts {
			as = append(as, hexB(a.Bytes()))
		}
		ts = append(ts, strings.Join(as, "+"))
	}
	t := "~"
	if len(ts) > 0 {
		t = strings.Join(ts, ",")
	}
	if len(q.Addresses) != 1 {
		return "bad-addresses"
	}
	return hexB(q.Addresses[0].Bytes()) + "|" + t
}

// filterPasses is go-ethereum's eth_getLogs matching (eth/filters: filterLogs).
func filterPasses(q ethereum.FilterQuery, l *types.Log) bool {
	if len(q.Addresses) > 0 {
		ok := false
		for _, a := range q.Addresses {
			if a == l.Address {
				ok = true
			}
		}
		if !ok {
			return false
		}
	}
	if len(q.Topics) > len(l.Topics) {
		return false
	}
	for i, sub := range q.Topics {
		if len(sub) == 0 {
			continue
		}
		ok := false
		for _, t := range sub {
			if t == l.Topics[i] {
				ok = true
			}
		}
		if !ok {
			return false
		}
	}
	return true
}

// ---- generators

var two256 = new(big.Int).Lsh(big.NewInt(1), 256)

func genBig(r *hx.Rand) *big.Int {
	switch r.Intn(9) {
	case 0:
		return big.NewInt(0)
	case 1:
		return big.NewInt(1)
	case 2:
		return new(big.Int).SetUint64(^uint64(0))
	case 3:
		return new(big.Int).Sub(two256, big.NewInt(1))
	case 4:
		return big.NewInt(int64(r.Intn(300)))
	case 5:
		return new(big.Int).Lsh(big.NewInt(1), uint(r.Intn(256)))
	default:
		return new(big.Int).SetBytes(r.Bytes(1 + r.Intn(32)))
	}
}

func word(r *hx.Rand, pool [][]byte) []byte {
	if len(pool) > 0 && r.Chance(60) {
		return pool[r.Intn(len(pool))]
	}
	w := make([]byte, 32)
	switch r.Intn(4) {
	case 0:
	case 1:
		w[31] = byte(r.Intn(256))
	default:
		copy(w, r.Bytes(32))
	}
	return w
}

func genPred(r *hx.Rand, pool [][]byte, valid bool) ss.LogPredicate {
	var ref ss.LogValueRef
	switch r.Intn(3) {
	case 0:
		ref = ss.LogValueRef{Offset: uint64(r.Intn(4))}
	case 1:
		ref = ss.LogValueRef{Offset: uint64(4 + r.Intn(5))}
	default:
		ref = ss.LogValueRef{Dynamic: true, Offset: uint64(4 + r.Intn(5))}
	}
	if ref.Offset >= 4 && r.Chance(6) { // a valid reference far behind the end of any log's data
		ref.Offset = []uint64{4 + 1<<16, 4 + 1<<18, 4 + 1<<21}[r.Intn(3)]
	}
	op := ss.Op(r.Intn(6))
	if r.Chance(30) { // topic BytesEq predicates are what the node-side filter is built from
		ref = ss.LogValueRef{Offset: uint64(r.Intn(4))}
		op = ss.BytesEq
	}
	vp := ss.ValuePredicate{Op: op, IntArgs: []*big.Int{}, ByteArgs: [][]byte{}}
	if op == ss.BytesEq {
		var arg []byte
		if ref.IsTopic() || !ref.Dynamic {
			arg = word(r, pool)
		} else {
			arg = r.Bytes([]int{0, 1, 5, 31, 32, 33, 64, 70, 70, 70, 1100, 3000}[r.Intn(12)])
		}
		vp.ByteArgs = [][]byte{arg}
	} else {
		vp.IntArgs = []*big.Int{genBig(r)}
	}
	if !valid {
		switch r.Intn(8) {
		case 0:
			ref.Dynamic, ref.Offset = true, uint64(r.Intn(4))
		case 1:
			ref.Offset = 1<<32 + uint64(r.Intn(5))
		case 2:
			vp.IntArgs = append(vp.IntArgs, big.NewInt(3))
		case 3:
			vp.ByteArgs = append(vp.ByteArgs, []byte{1})
		case 4:
			vp.IntArgs, vp.ByteArgs = []*big.Int{}, [][]byte{}
		case 5:
			if len(vp.IntArgs) > 0 {
				vp.IntArgs[0] = big.NewInt(-int64(1 + r.Intn(9)))
			}
		case 6:
			if op == ss.BytesEq {
				ref = ss.LogValueRef{Offset: uint64(r.Intn(4))}
				vp.ByteArgs = [][]byte{r.Bytes([]int{0, 3, 31, 33}[r.Intn(4)])}
			}
		case 7:
			ref.Offset = ^uint64(0) - uint64(r.Intn(3))
		}
	}
	return ss.LogPredicate{LogValueRef: ref, ValuePredicate: vp}
}

func genDef(r *hx.Rand, valid bool) (*ss.EventTriggerDefinition, [][]byte) {
	pool := [][]byte{}
	for i := 0; i < 3; i++ {
		pool = append(pool, word(r, nil))
	}
	d := &ss.EventTriggerDefinition{Contract: common.BytesToAddress(r.Bytes(20)), LogPredicates: []ss.LogPredicate{}}
	n := r.Intn(5)
	bad := -1
	if !valid && n > 0 {
		bad = r.Intn(n)
	}
	usedTopic := map[uint64]bool{}
	for i := 0; i < n; i++ {
		p := genPred(r, pool, i != bad)
		if valid && p.LogValueRef.IsTopic() && p.ValuePredicate.Op == ss.BytesEq {
			for tries := 0; usedTopic[p.LogValueRef.Offset] && tries < 8; tries++ {
				p.LogValueRef.Offset = uint64(r.Intn(4))
			}
			if usedTopic[p.LogValueRef.Offset] {
				p.ValuePredicate = ss.ValuePredicate{Op: ss.UintGte, IntArgs: []*big.Int{big.NewInt(0)}, ByteArgs: [][]byte{}}
			}
			usedTopic[p.LogValueRef.Offset] = true
		}
		d.LogPredicates = append(d.LogPredicates, p)
	}
	if valid && n >= 1 && r.Chance(15) {
		// a second predicate on the same value with the same operator whose argument differs from the first one's
		// only above the low 32 bytes (integers: by 2^256; dynamic bytes: a leading byte more, or the first byte of
		// an argument longer than a word changed): both must hold, and they rarely do
		p := d.LogPredicates[r.Intn(n)]
		q := ss.LogPredicate{LogValueRef: p.LogValueRef, ValuePredicate: ss.ValuePredicate{Op: p.ValuePredicate.Op, IntArgs: []*big.Int{}, ByteArgs: [][]byte{}}}
		switch {
		case len(p.ValuePredicate.IntArgs) == 1:
			q.ValuePredicate.IntArgs = []*big.Int{new(big.Int).Add(p.ValuePredicate.IntArgs[0], two256)}
			d.LogPredicates = append(d.LogPredicates, q)
		case len(p.ValuePredicate.ByteArgs) == 1 && p.LogValueRef.Dynamic:
			a := p.ValuePredicate.ByteArgs[0]
			var b []byte
			if len(a) > 32 && r.Bool() {
				b = append([]byte{}, a...)
				b[0] ^= 0x80
			} else {
				b = append([]byte{0}, a...)
			}
			q.ValuePredicate.ByteArgs = [][]byte{b}
			d.LogPredicates = append(d.LogPredicates, q)
		}
	}
	if !valid && n >= 2 && r.Chance(30) { // duplicate topic BytesEq
		p := ss.LogPredicate{LogValueRef: ss.LogValueRef{Offset: uint64(r.Intn(4))}, ValuePredicate: ss.ValuePredicate{Op: ss.BytesEq, IntArgs: []*big.Int{}, ByteArgs: [][]byte{word(r, pool)}}}
		d.LogPredicates[0], d.LogPredicates[1] = p, p
		if r.Chance(60) {
			// … with a BytesEq predicate for another topic (or two) between the two
			mk := func(off uint64) ss.LogPredicate {
				return ss.LogPredicate{LogValueRef: ss.LogValueRef{Offset: off}, ValuePredicate: ss.ValuePredicate{Op: ss.BytesEq, IntArgs: []*big.Int{}, ByteArgs: [][]byte{word(r, pool)}}}
			}
			o1 := (p.LogValueRef.Offset + 1) % 4
			mid := []ss.LogPredicate{mk(o1)}
			if r.Bool() {
				mid = append(mid, mk((p.LogValueRef.Offset+2)%4))
			}
			d.LogPredicates = append(append([]ss.LogPredicate{p}, mid...), p)
		}
	}
	return d, pool
}

func be32(n *big.Int) []byte {
	b := n.Bytes()
	if len(b) > 32 {
		b = b[len(b)-32:]
	}
	return append(make([]byte, 32-len(b)), b...)
}

// genLog aims data at the words the definition references.
func genLog(r *hx.Rand, d *ss.EventTriggerDefinition, pool [][]byte) *types.Log {
	l := &types.Log{Address: d.Contract}
	if r.Chance(10) {
		l.Address = common.BytesToAddress(r.Bytes(20))
	}
	nt := r.Intn(5)
	for i := 0; i < nt; i++ {
		t := word(r, pool)
		for _, p := range d.LogPredicates { // often the value a predicate looks for
			if p.LogValueRef.Offset == uint64(i) && len(p.ValuePredicate.ByteArgs) == 1 && len(p.ValuePredicate.ByteArgs[0]) == 32 && r.Chance(70) {
				t = p.ValuePredicate.ByteArgs[0]
			}
			if p.LogValueRef.Offset == uint64(i) && len(p.ValuePredicate.IntArgs) == 1 && r.Chance(60) {
				v := new(big.Int).Add(p.ValuePredicate.IntArgs[0], big.NewInt(int64(r.Intn(3)-1)))
				if v.Sign() >= 0 {
					t = be32(v)
				}
			}
		}
		l.Topics = append(l.Topics, common.BytesToHash(t))
	}
	nw := r.Intn(9)
	data := []byte{}
	for i := 0; i < nw; i++ {
		data = append(data, word(r, pool)...)
	}
	// place static values and dynamic (offset, length, payload) triples
	for pi, p := range d.LogPredicates {
		ref := p.LogValueRef
		if ref.Offset < 4 || ref.Offset > 12 {
			continue
		}
		sibling := false
		for _, e := range d.LogPredicates[:pi] {
			if e.LogValueRef == ref && e.ValuePredicate.Op == p.ValuePredicate.Op {
				sibling = true // the value placed for the first predicate on this reference stays
			}
		}
		if sibling {
			continue
		}
		at := int(ref.Offset-4) * 32
		for len(data) < at+32 && r.Chance(85) {
			data = append(data, make([]byte, 32)...)
		}
		if len(data) < at+32 {
			continue
		}
		if !ref.Dynamic {
			if len(p.ValuePredicate.IntArgs) == 1 && r.Chance(70) {
				v := new(big.Int).Add(p.ValuePredicate.IntArgs[0], big.NewInt(int64(r.Intn(3)-1)))
				if v.Sign() >= 0 {
					copy(data[at:], be32(v))
				}
			} else if len(p.ValuePredicate.ByteArgs) == 1 && len(p.ValuePredicate.ByteArgs[0]) == 32 && r.Chance(70) {
				copy(data[at:], p.ValuePredicate.ByteArgs[0])
			}
			continue
		}
		// dynamic: where the length word goes
		var off *big.Int
		switch r.Intn(10) {
		case 0:
			off = new(big.Int).SetUint64(^uint64(0))
		case 1:
			off = new(big.Int).Sub(two256, big.NewInt(int64(1+r.Intn(40))))
		case 2:
			off = big.NewInt(int64(len(data)) + int64(r.Intn(70)) - 35)
			if off.Sign() < 0 {
				off = big.NewInt(0)
			}
		case 3:
			off = new(big.Int).Lsh(big.NewInt(1), 64)
		default:
			off = big.NewInt(int64(len(data)))
		}
		copy(data[at:], be32(off))
		if off.IsUint64() && off.Uint64() == uint64(len(data)) {
			var payload []byte
			if len(p.ValuePredicate.ByteArgs) == 1 && r.Chance(70) {
				payload = p.ValuePredicate.ByteArgs[0]
			} else {
				payload = r.Bytes(r.Intn(70))
			}
			var ln *big.Int
			switch r.Intn(10) {
			case 0:
				ln = new(big.Int).SetUint64(^uint64(0))
			case 1:
				ln = new(big.Int).Sub(two256, big.NewInt(1))
			case 2:
				ln = big.NewInt(int64(len(payload) + 1 + r.Intn(40)))
			case 3:
				ln = new(big.Int).SetUint64(1 << 40)
			default:
				ln = big.NewInt(int64(len(payload)))
			}
			data = append(data, be32(ln)...)
			data = append(data, payload...)
			if r.Chance(50) {
				data = append(data, make([]byte, (32-len(payload)%32)%32)...)
			}
		}
	}
	switch r.Intn(12) {
	case 0:
		data = nil
	case 1:
		if len(data) > 0 {
			data = data[:r.Intn(len(data))]
		}
	case 2:
		data = append(data, r.Bytes(1+r.Intn(31))...)
	}
	l.Data = data
	return l
}

// refMatchOne is the documented meaning of one predicate on well-formed data, read off the log independently
// of the code under test: a topic reference is that topic, a static reference the 32-byte word at (offset-4)*32
// of the data, a dynamic reference the ABI bytes value whose offset word is there (offset word, length word and
// payload all inside the data). ok is false when the log is not well-formed for this predicate.
func refMatchOne(p ss.LogPredicate, l *types.Log) (match bool, ok bool) {
	ref := p.LogValueRef
	var value []byte
	switch {
	case ref.Offset < 4:
		if ref.Dynamic || int(ref.Offset) >= len(l.Topics) {
			return false, false
		}
		value = l.Topics[ref.Offset].Bytes()
	default:
		at := (ref.Offset - 4) * 32
		if at+32 > uint64(len(l.Data)) {
			return false, false
		}
		w := l.Data[at : at+32]
		if !ref.Dynamic {
			value = w
			break
		}
		off := new(big.Int).SetBytes(w)
		if !off.IsUint64() || off.Uint64() > uint64(len(l.Data)) || off.Uint64()+32 > uint64(len(l.Data)) {
			return false, false
		}
		o := off.Uint64()
		ln := new(big.Int).SetBytes(l.Data[o : o+32])
		if !ln.IsUint64() || ln.Uint64() > uint64(len(l.Data)) || o+32+ln.Uint64() > uint64(len(l.Data)) {
			return false, false
		}
		value = l.Data[o+32 : o+32+ln.Uint64()]
	}
	vp := p.ValuePredicate
	if vp.Op == ss.BytesEq {
		if len(vp.ByteArgs) != 1 {
			return false, false
		}
		return bytes.Equal(value, vp.ByteArgs[0]), true
	}
	if len(vp.IntArgs) != 1 {
		return false, false
	}
	c := new(big.Int).SetBytes(value).Cmp(vp.IntArgs[0])
	switch vp.Op {
	case ss.UintLt:
		return c < 0, true
	case ss.UintLte:
		return c <= 0, true
	case ss.UintEq:
		return c == 0, true
	case ss.UintGt:
		return c > 0, true
	case ss.UintGte:
		return c >= 0, true
	}
	return false, false
}

func implMatch(d *ss.EventTriggerDefinition, l *types.Log) (out string, p string) {
	defer func() {
		if r := recover(); r != nil {
			out, p = "panic", fmt.Sprint(r)
		}
	}()
	m, err := d.Match(l)
	if err != nil {
		return "error", ""
	}
	if m {
		return "true", ""
	}
	return "false", ""
}

func implUnmarshal(b []byte) (d *ss.EventTriggerDefinition, out string, p string) {
	defer func() {
		if r := recover(); r != nil {
			out, p = "panic", fmt.Sprint(r)
		}
	}()
	d = &ss.EventTriggerDefinition{}
	if err := d.UnmarshalBytes(b); err != nil {
		return nil, "error", ""
	}
	return d, showDef(d), ""
}

func mutateBytes(r *hx.Rand, b []byte) []byte {
	out := append([]byte{}, b...)
	switch r.Intn(9) {
	case 0:
		if len(out) > 0 {
			out[r.Intn(len(out))] ^= byte(1 << uint(r.Intn(8)))
		}
	case 1:
		if len(out) > 0 {
			out = out[:r.Intn(len(out))]
		}
	case 2:
		out = append(out, r.Bytes(1+r.Intn(3))...)
	case 3:
		if len(out) > 1 {
			i := 1 + r.Intn(len(out)-1)
			out = append(out[:i], append([]byte{byte(r.Intn(256))}, out[i:]...)...)
		}
	case 4:
		if len(out) > 1 {
			i := 1 + r.Intn(len(out)-1)
			out = append(out[:i], out[i+1:]...)
		}
	case 5:
		if len(out) > 1 {
			out[1+r.Intn(len(out)-1)] = []byte{0x80, 0x00, 0x01, 0x81, 0xc0, 0xb8, 0xf8, 0x7f}[r.Intn(8)]
		}
	case 6:
		if len(out) > 0 {
			out[0] = byte(r.Intn(4))
		}
	case 7:
		return r.Bytes(r.Intn(40))
	default:
		// non-canonical: replace a single-byte value x by 0x81 x
		for i := 1; i < len(out); i++ {
			if out[i] < 0x80 && out[i] > 0 && r.Chance(30) {
				out = append(out[:i], append([]byte{0x81}, out[i:]...)...)
				break
			}
		}
	}
	return out
}

// Run is the C17 check.
func Run(cfg Config) (int, error) {
	res := hx.NewResult("C17", cfg.Seed, cfg.Tier)
	res.Rule = "definitions with 0-4 predicates over every operator, topic/static/dynamic references and boundary integers (valid and deliberately invalid), crossed with logs whose data is aimed at the referenced words (offset and length words inside, at and beyond the end, up to 2^256-1, truncated data); encodings and mutated encodings for the decoder. Distinct by op line."
	nDefs, logsPer, nMut := 400, 12, 6000
	if cfg.Tier == "thorough" {
		nDefs, logsPer, nMut = 12000, 40, 300000
	}
	r := hx.NewRand(cfg.Seed ^ 0xC17)
	type item struct{ line, impl, what string }
	items := []item{}
	add := func(line, impl, what string) {
		items = append(items, item{line, impl, what})
		res.Distinct(line)
	}
	violate := func(kind, key, what string, lines []string) {
		path := filepath.Join(cfg.ReplayDir, fmt.Sprintf("C17-%s-%s-%d.json", kind, key, len(res.Violations)))
		_ = os.MkdirAll(cfg.ReplayDir, 0o755)
		b, _ := json.MarshalIndent(map[string]interface{}{"property": "C17", "kind": kind, "what": what, "lines": lines}, "", " ")
		_ = os.WriteFile(path, b, 0o644)
		res.Violate(hx.Violation{Kind: kind, Key: key, What: what, Replay: path})
	}
	encodings := [][]byte{}
	type heldEnc struct {
		got, copy []byte
		ds        string
	}
	held := []heldEnc{}
	for i := 0; i < nDefs && len(res.Violations) == 0; i++ {
		wantValid := r.Chance(80)
		d, pool := genDef(r, wantValid)
		ds := showDef(d)
		valid := d.Validate() == nil
		res.Evaluations++
		res.Count(fmt.Sprintf("def:valid=%v:preds=%d", valid, len(d.LogPredicates)))
		add("TD valid "+ds, b2s(valid), "validate")
		if !valid {
			continue
		}
		enc := d.MarshalBytes()
		// the encodings handed out earlier are still what they were
		for _, h := range held {
			if !bytes.Equal(h.got, h.copy) {
				violate("spec", "roundtrip", fmt.Sprintf("the encoding of %s, kept by its caller, changed when %s was encoded: was %s, is %s", h.ds, ds, hexB(h.copy), hexB(h.got)), []string{"TD enc " + h.ds, "TD enc " + ds})
				break
			}
		}
		if len(res.Violations) > 0 {
			break
		}
		held = append(held, heldEnc{enc, append([]byte{}, enc...), ds})
		if len(held) > 4 {
			held = held[1:]
		}
		encodings = append(encodings, append([]byte{}, enc...))
		add("TD enc "+ds, hexB(enc), "marshal")
		// property on the implementation: decode(encode(d)) is d, and a filter exists
		back, out, p := implUnmarshal(enc)
		if p != "" || back == nil || out != ds {
			violate("spec", "roundtrip", fmt.Sprintf("UnmarshalBytes(MarshalBytes(d)) != d: d=%s got=%s %s", ds, out, p), []string{"TD enc " + ds})
			break
		}
		add("TD dec "+hexB(enc), out, "unmarshal")
		q, err := d.ToFilterQuery()
		if err != nil {
			violate("spec", "no-filter", "valid definition without a log filter: "+ds+": "+err.Error(), []string{"TD filter " + ds})
			break
		}
		add("TD filter "+ds, showFilter(q), "filter")
		for k := 0; k < logsPer; k++ {
			l := genLog(r, d, pool)
			ls := showLog(l)
			far := false
			for _, lp := range d.LogPredicates {
				if lp.LogValueRef.Offset > 1<<12 {
					far = true
				}
			}
			var before runtime.MemStats
			if far {
				runtime.ReadMemStats(&before)
			}
			m, p := implMatch(d, l)
			if far {
				var after runtime.MemStats
				runtime.ReadMemStats(&after)
				res.Count("match:far-reference-measured")
				if got, budget := after.TotalAlloc-before.TotalAlloc, uint64(1<<16+64*len(l.Data)+len(enc)*64); got > budget {
					violate("spec", "allocation", fmt.Sprintf("matching a log with %d bytes of data allocated %d bytes (budget %d): the work follows the definition's offset, not the log's size: d=%s", len(l.Data), got, budget, ds), []string{"TD match " + ds + " " + ls})
					break
				}
			}
			res.Evaluations++
			res.Count("match:" + m)
			if p != "" {
				violate("spec", "match-panic", fmt.Sprintf("Match panicked (%s) for d=%s log=%s", p, ds, ls), []string{"TD match " + ds + " " + ls})
				break
			}
			add("TD match "+ds+" "+ls, m, "match")
			// each predicate alone, on well-formed data, means what the documentation says
			if l.Address == d.Contract {
				stop := false
				for pi := range d.LogPredicates {
					want, wf := refMatchOne(d.LogPredicates[pi], l)
					if !wf {
						continue
					}
					one := &ss.EventTriggerDefinition{Contract: d.Contract, LogPredicates: d.LogPredicates[pi : pi+1]}
					om, _ := implMatch(one, l)
					res.Count("match:single-predicate-reference-checked")
					if (om == "true") != want || (om != "true" && om != "false") {
						violate("spec", "match-semantics", fmt.Sprintf("predicate %d alone on well-formed data: Match says %s, the documented meaning is %v: d=%s log=%s", pi, om, want, ds, ls), []string{"TD match " + ds + " " + ls})
						stop = true
						break
					}
				}
				if stop {
					break
				}
			}
			// a definition matches exactly when each of its predicates, taken alone, matches
			if len(d.LogPredicates) > 1 && (m == "true" || m == "false") {
				all, defined := true, true
				for pi := range d.LogPredicates {
					one := &ss.EventTriggerDefinition{Contract: d.Contract, LogPredicates: d.LogPredicates[pi : pi+1]}
					om, _ := implMatch(one, l)
					if om != "true" && om != "false" {
						defined = false
						break
					}
					all = all && om == "true"
				}
				res.Count("match:conjunction-checked")
				if defined && all != (m == "true") {
					violate("spec", "match-not-conjunction", fmt.Sprintf("Match says %s but its predicates taken one by one say %v: d=%s log=%s", m, all, ds, ls), []string{"TD match " + ds + " " + ls})
					break
				}
			}
			pass := filterPasses(q, l)
			if m == "true" && !pass {
				violate("spec", "filter-hides-match", fmt.Sprintf("log matches the definition but not its filter: d=%s log=%s", ds, ls), []string{"TD match " + ds + " " + ls, "TD passes " + ds + " " + ls})
				break
			}
			add("TD passes "+ds+" "+ls, b2s(pass), "passes")
			if k == 0 && i < 3 {
				res.Sample(map[string]string{"def": ds, "log": ls, "match": m})
			}
		}
	}
	for i := 0; i < nMut && len(res.Violations) == 0 && len(encodings) > 0; i++ {
		b := mutateBytes(r, encodings[r.Intn(len(encodings))])
		if r.Chance(25) {
			b = mutateBytes(r, b)
		}
		d, out, p := implUnmarshal(b)
		res.Evaluations++
		if out == "error" {
			res.Count("mutated-encoding:rejected")
		} else {
			res.Count("mutated-encoding:accepted")
		}
		if p != "" {
			violate("spec", "unmarshal-panic", "UnmarshalBytes panicked on "+hexB(b)+": "+p, []string{"TD dec " + hexB(b)})
			break
		}
		if d != nil && d.Validate() != nil {
			violate("spec", "decoded-invalid", "bytes decode to an invalid definition: "+hexB(b), []string{"TD dec " + hexB(b)})
			break
		}
		if d != nil && !bytes.Equal(d.MarshalBytes(), b) {
			res.Count("mutated-encoding:accepted-noncanonical")
		}
		add("TD dec "+hexB(b), out, "unmarshal-mutated")
	}
	lines := []string{}
	for _, it := range items {
		lines = append(lines, it.line)
	}
	model, err := hx.RunLean(cfg.Lean, lines)
	if err != nil {
		return 2, err
	}
	for i, it := range items {
		res.Traces++
		if model[i] != it.impl {
			violate("correspondence", "triggerdef-model", fmt.Sprintf("%s: impl=%q model=%q for %s", it.what, it.impl, model[i], it.line), []string{it.line})
			break
		}
	}
	if cfg.Out != "" {
		if err := res.Write(cfg.Out); err != nil {
			return 2, err
		}
	}
	if len(res.Violations) > 0 {
		return 1, nil
	}
	return 0, nil
}
