package fakechain

import (
	"fmt"
	"math/big"
	"reflect"

	"github.com/ethereum/go-ethereum/accounts/abi"
	"github.com/ethereum/go-ethereum/common"
	"github.com/ethereum/go-ethereum/core/types"
	"github.com/ethereum/go-ethereum/crypto"
)

// PackEvent encodes an event emission the way the EVM does: args are the
// values of ALL event inputs in declaration order (indexed and non-indexed
// mixed as declared). topics[0] is the event ID (unless the event is
// anonymous), followed by one topic per indexed input; data is the ABI
// encoding of the non-indexed inputs.
//
// Indexed inputs of the elementary static types (uintN, intN, address, bool,
// bytesN) become their 32-byte ABI word; indexed string/bytes become their
// keccak256 hash; indexed arrays, slices and tuples are not supported.
//
// Values must have the Go types go-ethereum's abi package expects (uint64 for
// uint64, *big.Int for uint256, common.Address, [32]byte, bool, []byte,
// string, ...). As a convenience any Go integer or *big.Int is accepted for
// any intN/uintN input (range checked), and a []byte or common.Hash of the
// right length for a bytesN input.
func PackEvent(a abi.ABI, name string, args ...interface{}) (topics []common.Hash, data []byte, err error) {
	ev, ok := a.Events[name]
	if !ok {
		return nil, nil, fmt.Errorf("fakechain: event %q not found in ABI", name)
	}
	if len(args) != len(ev.Inputs) {
		return nil, nil, fmt.Errorf("fakechain: event %s has %d inputs, got %d args", name, len(ev.Inputs), len(args))
	}
	if !ev.Anonymous {
		topics = append(topics, ev.ID)
	}
	var nonIndexed []interface{}
	for i, in := range ev.Inputs {
		v, err := coerce(in.Type, args[i])
		if err != nil {
			return nil, nil, fmt.Errorf("fakechain: event %s input %d (%s %s): %w", name, i, in.Type.String(), in.Name, err)
		}
		if !in.Indexed {
			nonIndexed = append(nonIndexed, v)
			continue
		}
		t, err := indexedTopic(in.Type, v)
		if err != nil {
			return nil, nil, fmt.Errorf("fakechain: event %s indexed input %d (%s %s): %w", name, i, in.Type.String(), in.Name, err)
		}
		topics = append(topics, t)
	}
	if len(topics) > 4 {
		return nil, nil, fmt.Errorf("fakechain: event %s: %d topics, at most 4 allowed", name, len(topics))
	}
	data, err = ev.Inputs.NonIndexed().Pack(nonIndexed...)
	if err != nil {
		return nil, nil, fmt.Errorf("fakechain: event %s: packing non-indexed inputs: %w", name, err)
	}
	return topics, data, nil
}

// EventLog is PackEvent wrapped into a types.Log emitted by contract, ready
// to be passed to AddBlock.
func EventLog(contract common.Address, a abi.ABI, name string, args ...interface{}) (types.Log, error) {
	topics, data, err := PackEvent(a, name, args...)
	if err != nil {
		return types.Log{}, err
	}
	return types.Log{Address: contract, Topics: topics, Data: data}, nil
}

func indexedTopic(t abi.Type, v interface{}) (common.Hash, error) {
	switch t.T {
	case abi.StringTy:
		s, ok := v.(string)
		if !ok {
			return common.Hash{}, fmt.Errorf("want string, got %T", v)
		}
		return crypto.Keccak256Hash([]byte(s)), nil
	case abi.BytesTy:
		b, ok := v.([]byte)
		if !ok {
			return common.Hash{}, fmt.Errorf("want []byte, got %T", v)
		}
		return crypto.Keccak256Hash(b), nil
	case abi.IntTy, abi.UintTy, abi.BoolTy, abi.AddressTy, abi.FixedBytesTy:
		// For static elementary types the topic is exactly the ABI word.
		word, err := abi.Arguments{{Type: t}}.Pack(v)
		if err != nil {
			return common.Hash{}, err
		}
		if len(word) != common.HashLength {
			return common.Hash{}, fmt.Errorf("unexpected encoding length %d", len(word))
		}
		return common.BytesToHash(word), nil
	}
	return common.Hash{}, fmt.Errorf("unsupported indexed type")
}

// coerce converts convenient Go values into the exact Go type the abi package
// wants for t. Values it does not know about are returned unchanged (the abi
// package reports the mismatch, if any).
func coerce(t abi.Type, v interface{}) (interface{}, error) {
	if v == nil {
		return nil, fmt.Errorf("nil value")
	}
	switch t.T {
	case abi.IntTy, abi.UintTy:
		n, ok := toBig(v)
		if !ok {
			return v, nil
		}
		if t.T == abi.UintTy {
			if n.Sign() < 0 || n.BitLen() > t.Size {
				return nil, fmt.Errorf("value %s out of range", n)
			}
		} else {
			lim := new(big.Int).Lsh(big.NewInt(1), uint(t.Size-1))
			if n.Cmp(lim) >= 0 || n.Cmp(new(big.Int).Neg(lim)) < 0 {
				return nil, fmt.Errorf("value %s out of range", n)
			}
		}
		goType := t.GetType()
		switch goType.Kind() {
		case reflect.Ptr:
			return n, nil
		case reflect.Uint8, reflect.Uint16, reflect.Uint32, reflect.Uint64:
			rv := reflect.New(goType).Elem()
			rv.SetUint(n.Uint64())
			return rv.Interface(), nil
		case reflect.Int8, reflect.Int16, reflect.Int32, reflect.Int64:
			rv := reflect.New(goType).Elem()
			rv.SetInt(n.Int64())
			return rv.Interface(), nil
		}
	case abi.FixedBytesTy:
		if b, ok := v.([]byte); ok {
			if len(b) != t.Size {
				return nil, fmt.Errorf("want %d bytes, got %d", t.Size, len(b))
			}
			rv := reflect.New(t.GetType()).Elem()
			reflect.Copy(rv, reflect.ValueOf(b))
			return rv.Interface(), nil
		}
	}
	return v, nil
}

func toBig(v interface{}) (*big.Int, bool) {
	switch x := v.(type) {
	case *big.Int:
		if x == nil {
			return nil, false
		}
		return new(big.Int).Set(x), true
	}
	rv := reflect.ValueOf(v)
	switch rv.Kind() {
	case reflect.Int, reflect.Int8, reflect.Int16, reflect.Int32, reflect.Int64:
		return big.NewInt(rv.Int()), true
	case reflect.Uint, reflect.Uint8, reflect.Uint16, reflect.Uint32, reflect.Uint64:
		return new(big.Int).SetUint64(rv.Uint()), true
	}
	return nil, false
}
